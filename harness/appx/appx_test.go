package appx

import (
	"fmt"
	"math/big"
	"testing"

	cfg "github.com/lianxiangcloud/linkchain/config"
	"verifh/env"
)

func TestSmoke(t *testing.T) {
	env.GlobalInit()
	for _, isTrie := range []bool{true, false} {
		a1, a2 := NewAccount(1), NewAccount(2)
		d := NewMemDBs(t.TempDir())
		if err := InitGenesis(d, isTrie, []Alloc{{Addr: a1.Addr, Balance: LKC(1000)}}); err != nil {
			t.Fatal(err)
		}
		e, err := Boot(d, isTrie, nil)
		if err != nil {
			t.Fatal(err)
		}
		w := NewWallet()
		if err := e.MP.AddTx("", a1.Transfer(0, a2.Addr, LKC(5))); err != nil {
			t.Fatal(err)
		}
		dep, coins, err := a1.Deposit(1, []*Wallet{w, w, w}, []*big.Int{LKC(100), LKC(7), LKC(9)}, DepositFee(LKC(116)))
		if err != nil {
			t.Fatal(err)
		}
		if err := e.MP.AddTx("", dep); err != nil {
			t.Fatal("deposit:", err)
		}
		b, err := e.ProposeCheckCommit(100)
		if err != nil {
			t.Fatal(err)
		}
		fmt.Println("isTrie", isTrie, "block 1 txs", b.NumTxs, "located", e.Locate(coins[0]), coins[0].Global)
		fee := Fee(e.SpendFeeGas(LKC(100)))
		sp, _, err := SpendRing(coins[0], e.Decoys(coins[0], 2), LKC(100), &a2.Addr, new(big.Int).Sub(LKC(100), fee), nil, nil)
		fmt.Println("  ring size", len(e.Decoys(coins[0], 2))+1)
		if err != nil {
			t.Fatal(err)
		}
		if err := e.MP.AddTx("", sp); err != nil {
			t.Fatal("spend:", err)
		}
		b, err = e.ProposeCheckCommit(100)
		if err != nil {
			t.Fatal(err)
		}
		s := e.App.GetLatestStateDB()
		sum := new(big.Int).Add(s.GetBalance(a1.Addr), s.GetBalance(a2.Addr))
		sum.Add(sum, s.GetBalance(cfg.ContractFoundationAddr))
		fmt.Println("  block 2 txs", b.NumTxs, "a2", s.GetBalance(a2.Addr), "sum", sum, "conserved", sum.Cmp(LKC(1000)) == 0)
		e.Stop()
	}
}
