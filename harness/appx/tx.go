package appx

import (
	"crypto/ecdsa"
	"fmt"
	"io"
	"math/big"
	"sort"

	"github.com/lianxiangcloud/linkchain/libs/common"
	"github.com/lianxiangcloud/linkchain/libs/crypto"
	lkt "github.com/lianxiangcloud/linkchain/libs/cryptonote/types"
	"github.com/lianxiangcloud/linkchain/libs/cryptonote/xcrypto"
	"github.com/lianxiangcloud/linkchain/libs/ser"
	"github.com/lianxiangcloud/linkchain/types"

	"verifh/xmodel"
)

func serDecodeReader(ps *types.PartSet, out interface{}) (int64, error) {
	var r io.Reader = ps.GetReader()
	return ser.DecodeReader(r, out, 10<<20)
}

// Account is a secp256k1 account.
type Account struct {
	Key  *ecdsa.PrivateKey
	Addr common.Address
}

// NewAccount derives a deterministic account from a seed (so runs are reproducible).
func NewAccount(seed int64) *Account {
	h := crypto.Keccak256([]byte(fmt.Sprintf("verif-account-%d", seed)))
	k, err := crypto.ToECDSA(h)
	if err != nil {
		panic(err)
	}
	return &Account{Key: k, Addr: crypto.PubkeyToAddress(k.PublicKey)}
}

// TransferGas is the gas a plain transfer of `amount` must carry.
func TransferGas(amount *big.Int) uint64 { return types.CalNewAmountGas(amount, types.EverLiankeFee) }

// Transfer is a signed plain transfer.
func (a *Account) Transfer(nonce uint64, to common.Address, amount *big.Int) *types.Transaction {
	tx := types.NewTransaction(nonce, to, amount, TransferGas(amount), big.NewInt(types.ParGasPrice), nil)
	if err := tx.Sign(types.GlobalSTDSigner, a.Key); err != nil {
		panic(err)
	}
	return tx
}

// TransferGasLimit is a signed transfer / call with explicit gas and data.
func (a *Account) TransferGasLimit(nonce uint64, to common.Address, amount *big.Int, gas uint64, data []byte) *types.Transaction {
	tx := types.NewTransaction(nonce, to, amount, gas, big.NewInt(types.ParGasPrice), data)
	if err := tx.Sign(types.GlobalSTDSigner, a.Key); err != nil {
		panic(err)
	}
	return tx
}

// Create is a signed contract creation.
func (a *Account) Create(nonce uint64, amount *big.Int, gas uint64, code []byte) *types.Transaction {
	tx := types.NewContractCreation(nonce, amount, gas, big.NewInt(types.ParGasPrice), code)
	if err := tx.Sign(types.GlobalSTDSigner, a.Key); err != nil {
		panic(err)
	}
	return tx
}

// Wallet is a confidential (CryptoNote-style) account.
type Wallet struct {
	Acc      *lkt.AccountKey
	KeyIndex map[lkt.PublicKey]uint64
}

// NewWallet creates a wallet with random keys (over the libxcrypto stand-in).
func NewWallet() *Wallet {
	vs, ss := xmodel.Random(), xmodel.Random()
	acc := &lkt.AccountKey{Addr: lkt.AccountAddress{ViewPublicKey: lkt.PublicKey(xmodel.MulBase(vs)), SpendPublicKey: lkt.PublicKey(xmodel.MulBase(ss))},
		SpendSKey: lkt.SecretKey(ss), ViewSKey: lkt.SecretKey(vs)}
	return &Wallet{Acc: acc, KeyIndex: map[lkt.PublicKey]uint64{acc.Addr.SpendPublicKey: 0}}
}

// Coin is a confidential output the harness knows how to spend.
type Coin struct {
	Owner    *Wallet
	Amount   *big.Int
	Token    common.Address
	RKey     lkt.PublicKey // tx public key of the creating transaction
	OutIndex uint64        // index among that transaction's outputs
	OTAddr   lkt.Key
	Mask     lkt.Key
	// filled by Locate after the creating block was committed
	Global uint64
	Commit lkt.Key
	Found  bool
}

// DepositFee is the fee an account->confidential transfer of `amount` must pay.
func DepositFee(amount *big.Int) *big.Int {
	return Fee(types.CalNewAmountGas(amount, types.EverLiankeFee))
}

// Deposit builds a signed account->confidential transaction paying `amount` to each
// destination wallet (native coin) with the given fee; it returns the coins created.
func (a *Account) Deposit(nonce uint64, dests []*Wallet, amounts []*big.Int, fee *big.Int) (*types.UTXOTransaction, []*Coin, error) {
	total := new(big.Int).Set(fee)
	var des []types.DestEntry
	for i, w := range dests {
		des = append(des, &types.UTXODestEntry{Addr: w.Acc.Addr, Amount: amounts[i]})
		total.Add(total, amounts[i])
	}
	tx, _, err := types.NewAinTokenTransaction(&types.AccountSourceEntry{From: a.Addr, Nonce: nonce, Amount: total}, des, common.EmptyAddress, fee, nil)
	if err != nil {
		return nil, nil, err
	}
	if err := tx.Sign(types.GlobalSTDSigner, a.Key); err != nil {
		return nil, nil, err
	}
	var coins []*Coin
	oi := uint64(0)
	for i, out := range tx.Outputs {
		uo, ok := out.(*types.UTXOOutput)
		if !ok {
			continue
		}
		w := dests[oi]
		der, err := xcrypto.GenerateKeyDerivation(tx.RKey, w.Acc.ViewSKey)
		if err != nil {
			return nil, nil, err
		}
		akey, err := xcrypto.DerivationToScalar(der, i)
		if err != nil {
			return nil, nil, err
		}
		coins = append(coins, &Coin{Owner: w, Amount: new(big.Int).Set(amounts[oi]), RKey: tx.RKey, OutIndex: uint64(i),
			OTAddr: lkt.Key(uo.OTAddr), Mask: lkt.Key(xmodel.CommitmentMask(xmodel.K(akey)))})
		oi++
	}
	return tx, coins, nil
}

// Locate finds the coin's global index and commitment in the committed output store.
func (e *Env) Locate(c *Coin) bool {
	max := e.US.GetMaxUtxoOutputSeq(c.Token)
	for s := int64(0); s <= max; s++ {
		outs, err := e.US.GetUtxoOutputs([]uint64{uint64(s)}, c.Token)
		if err != nil || len(outs) == 0 {
			continue
		}
		if lkt.Key(outs[0].OTAddr) == c.OTAddr {
			c.Global, c.Commit, c.Found = uint64(s), outs[0].Commit, true
			return true
		}
	}
	return false
}

// SpendFeeGas is an ample fee (in gas) for a confidential spend moving `amount`.
func (e *Env) SpendFeeGas(amount *big.Int) uint64 {
	return e.App.GetUTXOGas() + types.CalNewAmountGas(amount, types.EverLiankeFee)
}

// Spend builds a confidential spend of the coin with a ring of size one (the only ring
// size the stand-in supports): `toAccount` receives `accAmount` on the account side,
// `toWallet` (may be nil) receives `utxoAmount`; the claimed source amount is
// `claimed` (= the coin's amount for an honest spend).
func Spend(c *Coin, claimed *big.Int, toAccount *common.Address, accAmount *big.Int, toWallet *Wallet, utxoAmount *big.Int) (*types.UTXOTransaction, []*Coin, error) {
	return SpendRing(c, nil, claimed, toAccount, accAmount, toWallet, utxoAmount)
}

// Decoys returns up to n ring members other than the coin itself, taken from the
// committed output store (global index order).
func (e *Env) Decoys(c *Coin, n int) []types.UTXORingEntry {
	var out []types.UTXORingEntry
	max := e.US.GetMaxUtxoOutputSeq(c.Token)
	for s := int64(0); s <= max && len(out) < n; s++ {
		if uint64(s) == c.Global {
			continue
		}
		o, err := e.US.GetUtxoOutputs([]uint64{uint64(s)}, c.Token)
		if err != nil || len(o) == 0 {
			continue
		}
		out = append(out, types.UTXORingEntry{Index: uint64(s), OTAddr: lkt.Key(o[0].OTAddr), Commit: o[0].Commit})
	}
	return out
}

// SpendRing is Spend with decoy ring members (ring size 1 + len(decoys); MLSAG path when > 1).
func SpendRing(c *Coin, decoys []types.UTXORingEntry, claimed *big.Int, toAccount *common.Address, accAmount *big.Int, toWallet *Wallet, utxoAmount *big.Int) (*types.UTXOTransaction, []*Coin, error) {
	ring := append([]types.UTXORingEntry{}, decoys...)
	ring = append(ring, types.UTXORingEntry{Index: c.Global, OTAddr: c.OTAddr, Commit: c.Commit})
	sort.Slice(ring, func(i, j int) bool { return ring[i].Index < ring[j].Index })
	real := 0
	for i, r := range ring {
		if r.Index == c.Global {
			real = i
		}
	}
	src := []*types.UTXOSourceEntry{{Ring: ring, RingIndex: uint64(real), RKey: c.RKey, OutIndex: c.OutIndex, Amount: claimed, Mask: c.Mask}}
	var dests []types.DestEntry
	if toAccount != nil {
		dests = append(dests, &types.AccountDestEntry{To: *toAccount, Amount: accAmount})
	}
	if toWallet != nil {
		dests = append(dests, &types.UTXODestEntry{Addr: toWallet.Acc.Addr, Amount: utxoAmount})
	}
	tx, ins, mkeys, _, err := types.NewUinTokenTransaction(c.Owner.Acc, c.Owner.KeyIndex, src, dests, c.Token, common.EmptyAddress, nil, nil)
	if err != nil {
		return nil, nil, err
	}
	if err := types.UInTransWithRctSig(tx, src, ins, dests, mkeys); err != nil {
		return nil, nil, err
	}
	var coins []*Coin
	if toWallet != nil {
		for i, out := range tx.Outputs {
			uo, ok := out.(*types.UTXOOutput)
			if !ok {
				continue
			}
			der, err := xcrypto.GenerateKeyDerivation(tx.RKey, toWallet.Acc.ViewSKey)
			if err != nil {
				return nil, nil, err
			}
			akey, err := xcrypto.DerivationToScalar(der, i)
			if err != nil {
				return nil, nil, err
			}
			coins = append(coins, &Coin{Owner: toWallet, Amount: new(big.Int).Set(utxoAmount), Token: c.Token, RKey: tx.RKey, OutIndex: uint64(i),
				OTAddr: lkt.Key(uo.OTAddr), Mask: lkt.Key(xmodel.CommitmentMask(xmodel.K(akey)))})
		}
	}
	return tx, coins, nil
}
