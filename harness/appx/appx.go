// Package appx builds the REAL application stack (state, block store, UTXO store,
// txmgr, LinkApplication, mempool) from the public APIs the node's `init` and `node`
// commands use, on harness-supplied databases, and offers the block life cycle
// (CreateBlock · PreRunBlock · CheckBlock · CommitBlock) and signed transactions of
// the kinds the properties talk about.
package appx

import (
	"fmt"
	"math/big"
	"os"
	"path/filepath"

	"github.com/lianxiangcloud/linkchain/app"
	bc "github.com/lianxiangcloud/linkchain/blockchain"
	cfg "github.com/lianxiangcloud/linkchain/config"
	"github.com/lianxiangcloud/linkchain/libs/common"
	dbm "github.com/lianxiangcloud/linkchain/libs/db"
	"github.com/lianxiangcloud/linkchain/libs/log"
	"github.com/lianxiangcloud/linkchain/libs/txmgr"
	mempl "github.com/lianxiangcloud/linkchain/mempool"
	"github.com/lianxiangcloud/linkchain/state"
	"github.com/lianxiangcloud/linkchain/types"
	"github.com/lianxiangcloud/linkchain/utxo"
)

// ChainID used by every harness-built chain.
const ChainID = "verif-chain"

// GenesisTime of block 0.
const GenesisTime = 1507737600

// DirDB gives a database a private directory: the in-tree MemDB reports "" and the
// flat-state undo log (kvState.wal) would then land in the process's working
// directory and be shared by every application instance.
type DirDB struct {
	dbm.DB
	dir string
}

func (d *DirDB) Dir() string { return d.dir }

// The in-tree MemDB stores the caller's slices without copying, while the production
// backend (goleveldb) copies; state/keyvalue.go writes its height marker from a
// package-global buffer, so without copies every MemDB state database of the process
// would alias that one buffer. Copy on the way in, like goleveldb does.
func cpb(b []byte) []byte {
	if b == nil {
		return nil
	}
	return append([]byte{}, b...)
}
func (d *DirDB) Set(k, v []byte)       { d.DB.Set(cpb(k), cpb(v)) }
func (d *DirDB) SetSync(k, v []byte)   { d.DB.SetSync(cpb(k), cpb(v)) }
func (d *DirDB) Put(k, v []byte) error { return d.DB.Put(cpb(k), cpb(v)) }
func (d *DirDB) NewBatch() dbm.Batch   { return &copyBatch{d.DB.NewBatch()} }

type copyBatch struct{ dbm.Batch }

func (b *copyBatch) Set(k, v []byte) { b.Batch.Set(cpb(k), cpb(v)) }
func (b *copyBatch) Delete(k []byte) { b.Batch.Delete(cpb(k)) }

// WrapDir wraps db so that Dir() is dir.
func WrapDir(db dbm.DB, dir string) dbm.DB { return &DirDB{DB: db, dir: dir} }

// DBs are the seven databases a node keeps.
type DBs struct {
	Dir                             string
	State, Block, Tx, Balance       dbm.DB
	UtxoKimg, UtxoOut, UtxoTokenOut dbm.DB
	Status                          dbm.DB // consensus status
}

// NewMemDBs creates in-memory databases with a private directory (for the undo log).
func NewMemDBs(dir string) *DBs {
	os.MkdirAll(dir, 0755)
	m := func() dbm.DB { return WrapDir(dbm.NewMemDB(), dir) }
	return &DBs{Dir: dir, State: m(), Block: m(), Tx: m(), Balance: m(), UtxoKimg: m(), UtxoOut: m(), UtxoTokenOut: m(), Status: m()}
}

// CloneMem copies every key of src into a fresh MemDB with the given private dir.
func CloneMem(src dbm.DB, dir string) dbm.DB {
	dst := dbm.NewMemDB()
	it := src.Iterator([]byte{}, nil)
	for ; it.Valid(); it.Next() {
		dst.Set(append([]byte{}, it.Key()...), append([]byte{}, it.Value()...))
	}
	it.Close()
	return WrapDir(dst, dir)
}

// Clone copies all databases (and the undo log file) into dir.
func (d *DBs) Clone(dir string) *DBs {
	os.MkdirAll(dir, 0755)
	if b, err := os.ReadFile(filepath.Join(d.Dir, "kvState.wal")); err == nil {
		os.WriteFile(filepath.Join(dir, "kvState.wal"), b, 0600)
	}
	c := func(x dbm.DB) dbm.DB { return CloneMem(x, dir) }
	return &DBs{Dir: dir, State: c(d.State), Block: c(d.Block), Tx: c(d.Tx), Balance: c(d.Balance),
		UtxoKimg: c(d.UtxoKimg), UtxoOut: c(d.UtxoOut), UtxoTokenOut: c(d.UtxoTokenOut), Status: c(d.Status)}
}

// Alloc is one genesis account.
type Alloc struct {
	Addr    common.Address
	Balance *big.Int
	Tokens  map[common.Address]*big.Int
	Code    []byte
	Storage map[common.Hash]common.Hash
	Nonce   uint64
}

// RawSlot is a contract storage slot with an arbitrary byte value (system contracts).
type RawSlot struct {
	Addr common.Address
	Key  common.Hash
	Val  []byte
}

// InitGenesis commits the genesis state and stores block 0, as `init` does.
func InitGenesis(d *DBs, isTrie bool, allocs []Alloc) error {
	return InitGenesisX(d, isTrie, allocs, nil, nil)
}

// InitGenesisX is InitGenesis with system-contract storage and an initial candidate list
// (what the chain has after its first election).
func InitGenesisX(d *DBs, isTrie bool, allocs []Alloc, raw []RawSlot, cands []*types.CandidateInOrder) error {
	st, err := state.New(common.EmptyHash, state.NewKeyValueDBWithCache(d.State, 0, isTrie, 0))
	if err != nil {
		return err
	}
	for _, a := range allocs {
		if a.Balance != nil {
			st.AddBalance(a.Addr, a.Balance)
		}
		for t, v := range a.Tokens {
			st.AddTokenBalance(a.Addr, t, v)
		}
		if len(a.Code) > 0 {
			st.SetCode(a.Addr, a.Code)
		}
		for k, v := range a.Storage {
			st.SetState(a.Addr, k, v.Bytes())
		}
		if a.Nonce > 0 {
			st.SetNonce(a.Addr, a.Nonce)
		}
	}
	for _, r := range raw {
		st.SetState(r.Addr, r.Key, r.Val)
	}
	stateHash := st.IntermediateRoot(false)
	root, err := st.Commit(false, 0)
	if err != nil {
		return err
	}
	if err := st.Database().TrieDB().Commit(root, false); err != nil && isTrie {
		return err // (flat mode has no trie database: the call reports "unimplemented")
	}
	bs := bc.NewBlockStore(d.Block)
	gen := &types.Block{Header: &types.Header{ChainID: ChainID, Height: 0, Time: GenesisTime, StateHash: stateHash,
		GasLimit: types.DefaultConsensusParams().BlockSize.MaxGas}, Data: &types.Data{}, LastCommit: &types.Commit{}}
	bs.SaveBlock(gen, gen.MakePartSet(65536), nil, nil, &types.TxsResult{TrieRoot: root, StateHash: stateHash, Candidates: cands})
	return nil
}

// Env is a booted application stack.
type Env struct {
	DBs    *DBs
	IsTrie bool
	App    *app.LinkApplication
	MP     *mempl.Mempool
	BS     *bc.BlockStore
	US     *utxo.UtxoStore
	Cross  txmgr.CrossState
	Bus    *types.EventBus
}

// MempoolConfig used by Boot (may be adjusted before calling Boot).
func MempoolConfig() *cfg.MempoolConfig {
	mc := cfg.TestMempoolConfig()
	mc.Broadcast = false
	return mc
}

// Boot starts the application on the databases (also used to RESTART on the same or on
// cloned databases: it does what node.NewNode does for these components).
func Boot(d *DBs, isTrie bool, mc *cfg.MempoolConfig) (*Env, error) {
	e := &Env{DBs: d, IsTrie: isTrie}
	e.BS = bc.NewBlockStore(d.Block)
	e.Cross = txmgr.NewCrossState(d.Tx, e.BS)
	e.BS.SetCrossState(e.Cross)
	e.US = utxo.NewUtxoStore(d.UtxoKimg, d.UtxoOut, d.UtxoTokenOut)
	e.US.SetLogger(log.NewNopLogger())
	brs := bc.NewBalanceRecordStore(d.Balance, false)
	e.Bus = types.NewEventBus()
	e.Bus.SetLogger(log.NewNopLogger())
	e.Bus.Start()
	la, err := app.NewLinkApplication(d.State, e.BS, e.US, e.Cross, e.Bus, isTrie, brs, app.SetPoceeds, app.AllocAward)
	if err != nil {
		return nil, err
	}
	e.App = la
	if mc == nil {
		mc = MempoolConfig()
	}
	e.MP = mempl.NewMempool(mc, la.Height(), nil)
	e.MP.SetApp(la)
	la.SetMempool(e.MP)
	return e, nil
}

// Stop releases background goroutines.
func (e *Env) Stop() {
	if e.MP != nil {
		e.MP.Stop()
		ReleaseTxCache(e.MP)
	}
	if e.Bus != nil {
		e.Bus.Stop()
	}
}

// BlockTime is the time used for height h.
func BlockTime(h uint64) uint64 { return GenesisTime + 100 + h }

// Propose builds the next block from the mempool the way a proposer does
// (CreateBlock + header completion + PreRunBlock). It panics if PreRunBlock panics.
func (e *Env) Propose(h uint64, maxTxs int) *types.Block {
	blk := e.App.CreateBlock(h, maxTxs, types.DefaultConsensusParams().BlockSize.MaxGas, BlockTime(h))
	if blk == nil {
		return nil
	}
	blk.Header.ChainID = ChainID
	blk.LastCommit = &types.Commit{}
	blk.LastCommitHash = blk.LastCommit.Hash()
	blk.EvidenceHash = blk.Evidence.Hash()
	e.App.PreRunBlock(blk)
	return blk
}

// MakeBlock builds a block with exactly these transactions (a foreign proposer's block).
func (e *Env) MakeBlock(h uint64, txs types.Txs) *types.Block {
	cur := e.BS.LoadBlock(e.BS.Height())
	blk := &types.Block{
		Header: &types.Header{ChainID: ChainID, Height: h, Time: BlockTime(h), NumTxs: uint64(len(txs)),
			TotalTxs: cur.TotalTxs + uint64(len(txs)), ParentHash: cur.Hash(),
			GasLimit: types.DefaultConsensusParams().BlockSize.MaxGas},
		Data:       &types.Data{Txs: txs},
		LastCommit: &types.Commit{},
	}
	blk.DataHash = blk.Data.Hash()
	blk.LastCommitHash = blk.LastCommit.Hash()
	blk.EvidenceHash = blk.Evidence.Hash()
	return blk
}

// Redecode returns the block as a validator receives it: encoded, split, reassembled, decoded.
func Redecode(b *types.Block) (*types.Block, *types.PartSet, error) {
	ps := b.MakePartSet(65536)
	var out *types.Block
	if _, err := serDecodeReader(ps, &out); err != nil {
		return nil, nil, err
	}
	return out, ps, nil
}

// Commit commits the block (which must have passed CheckBlock on this instance).
func (e *Env) Commit(b *types.Block) error {
	_, err := e.App.CommitBlock(b, b.MakePartSet(65536), &types.Commit{}, false)
	return err
}

// ProposeCheckCommit is the whole single-node life cycle for the next block.
func (e *Env) ProposeCheckCommit(maxTxs int) (*types.Block, error) {
	h := e.App.Height() + 1
	b := e.Propose(h, maxTxs)
	if b == nil {
		return nil, fmt.Errorf("CreateBlock returned nil at height %d", h)
	}
	if !e.App.CheckBlock(b) {
		return b, fmt.Errorf("CheckBlock rejected the node's own block at height %d", h)
	}
	if err := e.Commit(b); err != nil {
		return b, err
	}
	return b, nil
}

// Fee is gas * the fixed gas price.
func Fee(gas uint64) *big.Int {
	return new(big.Int).Mul(new(big.Int).SetUint64(gas), big.NewInt(types.ParGasPrice))
}

// LKC returns n * 10^18.
func LKC(n int64) *big.Int { return new(big.Int).Mul(big.NewInt(n), big.NewInt(1e18)) }
