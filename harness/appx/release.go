package appx

import (
	"reflect"
	"sync"
	"unsafe"

	mempl "github.com/lianxiangcloud/linkchain/mempool"
)

// ReleaseTxCache is harness hygiene after a behaviour is over. Every mempool pre-sizes four
// 100000-entry cache maps that its background goroutines (which never stop) keep alive;
// thousands of boots per process would pin tens of GB of address space. The maps of the
// DISCARDED pool are replaced by empty ones (under the cache's own lock). Nothing is observed
// afterwards. A different layout of the cache is left alone.
func ReleaseTxCache(mem *mempl.Mempool) {
	defer func() { recover() }()
	v := reflect.ValueOf(mem).Elem().FieldByName("cache")
	if !v.IsValid() || v.Kind() != reflect.Interface || v.IsNil() {
		return
	}
	mgr := v.Elem()
	if mgr.Kind() != reflect.Ptr {
		return
	}
	hs := mgr.Elem().FieldByName("h")
	if !hs.IsValid() {
		return
	}
	for i := 0; i < hs.Len(); i++ {
		h := hs.Index(i).Elem()
		mu := (*sync.RWMutex)(unsafe.Pointer(h.FieldByName("RWMutex").UnsafeAddr()))
		mu.Lock()
		items := h.FieldByName("items")
		ip := reflect.NewAt(items.Type(), unsafe.Pointer(items.UnsafeAddr())).Elem()
		if !ip.IsNil() {
			ip.Elem().Set(reflect.Zero(ip.Elem().Type()))
		}
		tm := h.FieldByName("txMap")
		reflect.NewAt(tm.Type(), unsafe.Pointer(tm.UnsafeAddr())).Elem().Set(reflect.MakeMap(tm.Type()))
		mu.Unlock()
	}
}
