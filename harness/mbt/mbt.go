// Package mbt turns the transition graph a TLC run exported (one JSON edge
// {from, act, to} per explored transition) into executable behaviours: a
// transition tour that covers every edge at least once, and seeded random walks.
package mbt

import (
	"bytes"
	"encoding/json"
	"fmt"
	"math/rand"
	"sort"
)

// Edge of the exported state graph.
type Edge struct {
	From int // state ids
	To   int
	Act  json.RawMessage
	ToSt json.RawMessage // the model's projected state after the step
}

// Graph is the exported reachable graph of a bounded model.
type Graph struct {
	States []json.RawMessage // canonical JSON per state id; States[0] is the initial state
	Edges  []Edge
	Out    [][]int // state -> edge indexes
	index  map[string]int
}

type rawEdge struct {
	From json.RawMessage `json:"from"`
	Act  json.RawMessage `json:"act"`
	To   json.RawMessage `json:"to"`
}

func canon(r json.RawMessage) string {
	var v interface{}
	if err := json.Unmarshal(r, &v); err != nil {
		return string(r)
	}
	b, _ := json.Marshal(v) // maps are written with sorted keys
	return string(b)
}

// Load builds the graph from edge lines. The first line's "from" is the initial state.
func Load(lines []string) (*Graph, error) {
	g := &Graph{index: map[string]int{}}
	id := func(r json.RawMessage) int {
		k := canon(r)
		if i, ok := g.index[k]; ok {
			return i
		}
		i := len(g.States)
		g.index[k] = i
		g.States = append(g.States, json.RawMessage(k))
		g.Out = append(g.Out, nil)
		return i
	}
	seen := map[string]bool{}
	for _, l := range lines {
		var e rawEdge
		if err := json.Unmarshal([]byte(l), &e); err != nil {
			return nil, fmt.Errorf("bad edge line %q: %v", trunc(l), err)
		}
		if e.From == nil || e.To == nil {
			continue
		}
		f, t := id(e.From), id(e.To)
		key := fmt.Sprintf("%d|%s|%d", f, canon(e.Act), t)
		if seen[key] {
			continue
		}
		seen[key] = true
		g.Edges = append(g.Edges, Edge{From: f, To: t, Act: e.Act, ToSt: g.States[t]})
		g.Out[f] = append(g.Out[f], len(g.Edges)-1)
	}
	if len(g.Edges) == 0 {
		return nil, fmt.Errorf("no edges exported")
	}
	return g, nil
}

func trunc(s string) string {
	if len(s) > 200 {
		return s[:200] + "..."
	}
	return s
}

// Tour returns behaviours (edge-index sequences starting at state 0) that together
// cover every edge reachable from the initial state. Each behaviour is at most
// maxLen steps (0 = unbounded); long greedy walks are preferred over many restarts.
func (g *Graph) Tour(maxLen int, rng *rand.Rand) [][]int {
	covered := make([]bool, len(g.Edges))
	remaining := 0
	reach := g.reachable()
	for i, e := range g.Edges {
		if reach[e.From] {
			remaining++
		} else {
			covered[i] = true
		}
	}
	var tours [][]int
	for remaining > 0 {
		var walk []int
		cur := 0
		progress := false
		for maxLen == 0 || len(walk) < maxLen {
			// prefer an uncovered out-edge
			next := -1
			outs := g.Out[cur]
			if len(outs) > 0 {
				off := 0
				if rng != nil {
					off = rng.Intn(len(outs))
				}
				for k := range outs {
					ei := outs[(k+off)%len(outs)]
					if !covered[ei] {
						next = ei
						break
					}
				}
			}
			if next >= 0 {
				covered[next] = true
				remaining--
				progress = true
				walk = append(walk, next)
				cur = g.Edges[next].To
				continue
			}
			// BFS to the nearest state with an uncovered out-edge
			path := g.pathToUncovered(cur, covered)
			if path == nil || (maxLen > 0 && len(walk)+len(path) >= maxLen) {
				break
			}
			walk = append(walk, path...)
			cur = g.Edges[path[len(path)-1]].To
		}
		if !progress {
			// nothing coverable from init within maxLen via greedy: take shortest path to some uncovered edge
			path := g.pathToUncovered(0, covered)
			if path == nil {
				break
			}
			cur = 0
			if len(path) > 0 {
				cur = g.Edges[path[len(path)-1]].To
			}
			for _, ei := range g.Out[cur] {
				if !covered[ei] {
					covered[ei] = true
					remaining--
					path = append(path, ei)
					break
				}
			}
			walk = path
		}
		tours = append(tours, walk)
	}
	return tours
}

func (g *Graph) reachable() []bool {
	r := make([]bool, len(g.States))
	q := []int{0}
	r[0] = true
	for len(q) > 0 {
		s := q[0]
		q = q[1:]
		for _, ei := range g.Out[s] {
			t := g.Edges[ei].To
			if !r[t] {
				r[t] = true
				q = append(q, t)
			}
		}
	}
	return r
}

func (g *Graph) pathToUncovered(from int, covered []bool) []int {
	has := func(s int) bool {
		for _, ei := range g.Out[s] {
			if !covered[ei] {
				return true
			}
		}
		return false
	}
	if has(from) {
		return []int{}
	}
	prev := map[int]int{from: -1}
	q := []int{from}
	for len(q) > 0 {
		s := q[0]
		q = q[1:]
		for _, ei := range g.Out[s] {
			t := g.Edges[ei].To
			if _, ok := prev[t]; ok {
				continue
			}
			prev[t] = ei
			if has(t) {
				var p []int
				for x := t; prev[x] != -1; x = g.Edges[prev[x]].From {
					p = append(p, prev[x])
				}
				for i, j := 0, len(p)-1; i < j; i, j = i+1, j-1 {
					p[i], p[j] = p[j], p[i]
				}
				return p
			}
			q = append(q, t)
		}
	}
	return nil
}

// Walks returns n seeded random walks of at most length steps from the initial state.
func (g *Graph) Walks(n, length int, rng *rand.Rand) [][]int {
	var out [][]int
	for i := 0; i < n; i++ {
		cur := 0
		var w []int
		for len(w) < length && len(g.Out[cur]) > 0 {
			ei := g.Out[cur][rng.Intn(len(g.Out[cur]))]
			w = append(w, ei)
			cur = g.Edges[ei].To
		}
		out = append(out, w)
	}
	return out
}

// ActionKinds counts edges per value of the given field of the action record.
func (g *Graph) ActionKinds(field string) map[string]int {
	m := map[string]int{}
	for _, e := range g.Edges {
		var a map[string]interface{}
		if json.Unmarshal(e.Act, &a) == nil {
			m[fmt.Sprint(a[field])]++
		}
	}
	return m
}

// SortedKeys is a helper for deterministic reporting.
func SortedKeys(m map[string]int) []string {
	var ks []string
	for k := range m {
		ks = append(ks, k)
	}
	sort.Strings(ks)
	return ks
}

// Compact renders JSON without insignificant whitespace (for samples).
func Compact(r json.RawMessage) string {
	var b bytes.Buffer
	if json.Compact(&b, r) != nil {
		return string(r)
	}
	return b.String()
}
