package main

// One blank import per property package (each registers itself in init()).
import (
	_ "verifh/props/c19"
)
