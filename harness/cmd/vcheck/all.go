package main

// One blank import per property package (each registers itself in init()).
import (
	_ "verifh/props/c01"
	_ "verifh/props/c02"
	_ "verifh/props/c03"
	_ "verifh/props/c04"
	_ "verifh/props/c05"
	_ "verifh/props/c06"
	_ "verifh/props/c07"
	_ "verifh/props/c08"
	_ "verifh/props/c09"
	_ "verifh/props/c10"
	_ "verifh/props/c11"
	_ "verifh/props/c12"
	_ "verifh/props/c13"
	_ "verifh/props/c14"
	_ "verifh/props/c15"
	_ "verifh/props/c16"
	_ "verifh/props/c17"
	_ "verifh/props/c18"
	_ "verifh/props/c19"
	_ "verifh/props/c20"
)
