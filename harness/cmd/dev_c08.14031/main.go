// vcheck runs the verification of one property: `vcheck C19 --tier quick`.
package main

import (
	"flag"
	"fmt"
	"os"
	"strconv"
	"strings"

	"verifh/core"
	"verifh/env"
)

func main() {
	if len(os.Args) < 2 {
		fmt.Fprintln(os.Stderr, "usage: vcheck <Cnn> [--tier quick|thorough] [--replay file]")
		os.Exit(2)
	}
	id := strings.ToUpper(os.Args[1])
	fs := flag.NewFlagSet("vcheck", flag.ExitOnError)
	tier := fs.String("tier", os.Getenv("VERIF_TIER"), "quick|thorough")
	replay := fs.String("replay", "", "replay file")
	root := fs.String("root", os.Getenv("VERIF_ROOT"), "verification root")
	child := fs.String("child", "", "internal: run one isolated job of the check")
	fs.Parse(os.Args[2:])
	if *tier == "" {
		*tier = "quick"
	}
	if *root == "" {
		*root = "/verif"
	}
	seed := int64(1)
	if s := os.Getenv("VERIF_SEED"); s != "" {
		if v, err := strconv.ParseInt(s, 10, 64); err == nil {
			seed = v
		}
	}
	run, ok := core.Registry[id]
	if !ok {
		fmt.Fprintln(os.Stderr, "unknown property", id)
		os.Exit(2)
	}
	ctx := core.NewCtx(id, *tier, seed, *root)
	ctx.Replay = *replay
	ctx.Child = *child
	env.GlobalInit()
	if *child != "" {
		run(ctx)
		os.Exit(0)
	}
	func() {
		defer func() {
			if r := recover(); r != nil {
				ctx.Infra("check driver panicked: %v", r)
				panic(r)
			}
		}()
		run(ctx)
	}()
	os.Exit(ctx.Finish())
}
