package main

import _ "verifh/props/c08"
