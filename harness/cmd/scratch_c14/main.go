package main

import (
	"fmt"
	"io/ioutil"
	"os"
	"path/filepath"
	"time"

	cs "github.com/lianxiangcloud/linkchain/consensus"
	cstypes "github.com/lianxiangcloud/linkchain/consensus/types"
)

func main() {
	dir, _ := ioutil.TempDir("", "c14p")
	defer os.RemoveAll(dir)
	p := filepath.Join(dir, "wal")
	w, err := cs.NewWAL(p)
	if err != nil {
		panic(err)
	}
	if err := w.Start(); err != nil {
		panic(err)
	}
	w.Write(cs.VerifWALTimeout(cs.VerifTimeout{Duration: time.Second, Height: 1, Round: 0, Step: cstypes.RoundStepPropose}))
	w.WriteSync(cs.EndHeightMessage{1})
	w.Write(cs.VerifWALTimeout(cs.VerifTimeout{Duration: time.Second, Height: 2, Round: 0, Step: cstypes.RoundStepPropose}))
	w.Stop()
	b, _ := ioutil.ReadFile(p)
	fmt.Println("len", len(b))
	// records: 36, 47, 36, 47
	for _, cut := range []int{len(b), len(b) - 1, len(b) - 40, len(b) - 43, len(b) - 44, len(b) - 46, len(b) - 47} {
		d2 := filepath.Join(dir, fmt.Sprint("c", cut))
		os.MkdirAll(d2, 0700)
		ioutil.WriteFile(filepath.Join(d2, "wal"), b[:cut], 0600)
		w2, _ := cs.NewWAL(filepath.Join(d2, "wal"))
		for _, ign := range []bool{false, true} {
			for h := uint64(0); h < 3; h++ {
				gr, found, err := w2.SearchForEndHeight(h, &cs.WALSearchOptions{IgnoreDataCorruptionErrors: ign})
				fmt.Println("cut", cut, "search", h, ign, found, err)
				if gr != nil {
					gr.Close()
				}
			}
		}
	}
}
