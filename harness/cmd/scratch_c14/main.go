package main

import (
	"fmt"
	"time"

	cs "github.com/lianxiangcloud/linkchain/consensus"
	"github.com/lianxiangcloud/linkchain/libs/ser"
)

func main() {
	for _, ns := range []int64{0, 1, 127, 128, 255, 256, 65535, 65536, 1 << 23, 1<<24 - 1, 1 << 24, 100000000, 500000000, 536870911, 536870912, 999999999} {
		b := ser.MustEncodeToBytes(&cs.TimedWALMessage{Time: time.Unix(1790000000, ns), Msg: cs.EndHeightMessage{0}})
		fmt.Println(ns, len(b))
	}
}
