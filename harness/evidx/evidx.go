// Package evidx binds spec/Evidence (the evidence pool and its store) to the real
// evidence.EvidencePool / EvidenceStore. It is not a property of its own: the check that
// owns "a valid block never kills the node that applies it" (C02) calls Run; everything
// else the replay compares is shape (drift).
package evidx

import (
	"encoding/json"
	"fmt"
	"math/rand"
	"sort"
	"strings"

	cs "github.com/lianxiangcloud/linkchain/consensus"
	"github.com/lianxiangcloud/linkchain/evidence"
	"github.com/lianxiangcloud/linkchain/libs/crypto"
	dbm "github.com/lianxiangcloud/linkchain/libs/db"
	"github.com/lianxiangcloud/linkchain/libs/log"
	"github.com/lianxiangcloud/linkchain/types"

	"verifh/cluster"
	"verifh/core"
	"verifh/mbt"
	"verifh/tlc"
)

type act struct {
	Op  string   `json:"op"`
	E   string   `json:"e"`
	S   []string `json:"s"`
	Res string   `json:"res"`
}

type mstate struct {
	H       int               `json:"h"`
	Info    map[string]string `json:"info"`
	Outq    []string          `json:"outq"`
	List    []string          `json:"list"`
	Crashed bool              `json:"crashed"`
}

// world is the concrete instantiation: a status DB with validator records of a real chain and
// one signed evidence item per abstract id.
type world struct {
	statusDB dbm.DB
	status   cs.NewStatus
	ev       map[string]types.Evidence
	name     map[string]string // hash -> abstract id
	power    map[string]int64
}

func dupVote(k types.PrivValidator, chainID string, idx int, height uint64, salt byte) *types.DuplicateVoteEvidence {
	mk := func(b byte) *types.Vote {
		v := &types.Vote{ValidatorAddress: k.GetAddress(), ValidatorIndex: idx, Height: height, Round: 0, Type: types.VoteTypePrevote,
			BlockID: types.BlockID{Hash: crypto.Keccak256Hash([]byte{b, salt}), PartsHeader: types.PartSetHeader{Total: 1, Hash: crypto.Keccak256([]byte{b, salt, 9})}}}
		if err := k.SignVote(chainID, v); err != nil {
			panic(err)
		}
		return v
	}
	return &types.DuplicateVoteEvidence{PubKey: k.GetPubKey(), VoteA: mk(1), VoteB: mk(2)}
}

func newWorld(maxAge uint64) (*world, error) {
	// powers in address order are read back from the set: e1 needs the strongest validator
	cl, err := cluster.New(cluster.Options{N: 4, Powers: []int64{3, 1, 2, 1}})
	if err != nil {
		return nil, err
	}
	cl.RunSync(func() bool {
		for _, i := range cl.Correct() {
			if cl.Nodes[i].App.Height() < 3 {
				return false
			}
		}
		return true
	}, 2000)
	n := cl.Nodes[0]
	if n.App.Height() < 3 {
		return nil, fmt.Errorf("the chain for the evidence world did not reach height 3")
	}
	w := &world{statusDB: n.StatusDB, status: n.CS.VerifStatus(), ev: map[string]types.Evidence{}, name: map[string]string{}, power: map[string]int64{}}
	w.status.ConsensusParams.EvidenceParams.MaxAge = maxAge
	w.status.LastBlockHeight = 3
	// validators by power (descending): the model wants powers 3, 2, 1 for e1, e3, e2
	type vp struct {
		idx int
		p   int64
	}
	var vs []vp
	for i, v := range cl.ValSet.Validators {
		vs = append(vs, vp{i, v.VotingPower})
	}
	sort.SliceStable(vs, func(a, b int) bool { return vs[a].p > vs[b].p })
	if vs[0].p != 3 || vs[1].p != 2 || vs[2].p != 1 {
		return nil, fmt.Errorf("unexpected powers %v", vs)
	}
	w.ev["e1"] = dupVote(cl.PVs[vs[0].idx], cl.ChainID, vs[0].idx, 1, 1)
	w.ev["e3"] = dupVote(cl.PVs[vs[1].idx], cl.ChainID, vs[1].idx, 2, 3)
	w.ev["e2"] = dupVote(cl.PVs[vs[2].idx], cl.ChainID, vs[2].idx, 2, 2)
	w.power["e1"], w.power["e3"], w.power["e2"] = 3, 2, 1
	// "bad": signed by a key that is no validator
	w.ev["bad"] = dupVote(types.NewMockPV(), cl.ChainID, 0, 2, 7)
	for id, e := range w.ev {
		w.name[string(e.Hash())] = id
	}
	return w, nil
}

type sut struct {
	w     *world
	db    dbm.DB
	store *evidence.EvidenceStore
	pool  *evidence.EvidencePool
	h     uint64
}

func (w *world) boot(db dbm.DB, h uint64) *sut {
	st := w.status.Copy()
	st.LastBlockHeight = h
	store := evidence.NewEvidenceStore(db)
	pool := evidence.NewEvidencePool(w.statusDB, store, st)
	pool.SetLogger(log.NewNopLogger())
	return &sut{w: w, db: db, store: store, pool: pool, h: h}
}

func (s *sut) names(evs []types.Evidence) []string {
	out := []string{}
	for _, e := range evs {
		out = append(out, s.w.name[string(e.Hash())])
	}
	return out
}

func (s *sut) list() []string {
	out := []string{}
	for e := s.pool.EvidenceFront(); e != nil; e = e.Next() {
		out = append(out, s.w.name[string(e.Value.(types.Evidence).Hash())])
	}
	return out
}

// update = what BlockExecutor.ApplyBlock does with the pool after a block was committed
func (s *sut) update(set []string) (crash interface{}) {
	blk := &types.Block{Header: &types.Header{Height: s.h + 1}, Data: &types.Data{}, LastCommit: &types.Commit{}}
	var evs []types.Evidence
	for _, id := range set {
		evs = append(evs, s.w.ev[id])
	}
	if len(evs) > 0 {
		blk.AddEvidence(evs)
	}
	st := s.w.status.Copy()
	st.LastBlockHeight = s.h + 1
	defer func() { crash = recover() }()
	s.h++
	s.pool.Update(blk, st)
	return nil
}

// Probe determines the two switches of the model on the code under test.
func probe(w *world) (unseenCrashes, ageUnderflows bool) {
	s := w.boot(dbm.NewMemDB(), 3)
	unseenCrashes = s.update([]string{"e1"}) != nil
	s2 := w.boot(dbm.NewMemDB(), 3)
	s2.pool.AddEvidence(w.ev["e2"])
	s2.update(nil)
	ageUnderflows = len(s2.list()) == 0 && len(s2.pool.PendingEvidence()) == 1
	return
}

func sorted(x []string) []string { y := append([]string{}, x...); sort.Strings(y); return y }

// Run model-checks spec/Evidence at the probed switch values and replays the graph.
// owner: the property id that owns crashes on the commit path.
func Run(c *core.Ctx) {
	for _, inst := range []struct {
		name   string
		maxAge int
	}{{"old-evidence", 2}, {"young-chain", 5}} {
		w, err := newWorld(uint64(inst.maxAge))
		if err != nil {
			c.Infra("evidence world: %v", err)
			return
		}
		crashes, underflows := probe(w)
		c.SetExtra("evidence_"+inst.name+"_probed", map[string]bool{"UnseenCommitCrashes": crashes, "AgeUnderflows": underflows})
		fmt.Printf("evidence pool (%s): probed UnseenCommitCrashes=%v AgeUnderflows=%v\n", inst.name, crashes, underflows)
		b := func(v bool) string {
			if v {
				return "TRUE"
			}
			return "FALSE"
		}
		cfg := fmt.Sprintf(`SPECIFICATION Spec
CONSTANTS
  Ev = {"e1", "e2", "e3", "bad"}
  HeightOf <- HeightXY
  PowerOf <- PowerXY
  Valid = {"e1", "e2", "e3"}
  MaxAge = %d
  MaxH = 6
  StartH = 3
  UnseenCommitCrashes = %s
  AgeUnderflows = %s
VIEW View
INVARIANTS TypeOK NotProposedTwice OnlyVerified OutqIsPending
PROPERTIES CommittedStays
ACTION_CONSTRAINT Edge
CHECK_DEADLOCK FALSE
`, inst.maxAge, b(crashes), b(underflows))
		res := c.TLC(tlc.Options{SpecDir: c.SpecDir("Evidence"), Module: "MC_Evidence", Config: "gen.cfg", Workers: 1, Timeout: c.MinutesT(3, 10),
			Files: map[string][]byte{"gen.cfg": []byte(cfg)}})
		if res == nil {
			return
		}
		if res.Violated != "" || !res.Finished {
			c.Infra("Evidence model (%s): %s\n%s", inst.name, res.Describe(), res.Tail)
			return
		}
		g, err := mbt.Load(res.Lines)
		if err != nil {
			c.Infra("evidence edges: %v", err)
			return
		}
		if crashes {
			// the statement of C02: a block that passed validation (valid evidence, seen by the node or not)
			// must be applicable by every correct node
			c.Violate("abort/valid-evidence-unseen/store", "EvidencePool.Update (the last step of ApplyBlock) with a block carrying VALID DuplicateVoteEvidence the node has not seen before panics: every node that did not happen to receive the evidence by gossip dies after it stored the block, and again on every restart",
				map[string]interface{}{"input": "evidence.NewEvidencePool(statusDB, NewEvidenceStore(memdb), status).Update(block{Height: 4, Evidence: [DuplicateVoteEvidence signed by a validator of height 1]}, status{LastBlockHeight: 4})"})
		}
		rng := rand.New(rand.NewSource(c.Seed*31 + int64(inst.maxAge)))
		paths := g.Tour(0, rng)
		paths = append(paths, g.Walks(c.Pick(50, 1000), 8, rng)...)
		o := c.Out()
		steps, drifts := 0, 0
		for _, p := range paths {
			db := dbm.NewMemDB()
			s := w.boot(db, 3)
			o.Traces++
			o.Distinct++
			for _, ei := range p {
				var a act
				var to mstate
				json.Unmarshal(g.Edges[ei].Act, &a)
				json.Unmarshal(g.Edges[ei].ToSt, &to)
				steps++
				o.Evaluations++
				var crash interface{}
				got := ""
				switch a.Op {
				case "add":
					before := len(s.pool.PendingEvidence())
					err := s.pool.AddEvidence(w.ev[a.E])
					switch {
					case err != nil:
						got = "rejected"
					case len(s.pool.PendingEvidence()) > before:
						got = "added"
					default:
						got = "known"
					}
				case "commit":
					crash = s.update(a.S)
					got = "ok"
					if crash != nil {
						got = "crash"
					}
				case "restart":
					s = w.boot(db, s.h)
				}
				if a.Op != "restart" && got != a.Res && drifts < 3 {
					drifts++
					c.Drift("evidence pool (%s): %s %s%v: the code says %q, the specification %q", inst.name, a.Op, a.E, a.S, got, a.Res)
					break
				}
				if crash != nil {
					break // the caller is dead; the model says so too
				}
				// observables
				var wantPending []string
				for id, st := range to.Info {
					if st == "pending" {
						wantPending = append(wantPending, id)
					}
				}
				gotPending := s.names(s.pool.PendingEvidence())
				gotPrio := s.names(s.pool.PriorityEvidence())
				wantPrio := append([]string{}, to.Outq...)
				sort.Slice(wantPrio, func(i, j int) bool { return w.power[wantPrio[i]] > w.power[wantPrio[j]] })
				gotList := s.list()
				if to.List == nil {
					to.List = []string{}
				}
				diff := ""
				switch {
				case strings.Join(sorted(gotPending), ",") != strings.Join(sorted(wantPending), ","):
					diff = fmt.Sprintf("PendingEvidence = %v, specification %v", gotPending, wantPending)
				case strings.Join(gotPrio, ",") != strings.Join(wantPrio, ","):
					diff = fmt.Sprintf("PriorityEvidence = %v, specification %v", gotPrio, wantPrio)
				case strings.Join(gotList, ",") != strings.Join(to.List, ","):
					diff = fmt.Sprintf("gossip list = %v, specification %v", gotList, to.List)
				}
				// a committed item offered to a proposer again would be punished twice: this one IS a statement
				for id, st := range to.Info {
					if st == "committed" {
						for _, pnd := range gotPending {
							if pnd == id {
								c.Drift("evidence pool (%s): committed evidence %s is pending again after %s", inst.name, id, a.Op)
							}
						}
					}
				}
				if diff != "" {
					if drifts < 3 {
						drifts++
						c.Drift("evidence pool (%s) after %s %s%v: %s", inst.name, a.Op, a.E, a.S, diff)
					}
					break
				}
			}
		}
		c.SetExtra("evidence_"+inst.name, map[string]interface{}{"model_states": len(g.States), "model_edges": len(g.Edges), "behaviours": len(paths), "steps": steps})
	}
}
