module verifh

go 1.12

replace (
	github.com/NebulousLabs/go-upnp => github.com/lianxiangcloud/go-upnp v0.0.0-20190905032046-65768e0b268c
	github.com/go-interpreter/wagon => github.com/xunleichain/wagon v0.5.3
	github.com/lianxiangcloud/linkchain => /repo
	gopkg.in/sourcemap.v1 => github.com/go-sourcemap/sourcemap v1.0.5
)

require (
	github.com/golang/snappy v0.0.1
	github.com/lianxiangcloud/linkchain v0.0.0-00010101000000-000000000000
	github.com/pkg/errors v0.8.1
	golang.org/x/crypto v0.0.0-20190701094942-4def268fd1a4
)
