package cluster

import (
	"math/rand"

	cs "github.com/lianxiangcloud/linkchain/consensus"
	cstypes "github.com/lianxiangcloud/linkchain/consensus/types"
	"github.com/lianxiangcloud/linkchain/types"
)

// AdvOptions configure the adversarial scheduler.
type AdvOptions struct {
	Steps        int // step budget
	TargetHeight uint64
	PLoss        float64 // probability that a chosen delivery is dropped instead
	PDup         float64 // probability of re-delivering an already delivered message
	PTimeout     float64 // weight of firing a (possibly stale) timeout while other work is pending
	PByz         float64 // weight of a Byzantine action
	Slow         int     // index of a node whose deliveries are mostly held back (-1: none)
	// "lock stress": round-0 proposals are mostly withheld (round 0 ends with a nil polka), precommits
	// are mostly lost at first (nodes lock without committing and move on), and Byzantine validators
	// prefer fresh votes for EARLIER rounds - the situations the lock / unlock rules exist for
	WithholdR0    float64
	PrecommitLoss float64
	ByzOldRounds  bool
}

type pending struct {
	w  int // index into c.Wire
	to int
}

// byzBlock is a block the Byzantine proposer made, with its parts.
type byzBlock struct {
	b  *types.Block
	ps *types.PartSet
	h  uint64
}

// RunAdversarial drives the cluster with a seeded adversary: arbitrary delivery order,
// loss, duplication, any pending timeout at any time, and Byzantine validators that
// equivocate, propose conflicting blocks and deliver selectively.
func (c *Cluster) RunAdversarial(rng *rand.Rand, o AdvOptions) {
	var queue []pending
	delivered := []pending{}
	wireSeen := 0
	var byzBlocks []byzBlock
	enqueue := func() {
		for ; wireSeen < len(c.Wire); wireSeen++ {
			for _, j := range c.Correct() {
				if j != c.Wire[wireSeen].From {
					queue = append(queue, pending{wireSeen, j})
				}
			}
		}
	}
	var byz []int
	for _, n := range c.Nodes {
		if n.Byz {
			byz = append(byz, n.Idx)
		}
	}
	correct := c.Correct()
	done := func() bool {
		for _, i := range correct {
			if c.Nodes[i].App.Height() < o.TargetHeight && c.Nodes[i].Failure == nil {
				return false
			}
		}
		return true
	}
	tooFar := func() bool {
		for _, i := range correct {
			if c.Nodes[i].CS.GetRoundState().Round >= MaxRound-3 {
				return true
			}
		}
		return false
	}
	type hr struct {
		h uint64
		r int
	}
	type sentKey struct {
		node int
		h    uint64
		r    int
	}
	type byzProp struct {
		prop *types.Proposal
		ps   *types.PartSet
	}
	byzProps := map[hr]byzProp{}
	byzSent := map[sentKey]bool{}
	for step := 0; step < o.Steps && !done() && !tooFar(); step++ {
		enqueue()
		if o.ByzOldRounds && len(byz) > 0 {
			// lock stress: whenever a correct node enters a round in which it expects a Byzantine
			// validator to propose, it is handed that validator's fresh block for the round (the
			// same block for everybody) before it can prevote, so every lock is challenged
			for _, i := range correct {
				n := c.Nodes[i]
				if n.Failure != nil {
					continue
				}
				nrs := n.CS.GetRoundState()
				if nrs.Step > cstypes.RoundStepPropose || nrs.Validators.GetProposer() == nil {
					continue
				}
				b := c.IndexOf(nrs.Validators.GetProposer().Address)
				if b < 0 || !c.Nodes[b].Byz || byzSent[sentKey{i, nrs.Height, nrs.Round}] {
					continue
				}
				key := hr{nrs.Height, nrs.Round}
				bp, ok := byzProps[key]
				if !ok {
					var lc *types.Commit
					if nrs.Height > 1 {
						if lc = n.App.LoadSeenCommit(nrs.Height - 1); lc == nil {
							continue
						}
					}
					blk, ps := c.MakeBlock(n.CS.VerifStatus(), lc, nrs.Height)
					byzBlocks = append(byzBlocks, byzBlock{blk, ps, nrs.Height})
					bp = byzProp{c.MakeProposal(b, nrs.Height, nrs.Round, ps, -1, types.BlockID{}), ps}
					byzProps[key] = bp
				}
				byzSent[sentKey{i, nrs.Height, nrs.Round}] = true
				c.Deliver(i, &cs.ProposalMessage{Proposal: bp.prop}, b)
				for k := 0; k < bp.ps.Total(); k++ {
					c.Deliver(i, &cs.BlockPartMessage{Height: nrs.Height, Round: nrs.Round, Part: bp.ps.GetPart(k)}, b)
				}
			}
		}
		// candidate classes
		var internals []int
		for _, i := range correct {
			if c.Nodes[i].Failure == nil && c.Nodes[i].CS != nil && c.internalLen(i) > 0 {
				internals = append(internals, i)
			}
		}
		var timeouts [][2]int
		for _, i := range correct {
			if c.Nodes[i].CS.GetRoundState().Round >= MaxRound-6 && (len(internals) > 0 || len(queue) > 0) {
				continue // keep the rounds within what the trace specification is configured for
			}
			for k := range c.Nodes[i].Pend {
				timeouts = append(timeouts, [2]int{i, k})
			}
		}
		wI, wD, wT, wB := 0.0, 0.0, 0.0, 0.0
		if len(internals) > 0 {
			wI = 4
		}
		if len(queue) > 0 {
			wD = 4
		}
		if len(timeouts) > 0 {
			wT = o.PTimeout
			if len(internals) == 0 && len(queue) == 0 {
				wT = 1
			}
		}
		if len(byz) > 0 {
			wB = o.PByz
		}
		tot := wI + wD + wT + wB
		if tot == 0 {
			break
		}
		x := rng.Float64() * tot
		switch {
		case x < wI:
			c.PopInternal(internals[rng.Intn(len(internals))])
		case x < wI+wD:
			if len(delivered) > 0 && rng.Float64() < o.PDup {
				p := delivered[rng.Intn(len(delivered))]
				c.Deliver(p.to, c.Wire[p.w].Msg, c.Wire[p.w].From)
				break
			}
			// prefer older messages a little (gossip is roughly FIFO) but allow any
			k := rng.Intn(len(queue))
			if rng.Float64() < 0.5 {
				k = rng.Intn(1 + len(queue)/4)
			}
			p := queue[k]
			if p.to == o.Slow && rng.Float64() < 0.85 {
				break // held back for now
			}
			queue = append(queue[:k:k], queue[k+1:]...)
			lossP := o.PLoss
			switch m := c.Wire[p.w].Msg.(type) {
			case *cs.ProposalMessage:
				if m.Proposal.Round == 0 && o.WithholdR0 > 0 {
					lossP = o.WithholdR0
				}
			case *cs.BlockPartMessage:
				if m.Round == 0 && o.WithholdR0 > 0 {
					lossP = o.WithholdR0
				}
			case *cs.VoteMessage:
				if m.Vote.Type == types.VoteTypePrecommit && o.PrecommitLoss > 0 {
					lossP = o.PrecommitLoss
				}
			}
			if rng.Float64() < lossP {
				// lost now; gossip would retransmit: keep it retrievable through the duplicate path
				delivered = append(delivered, p)
				break
			}
			c.Deliver(p.to, c.Wire[p.w].Msg, c.Wire[p.w].From)
			delivered = append(delivered, p)
		case x < wI+wD+wT:
			t := timeouts[rng.Intn(len(timeouts))]
			c.Fire(t[0], t[1])
		default:
			c.byzAct(rng, byz[rng.Intn(len(byz))], &byzBlocks, o.ByzOldRounds)
		}
	}
}

func (c *Cluster) internalLen(i int) int { return c.Nodes[i].CS.VerifInternalLen() }

// byzAct performs one Byzantine action of validator b.
func (c *Cluster) byzAct(rng *rand.Rand, b int, blocks *[]byzBlock, oldRounds bool) {
	correct := c.Correct()
	tgt := c.Nodes[correct[rng.Intn(len(correct))]]
	rs := tgt.CS.GetRoundState()
	h := rs.Height
	status := tgt.CS.VerifStatus()
	if _, v := status.Validators.GetByAddress(c.PVs[b].GetAddress()); v == nil {
		return
	}
	// values known at this height: blocks on the wire, Byzantine blocks, nil
	var ids []types.BlockID
	ids = append(ids, types.BlockID{})
	for _, w := range c.Wire {
		if vm, ok := w.Msg.(*cs.VoteMessage); ok && vm.Vote.Height == h && !vm.Vote.BlockID.IsZero() {
			ids = append(ids, vm.Vote.BlockID)
		}
	}
	for _, bb := range *blocks {
		if bb.h == h {
			ids = append(ids, types.BlockID{Hash: bb.b.Hash(), PartsHeader: bb.ps.Header()})
		}
	}
	subset := func() []int {
		var out []int
		for _, i := range correct {
			if rng.Intn(2) == 0 {
				out = append(out, i)
			}
		}
		if len(out) == 0 {
			out = []int{correct[rng.Intn(len(correct))]}
		}
		return out
	}
	switch rng.Intn(4) {
	case 0, 1: // a vote (possibly equivocating, possibly for another round), delivered selectively
		typ := types.VoteTypePrevote
		if rng.Intn(2) == 0 {
			typ = types.VoteTypePrecommit
		}
		r := rs.Round + rng.Intn(4) - 1
		if (rng.Intn(3) == 0 || (oldRounds && rng.Intn(3) > 0)) && rs.Round > 0 {
			r = rng.Intn(rs.Round + 1) // a late vote for any earlier round (old polkas must stay harmless)
		}
		if r < 0 {
			r = 0
		}
		if r > MaxRound-2 {
			return
		}
		v := c.MakeVote(b, status.Validators, h, r, typ, ids[rng.Intn(len(ids))])
		for _, i := range subset() {
			if c.Nodes[i].Failure == nil {
				c.Deliver(i, &cs.VoteMessage{Vote: v}, b)
			}
		}
	case 2: // a proposal with an own block, when some node expects this validator to propose
		c.byzPropose(rng, b, blocks, subset)
	case 3: // re-offer an earlier Byzantine block's parts (blocks may be fetched after a polka)
		if len(*blocks) == 0 {
			return
		}
		bb := (*blocks)[rng.Intn(len(*blocks))]
		for _, j := range subset() {
			if c.Nodes[j].Failure == nil {
				for k := 0; k < bb.ps.Total(); k++ {
					c.Deliver(j, &cs.BlockPartMessage{Height: bb.h, Round: rs.Round, Part: bb.ps.GetPart(k)}, b)
				}
			}
		}
	}
}

// byzPropose: Byzantine validator b proposes a fresh block of its own to the nodes chosen by
// `to`, if some correct node currently expects b to propose. Returns the (height, round) proposed for.
func (c *Cluster) byzPropose(rng *rand.Rand, b int, blocks *[]byzBlock, to func() []int) (uint64, int, bool) {
	for _, i := range c.Correct() {
		n := c.Nodes[i]
		nrs := n.CS.GetRoundState()
		h := nrs.Height
		if nrs.Validators.GetProposer() == nil || c.IndexOf(nrs.Validators.GetProposer().Address) != b || nrs.Step > cstypes.RoundStepPropose+2 {
			continue
		}
		if _, v := n.CS.VerifStatus().Validators.GetByAddress(c.PVs[b].GetAddress()); v == nil {
			continue
		}
		var lc *types.Commit
		if h > 1 {
			lc = n.App.LoadSeenCommit(h - 1)
			if lc == nil {
				return 0, 0, false
			}
		}
		blk, ps := c.MakeBlock(n.CS.VerifStatus(), lc, h)
		*blocks = append(*blocks, byzBlock{blk, ps, h})
		polRound := -1
		if nrs.Round > 0 && rng.Intn(2) == 0 {
			polRound = rng.Intn(nrs.Round)
		}
		prop := c.MakeProposal(b, h, nrs.Round, ps, polRound, types.BlockID{})
		for _, j := range to() {
			if c.Nodes[j].Failure != nil {
				continue
			}
			c.Deliver(j, &cs.ProposalMessage{Proposal: prop}, b)
			for k := 0; k < ps.Total(); k++ {
				c.Deliver(j, &cs.BlockPartMessage{Height: h, Round: nrs.Round, Part: ps.GetPart(k)}, b)
			}
		}
		return h, nrs.Round, true
	}
	return 0, 0, false
}
