// Package cluster runs N real consensus.ConsensusState instances synchronously under
// harness control (hook H1, build tag verif): the harness decides which message is
// delivered to which node, which scheduled timeout fires, and what Byzantine
// validators sign. Every step is recorded as an event for trace validation.
package cluster

import (
	"bytes"
	"fmt"
	"sort"
	"time"

	cfg "github.com/lianxiangcloud/linkchain/config"
	cs "github.com/lianxiangcloud/linkchain/consensus"
	cstypes "github.com/lianxiangcloud/linkchain/consensus/types"
	"github.com/lianxiangcloud/linkchain/libs/common"
	common2 "github.com/lianxiangcloud/linkchain/libs/common"
	dbm "github.com/lianxiangcloud/linkchain/libs/db"
	"github.com/lianxiangcloud/linkchain/libs/log"
	"github.com/lianxiangcloud/linkchain/libs/ser"
	"github.com/lianxiangcloud/linkchain/types"
)

// MockApp is an in-memory BlockChainApp: it stores blocks and records commits. The
// application proper is the business of other properties.
type MockApp struct {
	Blocks    map[uint64]*types.Block
	Parts     map[uint64]*types.PartSet
	Commits   map[uint64]*types.Commit
	H         uint64
	Committed []string // "height:hash"
	counter   *uint64  // shared: makes every created block distinct
	Recover   []*types.Validator
	NextVals  func(h uint64) []*types.Validator // validator-set changes (nil: none)
	BadBlock  func(b *types.Block) bool         // CheckBlock override (nil: accept)
}

func NewMockApp(counter *uint64) *MockApp {
	return &MockApp{Blocks: map[uint64]*types.Block{}, Parts: map[uint64]*types.PartSet{}, Commits: map[uint64]*types.Commit{}, counter: counter}
}

func (a *MockApp) Height() uint64 { return a.H }
func (a *MockApp) LoadBlockMeta(h uint64) *types.BlockMeta {
	b := a.Blocks[h]
	if b == nil {
		return nil
	}
	return types.NewBlockMeta(b, a.Parts[h])
}
func (a *MockApp) LoadBlock(h uint64) *types.Block           { return a.Blocks[h] }
func (a *MockApp) LoadBlockPart(h uint64, i int) *types.Part { return a.Parts[h].GetPart(i) }
func (a *MockApp) LoadBlockCommit(h uint64) *types.Commit    { return a.Blocks[h+1].LastCommit }
func (a *MockApp) LoadSeenCommit(h uint64) *types.Commit     { return a.Commits[h] }
func (a *MockApp) GetValidators(h uint64) []*types.Validator { return nil }
func (a *MockApp) GetRecoverValidators(h uint64) []*types.Validator {
	return a.Recover
}
func (a *MockApp) CreateBlock(h uint64, maxTxs int, gasLimit uint64, t uint64) *types.Block {
	*a.counter++
	return &types.Block{Header: &types.Header{Height: h, Time: t + *a.counter, GasLimit: gasLimit}, Data: &types.Data{}}
}
func (a *MockApp) PreRunBlock(b *types.Block) {
	// createProposalBlock calls this last: every header field is final, so the value
	// can be named for the event log (without touching the block's own hash cache)
	bz, err := ser.EncodeToBytes(b)
	if err != nil {
		return
	}
	ps := types.NewPartSetFromData(bz, types.DefaultConsensusParams().BlockGossip.BlockPartSizeBytes)
	partsIndex[string(ps.Header().Hash)] = ShortHash(b.Header.Hash().Bytes())
}
func (a *MockApp) CheckBlock(b *types.Block) bool {
	if a.BadBlock != nil && a.BadBlock(b) {
		return false
	}
	return true
}
func (a *MockApp) CommitBlock(b *types.Block, ps *types.PartSet, sc *types.Commit, fs bool) ([]*types.Validator, error) {
	a.Blocks[b.Height] = b
	a.Parts[b.Height] = ps
	a.Commits[b.Height] = sc
	a.H = b.Height
	a.Committed = append(a.Committed, fmt.Sprintf("%d:%s", b.Height, ShortHash(b.Hash().Bytes())))
	if a.NextVals != nil {
		return a.NextVals(b.Height), nil
	}
	return nil, nil
}
func (a *MockApp) SetLastChangedVals(h uint64, v []*types.Validator) {}

// ShortHash renders a block hash the way events name a value ("nil" for the zero hash).
func ShortHash(h []byte) string {
	if len(h) == 0 || bytes.Equal(h, make([]byte, len(h))) {
		return "nil"
	}
	return fmt.Sprintf("%x", h[:4])
}

// Node is one consensus instance with its harness-side bookkeeping.
type Node struct {
	Idx      int
	ID       string
	CS       *cs.ConsensusState
	App      cs.BlockChainApp
	Mock     *MockApp
	PV       types.PrivValidator
	Pend     []cs.VerifTimeout // scheduled and not yet fired
	Failure  interface{}       // first unrecovered failure of the state machine
	StatusDB dbm.DB
	Byz      bool // the harness plays this validator; CS is nil
}

// Cluster of nodes sharing one genesis.
type Cluster struct {
	ChainID string
	Nodes   []*Node
	ValSet  *types.ValidatorSet
	PVs     []types.PrivValidator
	Gen     *types.GenesisDoc
	Counter uint64
	Wire    []WireMsg // every message a correct node put on the wire, in emission order
	Events  []Event
	Seq     int
}

// WireMsg is a message broadcast by a node.
type WireMsg struct {
	From int
	Msg  cs.ConsensusMessage
}

// Options for New.
type Options struct {
	N        int     // validators
	Powers   []int64 // optional (default 10 each)
	Byz      []int   // indexes (in address order) played by the harness
	ChainID  string
	MakeApp  func(i int, c *Cluster) (cs.BlockChainApp, *MockApp, cs.Mempool) // nil: MockApp
	Recover  []*types.Validator
	ExtraPVs int // additional non-validator nodes (candidates)
}

// New builds the cluster. Validators are sorted by address; node i holds key i.
func New(o Options) (*Cluster, error) {
	if o.ChainID == "" {
		o.ChainID = "verif-chain"
	}
	c := &Cluster{ChainID: o.ChainID}
	var vals []*types.Validator
	var pvs []types.PrivValidator
	for i := 0; i < o.N; i++ {
		p := int64(10)
		if i < len(o.Powers) {
			p = o.Powers[i]
		}
		v, pv := types.RandValidator(false, p)
		vals = append(vals, v)
		pvs = append(pvs, pv)
	}
	c.ValSet = types.NewValidatorSet(vals)
	sort.Sort(types.PrivValidatorsByAddress(pvs))
	c.PVs = pvs
	c.Gen = &types.GenesisDoc{ChainID: o.ChainID, ConsensusParams: types.DefaultConsensusParams()}
	for _, v := range c.ValSet.Validators {
		c.Gen.Validators = append(c.Gen.Validators, types.GenesisValidator{PubKey: v.PubKey, Power: v.VotingPower})
	}
	for i := 0; i < o.ExtraPVs; i++ {
		c.PVs = append(c.PVs, types.NewMockPV())
	}
	isByz := map[int]bool{}
	for _, b := range o.Byz {
		isByz[b] = true
	}
	for i := range c.PVs {
		n := &Node{Idx: i, ID: fmt.Sprintf("n%d", i), PV: c.PVs[i], Byz: isByz[i]}
		c.Nodes = append(c.Nodes, n)
		if n.Byz {
			continue
		}
		if err := c.boot(n, o); err != nil {
			return nil, err
		}
	}
	return c, nil
}

func (c *Cluster) boot(n *Node, o Options) error {
	n.StatusDB = dbm.NewMemDB()
	status, err := cs.CreateStatusFromGenesisDoc(n.StatusDB, c.Gen)
	if err != nil {
		return err
	}
	var app cs.BlockChainApp
	var mp cs.Mempool = cs.MockMempool{}
	if o.MakeApp != nil {
		app, n.Mock, mp = o.MakeApp(n.Idx, c)
	} else {
		n.Mock = NewMockApp(&c.Counter)
		n.Mock.Recover = o.Recover
		app = n.Mock
	}
	n.App = app
	conf := cfg.TestConsensusConfig()
	conf.SkipTimeoutCommit = false
	be := cs.NewBlockExecutor(n.StatusDB, log.NewNopLogger(), cs.MockEvidencePool{})
	st := cs.NewConsensusState(conf, status, be, app, mp, cs.MockEvidencePool{})
	st.SetLogger(log.NewNopLogger())
	eb := types.NewEventBus()
	eb.SetLogger(log.NewNopLogger())
	eb.Start()
	st.SetEventBus(eb)
	st.SetPrivValidator(n.PV)
	st.VerifInstall()
	n.CS = st
	rs := st.GetRoundState()
	n.Pend = []cs.VerifTimeout{{Duration: 0, Height: rs.Height, Round: 0, Step: cstypes.RoundStepNewHeight}}
	return nil
}

// ---- observation -------------------------------------------------------------

// Thresholds of one round of a node's HeightVoteSet.
type Thresholds struct {
	Round int    `json:"r"`
	AnyPV bool   `json:"anyPV"`
	Polka string `json:"polka"` // "none" | "nil" | value
	AnyPC bool   `json:"anyPC"`
	Maj   string `json:"maj"`
	NPV   int    `json:"npv"` // validators whose prevote / precommit of this round the node holds
	NPC   int    `json:"npc"`
}

// View is the projection of a node's RoundState the specifications talk about.
type View struct {
	H        uint64       `json:"h"`
	R        int          `json:"r"`
	S        int          `json:"s"`
	Prop     string       `json:"prop"`   // value named by the accepted proposal's part-set header ("none")
	PropR    int          `json:"propR"`  // its POL round (-2 when no proposal)
	PBlock   string       `json:"pblock"` // complete proposal block ("none")
	Expect   string       `json:"expect"` // part-set header being collected ("none")
	LR       int          `json:"lr"`
	LB       string       `json:"lb"`
	VR       int          `json:"vr"`
	VB       string       `json:"vb"`
	CR       int          `json:"cr"`
	Th       []Thresholds `json:"th"`
	Proposer int          `json:"proposer"` // index of the proposer the node expects for (h, r)
	AppH     uint64       `json:"appH"`
}

func majString(id types.BlockID, ok bool) string {
	if !ok {
		return "none"
	}
	if id.IsZero() {
		return "nil"
	}
	return ShortHash(id.Hash.Bytes())
}

// PartsName names a part-set header by the block it belongs to, when known.
func (c *Cluster) partsName(h types.PartSetHeader) string {
	if h.IsZero() {
		return "none"
	}
	if v, ok := partsIndex[string(h.Hash)]; ok {
		return v
	}
	return "ph:" + ShortHash(h.Hash)
}

var partsIndex = map[string]string{}

// RegisterBlock lets part-set headers be named by block value in events.
func RegisterBlock(b *types.Block, ps *types.PartSet) {
	partsIndex[string(ps.Header().Hash)] = ShortHash(b.Hash().Bytes())
}

// ViewOf projects node n.
func (c *Cluster) ViewOf(n *Node) View {
	rs := n.CS.GetRoundState()
	v := View{H: rs.Height, R: rs.Round, S: int(rs.Step), Prop: "none", PropR: -2, PBlock: "none", Expect: "none",
		LR: rs.LockedRound, LB: "none", VR: rs.ValidRound, VB: "none", CR: rs.CommitRound, AppH: n.App.Height(), Th: []Thresholds{}}
	if rs.Proposal != nil {
		v.Prop = c.partsName(rs.Proposal.BlockPartsHeader)
		v.PropR = rs.Proposal.POLRound
	}
	if rs.ProposalBlock != nil {
		v.PBlock = ShortHash(rs.ProposalBlock.Hash().Bytes())
	}
	if rs.ProposalBlockParts != nil {
		v.Expect = c.partsName(rs.ProposalBlockParts.Header())
	}
	if rs.LockedBlock != nil {
		v.LB = ShortHash(rs.LockedBlock.Hash().Bytes())
	}
	if rs.ValidBlock != nil {
		v.VB = ShortHash(rs.ValidBlock.Hash().Bytes())
	}
	if rs.Votes != nil {
		for r := 0; r <= MaxRound; r++ { // tracked rounds and peers' catch-up rounds
			pv, pc := rs.Votes.Prevotes(r), rs.Votes.Precommits(r)
			if pv == nil || pc == nil {
				continue
			}
			t := Thresholds{Round: r, AnyPV: pv.HasTwoThirdsAny(), AnyPC: pc.HasTwoThirdsAny(), NPV: popcount(pv.BitArray()), NPC: popcount(pc.BitArray())}
			id, ok := pv.TwoThirdsMajority()
			t.Polka = majString(id, ok)
			id, ok = pc.TwoThirdsMajority()
			t.Maj = majString(id, ok)
			v.Th = append(v.Th, t)
		}
	}
	v.Proposer = -1
	if rs.Validators != nil && rs.Validators.GetProposer() != nil {
		v.Proposer = c.IndexOf(rs.Validators.GetProposer().Address)
	}
	return v
}

// MaxRound bounds the rounds the event log describes (the trace specification's constant).
const MaxRound = 24

func popcount(b *common2.BitArray) int {
	n := 0
	for i := 0; b != nil && i < b.Size(); i++ {
		if b.GetIndex(i) {
			n++
		}
	}
	return n
}

// IndexOf returns the node index holding the validator address (-1 if none).
func (c *Cluster) IndexOf(addr []byte) int {
	for i, pv := range c.PVs {
		if bytes.Equal(pv.GetAddress(), addr) {
			return i
		}
	}
	return -1
}

// MsgDesc is the abstract description of a consensus message in events.
type MsgDesc struct {
	T     string `json:"t"` // "prop" | "part" | "pv" | "pc" | "other"
	H     uint64 `json:"h"`
	R     int    `json:"r"`
	From  int    `json:"from"` // signer index (votes: validator; proposals: sender)
	B     string `json:"b"`    // value ("nil" for nil votes)
	Pol   int    `json:"pol"`
	Idx   int    `json:"idx"`   // part index
	Total int    `json:"total"` // parts in the set
	Rec   bool   `json:"rec"`   // recover proposal
}

// Describe abstracts a message.
func (c *Cluster) Describe(m cs.ConsensusMessage, sender int) MsgDesc {
	switch x := m.(type) {
	case *cs.ProposalMessage:
		return MsgDesc{T: "prop", H: x.Proposal.Height, R: x.Proposal.Round, From: sender, B: c.partsName(x.Proposal.BlockPartsHeader),
			Pol: x.Proposal.POLRound, Total: x.Proposal.BlockPartsHeader.Total, Rec: x.Proposal.Type == types.ProposalTypeRecover}
	case *cs.BlockPartMessage:
		d := MsgDesc{T: "part", H: x.Height, R: x.Round, From: sender, B: "none"}
		if x.Part != nil {
			d.Idx = x.Part.Index
			if v, ok := partsIndex[string(x.Part.Hash())]; ok { // single-part sets: the part's hash is the set's root
				d.B = v
			}
		}
		return d
	case *cs.VoteMessage:
		t := "pv"
		if x.Vote.Type == types.VoteTypePrecommit {
			t = "pc"
		}
		return MsgDesc{T: t, H: x.Vote.Height, R: x.Vote.Round, From: c.IndexOf(x.Vote.ValidatorAddress), B: ShortHash(x.Vote.BlockID.Hash.Bytes())}
	}
	return MsgDesc{T: "other", From: sender}
}

// Event is one step of one node.
type Event struct {
	Seq     int      `json:"seq"`
	Node    int      `json:"node"`
	Kind    string   `json:"ev"` // "internal" | "deliver" | "timeout" | "recover" | "reset"
	Msg     *MsgDesc `json:"msg,omitempty"`
	TH      uint64   `json:"th"` // timeout height/round/step
	TR      int      `json:"tr"`
	TS      int      `json:"ts"`
	Pre     View     `json:"pre"`
	Post    View     `json:"post"`
	Fail    string   `json:"fail,omitempty"`
	Added   bool     `json:"added"`   // the vote / completing block part was added by the node
	IsProp  []bool   `json:"isprop"`  // the node's belief "I propose round r", r = 0..MaxRound, rotated from its round
	CommitH uint64   `json:"commitH"` // block committed by this step (0: none)
	CommitV string   `json:"commitV"`
	// "init" events
	NVals  int     `json:"n"`
	Powers []int64 `json:"powers"`
	ByzIdx []int   `json:"byz"`
}

func (c *Cluster) record(n *Node, kind string, md *MsgDesc, t *cs.VerifTimeout, pre View, nCommitted int, f interface{}, isProp []bool) Event {
	c.Seq++
	e := Event{Seq: c.Seq, Node: n.Idx, Kind: kind, Msg: md, Pre: pre, Post: c.ViewOf(n), IsProp: isProp, Powers: []int64{}, ByzIdx: []int{}}
	if md == nil {
		e.Msg = &MsgDesc{T: "none", B: "none"}
	} else {
		switch md.T {
		case "pv", "pc":
			if e.Post.H != pre.H {
				e.Added = true
			} else {
				e.Added = countOf(e.Post, md.R, md.T) > countOf(pre, md.R, md.T)
			}
		case "part":
			e.Added = pre.PBlock == "none" && md.B != "none" && pre.Expect == md.B && (e.Post.PBlock == md.B || e.Post.H != pre.H)
		}
	}
	if t != nil {
		e.TH, e.TR, e.TS = t.Height, t.Round, int(t.Step)
	}
	if f != nil {
		e.Fail = fmt.Sprint(f)
		if n.Failure == nil {
			n.Failure = f
		}
	}
	if n.Mock != nil && len(n.Mock.Committed) > nCommitted {
		b := n.Mock.Blocks[n.Mock.H]
		e.CommitH, e.CommitV = b.Height, ShortHash(b.Hash().Bytes())
	}
	n.Pend = append(n.Pend, n.CS.VerifScheduled()...)
	c.Events = append(c.Events, e)
	return e
}

func countOf(v View, r int, t string) int {
	for _, th := range v.Th {
		if th.Round == r {
			if t == "pv" {
				return th.NPV
			}
			return th.NPC
		}
	}
	return 0
}

// belief computes "I propose round r" for r = 0..MaxRound exactly as enterNewRound would:
// the node's validator set rotated by (r - current round).
func (c *Cluster) belief(n *Node) []bool {
	rs := n.CS.GetRoundState()
	out := make([]bool, MaxRound+1)
	if rs.Validators == nil {
		return out
	}
	me := n.PV.GetAddress()
	for r := rs.Round; r <= MaxRound; r++ {
		vs := rs.Validators
		if r > rs.Round {
			vs = vs.Copy()
			vs.IncrementAccum(r - rs.Round)
		}
		if p := vs.GetProposer(); p != nil && bytes.Equal(p.Address, me) {
			out[r] = true
		}
	}
	return out
}

// InitEvent opens a trace.
func (c *Cluster) InitEvent() Event {
	e := Event{Kind: "init", NVals: len(c.Nodes), ByzIdx: []int{}, IsProp: []bool{}, Msg: &MsgDesc{T: "none", B: "none"}}
	e.Pre.Th, e.Post.Th = []Thresholds{}, []Thresholds{}
	for i := range c.Nodes {
		p := int64(0)
		if _, v := c.ValSet.GetByAddress(c.PVs[i].GetAddress()); v != nil {
			p = v.VotingPower
		}
		e.Powers = append(e.Powers, p)
		if c.Nodes[i].Byz {
			e.ByzIdx = append(e.ByzIdx, i)
		}
	}
	return e
}

func (n *Node) nCommitted() int {
	if n.Mock == nil {
		return 0
	}
	return len(n.Mock.Committed)
}

// PopInternal lets node i process its next self-addressed message; the message then
// is on the wire. Returns false when the queue is empty.
func (c *Cluster) PopInternal(i int) (cs.ConsensusMessage, bool) {
	n := c.Nodes[i]
	pre, nc, bel := c.ViewOf(n), n.nCommitted(), c.belief(n)
	m, f := n.CS.VerifPopInternal()
	if m == nil {
		return nil, false
	}
	md := c.Describe(m, i)
	c.record(n, "internal", &md, nil, pre, nc, f, bel)
	c.Wire = append(c.Wire, WireMsg{From: i, Msg: m})
	return m, true
}

// Deliver hands a message to node i as coming from peer `from`.
func (c *Cluster) Deliver(i int, m cs.ConsensusMessage, from int) Event {
	n := c.Nodes[i]
	pre, nc, bel := c.ViewOf(n), n.nCommitted(), c.belief(n)
	f := n.CS.VerifDeliver(m, fmt.Sprintf("n%d", from))
	md := c.Describe(m, from)
	return c.record(n, "deliver", &md, nil, pre, nc, f, bel)
}

// Fire fires the k-th pending timeout of node i (and forgets it).
func (c *Cluster) Fire(i, k int) Event {
	n := c.Nodes[i]
	t := n.Pend[k]
	n.Pend = append(n.Pend[:k:k], n.Pend[k+1:]...)
	pre, nc, bel := c.ViewOf(n), n.nCommitted(), c.belief(n)
	f := n.CS.VerifFire(t)
	return c.record(n, "timeout", nil, &t, pre, nc, f, bel)
}

// FireRecover fires the recover timer at node i.
func (c *Cluster) FireRecover(i int) Event {
	n := c.Nodes[i]
	pre, nc, bel := c.ViewOf(n), n.nCommitted(), c.belief(n)
	f := n.CS.VerifFireRecover()
	return c.record(n, "recover", nil, nil, pre, nc, f, bel)
}

// Correct returns the indexes of nodes run by real code.
func (c *Cluster) Correct() (out []int) {
	for _, n := range c.Nodes {
		if !n.Byz && n.CS != nil {
			out = append(out, n.Idx)
		}
	}
	return
}

// DrainAll pops every internal message of every correct node and delivers it to every
// other correct node (synchronous, loss-free network); returns whether anything moved.
func (c *Cluster) DrainAll() bool {
	moved := false
	for {
		progressed := false
		for _, i := range c.Correct() {
			for {
				m, ok := c.PopInternal(i)
				if !ok {
					break
				}
				progressed, moved = true, true
				for _, j := range c.Correct() {
					if j != i {
						c.Deliver(j, m, i)
					}
				}
			}
		}
		if !progressed {
			return moved
		}
	}
}

// RunSync drives the cluster with a loss-free network and the latest timeout of every
// node whenever nothing else can move, until done() or the step budget is used up.
func (c *Cluster) RunSync(done func() bool, budget int) {
	for it := 0; it < budget && !done(); it++ {
		if c.DrainAll() {
			continue
		}
		fired := false
		for _, i := range c.Correct() {
			n := c.Nodes[i]
			if len(n.Pend) == 0 {
				continue
			}
			k := len(n.Pend) - 1
			c.Fire(i, k)
			n.Pend = nil // older ones are stale by construction of this driver
			n.Pend = append(n.Pend, n.CS.VerifScheduled()...)
			fired = true
		}
		if !fired {
			return
		}
	}
}

// ---- Byzantine / harness-made messages ---------------------------------------

// MakeVote signs a vote of validator i with its real key.
func (c *Cluster) MakeVote(i int, valset *types.ValidatorSet, height uint64, round int, typ byte, id types.BlockID) *types.Vote {
	addr := c.PVs[i].GetAddress()
	idx, _ := valset.GetByAddress(addr)
	v := &types.Vote{ValidatorAddress: addr, ValidatorIndex: idx, ValidatorSize: valset.Size(), Height: height, Round: round,
		Timestamp: time.Now().UTC(), Type: typ, BlockID: id}
	if err := c.PVs[i].SignVote(c.ChainID, v); err != nil {
		panic(err)
	}
	return v
}

// MakeBlock builds a fresh distinct block for the height from node tmpl's point of view
// (its LastCommit / status), the way createProposalBlock does, through a mock app.
func (c *Cluster) MakeBlock(status cs.NewStatus, lastCommit *types.Commit, height uint64) (*types.Block, *types.PartSet) {
	app := NewMockApp(&c.Counter)
	b := app.CreateBlock(height, 0, status.ConsensusParams.BlockSize.MaxGas, uint64(time.Now().Unix()))
	b.ChainID = status.ChainID
	if lastCommit == nil {
		lastCommit = &types.Commit{}
	}
	b.LastCommit = lastCommit
	if height > 1 && !status.LastRecover && lastCommit.FirstPrecommit() != nil {
		// the FaultValidatorsEvidence every block above height 1 must carry (getLastFaultValsInfo)
		lastRound := lastCommit.FirstPrecommit().Round
		fvi := &types.FaultValidatorsEvidence{BlockHeight: height - 1, Round: lastRound}
		if lastRound == 0 {
			fvi.Proposer = status.LastValidators.GetProposer().PubKey
		} else {
			fvi.FaultVal = status.LastValidators.GetProposer().PubKey
			vs := status.LastValidators.Copy()
			vs.IncrementAccum(lastRound)
			fvi.Proposer = vs.GetProposer().PubKey
		}
		b.AddEvidence([]types.Evidence{fvi})
	}
	b.LastBlockID = status.LastBlockID
	b.LastCommitHash = b.LastCommit.Hash()
	b.EvidenceHash = b.Evidence.Hash()
	b.ConsensusHash = common.BytesToHash(status.ConsensusParams.Hash())
	b.ValidatorsHash = common.BytesToHash(status.Validators.Hash())
	ps := b.MakePartSet(status.ConsensusParams.BlockGossip.BlockPartSizeBytes)
	RegisterBlock(b, ps)
	return b, ps
}

// MakeProposal signs a proposal of validator i for the part set.
func (c *Cluster) MakeProposal(i int, height uint64, round int, ps *types.PartSet, polRound int, polID types.BlockID) *types.Proposal {
	p := types.NewProposal(height, round, ps.Header(), polRound, polID)
	p.Type = types.ProposalTypeNormal
	if err := c.PVs[i].SignProposal(c.ChainID, p); err != nil {
		panic(err)
	}
	return p
}
