// Package ledger binds spec/Ledger/Ledger.tla to the real block execution: it replays
// model behaviours (sequences of offered blocks, valid and attacking) on several
// replicas of the REAL application that differ in everything the properties say must
// not matter (storage mode, proposer vs validator path, warm vs cold caches,
// GOMAXPROCS, process), and checks determinism (C05), conservation and tamper
// rejection (C06) and single spending (C07). Used by props/c05, c06, c07.
package ledger

import (
	"bytes"
	"encoding/json"
	"fmt"
	"math/big"
	"math/rand"
	"os"
	"path/filepath"
	"runtime"
	"sort"
	"strings"
	"time"

	cfg "github.com/lianxiangcloud/linkchain/config"
	"github.com/lianxiangcloud/linkchain/libs/common"
	"github.com/lianxiangcloud/linkchain/libs/crypto"
	"github.com/lianxiangcloud/linkchain/libs/ser"
	"github.com/lianxiangcloud/linkchain/types"

	"verifh/appx"
	"verifh/core"
	"verifh/mbt"
	"verifh/tlc"
)

// abstract transaction / action / state as exported by Ledger.tla
type aTx struct {
	K string          `json:"k"`
	F json.RawMessage `json:"f"`
	T string          `json:"t"`
	A int             `json:"a"`
	N json.RawMessage `json:"n"`
}
type aAct struct {
	Blk []aTx `json:"blk"`
	Ok  bool  `json:"ok"`
}
type aCoin struct {
	Owner string `json:"owner"`
	Amt   int    `json:"amt"`
	Spent bool   `json:"spent"`
}
type aState struct {
	Bal    map[string]int `json:"bal"`
	Tok    map[string]int `json:"tok"`
	Nonce  map[string]int `json:"nonce"`
	Coins  []aCoin        `json:"coins"`
	Held   int            `json:"held"`
	Pay    int            `json:"pay"`
	Spends []int          `json:"spends"`
	KBal   int            `json:"kbal"`  // units at cKill's address
	KCode  bool           `json:"kcode"` // cKill still has its code
	Burnt  int            `json:"burnt"` // units destroyed outside the designed exceptions (as coded)
}

func (t aTx) fromAcct() string { var s string; json.Unmarshal(t.F, &s); return s }
func (t aTx) fromCoin() int    { var i int; json.Unmarshal(t.F, &i); return i }
func (t aTx) nonce() int       { var i int; json.Unmarshal(t.N, &i); return i }
func (t aTx) class() string    { var s string; json.Unmarshal(t.N, &s); return s }

// Unit is one abstract unit of value: large enough that all fees of a behaviour stay below it.
var Unit = appx.LKC(1000)

var (
	addrToken  = common.HexToAddress("0x0000000000000000000000000000000000070c01") // the token T (an id, not a contract)
	addrP1     = common.HexToAddress("0x00000000000000000000000000000000000a55e1") // passive, token-only at genesis
	addrFwd    = common.HexToAddress("0x00000000000000000000000000000000000c5703")
	addrSlots  = common.HexToAddress("0x00000000000000000000000000000000000c5704")
	addrPay    = common.HexToAddress("0x00000000000000000000000000000000000c5705")
	addrStore  = common.HexToAddress("0x00000000000000000000000000000000000c5701")
	addrRevert = common.HexToAddress("0x00000000000000000000000000000000000c5702")
	addrKill   = common.HexToAddress("0x00000000000000000000000000000000000c5706")
	codeStore  = []byte{0x00}                         // STOP: keeps what it receives
	codeRevert = []byte{0x60, 0x00, 0x60, 0x00, 0xfd} // PUSH1 0 PUSH1 0 REVERT
)

// codeSlots stores the 12 words of its call data into storage slots 0..11 (a zero word clears the slot).
// (it ends with LOG1(topic 7, empty data): receipts then carry a log, whose stored form names the block)
var codeSlots = []byte{0x60, 0x00, 0x5b, 0x80, 0x60, 0x20, 0x02, 0x35, 0x81, 0x55, 0x60, 0x01, 0x01, 0x80, 0x60, 0x0c, 0x11, 0x60, 0x02, 0x57,
	0x60, 0x07, 0x60, 0x00, 0x60, 0x00, 0xa1, 0x00}

// slotsData: pattern 1 fills all 12 slots, pattern 2 overwrites 11 of them and clears one.
func slotsData(pattern int, salt byte) []byte {
	d := make([]byte, 12*32)
	for i := 0; i < 12; i++ {
		if pattern == 2 && i == 5 {
			continue // zero word: SSTORE 0 deletes the slot
		}
		d[i*32+31] = byte(1 + i + 16*pattern)
		d[i*32+30] = salt
	}
	return d
}

// codePay: CALL(gas, p1, one unit, 0,0,0,0) out of the contract's own balance; revert if the call failed.
func codePay() []byte {
	c := []byte{0x60, 0x00, 0x60, 0x00, 0x60, 0x00, 0x60, 0x00}
	u := Unit.Bytes()
	c = append(c, byte(0x60+len(u)-1)) // PUSHn
	c = append(c, u...)
	c = append(c, 0x73)
	c = append(c, addrP1.Bytes()...)
	c = append(c, 0x60, 0x00, 0xf1) // PUSH1 0 (call gas: the recipient has no code; the stipend is enough) CALL
	dest := byte(len(c) + 5)
	c = append(c, 0x15, 0x60, dest, 0x57, 0x00, 0x5b, 0x60, 0x00, 0x60, 0x00, 0xfd)
	return c
}

// codeFwd: CALL(gas, p1, callvalue, 0,0,0,0); revert if the call failed.
func codeFwd() []byte {
	c := []byte{0x60, 0x00, 0x60, 0x00, 0x60, 0x00, 0x60, 0x00, 0x34, 0x73}
	c = append(c, addrP1.Bytes()...)
	c = append(c, 0x60, 0x00, 0xf1) // PUSH1 0 (call gas) CALL
	// ISZERO PUSH1 <dest> JUMPI STOP JUMPDEST PUSH1 0 PUSH1 0 REVERT
	dest := byte(len(c) + 5)
	c = append(c, 0x15, 0x60, dest, 0x57, 0x00, 0x5b, 0x60, 0x00, 0x60, 0x00, 0xfd)
	return c
}

// codeKill: without call data it accepts what it is sent; with call data it self-destructs in favour of p1.
func codeKill() []byte {
	c := []byte{0x36, 0x15, 0x60, 0x1b, 0x57, 0x73} // CALLDATASIZE ISZERO PUSH1 27 JUMPI PUSH20
	c = append(c, addrP1.Bytes()...)
	return append(c, 0xff, 0x5b, 0x00) // SELFDESTRUCT JUMPDEST(27) STOP
}

// world is the concrete instantiation shared by all replicas of one behaviour.
type world struct {
	accts      map[string]*appx.Account
	wallets    map[string]*appx.Wallet
	coins      []*appx.Coin // by abstract coin id - 1
	initBal    int
	spent      map[int]bool
	txCache    map[string]types.Tx // committed transactions by abstract description (for replays)
	spendCount int
	lastRing   int
	fwdCount   int
	sstCount   int
	kNoCode    bool // cKill was deleted at the end of an earlier block
}

type replica struct {
	name   string
	env    *appx.Env
	isTrie bool
	warm   bool // submit the block's transactions to this replica's mempool before it checks the block
}

func newWorld(names []string, wallets []string, initBal int) *world {
	w := &world{accts: map[string]*appx.Account{}, wallets: map[string]*appx.Wallet{}, initBal: initBal, spent: map[int]bool{}, txCache: map[string]types.Tx{}}
	for i, n := range names {
		w.accts[n] = appx.NewAccount(int64(1000 + i))
	}
	for _, n := range wallets {
		w.wallets[n] = appx.NewWallet()
	}
	return w
}

func (w *world) genesis() []appx.Alloc {
	var al []appx.Alloc
	var names []string
	for n := range w.accts {
		names = append(names, n)
	}
	sort.Strings(names)
	for _, n := range names {
		al = append(al, appx.Alloc{Addr: w.accts[n].Addr, Balance: new(big.Int).Mul(Unit, big.NewInt(int64(w.initBal))),
			Tokens: map[common.Address]*big.Int{addrToken: units(1)}})
	}
	al = append(al, appx.Alloc{Addr: addrP1, Tokens: map[common.Address]*big.Int{addrToken: units(1)}}) // tokens only: no native coin, nonce 0
	al = append(al, appx.Alloc{Addr: addrStore, Code: codeStore, Nonce: 1}, appx.Alloc{Addr: addrRevert, Code: codeRevert, Nonce: 1},
		appx.Alloc{Addr: addrFwd, Code: codeFwd(), Nonce: 1}, appx.Alloc{Addr: addrSlots, Code: codeSlots, Nonce: 1},
		appx.Alloc{Addr: addrPay, Code: codePay(), Nonce: 1, Balance: units(2)},
		appx.Alloc{Addr: addrKill, Code: codeKill(), Nonce: 1})
	return al
}

func units(n int) *big.Int { return new(big.Int).Mul(Unit, big.NewInt(int64(n))) }

// build turns an abstract transaction into a real signed one (ref: the replica whose
// committed state supplies output indexes and the UTXO gas).
func (w *world) build(t aTx, ref *appx.Env, newCoins *[]*appx.Coin) (types.Tx, error) {
	switch t.K {
	case "xfer":
		return w.accts[t.fromAcct()].Transfer(uint64(t.nonce()), w.accts[t.T].Addr, units(t.A)), nil
	case "dep":
		tx, coins, err := w.accts[t.fromAcct()].Deposit(uint64(t.nonce()), []*appx.Wallet{w.wallets[t.T]}, []*big.Int{units(t.A)}, appx.DepositFee(units(t.A)))
		if err != nil {
			return nil, err
		}
		*newCoins = append(*newCoins, coins...)
		return tx, nil
	case "tok":
		to := addrP1
		if a, ok := w.accts[t.T]; ok {
			to = a.Addr
		}
		tx := types.NewTokenTransaction(addrToken, uint64(t.nonce()), to, units(t.A), uint64(types.MinGasLimit), big.NewInt(types.ParGasPrice), nil)
		if err := tx.Sign(types.GlobalSTDSigner, w.accts[t.fromAcct()].Key); err != nil {
			return nil, err
		}
		return tx, nil
	case "fwd":
		// gas: the contract-call transfer fee plus an ample budget, or one of several tight budgets
		// that cannot pay the inner value CALL (which carries an extra transfer fee of >= 500000 gas)
		fee := types.CalNewAmountGas(units(t.A), types.EverContractLiankeFee) // what moving this value costs, at each level
		gas := fee
		if t.T == "ample" {
			gas += 2*fee + 2000000
		} else {
			w.fwdCount++
			gas += []uint64{100000, 600000, 2000000, fee / 2, fee - 1000, fee + 5000}[w.fwdCount%6]
		}
		return w.accts[t.fromAcct()].TransferGasLimit(uint64(t.nonce()), addrFwd, units(t.A), gas, nil), nil
	case "pay":
		// zero-value call; "tight": a legal gas limit far below the inner transfer fee
		gas := uint64(3000000) + types.CalNewAmountGas(Unit, types.EverContractLiankeFee)
		if t.T != "ample" {
			w.fwdCount++
			// below, inside and well inside the window between the inner call's plain cost (about
			// 0.5 M gas at this tree's EVM gas rate) and plain cost + transfer fee (25 M for one unit)
			gas = []uint64{100000, 600000, 2000000, 10000000}[w.fwdCount%4]
		}
		return w.accts[t.fromAcct()].TransferGasLimit(uint64(t.nonce()), addrPay, big.NewInt(0), gas, nil), nil
	case "sst":
		w.sstCount++
		return w.accts[t.fromAcct()].TransferGasLimit(uint64(t.nonce()), addrSlots, big.NewInt(0), 2000000, slotsData(t.A, byte(w.sstCount))), nil
	case "kill", "kfund":
		// value moves twice in a kill (into the contract, on to the heir): ample gas for both transfer fees
		fee := types.CalNewAmountGas(units(t.A), types.EverContractLiankeFee)
		if w.kNoCode {
			// the contract was deleted at the end of an earlier block: its address is an ordinary account now
			return w.accts[t.fromAcct()].Transfer(uint64(t.nonce()), addrKill, units(t.A)), nil
		}
		var data []byte
		if t.K == "kill" {
			data = []byte{1}
		}
		return w.accts[t.fromAcct()].TransferGasLimit(uint64(t.nonce()), addrKill, units(t.A), 3*fee+60000000, data), nil
	case "call":
		to := addrStore
		if t.T == "cRevert" {
			to = addrRevert
		}
		gas := types.CalNewAmountGas(units(t.A), types.EverContractLiankeFee) + 200000
		if t.T == "cStoreTight" {
			// the window between the transfer fee and transfer fee + intrinsic gas (21000): admitted, fails
			// before anything moves
			w.fwdCount++
			gas = types.CalNewAmountGas(units(t.A), types.EverContractLiankeFee) + []uint64{0, 1, 10000, 20999}[w.fwdCount%4]
		}
		return w.accts[t.fromAcct()].TransferGasLimit(uint64(t.nonce()), to, units(t.A), gas, nil), nil
	case "wd", "cx":
		id := t.fromCoin()
		if id < 1 || id > len(w.coins) {
			return nil, fmt.Errorf("no coin %d", id)
		}
		c := w.coins[id-1]
		if !c.Found && !ref.Locate(c) {
			return nil, fmt.Errorf("coin %d not found in the output store", id)
		}
		fee := appx.Fee(ref.SpendFeeGas(c.Amount))
		claimed := new(big.Int).Set(c.Amount)
		cls := t.class()
		if cls == "inflate" {
			claimed = new(big.Int).Mul(c.Amount, big.NewInt(1000)) // claims 1000x what the coin holds
			fee = appx.Fee(ref.SpendFeeGas(claimed))
		}
		out := new(big.Int).Sub(claimed, fee)
		var tx *types.UTXOTransaction
		var err error
		// ring size: one (plain ring signature path) or two (MLSAG path) when decoys exist
		var decoys []types.UTXORingEntry
		w.spendCount++
		if d := ref.Decoys(c, 1); len(d) == 1 && w.spendCount%2 == 0 {
			decoys = d
		}
		w.lastRing = 1 + len(decoys)
		if t.K == "wd" {
			to := w.accts[t.T].Addr
			tx, _, err = appx.SpendRing(c, decoys, claimed, &to, out, nil, nil)
		} else {
			var coins []*appx.Coin
			tx, coins, err = appx.SpendRing(c, decoys, claimed, nil, nil, w.wallets[t.T], out)
			*newCoins = append(*newCoins, coins...)
		}
		if err != nil {
			return nil, err
		}
		switch cls {
		case "commit": // alter an output-side commitment after the proof was made
			if len(tx.RCTSig.P.PseudoOuts) > 0 {
				tx.RCTSig.P.PseudoOuts[0][3] ^= 1
			} else if len(tx.RCTSig.OutPk) > 0 {
				tx.RCTSig.OutPk[0].Mask[3] ^= 1
			}
		case "fee": // take a smaller fee than the one the commitments were balanced with
			tx.Fee = new(big.Int).Sub(tx.Fee, big.NewInt(types.ParGasPrice))
			if ao, ok := firstAccountOutput(tx); ok {
				ao.Amount = new(big.Int).Add(ao.Amount, big.NewInt(types.ParGasPrice))
			}
		}
		// what arrives at a validator is a decoded copy (hash / size caches are then fresh)
		bz, err := ser.EncodeToBytes(tx)
		if err != nil {
			return nil, err
		}
		var fresh types.UTXOTransaction
		if err := ser.DecodeBytes(bz, &fresh); err != nil {
			return nil, err
		}
		return &fresh, nil
	}
	return nil, fmt.Errorf("unknown kind %q", t.K)
}

func firstAccountOutput(tx *types.UTXOTransaction) (*types.AccountOutput, bool) {
	for _, o := range tx.Outputs {
		if ao, ok := o.(*types.AccountOutput); ok {
			return ao, true
		}
	}
	return nil, false
}

// blockDigest is everything C05 says must be equal across replicas and runs.
type blockDigest struct {
	Accepted    bool   `json:"accepted"`
	StateHash   string `json:"stateHash"`
	ReceiptHash string `json:"receiptHash"`
	GasUsed     uint64 `json:"gasUsed"`
	TxsResult   string `json:"txsResult"` // hash of the encoded TxsResult (bloom, outputs, key images, special txs, candidates)
	Receipts    string `json:"receipts"`  // hash of the encoded receipts incl. logs
	LogMeta     string `json:"logMeta"`   // block / transaction coordinates of every stored log
}

func hashOf(v interface{}) string {
	bz, err := ser.EncodeToBytes(v)
	if err != nil {
		return "enc-error:" + err.Error()
	}
	return fmt.Sprintf("%x", crypto.Keccak256(bz)[:8])
}

func (r *replica) digestAt(h uint64) blockDigest {
	d := blockDigest{Accepted: true}
	b := r.env.BS.LoadBlock(h)
	if b == nil {
		return blockDigest{}
	}
	d.StateHash, d.ReceiptHash, d.GasUsed = b.Header.StateHash.Hex(), b.Header.ReceiptHash.Hex(), b.Header.GasUsed
	if tr, err := r.env.BS.LoadTxsResult(h); err == nil && tr != nil {
		cp := *tr
		cp.TrieRoot = common.EmptyHash // the trie root exists in full-node mode only and is not part of consensus
		d.TxsResult = hashOf(&cp)
	}
	if rc := r.env.BS.GetReceipts(h); rc != nil {
		d.Receipts = hashOf(rc)
		// the stored form of a log also names its block and transaction (fields outside the consensus encoding)
		meta := ""
		for _, rcp := range *rc {
			for _, l := range rcp.Logs {
				meta += fmt.Sprintf("[%x blk=%x tx=%x txi=%d idx=%d n=%d]", l.Address[16:], l.BlockHash[:6], l.TxHash[:6], l.TxIndex, l.Index, l.BlockNumber)
			}
		}
		if meta != "" && b.Hash().Hex() != "" {
			meta += fmt.Sprintf(" block=%x", b.Hash().Bytes()[:6])
		}
		d.LogMeta = meta
	}
	return d
}

// Result of replaying one behaviour.
type Result struct {
	Digests  []blockDigest
	Mismatch string // first property-level mismatch ("" if none)
	Class    string // violation class
	Blocks   int
	Accepted int
	Attacks  int // offered blocks the model rejects
	Executed int // blocks actually executed on replicas
}

// Focus selects the property whose oracles produce violations.
type Focus string

// replay runs one behaviour (a path of edges) on fresh replicas.
func replay(g *mbt.Graph, path []int, dir string, rng *rand.Rand, initBal int) (res Result) {
	w := newWorld([]string{"a1", "a2"}, []string{"w1"}, initBal)
	specs := []struct {
		name   string
		isTrie bool
		warm   bool
	}{{"proposer/trie", true, false}, {"validator/trie/warm-cache", true, true}, {"validator/flat/cold", false, false}}
	var reps []*replica
	defer func() {
		for _, r := range reps {
			r.env.Stop()
		}
	}()
	for i, s := range specs {
		d := appx.NewMemDBs(filepath.Join(dir, fmt.Sprintf("r%d", i)))
		if err := appx.InitGenesis(d, s.isTrie, w.genesis()); err != nil {
			res.Mismatch, res.Class = "genesis: "+err.Error(), "infra"
			return
		}
		e, err := appx.Boot(d, s.isTrie, nil)
		if err != nil {
			res.Mismatch, res.Class = "boot: "+err.Error(), "infra"
			return
		}
		reps = append(reps, &replica{name: s.name, env: e, isTrie: s.isTrie, warm: s.warm})
	}
	P := reps[0]
	fail := func(class, format string, a ...interface{}) {
		if res.Mismatch == "" {
			res.Class, res.Mismatch = class, fmt.Sprintf(format, a...)
		}
	}
	for _, ei := range path {
		var act aAct
		var to aState
		json.Unmarshal(g.Edges[ei].Act, &act)
		json.Unmarshal(g.Edges[ei].ToSt, &to)
		res.Blocks++
		if !act.Ok {
			res.Attacks++
		}
		h := P.env.App.Height() + 1
		// instantiate
		var txs types.Txs
		var newCoins []*appx.Coin
		var buildErr error
		for _, t := range act.Blk {
			tx, err := w.build(t, P.env, &newCoins)
			if err != nil {
				buildErr = err
				break
			}
			txs = append(txs, tx)
		}
		if buildErr != nil {
			if act.Ok {
				fail("infra", "cannot build a transaction of a block the model accepts: %v", buildErr)
				return
			}
			continue // e.g. a spend of a coin that does not exist yet: nothing to offer
		}
		res.Executed++
		// proposer path: fill the header by pre-running; a block that does not execute makes PreRunBlock panic
		blk := P.env.MakeBlock(h, txs)
		preOK := true
		prePanic := ""
		func() {
			defer func() {
				if r := recover(); r != nil {
					preOK = false
					prePanic = fmt.Sprint(r)
				}
			}()
			P.env.App.PreRunBlock(blk)
		}()
		accepted := preOK
		var verdicts []string
		if !preOK {
			verdicts = append(verdicts, "PreRunBlock: "+prePanic)
		}
		if preOK {
			for _, r := range reps {
				b2, _, err := appx.Redecode(blk)
				if err != nil {
					fail("infra", "re-decoding the block: %v", err)
					return
				}
				if r.warm {
					for _, tx := range b2.Data.Txs {
						r.env.MP.AddTx("", tx) // warms the signature / sender cache (verdict irrelevant here)
					}
				}
				ok := r.env.App.CheckBlock(b2)
				verdicts = append(verdicts, fmt.Sprintf("%s=%v", r.name, ok))
				if !ok {
					accepted = false
				}
			}
			// C05: a block the proposer path produced must be accepted by every validator path, or by none
			all, none := true, true
			for _, v := range verdicts {
				if strings.HasSuffix(v, "=true") {
					none = false
				} else {
					all = false
				}
			}
			if !all && !none {
				fail("determinism/replicas-disagree", "height %d block %s: replicas disagree on the proposer's block: %v", h, descBlock(act), verdicts)
				return
			}
			if !all && act.Ok {
				fail("determinism/proposer-block-rejected", "height %d block %s: the proposer path built the block but validators reject it: %v", h, descBlock(act), verdicts)
				return
			}
		}
		if accepted != act.Ok {
			class := "accept-mismatch"
			for _, t := range act.Blk {
				switch {
				case (t.K == "wd" || t.K == "cx") && t.class() == "inflate":
					class = "tamper-accepted/inflate-short-ring"
					if w.lastRing > 1 {
						class = "tamper-accepted/inflate-long-ring"
					}
				case (t.K == "wd" || t.K == "cx") && t.class() != "ok":
					class = "tamper-accepted/" + t.class()
				case (t.K == "wd" || t.K == "cx") && !act.Ok:
					class = "double-spend/accepted"
				case (t.K == "xfer") && !act.Ok && class == "accept-mismatch":
					class = "nonce-or-funds/accepted"
				}
			}
			if act.Ok {
				class = "valid-block-rejected"
			}
			fail(class, "height %d block %s: the specification says accepted=%v, the code says %v (%v)", h, descBlock(act), act.Ok, accepted, verdicts)
			return
		}
		if !accepted {
			continue
		}
		// commit everywhere
		for _, r := range reps {
			b2, _, _ := appx.Redecode(blk)
			if r != P || true {
				if !r.env.App.CheckBlock(b2) { // (processMap keeps the result; needed before CommitBlock)
					fail("determinism/recheck", "height %d: CheckBlock of the same block differs on a second call at %s", h, r.name)
					return
				}
			}
			if err := r.env.Commit(b2); err != nil {
				fail("commit-failed", "height %d: CommitBlock at %s: %v", h, r.name, err)
				return
			}
		}
		res.Accepted++
		w.kNoCode = !to.KCode
		w.coins = append(w.coins, newCoins...)
		for _, t := range act.Blk {
			if t.K == "wd" || t.K == "cx" {
				w.spent[t.fromCoin()] = true
			}
		}
		// C05: identical results on every replica
		d0 := P.digestAt(h)
		res.Digests = append(res.Digests, d0)
		for _, r := range reps[1:] {
			if d := r.digestAt(h); d != d0 {
				fail("determinism/result-differs", "height %d block %s: %s has %+v, %s has %+v", h, descBlock(act), P.name, d0, r.name, d)
				return
			}
		}
		// C06 / C07: the real ledger against the model's post-state
		if m := w.compare(reps, to); m != "" {
			cls := "ledger-mismatch"
			switch {
			case strings.HasPrefix(m, "conservation/destroyed/paid-after-selfdestruct"):
				cls = "conservation/destroyed/paid-after-selfdestruct"
			case strings.HasPrefix(m, "conservation"):
				cls = "conservation"
			case strings.HasPrefix(m, "token:"):
				cls = "ledger-mismatch/token"
			case strings.HasPrefix(m, "nonce:"):
				cls = "nonce/mismatch"
			case strings.HasPrefix(m, "spent-mark:"):
				cls = "double-spend/spent-mark"
			}
			fail(cls, "height %d after block %s: %s", h, descBlock(act), m)
			return
		}
	}
	return
}

func descBlock(a aAct) string {
	var parts []string
	for _, t := range a.Blk {
		parts = append(parts, fmt.Sprintf("%s(%s->%s,%d,%s)", t.K, strings.Trim(string(t.F), `"`), t.T, t.A, strings.Trim(string(t.N), `"`)))
	}
	return "[" + strings.Join(parts, " ") + "]"
}

// compare checks balances, nonces, pool and conservation on every replica.
func (w *world) compare(reps []*replica, to aState) string {
	supply := units(w.initBal*len(w.accts) + 2)
	for _, r := range reps {
		st := r.env.App.GetLatestStateDB()
		total := new(big.Int)
		feesPaid := new(big.Int)
		for n, a := range w.accts {
			bal := st.GetBalance(a.Addr)
			total.Add(total, bal)
			want := units(to.Bal[n])
			fee := new(big.Int).Sub(want, bal) // what the account paid in fees (>= 0, below one unit)
			if fee.Sign() < 0 || fee.Cmp(Unit) >= 0 {
				return fmt.Sprintf("%s: balance of %s is %v, the specification says %d units minus fees below one unit", r.name, n, bal, to.Bal[n])
			}
			feesPaid.Add(feesPaid, fee)
			if got := st.GetNonce(a.Addr); got != uint64(to.Nonce[n]) {
				return fmt.Sprintf("nonce: %s: nonce of %s is %d, the specification says %d (every executed transaction, failed ones included, consumes exactly one nonce)", r.name, n, got, to.Nonce[n])
			}
		}
		// the passive account and the token
		p1 := st.GetBalance(addrP1)
		if p1.Cmp(units(to.Bal["p1"])) != 0 {
			return fmt.Sprintf("%s: the passive account holds %v, the specification says %d units", r.name, p1, to.Bal["p1"])
		}
		total.Add(total, p1)
		tokTotal := new(big.Int)
		for n, want := range to.Tok {
			addr := addrP1
			if a, ok := w.accts[n]; ok {
				addr = a.Addr
			}
			got := st.GetTokenBalance(addr, addrToken)
			tokTotal.Add(tokTotal, got)
			if got.Cmp(units(want)) != 0 {
				return fmt.Sprintf("token: %s: token balance of %s is %v, the specification says %d units", r.name, n, got, want)
			}
		}
		for _, a := range []common.Address{addrStore, addrRevert, addrFwd, addrPay, addrSlots, addrKill, cfg.ContractFoundationAddr, common.EmptyAddress} {
			tokTotal.Add(tokTotal, st.GetTokenBalance(a, addrToken))
		}
		if tokTotal.Cmp(units(len(to.Tok))) != 0 {
			return fmt.Sprintf("conservation: %s: the token supply is %v, it was %v", r.name, tokTotal, units(len(to.Tok)))
		}
		if b := st.GetBalance(addrFwd); b.Sign() != 0 {
			return fmt.Sprintf("%s: the forwarding contract holds %v (it forwards or reverts)", r.name, b)
		}
		payHeld := st.GetBalance(addrPay)
		if payHeld.Cmp(units(to.Pay)) != 0 {
			return fmt.Sprintf("%s: the paying contract holds %v, the specification says %d units", r.name, payHeld, to.Pay)
		}
		total.Add(total, payHeld)
		kHeld := st.GetBalance(addrKill)
		if kHeld.Cmp(units(to.KBal)) != 0 {
			return fmt.Sprintf("%s: the self-destructing contract's address holds %v, the specification says %d units", r.name, kHeld, to.KBal)
		}
		if hasCode := len(st.GetCode(addrKill)) > 0; hasCode != to.KCode {
			return fmt.Sprintf("%s: the self-destructing contract has code = %v, the specification says %v", r.name, hasCode, to.KCode)
		}
		total.Add(total, kHeld)
		held := st.GetBalance(addrStore)
		if held.Cmp(units(to.Held)) != 0 {
			return fmt.Sprintf("%s: the keeping contract holds %v, the specification says %d units", r.name, held, to.Held)
		}
		if b := st.GetBalance(addrRevert); b.Sign() != 0 {
			return fmt.Sprintf("%s: the always-reverting contract holds %v (a failed call moved value)", r.name, b)
		}
		total.Add(total, held)
		collector := st.GetBalance(cfg.ContractFoundationAddr)
		total.Add(total, collector)
		total.Add(total, st.GetBalance(common.EmptyAddress))
		// the pool: unspent coins with their real amounts (a confidential->confidential spend pays its fee out of the coin)
		pool := new(big.Int)
		if len(to.Coins) != len(w.coins) {
			return fmt.Sprintf("%s: %d coins were created, the specification says %d", r.name, len(w.coins), len(to.Coins))
		}
		poolFees := new(big.Int)
		for i, c := range w.coins {
			if to.Coins[i].Spent != w.spent[i+1] {
				return fmt.Sprintf("spent-mark: coin %d: spent=%v, the specification says %v", i+1, w.spent[i+1], to.Coins[i].Spent)
			}
			if !c.Found && !r.env.Locate(c) {
				return fmt.Sprintf("%s: coin %d is not in the committed output store", r.name, i+1)
			}
			if !to.Coins[i].Spent {
				pool.Add(pool, c.Amount)
				poolFees.Add(poolFees, new(big.Int).Sub(units(to.Coins[i].Amt), c.Amount))
			}
		}
		total.Add(total, pool)
		if to.Burnt > 0 && new(big.Int).Add(total, units(to.Burnt)).Cmp(supply) == 0 {
			// exactly what the as-coded model says disappears: value sent to a contract after it self-destructed in the
			// same block is deleted with it at the end of the block - not one of the two designed exceptions
			return fmt.Sprintf("conservation/destroyed/paid-after-selfdestruct: %s: %d unit(s) sent to a contract after it self-destructed earlier in the same block have disappeared with it: accounts + contracts + fee collector + unspent confidential outputs = %v, the supply was %v",
				r.name, to.Burnt, total, supply)
		}
		if total.Cmp(supply) != 0 {
			return fmt.Sprintf("conservation: %s: accounts + contracts + fee collector + unspent confidential outputs = %v, the supply is %v (difference %v)",
				r.name, total, supply, new(big.Int).Sub(total, supply))
		}
		_ = feesPaid
		_ = collector
	}
	return ""
}

// ---- driver --------------------------------------------------------------------

// Run is the shared check; focus is "C05", "C06" or "C07".
func Run(c *core.Ctx, focus string) {
	if c.Child != "" {
		child(c)
		return
	}
	o := c.Out()
	o.Level = "model_checking"
	o.Trusted = []string{"TLC", "the libxcrypto stand-in (harness/xmodel: real edwards25519 arithmetic, transparent range proof, ring size 1 only)", "hook-free: only public APIs of app, mempool, blockchain, utxo, state"}
	o.Assumptions = []string{"confidential transactions use rings of size one (the stand-in implements no MLSAG)", "all results are relative to the stand-in for the absent libxcrypto binary", "two accounts, one wallet, two contracts (one keeps value, one always reverts); WASM contracts are not exercised"}
	o.Rule = "behaviour = path through the TLC-exported graph of Ledger (sequence of offered blocks, valid and attacking: stale/future nonces, under-funded, double spends in and across blocks, tampered confidential spends) replayed on 3 replicas of the real application (trie proposer path, trie validator with warm mempool cache, flat-mode cold validator) in 2 processes with different GOMAXPROCS; non-trivial = at least one block was executed on the replicas; distinct = distinct edge sequences"
	// (1) the design
	designCfg := "Ledger.cfg"
	if c.Thorough() {
		designCfg = "LedgerBig.cfg"
	}
	res := c.TLC(tlc.Options{SpecDir: c.SpecDir("Ledger"), Module: "Ledger", Config: designCfg, Workers: 4, Timeout: c.MinutesT(8, 30)})
	if res == nil {
		return
	}
	if res.Violated != "" || !res.Finished {
		c.Infra("Ledger model: %s\n%s", res.Describe(), res.Tail)
		return
	}
	o.Exhaustive = true
	// (2) export the graph that is replayed
	exportCfg := "LedgerExport.cfg"
	if c.Thorough() {
		exportCfg = "LedgerExportBig.cfg"
	}
	ex := c.TLC(tlc.Options{SpecDir: c.SpecDir("Ledger"), Module: "Ledger", Config: exportCfg, Workers: 1, Timeout: c.MinutesT(5, 30)})
	if ex == nil {
		return
	}
	if ex.Violated != "" || !ex.Finished {
		c.Infra("Ledger export: %s\n%s", ex.Describe(), ex.Tail)
		return
	}
	base, err := os.MkdirTemp("", "vledger")
	if err != nil {
		c.Infra("tempdir: %v", err)
		return
	}
	defer os.RemoveAll(base)
	edgeFile := filepath.Join(base, "edges.ndjson")
	os.WriteFile(edgeFile, []byte(strings.Join(ex.Lines, "\n")), 0644)
	g, err := mbt.Load(ex.Lines)
	if err != nil {
		c.Infra("edges: %v", err)
		return
	}
	c.SetExtra("model_states", len(g.States))
	c.SetExtra("model_edges", len(g.Edges))
	// (3) replay in two processes that differ in GOMAXPROCS; compare their result digests
	type childOut struct {
		Digests  map[string][]blockDigest `json:"digests"`
		Results  int                      `json:"behaviours"`
		Executed int                      `json:"executed"`
		Blocks   int                      `json:"blocks"`
		Attacks  int                      `json:"attacks"`
		Nontriv  int                      `json:"nontrivial"`
		Viol     []core.Violation         `json:"violations"`
		Sample   interface{}              `json:"sample"`
		Planned  int                      `json:"planned"`
		Cut      int                      `json:"cut_by_time_budget"`
	}
	var outs []childOut
	for pi, procs := range []int{1, 8} {
		arg, _ := json.Marshal(map[string]interface{}{"edges": edgeFile, "dir": filepath.Join(base, fmt.Sprintf("p%d", pi)), "procs": procs,
			"walks": c.Pick(30, 400), "maxTours": c.Pick(250, 0), "focus": focus, "initBal": exportInitBal(exportCfg), "budgetSec": c.Pick(240, 420)})
		results, at, crash := c.RunChild(string(arg), c.MinutesT(6, 40))
		if crash != "" {
			if crash == "TIMEOUT" {
				c.Infra("replay process %d timed out at %s", pi, at)
			} else if strings.Contains(crash, "/repo/") {
				c.Violate("crash", "block execution killed the process while replaying "+at, map[string]interface{}{"at": at, "crash": crash})
			} else {
				c.Infra("replay process died: %s", crash)
			}
			return
		}
		for _, r := range results {
			var co childOut
			if json.Unmarshal([]byte(r), &co) == nil {
				outs = append(outs, co)
				c.SetExtra(fmt.Sprintf("replay_process_%d", pi), map[string]int{"behaviours_planned": co.Planned, "behaviours_replayed": co.Results, "not_replayed_time_budget": co.Cut})
				o.Traces += co.Results
				o.Evaluations += co.Blocks
				o.Distinct += co.Nontriv
				if co.Sample != nil && len(o.Samples) < 2 {
					o.Samples = append(o.Samples, co.Sample)
				}
				for _, v := range co.Viol {
					if relevant(focus, v.Key) {
						c.Violate(v.Key, v.Desc, v.Record)
					} else {
						c.Drift("outside this property (%s): %s", v.Key, v.Desc)
					}
				}
			}
		}
	}
	if len(outs) == 2 && (focus == "C05") {
		for k, d0 := range outs[0].Digests {
			d1, ok := outs[1].Digests[k]
			if !ok {
				continue
			}
			if strings.Contains(k, "dep(") || strings.Contains(k, "wd(") || strings.Contains(k, "cx(") {
				// confidential transactions carry fresh random keys in every process: only the
				// account-side results are comparable across processes
				for i := range d0 {
					d0[i].ReceiptHash, d0[i].TxsResult, d0[i].Receipts, d0[i].LogMeta = "", "", "", ""
				}
				for i := range d1 {
					d1[i].ReceiptHash, d1[i].TxsResult, d1[i].Receipts, d1[i].LogMeta = "", "", "", ""
				}
			}
			if fmt.Sprint(d0) != fmt.Sprint(d1) {
				c.Violate("determinism/process-differs", "the same behaviour gives different results in two processes (GOMAXPROCS 1 vs 8): "+k,
					map[string]interface{}{"behaviour": k, "process1": d0, "process2": d1})
			}
		}
	}
	if focus == "C06" {
		// a second family: blocks of up to three transactions over the self-destructing contract (linkchain
		// finalises once per block: self-destruct, re-funding and repeated self-destruct inside one block)
		kcfg := "LedgerKill.cfg"
		if c.Thorough() {
			kcfg = "LedgerKillBig.cfg"
		}
		kx := c.TLC(tlc.Options{SpecDir: c.SpecDir("Ledger"), Module: "Ledger", Config: kcfg, Workers: 1, Timeout: c.MinutesT(5, 20)})
		if kx == nil {
			return
		}
		if kx.Violated != "" || !kx.Finished {
			c.Infra("Ledger kill family: %s\n%s", kx.Describe(), kx.Tail)
			return
		}
		lead := c.TLC(tlc.Options{SpecDir: c.SpecDir("Ledger"), Module: "Ledger", Config: "LedgerKill_NoBurn.cfg", Workers: 1, Timeout: c.MinutesT(3, 10)})
		if lead != nil {
			c.SetExtra("as_coded_model_violates_NoUndesignedBurn", lead.Violated != "")
		}
		kfile := filepath.Join(base, "kill-edges.ndjson")
		os.WriteFile(kfile, []byte(strings.Join(kx.Lines, "\n")), 0644)
		arg, _ := json.Marshal(map[string]interface{}{"edges": kfile, "dir": filepath.Join(base, "pk"), "procs": 8,
			"walks": c.Pick(20, 300), "maxTours": c.Pick(120, 3000), "focus": focus, "initBal": 2, "budgetSec": c.Pick(60, 300), "tourLen": 6})
		results, at, crash := c.RunChild(string(arg), c.MinutesT(4, 15))
		if crash != "" {
			if crash == "TIMEOUT" {
				c.Infra("kill-family replay timed out at %s", at)
			} else if strings.Contains(crash, "/repo/") {
				c.Violate("crash", "block execution killed the process while replaying "+at, map[string]interface{}{"at": at, "crash": crash})
			} else {
				c.Infra("kill-family replay process died: %s", crash)
			}
			return
		}
		for _, r := range results {
			var co childOut
			if json.Unmarshal([]byte(r), &co) == nil {
				c.SetExtra("kill_family", map[string]int{"model_edges": len(kx.Lines), "behaviours_planned": co.Planned, "behaviours_replayed": co.Results, "blocks": co.Blocks, "not_replayed_time_budget": co.Cut})
				o.Traces += co.Results
				o.Evaluations += co.Blocks
				o.Distinct += co.Nontriv
				for _, v := range co.Viol {
					if relevant(focus, v.Key) {
						c.Violate(v.Key, v.Desc, v.Record)
					} else {
						c.Drift("outside this property (%s): %s", v.Key, v.Desc)
					}
				}
			}
		}
	}
	if focus == "C07" {
		restartScenario(c, base)
	}
	if focus == "C05" {
		candidatesScenario(c, base)
	}
	c.SetExtra("bounds", map[string]interface{}{"export_config": exportCfg})
}

func exportInitBal(cfgName string) int {
	if cfgName == "LedgerExportBig.cfg" {
		return 3
	}
	return 2
}

// relevant maps violation classes to the property that owns them.
func relevant(focus, key string) bool {
	owner := map[string]string{"determinism": "C05", "valid-block-rejected": "C05", "commit-failed": "C05", "crash": "C05",
		"conservation": "C06", "tamper-accepted": "C06", "ledger-mismatch": "C06", "accept-mismatch": "C06",
		"double-spend": "C07", "nonce-or-funds": "C07", "nonce/": "C07"}
	for p, o := range owner {
		if strings.HasPrefix(key, p) {
			return o == focus
		}
	}
	return true
}

func child(c *core.Ctx) {
	var j struct {
		Edges    string `json:"edges"`
		Dir      string `json:"dir"`
		Procs    int    `json:"procs"`
		Walks    int    `json:"walks"`
		Focus    string `json:"focus"`
		InitBal  int    `json:"initBal"`
		MaxTours int    `json:"maxTours"`
		Budget   int    `json:"budgetSec"`
		TourLen  int    `json:"tourLen"`
	}
	if json.Unmarshal([]byte(c.Child), &j) != nil {
		os.Exit(3)
	}
	runtime.GOMAXPROCS(j.Procs)
	b, err := os.ReadFile(j.Edges)
	if err != nil {
		os.Exit(3)
	}
	g, err := mbt.Load(strings.Split(strings.TrimSpace(string(b)), "\n"))
	if err != nil {
		os.Exit(3)
	}
	rng := rand.New(rand.NewSource(c.Seed))
	if j.TourLen == 0 {
		j.TourLen = 12
	}
	paths := g.Tour(j.TourLen, rng)
	if j.MaxTours > 0 && len(paths) > j.MaxTours { // quick tier: a seeded sample of the tour
		rng.Shuffle(len(paths), func(a, b int) { paths[a], paths[b] = paths[b], paths[a] })
		paths = paths[:j.MaxTours]
	}
	paths = append(paths, g.Walks(j.Walks, 10, rng)...)
	// one seeded order for both processes: when the time budget cuts the run, both have replayed a
	// common prefix of the same sequence
	rng.Shuffle(len(paths), func(a, b int) { paths[a], paths[b] = paths[b], paths[a] })
	// directed: storage fills followed by overwrite-and-delete, per sender and alternating - whatever in
	// block execution depends on Go's map iteration order shows only in some runs, so these short
	// behaviours go first and are repeated (every replay builds fresh replicas with fresh maps)
	var directed [][]int
	for _, plan := range [][][2]string{
		{{"a1", "1"}, {"a1", "2"}}, {{"a2", "1"}, {"a2", "2"}}, {{"a1", "1"}, {"a2", "2"}}, {{"a2", "1"}, {"a1", "2"}},
		{{"a1", "1"}, {"a1", "2"}, {"a1", "1"}, {"a1", "2"}}, {{"a1", "1"}, {"a2", "2"}, {"a2", "1"}, {"a1", "2"}},
	} {
		cur, ok := 0, true
		var p []int
		for _, st := range plan {
			found := -1
			for _, ei := range g.Out[cur] {
				var a aAct
				json.Unmarshal(g.Edges[ei].Act, &a)
				if a.Ok && len(a.Blk) == 1 && a.Blk[0].K == "sst" && a.Blk[0].fromAcct() == st[0] && fmt.Sprint(a.Blk[0].A) == st[1] {
					found = ei
					break
				}
			}
			if found < 0 {
				ok = false
				break
			}
			p = append(p, found)
			cur = g.Edges[found].To
		}
		if ok {
			for rep := 0; rep < 4; rep++ {
				directed = append(directed, append(p[:len(p):len(p)], []int{}...))
			}
		}
	}
	paths = append(directed, paths...)
	repeatOK := len(directed)
	started, planned, cut := time.Now(), len(paths), 0
	out := map[string]interface{}{}
	digests := map[string][]blockDigest{}
	var viol []core.Violation
	seen := map[string]bool{}
	nBlocks, nAttacks, nExec, nontriv := 0, 0, 0, 0
	var sample interface{}
	for pi, p := range paths {
		if j.Budget > 0 && time.Since(started) > time.Duration(j.Budget)*time.Second {
			cut = len(paths) - pi
			break
		}
		key := fmt.Sprint(p)
		if seen[key] && pi >= repeatOK {
			continue
		}
		seen[key] = true
		var desc []string
		for _, ei := range p {
			var a aAct
			json.Unmarshal(g.Edges[ei].Act, &a)
			desc = append(desc, fmt.Sprintf("%s ok=%v", descBlock(a), a.Ok))
		}
		fmt.Printf("AT %s\n", strings.Join(desc, " ; "))
		r := replay(g, p, filepath.Join(j.Dir, fmt.Sprintf("b%d", pi)), rng, j.InitBal)
		os.RemoveAll(filepath.Join(j.Dir, fmt.Sprintf("b%d", pi)))
		nBlocks += r.Blocks
		nAttacks += r.Attacks
		nExec += r.Executed
		if r.Executed > 0 {
			nontriv++
		}
		digests[strings.Join(desc, " ; ")] = r.Digests
		if sample == nil && r.Accepted >= 2 {
			sample = map[string]interface{}{"behaviour": desc, "accepted_blocks": r.Accepted, "digests": r.Digests}
		}
		if r.Mismatch != "" {
			if r.Class == "infra" {
				fmt.Fprintln(os.Stderr, "infra:", r.Mismatch)
				continue
			}
			dup := false
			for _, v := range viol {
				if v.Key == r.Class {
					dup = true
				}
			}
			if !dup {
				viol = append(viol, core.Violation{Key: r.Class, Desc: r.Mismatch, Record: map[string]interface{}{"behaviour": desc, "mismatch": r.Mismatch}})
			}
		}
	}
	out["digests"], out["behaviours"], out["blocks"], out["attacks"], out["executed"], out["nontrivial"], out["violations"], out["sample"] =
		digests, len(seen), nBlocks, nAttacks, nExec, nontriv, viol, sample
	out["planned"], out["cut_by_time_budget"] = planned, cut
	bz, _ := json.Marshal(out)
	var buf bytes.Buffer
	buf.WriteString("RESULT ")
	buf.Write(bz)
	buf.WriteString("\nDONE\n")
	os.Stdout.Write(buf.Bytes())
}
