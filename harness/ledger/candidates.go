package ledger

import (
	"encoding/binary"
	"encoding/json"
	"fmt"
	"math/rand"
	"path/filepath"
	"strings"

	"github.com/lianxiangcloud/linkchain/config"
	"github.com/lianxiangcloud/linkchain/libs/common"
	"github.com/lianxiangcloud/linkchain/libs/crypto"
	"github.com/lianxiangcloud/linkchain/state"
	"github.com/lianxiangcloud/linkchain/types"

	"verifh/appx"
	"verifh/core"
	"verifh/mbt"
	"verifh/tlc"
)

// ---- binding of spec/Candidates (C05: "the next validator candidates" are a function of
// the prior state and the block, whoever executes the block and however often) -----------

type cItem struct {
	K string `json:"k"`
	P string `json:"p"`
	F string `json:"f"`
}
type cAct struct {
	Evs []cItem `json:"evs"`
}
type cState struct {
	List   []string       `json:"list"`
	Prod   map[string]int `json:"prod"`
	Score  map[string]int `json:"score"`
	CScore map[string]int `json:"cscore"`
	H      int            `json:"h"`
}

type candWorld struct {
	keys  map[string]crypto.PrivKey
	names map[string]string // address string -> model name
	init  map[string]int64
	order []string
}

func candSlotKey(pub crypto.PubKey) common.Hash {
	key2 := "0x" + common.Bytes2Hex(pub.Bytes()) + string(rune(0))
	lenBuf := make([]byte, 2)
	binary.LittleEndian.PutUint16(lenBuf, uint16(len(key2)))
	key := append([]byte("cand"), state.TagString)
	key = append(key, lenBuf...)
	key = append(key, key2...)
	return crypto.Keccak256Hash(key)
}

func newCandWorld(initScores map[string]int64, order []string) *candWorld {
	w := &candWorld{keys: map[string]crypto.PrivKey{}, names: map[string]string{}, init: initScores, order: order}
	for _, n := range []string{"x", "y", "z"} {
		k := crypto.GenPrivKeyEd25519FromSecret([]byte("verif candidate " + n))
		w.keys[n] = k
		w.names[k.PubKey().Address().String()] = n
	}
	return w
}

func (w *candWorld) coinbase(n string) common.Address {
	return common.BytesToAddress(crypto.Keccak256([]byte("coinbase " + n))[:20])
}

func (w *candWorld) genesisExtras() ([]appx.RawSlot, []*types.CandidateInOrder) {
	var raw []appx.RawSlot
	var cands []*types.CandidateInOrder
	for _, n := range w.order {
		pub := w.keys[n].PubKey()
		js, _ := json.Marshal(state.CandidateJSON{PubKey: "0x" + common.Bytes2Hex(pub.Bytes()), CoinBase: w.coinbase(n), VotingPower: 10, Score: w.init[n]})
		val := append([]byte{1, 2, 3}, js...)
		val = append(val, 0)
		raw = append(raw, appx.RawSlot{Addr: config.ContractCandidatesAddr, Key: candSlotKey(pub), Val: val})
		cands = append(cands, &types.CandidateInOrder{Candidate: types.Candidate{Address: pub.Address(), PubKey: pub, VotingPower: 10, CoinBase: w.coinbase(n)},
			Score: w.init[n], Deposit: 1})
	}
	return raw, cands
}

func (w *candWorld) evidence(it cItem, h uint64, salt int) types.Evidence {
	switch it.K {
	case "award":
		return &types.FaultValidatorsEvidence{BlockHeight: h - 1, Round: 0, Proposer: w.keys[it.P].PubKey(), FaultVal: w.keys[it.F].PubKey()}
	case "fault":
		return &types.FaultValidatorsEvidence{BlockHeight: h - 1, Round: 1 + salt%3, Proposer: w.keys[it.P].PubKey(), FaultVal: w.keys[it.F].PubKey()}
	default: // dup: two signed conflicting prevotes of the same validator
		k := w.keys[it.P]
		mk := func(b byte) *types.Vote {
			v := &types.Vote{ValidatorAddress: k.PubKey().Address(), ValidatorIndex: 0, Height: h - 1, Round: salt % 2, Type: types.VoteTypePrevote,
				BlockID: types.BlockID{Hash: crypto.Keccak256Hash([]byte{b, byte(salt)}), PartsHeader: types.PartSetHeader{Total: 1, Hash: crypto.Keccak256([]byte{b, 7})}}}
			sig, _ := k.Sign(v.SignBytes(appx.ChainID))
			v.Signature = sig
			return v
		}
		return &types.DuplicateVoteEvidence{PubKey: k.PubKey(), VoteA: mk(1), VoteB: mk(2)}
	}
}

// observed candidate list of a replica at its current height, in model terms
func (w *candWorld) observe(e *appx.Env) (cState, string) {
	out := cState{Prod: map[string]int{}, Score: map[string]int{}, CScore: map[string]int{}, List: []string{}}
	tr, err := e.BS.LoadTxsResult(e.App.Height())
	if err != nil || tr == nil {
		return out, fmt.Sprintf("no TxsResult at height %d: %v", e.App.Height(), err)
	}
	raw := ""
	for _, c := range tr.Candidates {
		n := w.names[c.Address.String()]
		out.List = append(out.List, n)
		out.Prod[n], out.Score[n] = c.ProduceInfo, int(c.Score)
		raw += fmt.Sprintf("[%s prod=%d score=%d]", n, c.ProduceInfo, c.Score)
	}
	st := e.App.GetLatestStateDB()
	for _, n := range w.order {
		buff := st.GetState(config.ContractCandidatesAddr, candSlotKey(w.keys[n].PubKey()))
		var cj state.CandidateJSON
		if len(buff) > 4 && json.Unmarshal(buff[3:len(buff)-1], &cj) == nil {
			out.CScore[n] = int(cj.Score)
			raw += fmt.Sprintf("{%s contract=%d}", n, cj.Score)
		}
	}
	return out, raw
}

func descEvs(a cAct) string {
	var s []string
	for _, e := range a.Evs {
		switch e.K {
		case "award":
			s = append(s, "award("+e.P+")")
		case "fault":
			s = append(s, "fault(award "+e.P+", punish "+e.F+")")
		default:
			s = append(s, "dup("+e.P+")")
		}
	}
	return "[" + strings.Join(s, " ") + "]"
}

type candResult struct {
	Blocks   int
	Class    string
	Mismatch string
	Drift    string
}

// candReplay runs one behaviour on three replicas that execute every block a different
// number of times: the proposer (PreRunBlock + CheckBlock), a validator (CheckBlock) and a
// validator that saw the block in two rounds (CheckBlock twice), in trie and flat mode.
func candReplay(g *mbt.Graph, path []int, dir string, rng *rand.Rand, w *candWorld) (res candResult) {
	specs := []struct {
		name   string
		isTrie bool
		checks int
	}{{"proposer/trie", true, 1}, {"validator/flat/once", false, 1}, {"validator/trie/two-rounds", true, 2}}
	var reps []*replica
	defer func() {
		for _, r := range reps {
			r.env.Stop()
		}
	}()
	payer := appx.NewAccount(4242)
	for i, s := range specs {
		d := appx.NewMemDBs(filepath.Join(dir, fmt.Sprintf("c%d", i)))
		raw, cands := w.genesisExtras()
		if err := appx.InitGenesisX(d, s.isTrie, []appx.Alloc{{Addr: payer.Addr, Balance: units(1000)}}, raw, cands); err != nil {
			res.Class, res.Mismatch = "infra", "genesis: "+err.Error()
			return
		}
		e, err := appx.Boot(d, s.isTrie, nil)
		if err != nil {
			res.Class, res.Mismatch = "infra", "boot: "+err.Error()
			return
		}
		reps = append(reps, &replica{name: s.name, env: e, isTrie: s.isTrie})
	}
	P := reps[0]
	nonce := uint64(0)
	for _, ei := range path {
		var act cAct
		var to cState
		json.Unmarshal(g.Edges[ei].Act, &act)
		json.Unmarshal(g.Edges[ei].ToSt, &to)
		res.Blocks++
		h := P.env.App.Height() + 1
		var txs types.Txs
		if rng.Intn(2) == 0 { // the block also moves value (the evidence must not depend on it)
			txs = append(txs, payer.Transfer(nonce, common.BytesToAddress([]byte{0xc5, byte(h)}), units(1)))
			nonce++
		}
		blk := P.env.MakeBlock(h, txs)
		var evs []types.Evidence
		for i, it := range act.Evs {
			evs = append(evs, w.evidence(it, h, rng.Intn(6)+i))
		}
		if len(evs) > 0 {
			blk.AddEvidence(evs)
		}
		blk.EvidenceHash = blk.Evidence.Hash()
		preOK := true
		func() {
			defer func() {
				if r := recover(); r != nil {
					preOK = false
				}
			}()
			P.env.App.PreRunBlock(blk)
		}()
		if !preOK {
			res.Class, res.Mismatch = "determinism/proposer-cannot-build", fmt.Sprintf("height %d evidence %s: PreRunBlock panicked on a block with well-formed evidence", h, descEvs(act))
			return
		}
		var verdicts []string
		all := true
		for ri, r := range reps {
			for k := 0; k < specs[ri].checks; k++ {
				b2, _, err := appx.Redecode(blk)
				if err != nil {
					res.Class, res.Mismatch = "infra", "re-decoding the block: "+err.Error()
					return
				}
				ok := r.env.App.CheckBlock(b2)
				verdicts = append(verdicts, fmt.Sprintf("%s#%d=%v", r.name, k+1, ok))
				all = all && ok
				if k == specs[ri].checks-1 && ok {
					if err := r.env.Commit(b2); err != nil {
						res.Class, res.Mismatch = "commit-failed", fmt.Sprintf("height %d: %s cannot commit the accepted block: %v", h, r.name, err)
						return
					}
				}
			}
		}
		if !all {
			res.Class = "determinism/proposer-block-rejected"
			res.Mismatch = fmt.Sprintf("height %d evidence %s: a block built by the proposer path is not accepted by every execution: %v", h, descEvs(act), verdicts)
			return
		}
		// every replica must have stored the same results, whatever its mode and however often it ran the block
		var ref cState
		var refRaw string
		var refDigest blockDigest
		for ri, r := range reps {
			obs, raw := w.observe(r.env)
			dg := r.digestAt(h)
			if ri == 0 {
				ref, refRaw, refDigest = obs, raw, dg
				continue
			}
			if fmt.Sprint(obs) != fmt.Sprint(ref) {
				res.Class = "determinism/candidates-differ"
				res.Mismatch = fmt.Sprintf("height %d evidence %s: the stored candidate list differs between %s %s and %s %s", h, descEvs(act), reps[0].name, refRaw, r.name, raw)
				return
			}
			if dg != refDigest {
				res.Class = "determinism/replicas-disagree"
				res.Mismatch = fmt.Sprintf("height %d evidence %s: stored results differ between %s %+v and %s %+v", h, descEvs(act), reps[0].name, refDigest, r.name, dg)
				return
			}
		}
		// the transcription (shape): the agreed list is the model's
		want := cState{List: to.List, Prod: map[string]int{}, Score: map[string]int{}, CScore: map[string]int{}}
		if want.List == nil {
			want.List = []string{}
		}
		for _, n := range to.List {
			want.Prod[n], want.Score[n] = to.Prod[n], to.Score[n]
		}
		for _, n := range w.order {
			want.CScore[n] = to.CScore[n]
		}
		if fmt.Sprint(want) != fmt.Sprint(ref) && res.Drift == "" {
			res.Drift = fmt.Sprintf("height %d evidence %s: all replicas agree on %s, the specification says %+v", h, descEvs(act), refRaw, want)
			return // later steps would compare against a state the code is not in
		}
	}
	return
}

// candidatesScenario model-checks spec/Candidates and replays its graph.
func candidatesScenario(c *core.Ctx, base string) {
	cfg, ecfg := "Candidates.cfg", "CandidatesExport.cfg"
	if c.Thorough() {
		cfg, ecfg = "CandidatesBig.cfg", "CandidatesExportBig.cfg"
	}
	res := c.TLC(tlc.Options{SpecDir: c.SpecDir("Candidates"), Module: "MC_Candidates", Config: cfg, Workers: 4, Timeout: c.MinutesT(5, 20)})
	if res == nil {
		return
	}
	if res.Violated != "" || !res.Finished {
		c.Infra("Candidates model: %s\n%s", res.Describe(), res.Tail)
		return
	}
	ex := c.TLC(tlc.Options{SpecDir: c.SpecDir("Candidates"), Module: "MC_Candidates", Config: ecfg, Workers: 1, Timeout: c.MinutesT(5, 20)})
	if ex == nil {
		return
	}
	if ex.Violated != "" || !ex.Finished {
		c.Infra("Candidates export: %s\n%s", ex.Describe(), ex.Tail)
		return
	}
	g, err := mbt.Load(ex.Lines)
	if err != nil {
		c.Infra("candidate edges: %v", err)
		return
	}
	rng := rand.New(rand.NewSource(c.Seed*7919 + 5))
	w := newCandWorld(map[string]int64{"x": 499, "y": 2}, []string{"x", "y"})
	paths := g.Tour(0, rng)
	allTours := len(paths)
	if max := c.Pick(400, 6000); len(paths) > max {
		rng.Shuffle(len(paths), func(i, j int) { paths[i], paths[j] = paths[j], paths[i] })
		paths = paths[:max]
	}
	paths = append(paths, g.Walks(c.Pick(40, 600), 6, rng)...)
	o := c.Out()
	blocks, drifts := 0, 0
	for pi, p := range paths {
		r := candReplay(g, p, filepath.Join(base, fmt.Sprintf("cand%d", pi)), rng, w)
		blocks += r.Blocks
		o.Traces++
		o.Evaluations += r.Blocks
		o.Distinct++
		if r.Drift != "" && drifts < 3 {
			drifts++
			c.Drift("candidates: %s", r.Drift)
		}
		if r.Mismatch == "" {
			continue
		}
		if r.Class == "infra" {
			c.Infra("candidates replay: %s", r.Mismatch)
			return
		}
		var acts []json.RawMessage
		for _, ei := range p {
			acts = append(acts, g.Edges[ei].Act)
		}
		c.Violate(r.Class, r.Mismatch, map[string]interface{}{"spec": "Candidates", "behaviour": acts})
		break
	}
	c.SetExtra("candidates", map[string]interface{}{"model_states": len(g.States), "model_edges": len(g.Edges), "behaviours": len(paths), "behaviours_in_full_tour": allTours, "blocks": blocks,
		"replicas": "proposer/trie (PreRun+Check), validator/flat (Check), validator/trie (Check twice)"})
}
