package ledger

import (
	"encoding/binary"
	"encoding/json"
	"fmt"
	"math"
	"math/big"
	"math/rand"
	"net"
	"path/filepath"
	"sort"
	"strings"
	"sync"
	"time"

	"github.com/lianxiangcloud/linkchain/config"
	"github.com/lianxiangcloud/linkchain/libs/common"
	"github.com/lianxiangcloud/linkchain/libs/crypto"
	dbm "github.com/lianxiangcloud/linkchain/libs/db"
	"github.com/lianxiangcloud/linkchain/libs/log"
	"github.com/lianxiangcloud/linkchain/libs/p2p"
	pcmn "github.com/lianxiangcloud/linkchain/libs/p2p/common"
	"github.com/lianxiangcloud/linkchain/state"
	"github.com/lianxiangcloud/linkchain/types"

	"verifh/appx"
	"verifh/core"
	"verifh/mbt"
	"verifh/tlc"
)

// ---- binding of spec/Candidates (C05: "the next validator candidates" are a function of
// the prior state and the block, whoever executes the block, however often, and whatever
// +2/3 commit for the block that node happens to hold) ----------------------------------

type cItem struct {
	K string `json:"k"`
	P string `json:"p"`
	F string `json:"f"`
}

// label of a step: exec = the block (evidence, class of its LastCommit hash) is executed by every replica;
// commit = CommitBlock on replica R with a seen commit of class Seen
type cAct struct {
	Op       string  `json:"op"`
	Evs      []cItem `json:"evs"`
	Seed     string  `json:"seed"`
	Election bool    `json:"election"`
	R        string  `json:"r"`
	Seen     string  `json:"seen"`
}

// what one replica holds (Candidates.tla, variable node)
type cNode struct {
	List   []string       `json:"list"`
	Prod   map[string]int `json:"prod"`
	Score  map[string]int `json:"score"`
	Dep    map[string]int `json:"dep"`
	Drawn  string         `json:"drawn"`
	CScore map[string]int `json:"cscore"`
}

// the exported projection: a = the first replica of the commit order, z = the last one
type cProj struct {
	H     int      `json:"h"`
	Open  bool     `json:"open"`
	Seed  string   `json:"seed"`
	Pc    int      `json:"pc"`
	A     cNode    `json:"a"`
	Z     cNode    `json:"z"`
	AVals []string `json:"avals"`
}

// the constants of the model instance (printed once by the specification)
type cConsts struct {
	Period      int                 `json:"period"`
	Pledge      map[string]int      `json:"pledge"`
	InitDeposit int                 `json:"initDeposit"`
	Order       []string            `json:"order"`
	InitScore   map[string]int      `json:"initScore"`
	MaxScore    int                 `json:"maxScore"`
	Nume        int                 `json:"nume"`
	Deno        int                 `json:"deno"`
	Upper       int                 `json:"upper"`
	Perm        map[string][]string `json:"perm"`
	Replicas    []string            `json:"replicas"`
	MaxH        int                 `json:"maxH"`
}

const nWhite = 4 // inner validators of the white list (voting power 100 each; candidates have 10)

type candWorld struct {
	k          cConsts
	keys       map[string]crypto.PrivKey
	names      map[string]string // address string -> model name
	byAddr     map[string]crypto.PrivKey
	registered []string // candidates in the order of the contract's "pubkeys" array
	white      []crypto.PrivKey
	addr       map[string]crypto.Address
}

func sysObject(v interface{}) []byte { // 3 header bytes | json | \0, as the system contracts store objects
	js, _ := json.Marshal(v)
	val := append([]byte{1, 2, 3}, js...)
	return append(val, 0)
}

func sysKey(key1, key2 string) common.Hash { // key1 | tagString | len16 | key2
	lenBuf := make([]byte, 2)
	binary.LittleEndian.PutUint16(lenBuf, uint16(len(key2)))
	key := append([]byte(key1), state.TagString)
	key = append(key, lenBuf...)
	key = append(key, key2...)
	return crypto.Keccak256Hash(key)
}

func sysStringArray(items []string) []byte { // tagArray | count16 | (tagString | len16 | item)*
	out := []byte{state.TagArray, byte(len(items)), byte(len(items) >> 8)}
	for _, it := range items {
		out = append(out, state.TagString, byte(len(it)), byte(len(it)>>8))
		out = append(out, it...)
	}
	return out
}

func pubName(pub crypto.PubKey) string { return "0x" + common.Bytes2Hex(pub.Bytes()) + string(rune(0)) }

func candSlotKey(pub crypto.PubKey) common.Hash { return sysKey("cand", pubName(pub)) }

func newCandWorld(k cConsts) *candWorld {
	w := &candWorld{k: k, keys: map[string]crypto.PrivKey{}, names: map[string]string{}, byAddr: map[string]crypto.PrivKey{}, addr: map[string]crypto.Address{}}
	w.registered = append(w.registered, k.Order...)
	var rest []string
	for n := range k.InitScore {
		in := false
		for _, o := range k.Order {
			in = in || o == n
		}
		if !in {
			rest = append(rest, n)
		}
	}
	sort.Strings(rest)
	w.registered = append(w.registered, rest...)
	for _, n := range append(append([]string{}, w.registered...), "z") {
		key := crypto.GenPrivKeyEd25519FromSecret([]byte("verif candidate " + n))
		w.keys[n] = key
		w.addr[n] = key.PubKey().Address()
		w.names[key.PubKey().Address().String()] = n
		w.byAddr[key.PubKey().Address().String()] = key
	}
	for i := 0; i < nWhite; i++ {
		key := crypto.GenPrivKeyEd25519FromSecret([]byte(fmt.Sprintf("verif inner validator %d", i)))
		w.white = append(w.white, key)
		w.names[key.PubKey().Address().String()] = fmt.Sprintf("inner%d", i)
		w.byAddr[key.PubKey().Address().String()] = key
	}
	return w
}

func (w *candWorld) coinbase(n string) common.Address {
	return common.BytesToAddress(crypto.Keccak256([]byte("coinbase " + n))[:20])
}

// genesisExtras: the Coefficient entry (election period, share of candidates that become validators), the white
// list of inner validators, every registered candidate with its score, the pledges, and the stored candidate list.
func (w *candWorld) genesisExtras() ([]appx.RawSlot, []*types.CandidateInOrder) {
	var raw []appx.RawSlot
	raw = append(raw, appx.RawSlot{Addr: config.ContractCoefficientAddr, Key: crypto.Keccak256Hash([]byte("Coefficient")), Val: sysObject(state.CoefficientJSON{
		VotePeriod: uint64(w.k.Period), VoteRate: types.VoteRate{Deno: w.k.Deno, Nume: w.k.Nume, UpperLimit: w.k.Upper},
		CalRate: types.DefaultCalRate(), MaxScore: int64(w.k.MaxScore), UTXOFee: types.DefaultCoefficient().UTXOFee.String()})})
	var wl []string
	for i, key := range w.white {
		pub := key.PubKey()
		wl = append(wl, pubName(pub))
		raw = append(raw, appx.RawSlot{Addr: config.ContractValidatorsAddr, Key: sysKey("Validator", pubName(pub)), Val: sysObject(state.ValidatorJSON{
			PubKey: "0x" + common.Bytes2Hex(pub.Bytes()), CoinBase: w.coinbase(fmt.Sprintf("inner%d", i)), VotingPower: 100})})
	}
	raw = append(raw, appx.RawSlot{Addr: config.ContractValidatorsAddr, Key: crypto.Keccak256Hash([]byte("ValidatorList")), Val: sysStringArray(wl)})
	var pk []string
	for _, n := range w.registered {
		pub := w.keys[n].PubKey()
		pk = append(pk, pubName(pub))
		raw = append(raw, appx.RawSlot{Addr: config.ContractCandidatesAddr, Key: candSlotKey(pub), Val: sysObject(state.CandidateJSON{
			PubKey: "0x" + common.Bytes2Hex(pub.Bytes()), CoinBase: w.coinbase(n), VotingPower: 10, Score: int64(w.k.InitScore[n])})})
		if p := w.k.Pledge[n]; p > 0 { // "electorsMap": tagObject | tagString | len16 | decimal wei \0
			amount := new(big.Int).Mul(big.NewInt(int64(p)), big.NewInt(config.Ether)).String() + string(rune(0))
			val := append([]byte{8, state.TagString, byte(len(amount)), byte(len(amount) >> 8)}, amount...)
			raw = append(raw, appx.RawSlot{Addr: config.ContractPledgeAddr, Key: sysKey("electorsMap", w.coinbase(n).String()+string(rune(0))), Val: val})
		}
	}
	raw = append(raw, appx.RawSlot{Addr: config.ContractCandidatesAddr, Key: crypto.Keccak256Hash([]byte("pubkeys")), Val: sysStringArray(pk)})
	var cands []*types.CandidateInOrder
	for _, n := range w.k.Order {
		pub := w.keys[n].PubKey()
		cands = append(cands, &types.CandidateInOrder{Candidate: types.Candidate{Address: pub.Address(), PubKey: pub, VotingPower: 10, CoinBase: w.coinbase(n)},
			Score: int64(w.k.InitScore[n]), Deposit: int64(w.k.InitDeposit)})
	}
	return raw, cands
}

func (w *candWorld) evidence(it cItem, h uint64, salt int) types.Evidence {
	switch it.K {
	case "award":
		return &types.FaultValidatorsEvidence{BlockHeight: h - 1, Round: 0, Proposer: w.keys[it.P].PubKey(), FaultVal: w.keys[it.F].PubKey()}
	case "fault":
		return &types.FaultValidatorsEvidence{BlockHeight: h - 1, Round: 1 + salt%3, Proposer: w.keys[it.P].PubKey(), FaultVal: w.keys[it.F].PubKey()}
	default: // dup: two signed conflicting prevotes of the same validator
		k := w.keys[it.P]
		mk := func(b byte) *types.Vote {
			v := &types.Vote{ValidatorAddress: k.PubKey().Address(), ValidatorIndex: 0, Height: h - 1, Round: salt % 2, Type: types.VoteTypePrevote,
				BlockID: types.BlockID{Hash: crypto.Keccak256Hash([]byte{b, byte(salt)}), PartsHeader: types.PartSetHeader{Total: 1, Hash: crypto.Keccak256([]byte{b, 7})}}}
			sig, _ := k.Sign(v.SignBytes(appx.ChainID))
			v.Signature = sig
			return v
		}
		return &types.DuplicateVoteEvidence{PubKey: k.PubKey(), VoteA: mk(1), VoteB: mk(2)}
	}
}

// ---- the election, transcribed from its description (Keccak(hash, address) -> random number; rank =
// (S*score/sum + D*deposit/max + R*rand/2^63) / (S+D+R); weighted draw without replacement from a math/rand
// source salted with the first 8 bytes of the hash). Used to instantiate a class of hashes (find a commit whose
// hash induces the order the model names) and as the shape oracle for the stored random numbers. -------------
func (w *candWorld) election(hash common.Hash, cscore map[string]int) (order []string, rnd map[string]int64) {
	type ent struct {
		n    string
		rank *big.Rat
	}
	rnd = map[string]int64{}
	var es []ent
	maxDep, sum := int64(1), int64(0)
	for _, n := range w.registered {
		if cscore[n] > 0 {
			hh := crypto.Keccak256(hash[:], w.addr[n])
			rnd[n] = int64(binary.BigEndian.Uint64(hh[:8]) & math.MaxInt64)
			if d := int64(w.k.Pledge[n]); d > maxDep {
				maxDep = d
			}
			sum += int64(cscore[n])
			es = append(es, ent{n: n})
		}
	}
	cr := types.DefaultCalRate()
	tot := cr.Srate + cr.Drate + cr.Rrate
	for i := range es {
		n := es[i].n
		r := new(big.Rat).Mul(big.NewRat(cr.Srate, tot), big.NewRat(int64(cscore[n]), sum))
		r.Add(r, new(big.Rat).Mul(big.NewRat(cr.Drate, tot), big.NewRat(int64(w.k.Pledge[n]), maxDep)))
		r.Add(r, new(big.Rat).Mul(big.NewRat(cr.Rrate, tot), big.NewRat(rnd[n], math.MaxInt64)))
		es[i].rank = r
	}
	src := rand.New(rand.NewSource(int64(binary.BigEndian.Uint64(hash[:8]))))
	for i := 0; i < len(es)-1; i++ {
		x := new(big.Rat).SetFloat64(src.Float64())
		total := new(big.Rat)
		for _, e := range es[i:] {
			total.Add(total, e.rank)
		}
		x.Mul(x, total)
		acc, j := new(big.Rat), 0
		for k, e := range es[i:] {
			acc.Add(acc, e.rank)
			if x.Cmp(acc) < 0 {
				j = k
				break
			}
		}
		es[i], es[i+j] = es[i+j], es[i]
	}
	for _, e := range es {
		order = append(order, e.n)
	}
	return
}

// order the model's class induces on the scored candidates
func (w *candWorld) classOrder(class string, cscore map[string]int) []string {
	out := []string{}
	for _, n := range w.k.Perm[class] {
		if cscore[n] > 0 {
			out = append(out, n)
		}
	}
	return out
}

// ---- commits: signed precommits of more than 2/3 of the voting power of the block's validator set --------
type commitReq struct {
	vset   *types.ValidatorSet
	height uint64
	bid    types.BlockID
	lane   int              // every holder of a commit has its own lane: another absent validator, other vote times
	want   []map[string]int // contract scores of the elections in which the hash must induce ...
	order  [][]string       // ... this order (class instantiation); empty = any hash will do
}

// make returns a valid commit for the block; among the (unboundedly many: vote times are local clocks) valid
// commits of its lane it returns the first whose hash is in the requested class.
func (w *candWorld) makeCommit(q commitReq) (*types.Commit, int, error) {
	n := q.vset.Size()
	absent := -1 // lane 0 holds every precommit; the others miss one validator each (still above 2/3)
	if q.lane > 0 {
		absent = (q.lane - 1) % n
		_, v := q.vset.GetByIndex(absent)
		if (q.vset.TotalVotingPower()-v.VotingPower)*3 <= q.vset.TotalVotingPower()*2 {
			absent = -1
		}
	}
	votes := make([]*types.Vote, n)
	first := -1
	sign := func(i int, nanos int64) error {
		addr, val := q.vset.GetByIndex(i)
		key := w.byAddr[val.Address.String()]
		if key == nil {
			return fmt.Errorf("no key for validator %x", addr)
		}
		v := &types.Vote{ValidatorAddress: val.Address, ValidatorIndex: i, ValidatorSize: n, Height: q.height, Round: 0,
			Timestamp: time.Unix(int64(appx.BlockTime(q.height)), nanos).UTC(), Type: types.VoteTypePrecommit, BlockID: q.bid}
		sig, err := key.Sign(v.SignBytes(appx.ChainID))
		if err != nil {
			return err
		}
		v.Signature = sig
		votes[i] = v
		return nil
	}
	for i := 0; i < n; i++ {
		if i == absent {
			continue
		}
		if first < 0 {
			first = i
		}
		if err := sign(i, int64(1000*(q.lane*n+i)+7)); err != nil {
			return nil, 0, err
		}
	}
	for trial := 0; trial < 20000; trial++ {
		if trial > 0 { // another valid commit of the lane: the first signer's clock differs
			if err := sign(first, int64(1000000*trial+1000*(q.lane*n+first)+7)); err != nil {
				return nil, 0, err
			}
		}
		cm := &types.Commit{BlockID: q.bid, Precommits: append([]*types.Vote{}, votes...)}
		ok := true
		for i := range q.order {
			got, _ := w.election(cm.Hash(), q.want[i])
			ok = ok && fmt.Sprint(got) == fmt.Sprint(q.order[i])
		}
		if ok {
			if err := q.vset.VerifyCommit(appx.ChainID, q.bid, q.height, cm); err != nil {
				return nil, trial, fmt.Errorf("the harness built an invalid commit: %v", err)
			}
			return cm, trial + 1, nil
		}
	}
	return nil, 20000, fmt.Errorf("no commit of lane %d at height %d whose hash induces %v", q.lane, q.height, q.order)
}

// ---- observation --------------------------------------------------------------------------------------
type candObs struct {
	model cNode    // in model terms (names)
	vals  []string // the elected part of the validators CommitBlock returned
	rand  map[string]int64
	full  string // every stored field of every entry + contract scores (what replicas must agree on)
	valsS string // validators returned by CommitBlock and validators read back for the next height
}

func (w *candWorld) valString(vs []*types.Validator) (string, []string) {
	s, elected := "", []string{}
	for _, v := range vs {
		n := w.names[v.Address.String()]
		id := crypto.Keccak256([]byte(v.Address), v.PubKey.Bytes(), v.CoinBase[:])
		s += fmt.Sprintf("[%s id=%x power=%d]", n, id[:4], v.VotingPower)
		if !strings.HasPrefix(n, "inner") {
			elected = append(elected, n)
		}
	}
	return s, elected
}

func (w *candWorld) observe(e *appx.Env, returned []*types.Validator) (candObs, error) {
	o := candObs{model: cNode{List: []string{}, Prod: map[string]int{}, Score: map[string]int{}, Dep: map[string]int{}, CScore: map[string]int{}}, rand: map[string]int64{}}
	h := e.App.Height()
	tr, err := e.BS.LoadTxsResult(h)
	if err != nil || tr == nil {
		return o, fmt.Errorf("no TxsResult at height %d: %v", h, err)
	}
	for _, c := range tr.Candidates {
		n := w.names[c.Address.String()]
		o.model.List = append(o.model.List, n)
		o.model.Prod[n], o.model.Score[n], o.model.Dep[n] = c.ProduceInfo, int(c.Score), int(c.Deposit)
		o.rand[n] = c.Rand
		id := crypto.Keccak256([]byte(c.Address), c.PubKey.Bytes(), c.CoinBase[:]) // address, public key and coinbase of the entry
		o.full += fmt.Sprintf("[%s id=%x power=%d prod=%d deposit=%d score=%d rand=%d rank=%d]", n, id[:4], c.VotingPower, c.ProduceInfo, c.Deposit, c.Score, c.Rand, c.Rank)
	}
	st := e.App.GetLatestStateDB()
	for _, n := range w.registered {
		buff := st.GetState(config.ContractCandidatesAddr, candSlotKey(w.keys[n].PubKey()))
		var cj state.CandidateJSON
		if len(buff) > 4 && json.Unmarshal(buff[3:len(buff)-1], &cj) == nil {
			o.model.CScore[n] = int(cj.Score)
			o.full += fmt.Sprintf("{%s contract=%d punished@%d}", n, cj.Score, cj.PunishHeight)
		}
	}
	ret, elected := w.valString(returned)
	next, _ := w.valString(e.App.GetValidators(h))
	o.vals, o.valsS = elected, "returned by CommitBlock: "+ret+" stored for the next height: "+next
	return o, nil
}

func descEvs(a cAct) string {
	var s []string
	for _, e := range a.Evs {
		switch e.K {
		case "award":
			s = append(s, "award("+e.P+")")
		case "fault":
			s = append(s, "fault(award "+e.P+", punish "+e.F+")")
		default:
			s = append(s, "dup("+e.P+")")
		}
	}
	return "[" + strings.Join(s, " ") + "]"
}

func modelString(n cNode, reg []string) string {
	s := ""
	for _, c := range n.List {
		s += fmt.Sprintf("[%s prod=%d score=%d deposit=%d]", c, n.Prod[c], n.Score[c], n.Dep[c])
	}
	for _, c := range reg {
		s += fmt.Sprintf("{%s contract=%d}", c, n.CScore[c])
	}
	return s
}

type candResult struct {
	Blocks    int
	Commits   int
	Elections int // election heights committed by at least two replicas
	Discrim   int // ... at which the election, seeded from the replicas' seen commits, would have differed
	Trials    int // commits built while instantiating classes
	Class     string
	Mismatch  string
	Drift     string
}

var candP2P struct {
	once sync.Once
	cm   *p2p.ConManager
	err  error
}

// the election reports the candidates to the p2p connection manager: the application gets one (a switch
// without listener, the plain bootstrap table; nothing is started, no sockets)
func candConManager() (*p2p.ConManager, error) {
	candP2P.once.Do(func() {
		oldL, oldT := p2p.ListenerBindFunc, p2p.DefaultNewTableFunc
		defer func() { p2p.ListenerBindFunc, p2p.DefaultNewTableFunc = oldL, oldT }()
		p2p.ListenerBindFunc = func(types.NodeType, string, string, log.Logger) (net.Listener, *p2p.NetAddress, *net.UDPConn, bool) {
			return nil, nil, nil, false
		}
		p2p.DefaultNewTableFunc = func(sw *p2p.Switch, seeds []*pcmn.Node) error { return sw.DefaultNewTable(seeds, false, false) }
		sw, err := p2p.NewP2pManager(log.NewNopLogger(), crypto.GenPrivKeyEd25519FromSecret([]byte("verif p2p")), config.DefaultP2PConfig(), p2p.NodeInfo{}, nil, dbm.NewMemDB())
		if err != nil {
			candP2P.err = err
			return
		}
		if candP2P.cm = sw.GetConManager(); candP2P.cm == nil {
			candP2P.err = fmt.Errorf("the switch has no connection manager")
		}
	})
	return candP2P.cm, candP2P.err
}

type candReplica struct {
	*replica
	abs      string // replica of the model
	checks   int    // executions of the block by CheckBlock
	fastSync bool
}

// a CommitBlock that waits for its seen commit (fast sync: the LastCommit of the following block)
type deferredCommit struct {
	blk    *types.Block
	height uint64
	act    cAct
	evs    string
	want   cNode
	wantV  []string
	cscore map[string]int
	vset   *types.ValidatorSet
	bid    types.BlockID
	class  string
}

// candReplay runs one behaviour on four replicas that execute every block a different number of times and
// commit it with different seen commits: the proposer (PreRunBlock + CheckBlock, trie), a validator (CheckBlock,
// flat), a validator that saw the block in two rounds (CheckBlock twice, trie), and a node on the fast-sync path
// (CheckBlock, then CommitBlock with the LastCommit of the FOLLOWING block, flat).
func candReplay(g *mbt.Graph, path []int, dir string, rng *rand.Rand, w *candWorld) (res candResult) {
	specs := []struct {
		name     string
		isTrie   bool
		checks   int
		fastSync bool
	}{{"proposer/trie", true, 1, false}, {"validator/flat/once", false, 1, false}, {"validator/trie/two-rounds", true, 2, false}, {"fast-sync/flat", false, 1, true}}
	if len(w.k.Replicas) != len(specs) {
		res.Class, res.Mismatch = "infra", fmt.Sprintf("the model has %d replicas, the binding %d", len(w.k.Replicas), len(specs))
		return
	}
	cm, err := candConManager()
	if err != nil {
		res.Class, res.Mismatch = "infra", "p2p connection manager: "+err.Error()
		return
	}
	var reps []*candReplica
	byAbs := map[string]*candReplica{}
	defer func() {
		for _, r := range reps {
			r.env.Stop()
		}
	}()
	payer := appx.NewAccount(4242)
	for i, s := range specs {
		d := appx.NewMemDBs(filepath.Join(dir, fmt.Sprintf("c%d", i)))
		raw, cands := w.genesisExtras()
		if err := appx.InitGenesisX(d, s.isTrie, []appx.Alloc{{Addr: payer.Addr, Balance: units(1000)}}, raw, cands); err != nil {
			res.Class, res.Mismatch = "infra", "genesis: "+err.Error()
			return
		}
		mc := appx.MempoolConfig()
		if i > 0 { // no transaction is ever offered to these pools: the (empty) signature cache is left out on all but the proposer
			mc.CacheSize = 0
		}
		e, err := appx.Boot(d, s.isTrie, mc)
		if err != nil {
			res.Class, res.Mismatch = "infra", "boot: "+err.Error()
			return
		}
		e.App.SetConm(cm)
		r := &candReplica{replica: &replica{name: s.name, env: e, isTrie: s.isTrie}, abs: w.k.Replicas[i], checks: s.checks, fastSync: s.fastSync}
		reps = append(reps, r)
		byAbs[r.abs] = r
	}
	P := reps[0]
	fail := func(class, format string, a ...interface{}) {
		res.Class, res.Mismatch = class, fmt.Sprintf(format, a...)
	}

	// per height: what the replicas that have committed it hold (reference = the first one)
	type held struct {
		name   string
		obs    candObs
		digest blockDigest
		whatIf string // the list an election seeded from this replica's seen commit would have stored
	}
	committed := map[uint64][]held{}
	elected := map[uint64]bool{}
	vsets := map[uint64]*types.ValidatorSet{0: types.NewValidatorSet(P.env.App.GetValidators(0))} // validators that sign block h+1
	if vsets[0].Size() != nWhite+(len(w.k.Order)*w.k.Nume/w.k.Deno) {
		fail("infra", "genesis validator set has %d members", vsets[0].Size())
		return
	}

	// commitOn runs CommitBlock on one replica and compares with the replicas that already committed the height
	commitOn := func(r *candReplica, b *types.Block, seen *types.Commit, d deferredCommit) bool {
		h := d.height
		vals, err := r.env.App.CommitBlock(b, b.MakePartSet(65536), seen, r.fastSync)
		if err != nil {
			fail("commit-failed", "height %d: %s cannot commit the accepted block: %v", h, r.name, err)
			return false
		}
		res.Commits++
		obs, err := w.observe(r.env, vals)
		if err != nil {
			fail("commit-failed", "height %d: %s: %v", h, r.name, err)
			return false
		}
		me := held{name: r.name, obs: obs, digest: r.digestAt(h)}
		if d.act.Election {
			l, rn := w.election(seen.Hash(), d.cscore)
			me.whatIf = fmt.Sprint(l, rn)
		}
		if prev := committed[h]; len(prev) > 0 {
			ref := prev[0]
			where := fmt.Sprintf("height %d evidence %s", h, d.evs)
			if d.act.Election {
				where += " (election)"
			}
			if obs.full != ref.obs.full {
				fail("determinism/candidates-differ", "%s: the stored candidate list differs between %s %s and %s %s (each node committed the block with its own valid +2/3 commit)", where, ref.name, ref.obs.full, r.name, obs.full)
				return false
			}
			if obs.valsS != ref.obs.valsS {
				fail("determinism/next-validators-differ", "%s: the next validator set differs between %s %s and %s %s", where, ref.name, ref.obs.valsS, r.name, obs.valsS)
				return false
			}
			if me.digest != ref.digest {
				fail("determinism/replicas-disagree", "%s: stored results differ between %s %+v and %s %+v", where, ref.name, ref.digest, r.name, me.digest)
				return false
			}
			if d.act.Election && !elected[h] {
				elected[h] = true
				res.Elections++
			}
		}
		committed[h] = append(committed[h], me)
		if d.act.Election && len(committed[h]) == len(reps) {
			distinct := map[string]bool{}
			for _, x := range committed[h] {
				distinct[x.whatIf] = true
			}
			if len(distinct) > 1 {
				res.Discrim++
			}
		}
		if vsets[h] == nil {
			vsets[h] = types.NewValidatorSet(vals)
		}
		// the transcription (shape): what the replica holds is the model's committed node
		if res.Drift == "" {
			got := modelString(obs.model, w.registered) + fmt.Sprint(" validators ", obs.vals)
			want := modelString(d.want, w.registered) + fmt.Sprint(" validators ", d.wantV)
			if got != want {
				res.Drift = fmt.Sprintf("height %d evidence %s: %s holds %s, the specification says %s", h, d.evs, r.name, got, want)
			} else if d.act.Election {
				if _, rn := w.election(b.LastCommit.Hash(), d.cscore); fmt.Sprint(rn) != fmt.Sprint(obs.rand) {
					res.Drift = fmt.Sprintf("height %d: random numbers of the elected list on %s are %v, Keccak(LastCommit hash, address) gives %v", h, r.name, obs.rand, rn)
				}
			}
		}
		return true
	}

	var (
		cur      *types.Block // the open block (as built by the proposer)
		curAct   cAct
		curH     uint64
		curBid   types.BlockID
		curScore map[string]int // contract scores after the open block's evidence
		pending  *deferredCommit
		nonce    uint64
	)
	// the canonical commit of the previous block: LastCommit of the next block and seen commit of the fast-sync node
	canonical := func(next *cAct, nextScore map[string]int) (*types.Commit, bool) {
		if pending == nil {
			return nil, true
		}
		q := commitReq{vset: pending.vset, height: pending.height, bid: pending.bid, lane: len(reps)}
		if pending.act.Election { // the class the model gives the fast-sync node's seen commit
			q.want, q.order = append(q.want, pending.cscore), append(q.order, w.classOrder(pending.class, pending.cscore))
		}
		if next != nil && next.Election { // the class of the next block's LastCommit hash
			q.want, q.order = append(q.want, nextScore), append(q.order, w.classOrder(next.Seed, nextScore))
		}
		cmt, trials, err := w.makeCommit(q)
		res.Trials += trials
		if err != nil {
			fail("infra", "%v", err)
			return nil, false
		}
		return cmt, true
	}
	flush := func(cmt *types.Commit) bool {
		if pending == nil {
			return true
		}
		d := *pending
		pending = nil
		return commitOn(byAbs[d.act.R], d.blk, cmt, d)
	}

	for _, ei := range path {
		var act cAct
		var to cProj
		json.Unmarshal(g.Edges[ei].Act, &act)
		json.Unmarshal(g.Edges[ei].ToSt, &to)
		if res.Drift != "" && act.Op == "exec" {
			break // the open block was committed and compared on every replica; later blocks would start from a state the model is not in
		}
		switch act.Op {
		case "exec":
			res.Blocks++
			h := P.env.App.Height() + 1
			lc := &types.Commit{} // the first block carries the empty commit
			if h > 1 {
				if pending == nil {
					fail("infra", "height %d: the previous block has no canonical commit (behaviour not block-aligned)", h)
					return
				}
				var ok bool
				if lc, ok = canonical(&act, to.A.CScore); !ok {
					return
				}
				if !flush(lc) {
					return
				}
			}
			var txs types.Txs
			if rng.Intn(2) == 0 { // the block also moves value (the evidence must not depend on it)
				txs = append(txs, payer.Transfer(nonce, common.BytesToAddress([]byte{0xc5, byte(h)}), units(1)))
				nonce++
			}
			blk := P.env.MakeBlock(h, txs)
			blk.LastCommit = lc
			blk.LastCommitHash = lc.Hash()
			var evs []types.Evidence
			for i, it := range act.Evs {
				evs = append(evs, w.evidence(it, h, rng.Intn(6)+i))
			}
			if len(evs) > 0 {
				blk.AddEvidence(evs)
			}
			blk.EvidenceHash = blk.Evidence.Hash()
			preOK := true
			func() {
				defer func() {
					if r := recover(); r != nil {
						preOK = false
					}
				}()
				P.env.App.PreRunBlock(blk)
			}()
			if !preOK {
				fail("determinism/proposer-cannot-build", "height %d evidence %s: PreRunBlock panicked on a block with well-formed evidence", h, descEvs(act))
				return
			}
			var verdicts []string
			all := true
			for _, r := range reps {
				for k := 0; k < r.checks; k++ {
					b2, _, err := appx.Redecode(blk)
					if err != nil {
						fail("infra", "re-decoding the block: %v", err)
						return
					}
					if b2.LastCommit.Hash() != lc.Hash() {
						fail("infra", "the LastCommit does not survive the block encoding")
						return
					}
					ok := r.env.App.CheckBlock(b2)
					verdicts = append(verdicts, fmt.Sprintf("%s#%d=%v", r.name, k+1, ok))
					all = all && ok
				}
			}
			if !all {
				fail("determinism/proposer-block-rejected", "height %d evidence %s: a block built by the proposer path is not accepted by every execution: %v", h, descEvs(act), verdicts)
				return
			}
			b2, ps, err := appx.Redecode(blk)
			if err != nil {
				fail("infra", "re-decoding the block: %v", err)
				return
			}
			cur, curAct, curH, curScore = blk, act, h, to.A.CScore
			curBid = types.BlockID{Hash: b2.Hash(), PartsHeader: ps.Header()}
		case "commit":
			r := byAbs[act.R]
			if cur == nil || r == nil {
				fail("infra", "commit step without an open block")
				return
			}
			b2, _, err := appx.Redecode(cur)
			if err != nil {
				fail("infra", "re-decoding the block: %v", err)
				return
			}
			d := deferredCommit{blk: b2, height: curH, act: curAct, evs: descEvs(curAct), want: to.A, wantV: to.AVals, cscore: curScore, vset: vsets[curH-1], bid: curBid, class: act.Seen}
			d.act.R = act.R
			if r.fastSync { // its seen commit is the LastCommit of the block that follows
				pending = &d
				continue
			}
			lane := 0
			for i, x := range reps {
				if x == r {
					lane = i
				}
			}
			q := commitReq{vset: d.vset, height: curH, bid: curBid, lane: lane}
			if curAct.Election { // the class the model gives this replica's seen commit (what the election would make of it)
				q.want, q.order = append(q.want, curScore), append(q.order, w.classOrder(act.Seen, curScore))
			}
			seen, trials, err := w.makeCommit(q)
			res.Trials += trials
			if err != nil {
				fail("infra", "%v", err)
				return
			}
			if !commitOn(r, b2, seen, d) {
				return
			}
		}
	}
	// the last block's canonical commit (the fast-sync node learns it from the next proposer)
	if pending != nil {
		cmt, ok := canonical(nil, nil)
		if !ok || !flush(cmt) {
			return
		}
	}
	return
}

// candExportReplay exports one instance of spec/Candidates (its invariants are checked on the way) and replays
// behaviours of the graph until the time budget is used. ok=false: a verdict was recorded (violation or infra).
func candExportReplay(c *core.Ctx, base, ecfg string, budget func(tlcWall float64) time.Duration) (stats map[string]interface{}, tot candResult, ok bool) {
	started := time.Now()
	ex := c.TLC(tlc.Options{SpecDir: c.SpecDir("Candidates"), Module: "MC_Candidates", Config: ecfg, Workers: 1, Timeout: c.MinutesT(5, 20)})
	if ex == nil {
		return
	}
	if ex.Violated != "" || !ex.Finished {
		c.Infra("Candidates export %s: %s\n%s", ecfg, ex.Describe(), ex.Tail)
		return
	}
	var k struct {
		C *cConsts `json:"consts"`
	}
	for _, l := range ex.Lines {
		if strings.HasPrefix(l, `{"consts"`) {
			json.Unmarshal([]byte(l), &k)
			break
		}
	}
	if k.C == nil || k.C.Period == 0 || len(k.C.Replicas) == 0 {
		c.Infra("candidate export %s: the constants of the instance were not printed", ecfg)
		return
	}
	g, err := mbt.Load(ex.Lines)
	if err != nil {
		c.Infra("candidate edges %s: %v", ecfg, err)
		return
	}
	rng := rand.New(rand.NewSource(c.Seed*7919 + 5))
	w := newCandWorld(*k.C)
	// thorough: a tour that covers every edge of the graph; quick: seeded random walks. Every behaviour is continued
	// by a random walk to the last height (all replicas commit every block; the election and the blocks after it
	// are reached).
	var paths [][]int
	allTours := 0
	if c.Thorough() {
		paths = g.Tour(0, rng)
		allTours = len(paths)
	}
	for i := 0; i < c.Pick(400, 600); i++ {
		paths = append(paths, nil)
	}
	for i := range paths {
		p := append([]int{}, paths[i]...)
		cur := 0
		if len(p) > 0 {
			cur = g.Edges[p[len(p)-1]].To
		}
		for len(g.Out[cur]) > 0 {
			ei := g.Out[cur][rng.Intn(len(g.Out[cur]))]
			p = append(p, ei)
			cur = g.Edges[ei].To
		}
		paths[i] = p
	}
	if c.Thorough() { // the time budget cuts the tail: walks and tour behaviours are mixed
		rng.Shuffle(len(paths), func(i, j int) { paths[i], paths[j] = paths[j], paths[i] })
	}
	tlcWall := time.Since(started).Seconds()
	limit := budget(tlcWall)
	o := c.Out()
	drifts, replayed := 0, 0
	replayStart := time.Now()
	ok = true
	for pi, p := range paths {
		if time.Since(replayStart) > limit {
			break
		}
		r := candReplay(g, p, filepath.Join(base, fmt.Sprintf("cand%d", pi)), rng, w)
		replayed++
		tot.Blocks += r.Blocks
		tot.Commits += r.Commits
		tot.Elections += r.Elections
		tot.Discrim += r.Discrim
		tot.Trials += r.Trials
		o.Traces++
		o.Evaluations += r.Blocks
		o.Distinct++
		if r.Drift != "" && drifts < 3 {
			drifts++
			c.Drift("candidates: %s", r.Drift)
		}
		if r.Mismatch == "" {
			continue
		}
		ok = false
		if r.Class == "infra" {
			c.Infra("candidates replay: %s", r.Mismatch)
			break
		}
		var acts []json.RawMessage
		for _, ei := range p {
			acts = append(acts, g.Edges[ei].Act)
		}
		c.Violate(r.Class, r.Mismatch, map[string]interface{}{"spec": "Candidates", "config": ecfg, "behaviour": acts})
		break
	}
	stats = map[string]interface{}{"config": ecfg, "model_states": len(g.States), "model_edges": len(g.Edges), "behaviours": replayed, "behaviours_planned": len(paths),
		"behaviours_in_full_tour": allTours, "not_replayed_time_budget": len(paths) - replayed, "blocks": tot.Blocks, "commit_block_calls": tot.Commits,
		"elections_compared": tot.Elections, "elections_at_which_the_seen_commits_would_disagree": tot.Discrim,
		"commits_built_to_instantiate_hash_classes": tot.Trials, "vote_period": k.C.Period, "heights": k.C.MaxH,
		"tlc_and_graph_wall_s": tlcWall, "replay_wall_s": time.Since(replayStart).Seconds()}
	return
}

// candidatesScenario model-checks spec/Candidates and replays its graph.
func candidatesScenario(c *core.Ctx, base string) {
	started := time.Now()
	cfg, ecfgs := "Candidates.cfg", []string{"CandidatesExport.cfg"}
	if c.Thorough() {
		// the second exported instance has an election at every second height: the second one starts from an elected list
		cfg, ecfgs = "CandidatesBig.cfg", []string{"CandidatesExportBig.cfg", "CandidatesExportP2.cfg"}
	}
	// the design instance (more evidence per block, more heights than the exported one) and the what-if in which the
	// election is seeded from the node's seen commit run beside the export
	var design, whatIf *tlc.Result
	var wg sync.WaitGroup
	wg.Add(2)
	go func() {
		defer wg.Done()
		design = c.TLC(tlc.Options{SpecDir: c.SpecDir("Candidates"), Module: "MC_Candidates", Config: cfg, Workers: c.Pick(2, 4), Timeout: c.MinutesT(5, 20), OnLine: func(string) {}})
	}()
	go func() {
		defer wg.Done()
		whatIf = c.TLC(tlc.Options{SpecDir: c.SpecDir("Candidates"), Module: "MC_Candidates", Config: "CandidatesSeenSeed.cfg", Workers: 1, Timeout: c.MinutesT(5, 10), OnLine: func(string) {}})
	}()
	var all []map[string]interface{}
	elections, discrim := 0, 0
	ok := true
	for _, ecfg := range ecfgs {
		// quick: the whole scenario stays below about 40 s
		st, tot, good := candExportReplay(c, base, ecfg, func(tlcWall float64) time.Duration {
			if c.Thorough() {
				return 120 * time.Second
			}
			return time.Duration(math.Max(8, math.Min(22, 38-tlcWall)) * float64(time.Second))
		})
		if st != nil {
			all = append(all, st)
		}
		elections += tot.Elections
		discrim += tot.Discrim
		if !good {
			ok = false
			break
		}
	}
	wg.Wait()
	if design != nil && (design.Violated != "" || !design.Finished) {
		c.Infra("Candidates model: %s\n%s", design.Describe(), design.Tail)
		ok = false
	}
	if whatIf != nil && whatIf.Violated != "ReplicasAgree" {
		c.Infra("vacuous: the Candidates model with the election seeded from the seen commit does not violate ReplicasAgree: %s\n%s", whatIf.Describe(), whatIf.Tail)
		ok = false
	}
	if ok && design != nil && whatIf != nil && (elections == 0 || discrim == 0) {
		c.Infra("vacuous: %d elections replayed, at %d of them the replicas' seen commits would have given different lists", elections, discrim)
	}
	wi := ""
	if whatIf != nil {
		wi = whatIf.Violated
	}
	c.SetExtra("candidates", map[string]interface{}{"exports": all, "design_config": cfg, "what_if_seed_from_seen_commit_violates": wi, "total_wall_s": time.Since(started).Seconds(),
		"replicas": "proposer/trie (PreRun+Check), validator/flat (Check), validator/trie (Check twice), fast-sync/flat (Check, CommitBlock with the next block's LastCommit); every replica commits every block with its own valid +2/3 commit"})
}
