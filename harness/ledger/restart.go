package ledger

import (
	"fmt"
	"math/big"
	"path/filepath"

	"github.com/lianxiangcloud/linkchain/types"

	"verifh/appx"
	"verifh/core"
)

// offer builds a one-transaction block at the next height and reports whether the
// application accepts it on the proposer and the validator path.
func offer(e *appx.Env, tx types.Tx) (accepted bool) {
	blk := e.MakeBlock(e.App.Height()+1, types.Txs{tx})
	ok := true
	func() {
		defer func() {
			if r := recover(); r != nil {
				ok = false
			}
		}()
		e.App.PreRunBlock(blk)
	}()
	if !ok {
		return false
	}
	b2, _, err := appx.Redecode(blk)
	if err != nil || !e.App.CheckBlock(b2) {
		return false
	}
	return e.Commit(b2) == nil
}

// restartScenario (C07 "across node restarts"): a confidential output is spent in block 2;
// the node crashes after the block store was written and before SaveUtxo; after the
// restart the same output is offered again. Control: without the crash it is refused.
func restartScenario(c *core.Ctx, base string) {
	w := newWorld([]string{"a1", "a2"}, []string{"w1"}, 3)
	d := appx.NewMemDBs(filepath.Join(base, "restart0"))
	if err := appx.InitGenesis(d, true, w.genesis()); err != nil {
		c.Infra("restart scenario genesis: %v", err)
		return
	}
	e, err := appx.Boot(d, true, nil)
	if err != nil {
		c.Infra("restart scenario boot: %v", err)
		return
	}
	dep, coins, err := w.accts["a1"].Deposit(0, []*appx.Wallet{w.wallets["w1"]}, []*big.Int{units(1)}, appx.DepositFee(units(1)))
	if err != nil || !offer(e, dep) {
		c.Infra("restart scenario: deposit not committed (%v)", err)
		return
	}
	coin := coins[0]
	if !e.Locate(coin) {
		c.Infra("restart scenario: coin not found")
		return
	}
	before := e.DBs.Clone(filepath.Join(base, "restart-before")) // every store as it is before block 2
	spend := func(to string) types.Tx {
		fee := appx.Fee(e.SpendFeeGas(coin.Amount))
		addr := w.accts[to].Addr
		tx, _, err := appx.Spend(coin, coin.Amount, &addr, new(big.Int).Sub(coin.Amount, fee), nil, nil)
		if err != nil {
			return nil
		}
		return tx
	}
	if tx := spend("a2"); tx == nil || !offer(e, tx) {
		c.Infra("restart scenario: the honest spend was not committed")
		return
	}
	// control: no crash
	ctl := e.DBs.Clone(filepath.Join(base, "restart-ctl"))
	ce, err := appx.Boot(ctl, true, nil)
	if err != nil {
		c.Infra("restart scenario control boot: %v", err)
		return
	}
	controlAccepted := offer(ce, spend("a1"))
	ce.Stop()
	// crash image: block 2 in block store, state, tx index; UTXO store from before SaveUtxo
	img := e.DBs.Clone(filepath.Join(base, "restart-img"))
	img.UtxoKimg, img.UtxoOut, img.UtxoTokenOut = before.UtxoKimg, before.UtxoOut, before.UtxoTokenOut
	e.Stop()
	ie, err := appx.Boot(img, true, nil)
	if err != nil {
		c.Drift("restart scenario: the node does not start on the crash image: %v", err)
		return
	}
	defer ie.Stop()
	c.AddTraces(2)
	if controlAccepted {
		c.Violate("double-spend/accepted", "a second spend of a spent confidential output is accepted in a later block (no crash involved)", map[string]interface{}{"scenario": "restart control"})
		return
	}
	if offer(ie, spend("a1")) {
		c.Violate("double-spend/after-crash-restart",
			fmt.Sprintf("height %d: after a crash between the block-store write and SaveUtxo and a restart, the output spent in block 2 is spent again and committed", ie.App.Height()),
			map[string]interface{}{"crash_image": "all stores after block 2, UTXO store (key images, outputs) as before block 2", "control_without_crash": "refused"})
	}
}
