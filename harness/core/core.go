// Package core holds what every property check shares: the run context (tier, seed,
// paths), the outcome record, the evidence writer (EVIDENCE.schema.json) and the
// known-findings matcher.
package core

import (
	"bufio"
	"bytes"
	"context"
	"crypto/sha1"
	"encoding/json"
	"fmt"
	"io/ioutil"
	"math/rand"
	"os"
	"os/exec"
	"path/filepath"
	"sort"
	"strconv"
	"strings"
	"sync"
	"time"

	"verifh/tlc"
)

// Ctx is the context of one check run.
type Ctx struct {
	ID     string // C01..C20
	Tier   string // quick | thorough
	Seed   int64
	Root   string // /verif
	Replay string // path of a replay file, "" for a normal run
	Child  string // non-empty: this process is an isolated job of the check (see RunChild)
	Rng    *rand.Rand
	Start  time.Time

	mu  sync.Mutex
	out *Outcome
}

// Violation is one property-level failure observed on the real code.
type Violation struct {
	Key    string      `json:"key"`    // stable identifier of the failing input / call site / history class
	Desc   string      `json:"desc"`   // what failed
	Record interface{} `json:"record"` // abstract behaviour + concrete instantiation + first mismatching observable
}

// Outcome is what a check reports.
type Outcome struct {
	Level       string
	States      int
	Transitions int
	Traces      int // behaviours replayed into the real code + traces validated against the spec
	Evaluations int
	Distinct    int
	Rule        string
	Samples     []interface{}
	Exhaustive  bool
	Explanation string
	Assumptions []string
	Trusted     []string
	CheckerCmd  string
	Extra       map[string]interface{}
	Violations  []Violation
	Drift       []string // pi_shape mismatches (never fatal below the threshold)
	Infra       []string // infrastructure failures: exit 2
	TLCRuns     []string
}

func NewCtx(id, tier string, seed int64, root string) *Ctx {
	return &Ctx{ID: id, Tier: tier, Seed: seed, Root: root, Rng: rand.New(rand.NewSource(seed)), Start: time.Now(),
		out: &Outcome{Level: "model_checking", Extra: map[string]interface{}{}}}
}

func (c *Ctx) Out() *Outcome                { return c.out }
func (c *Ctx) Thorough() bool               { return c.Tier == "thorough" }
func (c *Ctx) SpecDir(module string) string { return filepath.Join(c.Root, "spec", module) }

// Pick returns q in the quick tier and t in the thorough tier.
func (c *Ctx) Pick(q, t int) int {
	if c.Thorough() {
		return t
	}
	return q
}

func (c *Ctx) Violate(key, desc string, record interface{}) {
	c.mu.Lock()
	defer c.mu.Unlock()
	for _, v := range c.out.Violations {
		if v.Key == key {
			return // one record per key
		}
	}
	c.out.Violations = append(c.out.Violations, Violation{Key: key, Desc: desc, Record: record})
}

func (c *Ctx) Infra(format string, a ...interface{}) {
	c.mu.Lock()
	defer c.mu.Unlock()
	c.out.Infra = append(c.out.Infra, fmt.Sprintf(format, a...))
}

func (c *Ctx) Drift(format string, a ...interface{}) {
	c.mu.Lock()
	defer c.mu.Unlock()
	if len(c.out.Drift) < 50 {
		c.out.Drift = append(c.out.Drift, fmt.Sprintf(format, a...))
	}
}

func (c *Ctx) Sample(s interface{}) {
	c.mu.Lock()
	defer c.mu.Unlock()
	if len(c.out.Samples) < 6 {
		c.out.Samples = append(c.out.Samples, s)
	}
}

func (c *Ctx) AddTraces(n int) {
	c.mu.Lock()
	c.out.Traces += n
	c.mu.Unlock()
}
func (c *Ctx) AddEvals(n int) {
	c.mu.Lock()
	c.out.Evaluations += n
	c.mu.Unlock()
}
func (c *Ctx) SetExtra(k string, v interface{}) {
	c.mu.Lock()
	c.out.Extra[k] = v
	c.mu.Unlock()
}

// TLC runs the model checker and accounts the state counts in the outcome. A model
// level property violation is returned to the caller as a lead (res.Violated); any
// other abnormal end is recorded as an infrastructure failure.
func (c *Ctx) TLC(o tlc.Options) *tlc.Result {
	res, err := tlc.Run(o)
	if err != nil {
		c.Infra("tlc %s/%s: %v", o.Module, o.Config, err)
		return nil
	}
	c.mu.Lock()
	c.out.States += res.Distinct
	c.out.Transitions += res.Generated
	c.out.TLCRuns = append(c.out.TLCRuns, fmt.Sprintf("%s %s: %s", o.Module, o.Config, res.Describe()))
	if c.out.CheckerCmd == "" {
		c.out.CheckerCmd = res.Cmd
	}
	c.mu.Unlock()
	if res.ErrorText != "" && res.Violated == "" {
		c.Infra("tlc %s/%s error: %s\n%s", o.Module, o.Config, res.ErrorText, res.Tail)
		return nil
	}
	return res
}

// ---- known findings -------------------------------------------------------

type Finding struct {
	Property string `json:"property"`
	Key      string `json:"key"`    // matched against Violation.Key (exact, or prefix when it ends in '*')
	Status   string `json:"status"` // "known" | "fixed"
	Commit   string `json:"commit,omitempty"`
	What     string `json:"what"`
}

func loadFindings(root string) []Finding {
	b, err := ioutil.ReadFile(filepath.Join(root, "known_findings.json"))
	if err != nil {
		return nil
	}
	var f struct {
		Findings []Finding `json:"findings"`
	}
	if json.Unmarshal(b, &f) != nil {
		return nil
	}
	return f.Findings
}

func matchFinding(fs []Finding, id, key string) *Finding {
	for i, f := range fs {
		if f.Property != id || f.Status != "known" {
			continue
		}
		if f.Key == key || (strings.HasSuffix(f.Key, "*") && strings.HasPrefix(key, strings.TrimSuffix(f.Key, "*"))) {
			return &fs[i]
		}
	}
	return nil
}

// Finish writes the evidence file, prints the verdict lines and returns the exit code.
func (c *Ctx) Finish() int {
	o := c.out
	wall := time.Since(c.Start).Seconds()
	fs := loadFindings(c.Root)
	var real []Violation
	known := []string{}
	sort.Slice(o.Violations, func(i, j int) bool { return o.Violations[i].Key < o.Violations[j].Key })
	for _, v := range o.Violations {
		if f := matchFinding(fs, c.ID, v.Key); f != nil {
			fmt.Printf("KNOWN-FINDING: property=%s %s [%s]\n", c.ID, f.What, v.Key)
			known = append(known, v.Key)
			continue
		}
		real = append(real, v)
	}
	cov := map[string]interface{}{}
	for k, v := range o.Extra {
		cov[k] = v
	}
	if len(o.Samples) == 0 {
		o.Samples = []interface{}{"(no sample recorded)"}
	}
	cov["samples"] = o.Samples
	cov["states"] = o.States
	cov["transitions"] = o.Transitions
	cov["traces_validated_against_impl"] = o.Traces
	cov["evaluations"] = o.Evaluations
	cov["distinct_nontrivial"] = o.Distinct
	cov["rule"] = o.Rule
	cov["exhaustive"] = o.Exhaustive
	cov["checker_cmd"] = o.CheckerCmd
	cov["trusted_base"] = o.Trusted
	cov["tlc_runs"] = o.TLCRuns
	cov["drift"] = o.Drift
	cov["known_findings_reproduced"] = known
	if o.Explanation != "" {
		cov["explanation"] = o.Explanation
	}
	if len(o.Infra) > 0 {
		cov["infrastructure_failures"] = o.Infra
	}
	ev := map[string]interface{}{
		"property_id": c.ID,
		"tier":        c.Tier,
		"seed":        c.Seed,
		"level":       o.Level,
		"coverage":    cov,
		"assumptions": o.Assumptions,
		"wall_s":      wall,
		"violations":  len(real),
	}
	if c.Replay == "" && os.Getenv("VERIF_OVERLAY") == "" && os.Getenv("VERIF_NO_EVIDENCE") == "" { // runs against a seeded change (overlay) never rewrite the evidence
		os.MkdirAll(filepath.Join(c.Root, "evidence"), 0755)
		b, _ := json.MarshalIndent(ev, "", " ")
		if err := ioutil.WriteFile(filepath.Join(c.Root, "evidence", c.ID+".json"), append(b, '\n'), 0644); err != nil {
			fmt.Fprintln(os.Stderr, "cannot write evidence:", err)
			return 2
		}
	}
	for _, t := range o.TLCRuns {
		fmt.Println("tlc:", t)
	}
	fmt.Printf("%s tier=%s seed=%d states=%d transitions=%d behaviours/traces=%d evaluations=%d distinct=%d drift=%d wall=%.1fs\n",
		c.ID, c.Tier, c.Seed, o.States, o.Transitions, o.Traces, o.Evaluations, o.Distinct, len(o.Drift), wall)
	if len(real) > 0 {
		dir := filepath.Join(c.Root, "replays", c.ID)
		os.MkdirAll(dir, 0755)
		for _, v := range real {
			rec := map[string]interface{}{"property": c.ID, "key": v.Key, "desc": v.Desc, "seed": c.Seed, "tier": c.Tier, "record": v.Record}
			b, _ := json.MarshalIndent(rec, "", " ")
			h := sha1.Sum([]byte(v.Key))
			p := filepath.Join(dir, fmt.Sprintf("%x.json", h[:6]))
			ioutil.WriteFile(p, append(b, '\n'), 0644)
			fmt.Printf("VIOLATION property=%s replay=%s\n", c.ID, p)
			fmt.Printf("  %s: %s\n", v.Key, v.Desc)
		}
		return 1
	}
	if len(o.Infra) > 0 {
		for _, s := range o.Infra {
			fmt.Fprintln(os.Stderr, "INFRASTRUCTURE:", s)
		}
		return 2
	}
	fmt.Printf("OK property=%s\n", c.ID)
	return 0
}

// MinutesT returns q minutes in the quick tier and t minutes in the thorough tier.
func (c *Ctx) MinutesT(q, t int) time.Duration {
	return time.Duration(c.Pick(q, t)) * time.Minute
}

// RunChild re-executes this binary as an isolated job of the same check, so that an
// unrecoverable failure of the code under test (a panic in a goroutine the code
// started, a fatal runtime error, os.Exit) is attributed to the job instead of
// killing the whole check. The child reports through stdout lines "RESULT <json>"
// (collected) and "AT <text>" (the last one is returned as the position reached).
func (c *Ctx) RunChild(arg string, timeout time.Duration) (results []string, at string, crash string) {
	exe, err := os.Executable()
	if err != nil {
		return nil, "", "cannot find own executable: " + err.Error()
	}
	ctx, cancel := context.WithTimeout(context.Background(), timeout)
	defer cancel()
	cmd := exec.CommandContext(ctx, exe, c.ID, "--tier", c.Tier, "--root", c.Root, "--child", arg)
	cmd.Env = append(os.Environ(), "VERIF_SEED="+strconv.FormatInt(c.Seed, 10))
	var errb bytes.Buffer
	cmd.Stderr = &errb
	out, err := cmd.StdoutPipe()
	if err != nil {
		return nil, "", err.Error()
	}
	if err := cmd.Start(); err != nil {
		return nil, "", err.Error()
	}
	sc := bufio.NewScanner(out)
	sc.Buffer(make([]byte, 1<<20), 64<<20)
	done := false
	for sc.Scan() {
		l := sc.Text()
		switch {
		case strings.HasPrefix(l, "RESULT "):
			results = append(results, l[7:])
		case strings.HasPrefix(l, "AT "):
			at = l[3:]
		case l == "DONE":
			done = true
		}
	}
	werr := cmd.Wait()
	if ctx.Err() == context.DeadlineExceeded {
		return results, at, "TIMEOUT"
	}
	if werr != nil || !done {
		t := errb.String()
		for _, mark := range []string{"panic:", "fatal error:"} {
			if i := strings.Index(t, mark); i >= 0 {
				t = t[i:]
				break
			}
		}
		if len(t) > 6000 {
			t = t[:3000] + "\n...\n" + t[len(t)-3000:]
		}
		return results, at, fmt.Sprintf("child ended abnormally (%v):\n%s", werr, t)
	}
	return results, at, ""
}

// Registry maps a property id to its check; property packages register in init().
var Registry = map[string]func(*Ctx){}

func Register(id string, f func(*Ctx)) { Registry[id] = f }
