// Package env performs the process-wide initialisation the node's main() does and
// links the libxcrypto stand-in (xmodel) into every check binary.
package env

import (
	"sync"

	cfg "github.com/lianxiangcloud/linkchain/config"
	"github.com/lianxiangcloud/linkchain/libs/crypto"
	"github.com/lianxiangcloud/linkchain/libs/log"
	"github.com/lianxiangcloud/linkchain/metrics"
	"github.com/lianxiangcloud/linkchain/types"

	_ "verifh/xmodel"
)

var initOnce sync.Once

// GlobalInit performs the process-wide initialisation the node's main() does.
func GlobalInit() {
	initOnce.Do(func() {
		log.Root().SetHandler(log.DiscardHandler())
		pk := crypto.GenPrivKeyEd25519().PubKey()
		metrics.PrometheusMetricInstance.Init(cfg.DefaultConfig(), pk, log.NewNopLogger())
		metrics.PrometheusMetricInstance.SetCurrentProposerPubkey(pk)
		types.RegisterUTXOTxData()
	})
}
