// Package tlc runs the TLC model checker on a specification directory and parses
// what the harness needs from its output: state counts, depth, the JSON lines that
// specifications print through PrintT(ToJson(..)) (exported edges / behaviours),
// and the name of a violated invariant.
package tlc

import (
	"bufio"
	"bytes"
	"context"
	"fmt"
	"io"
	"io/ioutil"
	"os"
	"os/exec"
	"path/filepath"
	"regexp"
	"strconv"
	"strings"
	"time"
)

const (
	jar  = "/opt/veriftools/tla/tla2tools.jar"
	deps = "/opt/veriftools/tla/CommunityModules-deps.jar"
)

// Options for one TLC run.
type Options struct {
	SpecDir  string            // directory holding the .tla/.cfg files (copied to scratch)
	Module   string            // root module name (file Module.tla)
	Config   string            // config file name (default Module.cfg)
	Workers  int               // default 1
	Simulate string            // e.g. "num=200" ; empty = BFS
	Depth    int               // -depth for simulation
	Seed     int64             // -seed (simulation)
	Timeout  time.Duration     // hard limit (default 10 min)
	Files    map[string][]byte // extra files written into the scratch dir (traces, generated cfgs)
	Deque    bool              // depth-first state queue (branching trace specs)
	Coverage bool              // -coverage 1
	OnLine   func(line string) // called for every PrintT JSON line instead of collecting
	HeapMB   int               // -Xmx (default 4096)
}

// Result of one run.
type Result struct {
	Generated int
	Distinct  int
	Queue     int
	Depth     int
	Lines     []string // unquoted JSON lines printed by the spec
	Violated  string   // invariant / property name, "" if none
	Deadlock  bool
	PostFalse bool // a POSTCONDITION evaluated to FALSE (trace not accepted)
	ErrorText string // TLC-level error other than a property violation
	TimedOut  bool
	Finished  bool // "Model checking completed" / simulation finished
	Wall      float64
	ZeroCov   []string // actions with zero coverage (Coverage only)
	Tail      string   // last lines of output for diagnostics
	Cmd       string
}

var (
	reStats  = regexp.MustCompile(`^(\d+) states generated, (\d+) distinct states found, (\d+) states left on queue`)
	reDepth  = regexp.MustCompile(`depth of the complete state graph search is (\d+)`)
	reInv    = regexp.MustCompile(`Invariant (\S+) is violated`)
	reProp   = regexp.MustCompile(`(Action property|Temporal properties|property) (\S+)?.*violated`)
	reProg   = regexp.MustCompile(`^Progress\((\d+)\).*: ([\d,]+) states generated.*, ([\d,]+) distinct states found.*, ([\d,]+) states left on queue`)
	reCovAct = regexp.MustCompile(`^<(\w+) line \d+, col \d+ to line \d+, col \d+ of module (\w+)>: (\d+):(\d+)`)
)

func atoi(s string) int {
	n, _ := strconv.Atoi(strings.Replace(s, ",", "", -1))
	return n
}

// Run executes TLC.
func Run(o Options) (*Result, error) {
	if o.Workers <= 0 {
		o.Workers = 1
	}
	if o.Timeout <= 0 {
		o.Timeout = 10 * time.Minute
	}
	if o.Config == "" {
		o.Config = o.Module + ".cfg"
	}
	if o.HeapMB <= 0 {
		o.HeapMB = 6144
	}
	scratch, err := ioutil.TempDir("", "vtlc")
	if err != nil {
		return nil, err
	}
	defer os.RemoveAll(scratch)
	ents, err := ioutil.ReadDir(o.SpecDir)
	if err != nil {
		return nil, err
	}
	for _, e := range ents {
		if e.IsDir() {
			continue
		}
		b, err := ioutil.ReadFile(filepath.Join(o.SpecDir, e.Name()))
		if err != nil {
			return nil, err
		}
		if err := ioutil.WriteFile(filepath.Join(scratch, e.Name()), b, 0644); err != nil {
			return nil, err
		}
	}
	for name, b := range o.Files {
		if err := ioutil.WriteFile(filepath.Join(scratch, name), b, 0644); err != nil {
			return nil, err
		}
	}
	// measured in this sandbox: ParallelGC together with a 512 MB thread stack costs
	// 4-5x wall time (sys time); single-worker runs use the serial collector.
	args := []string{"-XX:+UseSerialGC", "-Xss512m", fmt.Sprintf("-Xmx%dm", o.HeapMB)}
	if o.Workers > 1 {
		args = []string{"-XX:+UseParallelGC", "-Xss128m", fmt.Sprintf("-Xmx%dm", o.HeapMB)}
	}
	if o.Deque {
		args = append(args, "-Dtlc2.tool.queue.IStateQueue=StateDeque")
	}
	args = append(args, "-Djava.io.tmpdir="+scratch) // TLC leaves empty tlc-<n> directories in the JVM's temp dir
	args = append(args, "-cp", jar+":"+deps, "tlc2.TLC", "-workers", strconv.Itoa(o.Workers),
		"-metadir", filepath.Join(scratch, "meta"), "-config", o.Config)
	if o.Simulate != "" {
		args = append(args, "-simulate", o.Simulate)
		if o.Depth > 0 {
			args = append(args, "-depth", strconv.Itoa(o.Depth))
		}
		args = append(args, "-seed", strconv.FormatInt(o.Seed, 10))
	}
	if o.Coverage {
		args = append(args, "-coverage", "1")
	}
	args = append(args, o.Module+".tla")
	ctx, cancel := context.WithTimeout(context.Background(), o.Timeout)
	defer cancel()
	cmd := exec.CommandContext(ctx, "java", args...)
	cmd.Dir = scratch
	env := []string{}
	for _, e := range os.Environ() {
		if !strings.HasPrefix(e, "JAVA_TOOL_OPTIONS=") {
			env = append(env, e)
		}
	}
	cmd.Env = env
	stdout, err := cmd.StdoutPipe()
	if err != nil {
		return nil, err
	}
	cmd.Stderr = cmd.Stdout
	res := &Result{Cmd: "java " + strings.Join(args, " ")}
	start := time.Now()
	if err := cmd.Start(); err != nil {
		return nil, err
	}
	var tail []string
	rd := bufio.NewReaderSize(stdout, 1<<20)
	inErr := false
	var errBuf bytes.Buffer
	for {
		line, err := rd.ReadString('\n')
		if len(line) > 0 {
			line = strings.TrimRight(line, "\r\n")
			if strings.HasPrefix(line, "\"") && strings.HasSuffix(line, "\"") && len(line) > 1 {
				if s, e := strconv.Unquote(line); e == nil {
					if o.OnLine != nil {
						o.OnLine(s)
					} else {
						res.Lines = append(res.Lines, s)
					}
					if err != nil {
						break
					}
					continue
				}
			}
			if len(line) < 2000 {
				tail = append(tail, line)
				if len(tail) > 60 {
					tail = tail[1:]
				}
			}
			if m := reStats.FindStringSubmatch(line); m != nil {
				res.Generated, res.Distinct, res.Queue = atoi(m[1]), atoi(m[2]), atoi(m[3])
			} else if m := reProg.FindStringSubmatch(line); m != nil {
				res.Generated, res.Distinct, res.Queue = atoi(m[2]), atoi(m[3]), atoi(m[4])
				if d := atoi(m[1]); d > res.Depth {
					res.Depth = d
				}
			} else if m := reDepth.FindStringSubmatch(line); m != nil {
				res.Depth = atoi(m[1])
			} else if m := reInv.FindStringSubmatch(line); m != nil {
				res.Violated = m[1]
			} else if strings.Contains(line, "is violated") && res.Violated == "" {
				res.Violated = strings.TrimSpace(line)
			} else if strings.Contains(line, "Deadlock reached") {
				res.Deadlock = true
			} else if strings.Contains(line, "Model checking completed") || strings.Contains(line, "Finished in") {
				res.Finished = true
			} else if strings.HasPrefix(line, "Error: Postcondition") {
				res.PostFalse = true
			} else if strings.HasPrefix(line, "Error:") {
				inErr = true
				errBuf.WriteString(line + "\n")
			} else if inErr && errBuf.Len() < 4000 {
				errBuf.WriteString(line + "\n")
			}
			if o.Coverage {
				if m := reCovAct.FindStringSubmatch(line); m != nil && atoi(m[3]) == 0 && atoi(m[4]) == 0 {
					res.ZeroCov = append(res.ZeroCov, m[2]+"!"+m[1])
				}
			}
		}
		if err != nil {
			if err != io.EOF {
				res.ErrorText += err.Error()
			}
			break
		}
	}
	werr := cmd.Wait()
	res.Wall = time.Since(start).Seconds()
	res.Tail = strings.Join(tail, "\n")
	if ctx.Err() == context.DeadlineExceeded {
		res.TimedOut = true
	}
	if res.Violated == "" && !res.Deadlock && errBuf.Len() > 0 {
		res.ErrorText += errBuf.String()
	}
	_ = werr
	return res, nil
}

// OK reports whether the run completed without violation or tool error.
func (r *Result) OK() bool {
	return r.Violated == "" && !r.Deadlock && r.ErrorText == "" && !r.TimedOut && r.Finished && !r.PostFalse
}

// Describe is a short human-readable summary.
func (r *Result) Describe() string {
	return fmt.Sprintf("generated=%d distinct=%d depth=%d lines=%d violated=%q deadlock=%v timeout=%v finished=%v wall=%.1fs",
		r.Generated, r.Distinct, r.Depth, len(r.Lines), r.Violated, r.Deadlock, r.TimedOut, r.Finished, r.Wall)
}
