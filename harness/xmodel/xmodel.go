// Package xmodel is a stand-in for the absent libxcrypto: it defines (a subset of)
// the C symbols the cgo wrappers in libs/cryptonote/xcrypto reference, implemented
// in Go over libsodium's edwards25519 primitives.
package xmodel

/*
#cgo LDFLAGS: -lsodium
#include <sodium.h>
#include <stdlib.h>
#include <string.h>
*/
import "C"

import (
	"encoding/binary"
	"unsafe"

	lcrypto "github.com/lianxiangcloud/linkchain/libs/crypto"
	lkt "github.com/lianxiangcloud/linkchain/libs/cryptonote/types"
)

type K = [32]byte

var identity = K{1}
var hPoint = K{0x8b, 0x65, 0x59, 0x70, 0x15, 0x37, 0x99, 0xaf, 0x2a, 0xea, 0xdc, 0x9f, 0xf1, 0xad, 0xd0, 0xea, 0x6c, 0x72, 0x51, 0xd5, 0x41, 0x54, 0xcf, 0xa9, 0x2c, 0x17, 0x3a, 0x0d, 0xd3, 0x9c, 0x1f, 0x94}

func up(k *K) *C.uchar { return (*C.uchar)(unsafe.Pointer(&k[0])) }
func get(p *C.char) (k K) {
	copy(k[:], C.GoBytes(unsafe.Pointer(p), 32))
	return
}
func put(p *C.char, k K) { C.memcpy(unsafe.Pointer(p), unsafe.Pointer(&k[0]), 32) }

func reduce(s K) (r K) {
	var wide [64]byte
	copy(wide[:], s[:])
	C.crypto_core_ed25519_scalar_reduce(up(&r), (*C.uchar)(unsafe.Pointer(&wide[0])))
	return
}
func isZero(s K) bool { return s == K{} }

// mul returns s*P (identity when s = 0 mod l); ok=false for an invalid point.
func mul(p K, s K) (K, bool) {
	s = reduce(s)
	if p == identity || isZero(s) {
		return identity, true
	}
	var q K
	if C.crypto_scalarmult_ed25519_noclamp(up(&q), up(&s), up(&p)) != 0 {
		if C.crypto_core_ed25519_is_valid_point(up(&p)) == 1 {
			return identity, true
		}
		return identity, false
	}
	return q, true
}
func mulBase(s K) K {
	s = reduce(s)
	if isZero(s) {
		return identity
	}
	var q K
	if C.crypto_scalarmult_ed25519_base_noclamp(up(&q), up(&s)) != 0 {
		return identity
	}
	return q
}
func add(a, b K) (K, bool) {
	var r K
	if C.crypto_core_ed25519_add(up(&r), up(&a), up(&b)) != 0 {
		return identity, false
	}
	return r, true
}
func sub(a, b K) (K, bool) {
	var r K
	if C.crypto_core_ed25519_sub(up(&r), up(&a), up(&b)) != 0 {
		return identity, false
	}
	return r, true
}
func scAdd(a, b K) (r K) { a, b = reduce(a), reduce(b); C.crypto_core_ed25519_scalar_add(up(&r), up(&a), up(&b)); return }
func scSub(a, b K) (r K) { a, b = reduce(a), reduce(b); C.crypto_core_ed25519_scalar_sub(up(&r), up(&a), up(&b)); return }
func scMul(a, b K) (r K) { a, b = reduce(a), reduce(b); C.crypto_core_ed25519_scalar_mul(up(&r), up(&a), up(&b)); return }
func scRandom() (r K)    { C.crypto_core_ed25519_scalar_random(up(&r)); return }
func hs(data ...[]byte) K {
	var k K
	copy(k[:], lcrypto.Keccak256(data...))
	return reduce(k)
}
func varint(i uint64) []byte { b := make([]byte, 10); return b[:binary.PutUvarint(b, i)] }

//export x_skGen
func x_skGen(key *C.char) { put(key, scRandom()) }

//export x_skpkGen
func x_skpkGen(sk, pk *C.char) { s := scRandom(); put(sk, s); put(pk, mulBase(s)) }

//export x_scalarmultBase
func x_scalarmultBase(aG, a *C.char) { put(aG, mulBase(get(a))) }

//export x_scalarmultKey
func x_scalarmultKey(aP, P, a *C.char) { r, _ := mul(get(P), get(a)); put(aP, r) }

//export x_scalarmultH
func x_scalarmultH(aH, a *C.char) { r, _ := mul(hPoint, get(a)); put(aH, r) }

//export x_scalarmult8
func x_scalarmult8(p, ret *C.char) { r, _ := mul(get(p), K{8}); put(ret, r) }

//export x_addKeys
func x_addKeys(ab, a, b *C.char) { r, _ := add(get(a), get(b)); put(ab, r) }

//export x_addKeys2
func x_addKeys2(aGbB, a, b, B *C.char) {
	bB, _ := mul(get(B), get(b))
	r, _ := add(mulBase(get(a)), bB)
	put(aGbB, r)
}

//export x_sc_add
func x_sc_add(s, a, b *C.char) { put(s, scAdd(get(a), get(b))) }

//export x_sc_sub
func x_sc_sub(s, a, b *C.char) { put(s, scSub(get(a), get(b))) }

//export x_checkKey
func x_checkKey(pk *C.char) C.int {
	p := get(pk)
	if C.crypto_core_ed25519_is_valid_point(up(&p)) == 1 {
		return 0
	}
	return -1
}

//export x_secret_key_to_public_key
func x_secret_key_to_public_key(sec, pub *C.char) C.int { put(pub, mulBase(get(sec))); return 0 }

//export x_generate_key_derivation
func x_generate_key_derivation(pub, sec, der *C.char) C.int {
	r, ok := mul(get(pub), get(sec))
	if !ok {
		return -1
	}
	r, _ = mul(r, K{8})
	put(der, r)
	return 0
}

func derivScalar(der K, idx uint64) K { return hs(der[:], varint(idx)) }

//export x_derivation_to_scalar
func x_derivation_to_scalar(der *C.char, idx C.size_t, res *C.char) C.int {
	put(res, derivScalar(get(der), uint64(idx)))
	return 0
}

//export x_derive_public_key
func x_derive_public_key(der *C.char, idx C.size_t, base, out *C.char) C.int {
	r, ok := add(mulBase(derivScalar(get(der), uint64(idx))), get(base))
	if !ok {
		return -1
	}
	put(out, r)
	return 0
}

//export x_derive_secret_key
func x_derive_secret_key(der *C.char, idx C.size_t, sec, out *C.char) C.int {
	put(out, scAdd(derivScalar(get(der), uint64(idx)), get(sec)))
	return 0
}

type ecdhTuple struct{ mask, amount *C.char }

//export x_ecdh_encode
func x_ecdh_encode(t unsafe.Pointer, shared *C.char, shortAmt C.int) C.int {
	tt := (*ecdhTuple)(t)
	s1 := hs(func() []byte { k := get(shared); return k[:] }())
	s2 := hs(s1[:])
	put(tt.mask, scAdd(get(tt.mask), s1))
	put(tt.amount, scAdd(get(tt.amount), s2))
	return 0
}

//export x_ecdh_decode
func x_ecdh_decode(t unsafe.Pointer, shared *C.char, shortAmt C.int) C.int {
	tt := (*ecdhTuple)(t)
	s1 := hs(func() []byte { k := get(shared); return k[:] }())
	s2 := hs(s1[:])
	put(tt.mask, scSub(get(tt.mask), s1))
	put(tt.amount, scSub(get(tt.amount), s2))
	return 0
}

//export tlv_addKeyV
func tlv_addKeyV(sum *C.char, raw *C.uchar, n C.int) C.int {
	var kv lkt.KeyV
	if err := kv.TlvDecode(C.GoBytes(unsafe.Pointer(raw), n)); err != nil || len(kv) == 0 {
		return -1
	}
	acc := K(kv[0])
	for _, k := range kv[1:] {
		var ok bool
		if acc, ok = add(acc, K(k)); !ok {
			return -1
		}
	}
	put(sum, acc)
	return 0
}

func outBuf(b []byte, out **C.uchar) C.int {
	*out = (*C.uchar)(C.CBytes(b))
	return C.int(len(b))
}

func log2ceil(n int) int {
	r := 0
	for (1 << uint(r)) < n {
		r++
	}
	return r
}

// Transparent range proof: per output the amount in clear and a Schnorr proof of
// knowledge of the mask of C - a*H. Layout: R = [amount_i, R_i, s_i]*, L = padding.
func proveRange(raw []byte) ([]byte, bool) {
	var amounts, sk lkt.KeyV
	if err := lkt.NewTlvMapSerializerWith(&amounts, &sk).TlvDecode(raw); err != nil || len(amounts) != len(sk) || len(amounts) == 0 {
		return nil, false
	}
	n := len(amounts)
	c, masks := make(lkt.KeyV, n), make(lkt.KeyV, n)
	bp := lkt.Bulletproof{L: make(lkt.KeyV, 6+log2ceil(n)), R: make(lkt.KeyV, 0, 3*n)}
	for i := 0; i < n; i++ {
		mask := hs([]byte("commitment_mask"), sk[i][:])
		aH, _ := mul(hPoint, K(amounts[i]))
		C_, _ := add(mulBase(mask), aH)
		X := mulBase(mask)
		k := scRandom()
		Rp := mulBase(k)
		e := hs(Rp[:], X[:], C_[:])
		s := scAdd(k, scMul(e, mask))
		v, _ := mul(C_, K(invEight))
		c[i], masks[i] = lkt.Key(v), lkt.Key(mask)
		bp.R = append(bp.R, amounts[i], lkt.Key(Rp), lkt.Key(s))
	}
	bp.V = c
	tms := lkt.NewTlvMapSerializerWith(&c, &masks, &bp)
	buf := make([]byte, tms.TlvSize())
	if _, err := tms.TlvEncode(buf); err != nil {
		return nil, false
	}
	return buf, true
}

var invEight = K{0x79, 0x2f, 0xdc, 0xe2, 0x29, 0xe5, 0x06, 0x61, 0xd0, 0xda, 0x1c, 0x7d, 0xb3, 0x9d, 0xd3, 0x07, 0, 0, 0, 0, 0, 0, 0, 0, 0, 0, 0, 0, 0, 0, 0, 0x06}

//export tlv_proveRangeBulletproof
func tlv_proveRangeBulletproof(raw *C.uchar, n C.int, out **C.uchar) C.int {
	b, ok := proveRange(C.GoBytes(unsafe.Pointer(raw), n))
	if !ok {
		return -1
	}
	return outBuf(b, out)
}

//export tlv_verBulletproof
func tlv_verBulletproof(raw *C.uchar, n C.int) C.int {
	var bp lkt.Bulletproof
	if err := bp.TlvDecode(C.GoBytes(unsafe.Pointer(raw), n)); err != nil {
		return -1
	}
	if len(bp.V) == 0 || len(bp.R) != 3*len(bp.V) {
		return 0
	}
	for i := range bp.V {
		amount, Rp, s := K(bp.R[3*i]), K(bp.R[3*i+1]), K(bp.R[3*i+2])
		for _, b := range amount[8:] {
			if b != 0 {
				return 0 // amount >= 2^64
			}
		}
		C_, ok := mul(K(bp.V[i]), K{8})
		if !ok {
			return 0
		}
		aH, _ := mul(hPoint, amount)
		X, ok := sub(C_, aH)
		if !ok {
			return 0
		}
		e := hs(Rp[:], X[:], C_[:])
		eX, _ := mul(X, e)
		rhs, ok := add(Rp, eX)
		if !ok || mulBase(s) != rhs {
			return 0
		}
	}
	return 1
}

// helpers for harness code
func MulBase(s K) K { return mulBase(s) }
func Random() K     { return scRandom() }

func hashToPoint(p K) K {
	var u, out K
	copy(u[:], lcrypto.Keccak256(p[:]))
	C.crypto_core_ed25519_from_uniform(up(&out), up(&u))
	return out
}

//export x_generate_key_image
func x_generate_key_image(pub, sec, image *C.char) C.int {
	r, ok := mul(hashToPoint(get(pub)), get(sec))
	if !ok {
		return -1
	}
	put(image, r)
	return 0
}

//export x_derive_subaddress_public_key
func x_derive_subaddress_public_key(pub, der *C.char, idx C.size_t, out *C.char) C.int {
	r, ok := sub(get(pub), mulBase(derivScalar(get(der), uint64(idx))))
	if !ok {
		return -1
	}
	put(out, r)
	return 0
}

type keyV struct {
	v    **C.char
	nums C.int
}
type sigT struct{ c, r K }

func ringMember(pubs unsafe.Pointer, i int) K {
	kv := (*keyV)(pubs)
	p := *(**C.char)(unsafe.Pointer(uintptr(unsafe.Pointer(kv.v)) + uintptr(i)*unsafe.Sizeof(kv.v)))
	return get(p)
}

// one-member CryptoNote ring signature (signature_t carries a single (c, r) pair)
//export x_generate_ring_signature
func x_generate_ring_signature(prefix, image *C.char, pubs unsafe.Pointer, sec *C.char, idx C.size_t, sig unsafe.Pointer) C.int {
	if (*keyV)(pubs).nums != 1 {
		return -1
	}
	P, x, pre := ringMember(pubs, 0), get(sec), get(prefix)
	k := scRandom()
	L := mulBase(k)
	R, _ := mul(hashToPoint(P), k)
	c := hs(pre[:], L[:], R[:])
	s := (*sigT)(sig)
	s.c, s.r = c, scSub(k, scMul(c, x))
	return 0
}

//export x_check_ring_signature
func x_check_ring_signature(prefix, image *C.char, pubs unsafe.Pointer, sig unsafe.Pointer) C.int {
	if (*keyV)(pubs).nums != 1 {
		return -1
	}
	P, I, pre, s := ringMember(pubs, 0), get(image), get(prefix), (*sigT)(sig)
	cP, ok1 := mul(P, s.c)
	L, ok2 := add(mulBase(s.r), cP)
	rH, ok3 := mul(hashToPoint(P), s.r)
	cI, ok4 := mul(I, s.c)
	R, ok5 := add(rH, cI)
	if !(ok1 && ok2 && ok3 && ok4 && ok5) || hs(pre[:], L[:], R[:]) != reduce(s.c) {
		return -1
	}
	return 0
}

//export tlv_get_pre_mlsag_hash
func tlv_get_pre_mlsag_hash(key *C.char, raw *C.uchar, n C.int) C.int {
	var rs lkt.RctSig
	if err := rs.TlvDecode(C.GoBytes(unsafe.Pointer(raw), n)); err != nil {
		return -1
	}
	var parts [][]byte
	parts = append(parts, rs.Message[:])
	for _, k := range rs.P.PseudoOuts { k := k; parts = append(parts, k[:]) }
	for _, k := range rs.OutPk { k := k; parts = append(parts, k.Mask[:]) }
	for _, e := range rs.EcdhInfo { e := e; parts = append(parts, e.Mask[:], e.Amount[:]) }
	for _, bp := range rs.P.Bulletproofs { for _, k := range bp.R { k := k; parts = append(parts, k[:]) } }
	put(key, hs(parts...))
	return 0
}

func CommitmentMask(amountKey K) K { return hs([]byte("commitment_mask"), amountKey[:]) }
