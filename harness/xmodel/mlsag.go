package xmodel

/*
#include <stdlib.h>
*/
import "C"

import (
	"unsafe"

	lkt "github.com/lianxiangcloud/linkchain/libs/cryptonote/types"
)

// MLSAG ("simple" RingCT variant, two rows, one double-spend row) over the real
// edwards25519 group, as in CryptoNote/Monero:
//   row 0: one-time keys P_j with key image I = x*Hp(P_pi)
//   row 1: C_j - Cout (commitments to zero at the real index, secret z = mask_in - a)
// The challenge hash is Keccak-256 reduced mod l over (message, P_j, L0, R0, C_j - Cout, L1).

func mlsagHash(msg K, parts ...K) K {
	bs := [][]byte{msg[:]}
	for i := range parts {
		p := parts[i]
		bs = append(bs, p[:])
	}
	return hs(bs...)
}

func mlsagRound(msg K, c K, P, Cz, I K, s0, s1 K) (K, bool) {
	cP, ok1 := mul(P, c)
	L0, ok2 := add(mulBase(s0), cP)
	hp := hashToPoint(P)
	sH, ok3 := mul(hp, s0)
	cI, ok4 := mul(I, c)
	R0, ok5 := add(sH, cI)
	cC, ok6 := mul(Cz, c)
	L1, ok7 := add(mulBase(s1), cC)
	if !(ok1 && ok2 && ok3 && ok4 && ok5 && ok6 && ok7) {
		return K{}, false
	}
	return mlsagHash(msg, P, L0, R0, Cz, L1), true
}

func mlsagProve(msg K, pubs lkt.CtkeyV, inSk lkt.Ctkey, a K, cout K, index int) (*lkt.MgSig, bool) {
	n := len(pubs)
	if n == 0 || index < 0 || index >= n {
		return nil, false
	}
	Cz := make([]K, n)
	for j := range pubs {
		d, ok := sub(K(pubs[j].Mask), cout)
		if !ok {
			return nil, false
		}
		Cz[j] = d
	}
	x, z := K(inSk.Dest), scSub(K(inSk.Mask), a)
	Ppi := K(pubs[index].Dest)
	I, ok := mul(hashToPoint(Ppi), x)
	if !ok {
		return nil, false
	}
	al0, al1 := scRandom(), scRandom()
	aHP, _ := mul(hashToPoint(Ppi), al0)
	c := make([]K, n)
	ss := make(lkt.KeyM, n)
	for j := range ss {
		ss[j] = make(lkt.KeyV, 2)
	}
	c[(index+1)%n] = mlsagHash(msg, Ppi, mulBase(al0), aHP, Cz[index], mulBase(al1))
	for k := 1; k < n; k++ {
		i := (index + k) % n
		s0, s1 := scRandom(), scRandom()
		ss[i][0], ss[i][1] = lkt.Key(s0), lkt.Key(s1)
		next, ok := mlsagRound(msg, c[i], K(pubs[i].Dest), Cz[i], I, s0, s1)
		if !ok {
			return nil, false
		}
		c[(i+1)%n] = next
	}
	if n == 1 {
		// c[0] is c_{pi+1} = c_pi for a ring of one
	}
	ss[index][0] = lkt.Key(scSub(al0, scMul(c[index], x)))
	ss[index][1] = lkt.Key(scSub(al1, scMul(c[index], z)))
	return &lkt.MgSig{Ss: ss, Cc: lkt.Key(c[0]), II: lkt.KeyV{lkt.Key(I)}}, true
}

func mlsagVerify(msg K, mg *lkt.MgSig, pubs lkt.CtkeyV, cout K) bool {
	n := len(pubs)
	if n == 0 || len(mg.Ss) != n || len(mg.II) != 1 {
		return false
	}
	I := K(mg.II[0])
	if I == identity {
		return false
	}
	// the key image must be in the prime-order subgroup: l*I = identity
	c := reduce(K(mg.Cc))
	for i := 0; i < n; i++ {
		if len(mg.Ss[i]) != 2 {
			return false
		}
		d, ok := sub(K(pubs[i].Mask), cout)
		if !ok {
			return false
		}
		next, ok := mlsagRound(msg, c, K(pubs[i].Dest), d, I, K(mg.Ss[i][0]), K(mg.Ss[i][1]))
		if !ok {
			return false
		}
		c = next
	}
	return c == reduce(K(mg.Cc))
}

//export tlv_proveRctMGSimple
func tlv_proveRctMGSimple(mscout *C.char, index C.uint, raw *C.uchar, n C.int, out **C.uchar) C.int {
	var message, a, cout lkt.Key
	var pubs lkt.CtkeyV
	var inSk lkt.Ctkey
	if err := lkt.NewTlvMapSerializerWith(&message, &pubs, &inSk, &a, &cout).TlvDecode(C.GoBytes(unsafe.Pointer(raw), n)); err != nil {
		return -1
	}
	mg, ok := mlsagProve(K(message), pubs, inSk, K(a), K(cout), int(index))
	if !ok {
		return -1
	}
	buf := make([]byte, mg.TlvSize())
	if _, err := mg.TlvEncode(buf); err != nil {
		return -1
	}
	return outBuf(buf, out)
}

//export tlv_verRctNotSemanticsSimple
func tlv_verRctNotSemanticsSimple(raw *C.uchar, n C.int) C.int {
	var rs lkt.RctSig
	data := C.GoBytes(unsafe.Pointer(raw), n)
	if err := rs.TlvDecode(data); err != nil {
		return -1
	}
	if len(rs.MixRing) == 0 || len(rs.MixRing) != len(rs.P.MGs) || len(rs.MixRing) != len(rs.P.PseudoOuts) {
		return -1
	}
	var key K
	if tlv_get_pre_mlsag_hash((*C.char)(unsafe.Pointer(&key[0])), raw, n) != 0 {
		return -1
	}
	for i := range rs.MixRing {
		if !mlsagVerify(key, &rs.P.MGs[i], rs.MixRing[i], K(rs.P.PseudoOuts[i])) {
			return -1
		}
	}
	return 0
}
