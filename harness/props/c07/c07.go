// Package c07: see harness/ledger (shared Ledger binding).
package c07

import (
	"verifh/core"
	"verifh/ledger"
)

func init() { core.Register("C07", func(c *core.Ctx) { ledger.Run(c, "C07") }) }
