// Package c07: see harness/ledger (shared Ledger binding) and kinds.go (nonce discipline per
// transaction kind, spec/Ledger/NonceKinds.tla).
package c07

import (
	"verifh/core"
	"verifh/ledger"
)

func init() {
	core.Register("C07", func(c *core.Ctx) {
		ledger.Run(c, "C07")
		if c.Child == "" {
			nonceKinds(c)
		}
	})
}
