package c07

// Nonce discipline PER TRANSACTION KIND (spec/Ledger/NonceKinds.tla).
//
// The Ledger model behind ledger.Run has plain transfers, token transfers, contract calls
// and confidential transactions. The code, however, decides "is this the sender's exact
// next nonce" in a different place for every transaction type and for each of the two ways
// a transaction reaches the chain (a type switch in checkValid, CheckStoreState, the generic
// checkNonce of processTransaction, one CheckState per type in the mempool). NonceKinds
// states the rule once for every kind that carries an account input -- transfer, token
// transfer, contract creation, contract call, deposit (the account input of a
// UTXOTransaction), ContractUpgradeTx and the validator-signed MultiSignAccountTx -- and
// this file replays the TLC-exported graph on the REAL application in trie and in flat
// storage mode:
//
//   block path   a foreign proposer's block (MakeBlock) through PreRunBlock, CheckBlock on
//                both replicas (re-decoded copies) and CommitBlock;
//   mempool path AddTx on both replicas, then CreateBlock (Reap) + PreRunBlock on the
//                proposing replica, CheckBlock and CommitBlock on both.
//
// After EVERY step: accepted / rejected (and the per-submission verdicts of the mempool)
// equal the model, the committed nonces of the ordinary account and of the multi-sign
// account equal the model, the installed signer set (txmgr.GetMultiSignersInfo) and the
// code of the upgraded inner contract equal the model; and the property statement is
// evaluated directly on what was committed: every committed transaction carried its
// sender's next nonce, and no transaction hash is committed twice.
//
// In every 6th behaviour the trie replica's mempool runs with the production dedup cache,
// otherwise without (a replayed submission then reaches the per-type CheckState itself);
// the replicas must give the same verdicts. Behaviours: a tour that covers every edge of the exported graph
// (every self-loop -- rejected offer -- of each state passed) plus seeded random walks,
// ordered so that a small prefix meets every situation of the model (kind x deviation x path
// x position), then round-robin over the families; replayed within a time budget (what was
// not replayed is recorded). A violation key names path, kind and deviation class, e.g.
// nonce-kinds/block/mst/replay-accepted, nonce-kinds/pool/tok/low-accepted,
// nonce-kinds/<path>/<kind>/executed-twice. Differences that belong to other properties
// (signer authorisation of an upgrade, the mempool's queueing policy) are drift.

import (
	"bytes"
	"encoding/json"
	"fmt"
	"math/big"
	"math/rand"
	"os"
	"path/filepath"
	"sort"
	"strings"
	"time"

	cfg "github.com/lianxiangcloud/linkchain/config"
	"github.com/lianxiangcloud/linkchain/libs/common"
	"github.com/lianxiangcloud/linkchain/libs/crypto"
	"github.com/lianxiangcloud/linkchain/libs/ser"
	"github.com/lianxiangcloud/linkchain/types"

	"verifh/appx"
	"verifh/core"
	"verifh/mbt"
	"verifh/tlc"
)

// ---- the model's vocabulary -----------------------------------------------------------

type kid struct {
	K string `json:"k"`
	N int    `json:"n"`
	V string `json:"v"`
}

func (i kid) String() string { return fmt.Sprintf("%s/%d/%s", i.K, i.N, i.V) }
func (i kid) sender() string {
	if i.K == "mst" {
		return "mst"
	}
	return "a1"
}

type kAct struct {
	Path     string   `json:"path"`
	Fam      []string `json:"fam"`
	Blk      []kid    `json:"blk"`
	Ok       bool     `json:"ok"`
	Bad      int      `json:"bad"`
	Why      string   `json:"why"`
	Verdicts []string `json:"verdicts"`
	Reap     []kid    `json:"reap"`
}

type kLogEntry struct {
	ID kid `json:"id"`
	At int `json:"at"`
}

type kState struct {
	Fam     []string               `json:"fam"`
	Nonce   map[string]int         `json:"nonce"`
	Log     map[string][]kLogEntry `json:"log"`
	Signers string                 `json:"signers"`
	Code    kid                    `json:"code"`
	Pend    []kid                  `json:"pend"`
	Fut     []kid                  `json:"fut"`
}

func descIDs(ids []kid) string {
	var p []string
	for _, i := range ids {
		p = append(p, i.String())
	}
	return "[" + strings.Join(p, " ") + "]"
}

func (a kAct) String() string {
	switch a.Path {
	case "choose":
		return "family{" + strings.Join(a.Fam, ",") + "}"
	case "block":
		return fmt.Sprintf("block%s ok=%v", descIDs(a.Blk), a.Ok)
	default:
		return fmt.Sprintf("pool%s %v reap%s ok=%v", descIDs(a.Blk), a.Verdicts, descIDs(a.Reap), a.Ok)
	}
}

// ---- the concrete world ------------------------------------------------------------------

var (
	kAddrToken = common.HexToAddress("0x0000000000000000000000000000000000070c11") // a token id
	kAddrDst   = common.HexToAddress("0x00000000000000000000000000000000000d5701") // never sends
	kAddrStore = common.HexToAddress("0x00000000000000000000000000000000000c5711") // code STOP
	kInner     = cfg.ContractConsCommitteeAddr                                     // the inner contract that is upgraded
)

// wasmModule is upgradeable "code" whose identity can be read back: the WebAssembly magic
// (which is all ContractUpgradeTx.CheckBasic and the VM selection look at) followed by a
// version word no decoder accepts and a tag. Upgrade stores it; the only thing that ever
// runs it is Upgrade's own decimals probe, which fails to decode it before and after the
// upgrade alike. (A decodable module without every section makes the third-party decoder's
// debug printer dereference nil -- contract execution is C20's subject, not this one's.)
func wasmModule(tag ...byte) []byte {
	m := []byte{0x00, 0x61, 0x73, 0x6d, 0x7f, 0x00, 0x00, 0x00}
	return append(m, tag...)
}

// keys shared by every behaviour of a run (validators sign the multi-sign transactions)
type kKeys struct {
	valPriv []crypto.PrivKeyEd25519
	vals    []*types.Validator
	a1      *appx.Account // the ordinary sender; member of signer set A
	sx      *appx.Account // second member of signer set A
	b1, b2  *appx.Account // signer set B (does not contain a1)
	wallet  *appx.Wallet
}

func newKeys(seed int64) *kKeys {
	k := &kKeys{a1: appx.NewAccount(7100 + seed*10), sx: appx.NewAccount(7101 + seed*10), b1: appx.NewAccount(7102 + seed*10), b2: appx.NewAccount(7103 + seed*10), wallet: appx.NewWallet()}
	for i := 0; i < 4; i++ {
		p := crypto.GenPrivKeyEd25519FromSecret([]byte(fmt.Sprintf("verif-c07-validator-%d-%d", seed, i)))
		k.valPriv = append(k.valPriv, p)
		k.vals = append(k.vals, types.NewValidator(p.PubKey(), common.EmptyAddress, 1))
	}
	return k
}

func (k *kKeys) signerSet(v string) types.SignersInfo {
	if v == "A" { // a1 alone reaches the threshold: it may upgrade inner contracts
		return types.SignersInfo{MinSignerPower: 10, Signers: []*types.SignerEntry{{Power: 10, Addr: k.a1.Addr}, {Power: 10, Addr: k.sx.Addr}}}
	}
	return types.SignersInfo{MinSignerPower: 10, Signers: []*types.SignerEntry{{Power: 10, Addr: k.b1.Addr}, {Power: 10, Addr: k.b2.Addr}}}
}

func (k *kKeys) genesis() []appx.Alloc {
	return []appx.Alloc{
		{Addr: k.a1.Addr, Balance: appx.LKC(100000000), Tokens: map[common.Address]*big.Int{kAddrToken: appx.LKC(1000)}},
		{Addr: kAddrStore, Code: []byte{0x00}, Nonce: 1},
		{Addr: kInner, Code: wasmModule('g'), Nonce: 1},
	}
}

type kReplica struct {
	name string
	env  *appx.Env
	// the property statement evaluated directly on what this replica committed
	next   map[string]int         // sender -> nonce the next executed transaction must carry
	seenAt map[common.Hash]uint64 // transaction hash -> height it was committed at
}

type kWorld struct {
	seen   map[string]bool // violation keys already recorded in this run (nil: none)
	keys   *kKeys
	txs    map[kid]types.Tx // one transaction object per identity: a replay is the SAME signed transaction
	byHash map[common.Hash]kid
	reps   []*kReplica
}

func (w *kWorld) stop() {
	for _, r := range w.reps {
		r.env.Stop()
	}
}

func newKWorld(keys *kKeys, dir string, withCache bool) (*kWorld, error) {
	w := &kWorld{keys: keys, txs: map[kid]types.Tx{}, byHash: map[common.Hash]kid{}}
	for i, s := range []struct {
		name   string
		isTrie bool
	}{{"trie", true}, {"flat", false}} {
		d := appx.NewMemDBs(filepath.Join(dir, fmt.Sprintf("r%d", i)))
		if err := appx.InitGenesis(d, s.isTrie, keys.genesis()); err != nil {
			w.stop()
			return nil, fmt.Errorf("genesis (%s): %v", s.name, err)
		}
		// in every 6th behaviour the trie replica's mempool has the production dedup cache in front of the per-type
		// CheckState; otherwise no cache, so that a replayed submission reaches the nonce check itself (the verdicts
		// must agree). The cache costs a 30 MB allocation per mempool and a goroutine that never ends.
		mc := appx.MempoolConfig()
		if !s.isTrie || !withCache {
			mc.CacheSize = 0
		}
		e, err := appx.Boot(d, s.isTrie, mc)
		if err != nil {
			w.stop()
			return nil, fmt.Errorf("boot (%s): %v", s.name, err)
		}
		e.App.SetLastChangedVals(0, keys.vals)
		w.reps = append(w.reps, &kReplica{name: s.name, env: e, next: map[string]int{}, seenAt: map[common.Hash]uint64{}})
	}
	return w, nil
}

// tx returns THE transaction of this identity (built and signed once per behaviour).
func (w *kWorld) tx(id kid) (types.Tx, error) {
	if t, ok := w.txs[id]; ok {
		return t, nil
	}
	k, n := w.keys, uint64(id.N)
	alt := id.V == "B"
	var t types.Tx
	switch id.K {
	case "xfer":
		amt := appx.LKC(1)
		if alt {
			amt = appx.LKC(2)
		}
		t = k.a1.Transfer(n, kAddrDst, amt)
	case "tok":
		amt := appx.LKC(1)
		if alt {
			amt = appx.LKC(2)
		}
		tt := types.NewTokenTransaction(kAddrToken, n, kAddrDst, amt, uint64(types.MinGasLimit), big.NewInt(types.ParGasPrice), nil)
		if err := tt.Sign(types.GlobalSTDSigner, k.a1.Key); err != nil {
			return nil, err
		}
		t = tt
	case "create":
		code := []byte{0x60, 0x00, 0x60, 0x00, 0xf3} // PUSH1 0 PUSH1 0 RETURN: a contract without code
		if alt {
			code = append([]byte{0x5b}, code...) // the same program behind a JUMPDEST: another payload
		}
		gas, err := types.IntrinsicGas(code, true, cfg.EvmGasRate)
		if err != nil {
			return nil, err
		}
		t = k.a1.Create(n, big.NewInt(0), gas+200000, code)
	case "call":
		var data []byte
		if alt {
			data = []byte{0x01}
		}
		t = k.a1.TransferGasLimit(n, kAddrStore, big.NewInt(0), 300000, data)
	case "dep":
		amt := appx.LKC(1)
		if alt {
			amt = appx.LKC(2)
		}
		d, _, err := k.a1.Deposit(n, []*appx.Wallet{k.wallet}, []*big.Int{amt}, appx.DepositFee(amt))
		if err != nil {
			return nil, err
		}
		t = d
	case "cut":
		mi := &types.ContractUpgradeMainInfo{FromAddr: k.a1.Addr, Recipient: kInner, AccountNonce: n, Payload: codeOf(id)}
		sig, err := types.SignContractUpgradeTx(k.a1.Key, mi)
		if err != nil {
			return nil, err
		}
		ct := types.UpgradeContractTx(mi, [][]byte{sig})
		if ct == nil {
			return nil, fmt.Errorf("UpgradeContractTx returned nil")
		}
		t = ct
	case "mst":
		mi := &types.MultiSignMainInfo{AccountNonce: n, SupportTxType: types.TxContractCreateType, SignersInfo: k.signerSet(id.V)}
		bz, err := types.GenMultiSignBytes(*mi)
		if err != nil {
			return nil, err
		}
		var sigs []types.ValidatorSign
		for i, p := range k.valPriv {
			sig, err := p.Sign(bz)
			if err != nil {
				return nil, err
			}
			sigs = append(sigs, types.ValidatorSign{Addr: k.vals[i].Address, Signature: sig.Bytes()})
		}
		t = types.NewMultiSignAccountTx(mi, sigs)
	default:
		return nil, fmt.Errorf("unknown kind %q", id.K)
	}
	// what travels is the encoded transaction: keep a decoded copy (fresh hash / sender caches)
	c, err := copyTx(t)
	if err != nil {
		return nil, err
	}
	w.txs[id] = c
	w.byHash[c.Hash()] = id
	return c, nil
}

// codeOf is the payload an upgrade of this identity installs (the genesis code for NoId).
func codeOf(id kid) []byte {
	if id.K != "cut" {
		return wasmModule('g')
	}
	return wasmModule('u', byte(id.N), id.V[0])
}

func copyTx(t types.Tx) (types.Tx, error) {
	bz, err := ser.EncodeToBytes(types.Txs{t})
	if err != nil {
		return nil, err
	}
	var out types.Txs
	if err := ser.DecodeBytes(bz, &out); err != nil {
		return nil, err
	}
	if len(out) != 1 {
		return nil, fmt.Errorf("copy of a transaction decodes to %d transactions", len(out))
	}
	return out[0], nil
}

func (w *kWorld) build(ids []kid) (types.Txs, error) {
	var txs types.Txs
	for _, id := range ids {
		t, err := w.tx(id)
		if err != nil {
			return nil, fmt.Errorf("%s: %v", id, err)
		}
		txs = append(txs, t)
	}
	return txs, nil
}

func copies(txs types.Txs) (types.Txs, error) {
	var out types.Txs
	for _, t := range txs {
		c, err := copyTx(t)
		if err != nil {
			return nil, err
		}
		out = append(out, c)
	}
	return out, nil
}

func (w *kWorld) senderAddr(s string) common.Address {
	if s == "mst" {
		return types.MultiSignNonceAddr
	}
	return w.keys.a1.Addr
}

// ---- observation ------------------------------------------------------------------------

func (w *kWorld) signersOf(r *kReplica) string {
	info := r.env.Cross.GetMultiSignersInfo(types.TxContractCreateType)
	if info == nil {
		return "none"
	}
	for _, v := range []string{"A", "B"} {
		want := w.keys.signerSet(v)
		if len(want.Signers) != len(info.Signers) || want.MinSignerPower != info.MinSignerPower {
			continue
		}
		same := true
		for i := range want.Signers {
			if want.Signers[i].Addr != info.Signers[i].Addr || want.Signers[i].Power != info.Signers[i].Power {
				same = false
			}
		}
		if same {
			return v
		}
	}
	return "other"
}

// kMismatch is the first difference found in a step.
type kMismatch struct {
	key   string // violation key ("" = not a property-level difference)
	drift string // implementation-shape / other property's difference
	infra string
	desc  string
}

// compare holds every replica's committed state against the model state.
func (w *kWorld) compare(path string, to kState) *kMismatch {
	for _, r := range w.reps {
		st := r.env.App.GetLatestStateDB()
		for _, s := range []string{"a1", "mst"} {
			if got := st.GetNonce(w.senderAddr(s)); got != uint64(to.Nonce[s]) {
				return &kMismatch{key: "nonce-kinds/" + path + "/committed-nonce/" + s,
					desc: fmt.Sprintf("%s: committed nonce of %s is %d, the specification says %d", r.name, s, got, to.Nonce[s])}
			}
		}
		if got := w.signersOf(r); got != to.Signers {
			return &kMismatch{key: "nonce-kinds/" + path + "/signer-set",
				desc: fmt.Sprintf("%s: installed signer set is %s, the specification says %s (the one of the newest executed multi-sign transaction)", r.name, got, to.Signers)}
		}
		if got := st.GetCode(kInner); !bytes.Equal(got, codeOf(to.Code)) {
			return &kMismatch{key: "nonce-kinds/" + path + "/upgraded-code",
				desc: fmt.Sprintf("%s: the inner contract's code is %x, the specification says %x (upgrade %s)", r.name, got, codeOf(to.Code), to.Code)}
		}
	}
	return nil
}

// committed evaluates the property statement on the block a replica just committed.
func (w *kWorld) committed(path string, r *kReplica, blk *types.Block) *kMismatch {
	for _, t := range blk.Data.Txs {
		id, ok := w.byHash[t.Hash()]
		if !ok {
			return &kMismatch{infra: fmt.Sprintf("%s committed a transaction the harness did not build: %s", r.name, t.Hash().Hex())}
		}
		if h0, dup := r.seenAt[t.Hash()]; dup {
			return &kMismatch{key: "nonce-kinds/" + path + "/" + id.K + "/executed-twice",
				desc: fmt.Sprintf("%s: transaction %s (%s, nonce %d) committed at height %d is committed again at height %d", r.name, t.Hash().Hex(), id.K, id.N, h0, blk.Height)}
		}
		r.seenAt[t.Hash()] = blk.Height
		if id.N != r.next[id.sender()] {
			return &kMismatch{key: "nonce-kinds/" + path + "/" + id.K + "/executed-at-wrong-nonce",
				desc: fmt.Sprintf("%s: height %d executes %s carrying nonce %d while its sender's next nonce is %d", r.name, blk.Height, id.K, id.N, r.next[id.sender()])}
		}
		r.next[id.sender()]++
	}
	return nil
}

// ---- one behaviour -------------------------------------------------------------------------

type kStats struct {
	steps, blocksOffered, blocksCommitted, attacks, submissions int
	cases                                                       map[string]bool // (path, kind, deviation class) exercised
}

func preRun(e *appx.Env, blk *types.Block) (ok bool) {
	defer func() {
		if r := recover(); r != nil {
			ok = false
		}
	}()
	e.App.PreRunBlock(blk)
	return true
}

// checkAndCommit runs the validator path of every replica on re-decoded copies of the block.
func (w *kWorld) checkAll(blk *types.Block) (accepted bool, copiesOf []*types.Block, verdicts []string, err error) {
	accepted = true
	for _, r := range w.reps {
		b2, _, derr := appx.Redecode(blk)
		if derr != nil {
			return false, nil, nil, derr
		}
		ok := r.env.App.CheckBlock(b2)
		verdicts = append(verdicts, fmt.Sprintf("CheckBlock/%s=%v", r.name, ok))
		if !ok {
			accepted = false
		}
		copiesOf = append(copiesOf, b2)
	}
	return
}

func (w *kWorld) commitAll(path string, bs []*types.Block) *kMismatch {
	for i, r := range w.reps {
		if err := r.env.Commit(bs[i]); err != nil {
			return &kMismatch{drift: fmt.Sprintf("%s: CommitBlock of a checked block at height %d failed: %v", r.name, bs[i].Height, err)}
		}
		if m := w.committed(path, r, bs[i]); m != nil {
			return m
		}
	}
	return nil
}

// caseKeys names the situations a step exercises: (path, kind, deviation class or mempool verdict, position in
// the block / batch). The replay order is chosen so that every situation of the model is met early.
func caseKeys(a kAct) []string {
	var ks []string
	switch a.Path {
	case "block":
		kind, why := devClass(a)
		ks = append(ks, fmt.Sprintf("block/%s/%s/#%d", kind, why, a.Bad))
	case "pool":
		for i, id := range a.Blk {
			if i < len(a.Verdicts) {
				ks = append(ks, fmt.Sprintf("pool/%s/%s/#%d", id.K, a.Verdicts[i], i+1))
			}
		}
		if len(a.Reap) > 0 {
			kind, why := devClass(a)
			ks = append(ks, fmt.Sprintf("pool-block/%s/%s/%s", kind, why, kindsOf(a.Reap)))
		}
	}
	return ks
}

func devClass(a kAct) (kind, why string) {
	if a.Bad >= 1 && a.Bad <= len(a.Blk) && a.Path == "block" {
		return a.Blk[a.Bad-1].K, a.Why
	}
	if a.Bad >= 1 && a.Bad <= len(a.Reap) {
		return a.Reap[a.Bad-1].K, a.Why
	}
	return "none", a.Why
}

func kindsOf(ids []kid) string {
	m := map[string]bool{}
	for _, i := range ids {
		m[i.K] = true
	}
	var ks []string
	for k := range m {
		ks = append(ks, k)
	}
	sort.Strings(ks)
	return strings.Join(ks, "+")
}

// blockStep: the block path.
func (w *kWorld) blockStep(step int, a kAct, st *kStats) *kMismatch {
	txs, err := w.build(a.Blk)
	if err != nil {
		return &kMismatch{infra: "building " + descIDs(a.Blk) + ": " + err.Error()}
	}
	st.blocksOffered++
	if !a.Ok {
		st.attacks++
	}
	kind, why := devClass(a)
	for _, k := range caseKeys(a) {
		st.cases[k] = true
	}
	P := w.reps[step%len(w.reps)] // the replica that plays the foreign proposer's execution (fills the header)
	h := P.env.App.Height() + 1
	own, err := copies(txs)
	if err != nil {
		return &kMismatch{infra: err.Error()}
	}
	blk := P.env.MakeBlock(h, own)
	pre := preRun(P.env, blk)
	verdicts := []string{fmt.Sprintf("PreRunBlock/%s=%v", P.name, pre)}
	accepted := pre
	var bs []*types.Block
	if pre {
		var v []string
		accepted, bs, v, err = w.checkAll(blk)
		if err != nil {
			return &kMismatch{infra: "re-decoding the block: " + err.Error()}
		}
		verdicts = append(verdicts, v...)
	}
	if accepted != a.Ok {
		switch {
		case a.Ok:
			return &kMismatch{key: "nonce-kinds/block/" + kindsOf(a.Blk) + "/exact-nonce-rejected",
				desc: fmt.Sprintf("height %d: block %s has every transaction at its sender's exact next nonce, the specification accepts it, the code rejects it (%v)", h, descIDs(a.Blk), verdicts)}
		case why == "unauth":
			return &kMismatch{drift: fmt.Sprintf("height %d: block %s carries an upgrade the installed signer set does not authorise; the code accepts it (%v) -- outside C07", h, descIDs(a.Blk), verdicts)}
		default:
			key := "nonce-kinds/block/" + kind + "/" + why + "-accepted"
			if w.seen[key] {
				// recorded already: the block is NOT committed, the chain is as the model says (a rejected block
				// changes nothing), and the behaviour goes on -- other kinds' deviations lie behind this one
				return nil
			}
			// let the commit happen so that the record shows what it did to the chain
			note := ""
			if len(bs) == len(w.reps) {
				if m := w.commitAll("block", bs); m != nil && m.key != "" {
					note = "; after the commit: " + m.desc
				}
				r := w.reps[0]
				stt := r.env.App.GetLatestStateDB()
				note += fmt.Sprintf("; committed nonces now a1=%d mst=%d, signer set %s", stt.GetNonce(w.senderAddr("a1")), stt.GetNonce(w.senderAddr("mst")), w.signersOf(r))
			}
			return &kMismatch{key: key,
				desc: fmt.Sprintf("height %d: block %s: transaction #%d (%s) is not at its sender's next nonce (%s), the specification rejects the block, the code accepts it (%v)%s",
					h, descIDs(a.Blk), a.Bad, a.Blk[a.Bad-1], why, verdicts, note)}
		}
	}
	if accepted {
		if m := w.commitAll("block", bs); m != nil {
			return m
		}
		st.blocksCommitted++
	}
	return nil
}

func verdictAccepts(v string) bool { return v == "good" || v == "future" }

// poolStep: the mempool path.
func (w *kWorld) poolStep(step int, a kAct, st *kStats) *kMismatch {
	txs, err := w.build(a.Blk)
	if err != nil {
		return &kMismatch{infra: "building " + descIDs(a.Blk) + ": " + err.Error()}
	}
	if len(a.Verdicts) != len(a.Blk) {
		return &kMismatch{infra: "the exported step has no verdict per submission: " + a.String()}
	}
	for _, k := range caseKeys(a) {
		st.cases[k] = true
	}
	for i, t := range txs {
		st.submissions++
		id, want := a.Blk[i], a.Verdicts[i]
		for _, r := range w.reps {
			c, err := copyTx(t)
			if err != nil {
				return &kMismatch{infra: err.Error()}
			}
			aerr := r.env.MP.AddTx("", c)
			if (aerr == nil) == verdictAccepts(want) {
				continue
			}
			switch {
			case aerr == nil && want == "unauth":
				return &kMismatch{drift: fmt.Sprintf("%s: AddTx takes the upgrade %s that the installed signer set does not authorise -- outside C07", r.name, id)}
			case aerr == nil:
				return &kMismatch{key: "nonce-kinds/pool/" + id.K + "/" + want + "-accepted",
					desc: fmt.Sprintf("%s: AddTx accepts %s (submission #%d of %s), the specification refuses it (%s: %s)", r.name, id, i+1, descIDs(a.Blk), want,
						map[string]string{"known": "already committed, pending or queued", "low": "a used nonce", "high": "a gap and this kind has no queue"}[want])}
			case want == "good":
				return &kMismatch{key: "nonce-kinds/pool/" + id.K + "/exact-nonce-refused",
					desc: fmt.Sprintf("%s: AddTx refuses %s (submission #%d of %s) although it is at its sender's exact next nonce: %v", r.name, id, i+1, descIDs(a.Blk), aerr)}
			default:
				return &kMismatch{drift: fmt.Sprintf("%s: AddTx does not queue the future transaction %s: %v (queueing policy: C15)", r.name, id, aerr)}
			}
		}
	}
	// what every replica's pool offers
	for _, r := range w.reps {
		got := r.env.MP.Reap(10000)
		var ids []kid
		for _, t := range got {
			id, ok := w.byHash[t.Hash()]
			if !ok {
				return &kMismatch{infra: "the pool offers a transaction the harness did not build"}
			}
			ids = append(ids, id)
		}
		if descIDs(ids) != descIDs(a.Reap) {
			// the property statement on the offer: a gap-free continuation of the committed nonces, nothing committed before
			next := map[string]int{}
			for s, n := range r.next {
				next[s] = n
			}
			for i, id := range ids {
				if _, dup := r.seenAt[got[i].Hash()]; dup {
					return &kMismatch{key: "nonce-kinds/pool/" + id.K + "/committed-offered-again",
						desc: fmt.Sprintf("%s: after %s the pool offers %s, which is committed already", r.name, descIDs(a.Blk), id)}
				}
				if id.N != next[id.sender()] {
					return &kMismatch{key: "nonce-kinds/pool/" + id.K + "/offered-at-wrong-nonce",
						desc: fmt.Sprintf("%s: after %s the pool offers %s: %s carries nonce %d, its sender's next nonce is %d", r.name, descIDs(a.Blk), descIDs(ids), id, id.N, next[id.sender()])}
				}
				next[id.sender()]++
			}
			return &kMismatch{drift: fmt.Sprintf("%s: after %s the pool offers %s, the specification says %s (both executable; pool policy: C15)", r.name, descIDs(a.Blk), descIDs(ids), descIDs(a.Reap))}
		}
	}
	if len(a.Reap) == 0 {
		return nil
	}
	st.blocksOffered++
	kind, why := devClass(a)
	P := w.reps[step%len(w.reps)]
	h := P.env.App.Height() + 1
	var blk *types.Block
	pre := true
	func() {
		defer func() {
			if r := recover(); r != nil {
				pre = false
			}
		}()
		blk = P.env.Propose(h, 10000)
	}()
	verdicts := []string{fmt.Sprintf("CreateBlock+PreRunBlock/%s=%v", P.name, pre)}
	accepted := pre && blk != nil
	var bs []*types.Block
	if accepted {
		var v []string
		accepted, bs, v, err = w.checkAll(blk)
		if err != nil {
			return &kMismatch{infra: "re-decoding the block: " + err.Error()}
		}
		verdicts = append(verdicts, v...)
	}
	if accepted != a.Ok {
		if why == "unauth" || a.Ok {
			return &kMismatch{drift: fmt.Sprintf("height %d: the node's own block %s: the specification says accepted=%v, the code says %v (%v) -- what the pool may offer is C15", h, descIDs(a.Reap), a.Ok, accepted, verdicts)}
		}
		return &kMismatch{key: "nonce-kinds/pool/" + kind + "/" + why + "-accepted",
			desc: fmt.Sprintf("height %d: the node's own block %s: the specification rejects it (%s), the code accepts it (%v)", h, descIDs(a.Reap), why, verdicts)}
	}
	if accepted {
		if m := w.commitAll("pool", bs); m != nil {
			return m
		}
		st.blocksCommitted++
	}
	return nil
}

// kReplay runs one behaviour; it returns the first mismatch and the step it occurred at.
func kReplay(g *mbt.Graph, path []int, keys *kKeys, dir string, st *kStats, seen map[string]bool, withCache bool) (*kMismatch, int, []string) {
	w, err := newKWorld(keys, dir, withCache)
	if err != nil {
		return &kMismatch{infra: err.Error()}, 0, nil
	}
	defer w.stop()
	w.seen = seen
	var desc []string
	for si, ei := range path {
		var a kAct
		var to kState
		if err := json.Unmarshal(g.Edges[ei].Act, &a); err != nil {
			return &kMismatch{infra: "action: " + err.Error()}, si, desc
		}
		if err := json.Unmarshal(g.Edges[ei].ToSt, &to); err != nil {
			return &kMismatch{infra: "state: " + err.Error()}, si, desc
		}
		desc = append(desc, a.String())
		st.steps++
		var m *kMismatch
		switch a.Path {
		case "choose":
			continue
		case "block":
			m = w.blockStep(si, a, st)
		case "pool":
			m = w.poolStep(si, a, st)
		default:
			m = &kMismatch{infra: "unknown step " + a.Path}
		}
		if m == nil {
			m = w.compare(a.Path, to)
		}
		if m != nil {
			return m, si, desc
		}
	}
	return nil, len(path), desc
}

// kControl shows that the binding is not vacuous: on a fresh world one multi-sign transaction is committed and
// then the EXPECTATIONS are corrupted one at a time (wrong committed nonce, wrong signer set, wrong code, a block
// at the exact nonce expected to be rejected, a submission at the exact nonce expected to be refused); each
// corruption must be reported as a mismatch. Nothing here depends on the code REFUSING anything, so a tree
// whose nonce check is broken fails the replay (a violation), not this control.
func kControl(keys *kKeys, dir string) error {
	w, err := newKWorld(keys, dir, true)
	if err != nil {
		return err
	}
	defer w.stop()
	st := &kStats{cases: map[string]bool{}}
	m0, m1, m2 := kid{"mst", 0, "A"}, kid{"mst", 1, "B"}, kid{"mst", 2, "A"}
	good := kState{Nonce: map[string]int{"a1": 0, "mst": 1}, Signers: "A", Code: kid{"none", 0, "A"}}
	if m := w.blockStep(0, kAct{Path: "block", Blk: []kid{m0}, Ok: true}, st); m != nil {
		return fmt.Errorf("the control block is not committed: %s%s%s", m.desc, m.drift, m.infra)
	}
	if m := w.compare("block", good); m != nil {
		return fmt.Errorf("the control state is not what the model says: %s", m.desc)
	}
	for name, bad := range map[string]kState{
		"nonce":      {Nonce: map[string]int{"a1": 0, "mst": 2}, Signers: "A", Code: good.Code},
		"signer set": {Nonce: good.Nonce, Signers: "B", Code: good.Code},
		"code":       {Nonce: good.Nonce, Signers: "A", Code: kid{"cut", 0, "A"}},
	} {
		if m := w.compare("block", bad); m == nil || m.key == "" {
			return fmt.Errorf("a corrupted expected %s is not noticed", name)
		}
	}
	if m := w.blockStep(1, kAct{Path: "block", Blk: []kid{m1}, Ok: false, Bad: 1, Why: "gap"}, st); m == nil || !strings.HasSuffix(m.key, "/gap-accepted") {
		return fmt.Errorf("an exact-nonce block expected to be rejected is not noticed")
	}
	if m := w.poolStep(2, kAct{Path: "pool", Blk: []kid{m2}, Verdicts: []string{"high"}, Ok: true}, st); m == nil || !strings.HasSuffix(m.key, "/high-accepted") {
		return fmt.Errorf("an exact-nonce submission expected to be refused is not noticed")
	}
	return nil
}

// ---- driver ------------------------------------------------------------------------------------

func famOf(g *mbt.Graph, p []int) string {
	if len(p) == 0 {
		return ""
	}
	var a kAct
	json.Unmarshal(g.Edges[p[0]].Act, &a)
	return strings.Join(a.Fam, ",")
}

// kTours covers every edge of the exported graph with behaviours that start in the initial
// state. The graph is a DAG apart from self-loops (a rejected offer changes nothing; the log of
// committed transactions only grows), and most edges ARE self-loops: a behaviour takes every
// uncovered self-loop of each state it passes, then moves on along an uncovered edge, or
// along a covered one towards a state from which uncovered edges can still be reached.
func kTours(g *mbt.Graph, rng *rand.Rand) [][]int {
	n := len(g.States)
	unc := make([]int, n)
	covered := make([]bool, len(g.Edges))
	for _, e := range g.Edges {
		unc[e.From]++
	}
	dead := make([]bool, n) // no uncovered edge reachable any more (permanent)
	onStack := make([]bool, n)
	var need func(s int) bool
	need = func(s int) bool {
		if dead[s] || onStack[s] {
			return false
		}
		if unc[s] > 0 {
			return true
		}
		onStack[s] = true
		defer func() { onStack[s] = false }()
		for _, ei := range g.Out[s] {
			if t := g.Edges[ei].To; t != s && need(t) {
				return true
			}
		}
		dead[s] = true
		return false
	}
	var tours [][]int
	for need(0) {
		var walk []int
		cur := 0
		for {
			outs := g.Out[cur]
			for _, ei := range outs {
				if !covered[ei] && g.Edges[ei].To == cur {
					covered[ei] = true
					unc[cur]--
					walk = append(walk, ei)
				}
			}
			if len(outs) == 0 {
				break
			}
			pick, off := -1, rng.Intn(len(outs))
			for k := range outs {
				if ei := outs[(k+off)%len(outs)]; !covered[ei] && g.Edges[ei].To != cur {
					pick = ei
					break
				}
			}
			if pick < 0 {
				for k := range outs {
					if ei := outs[(k+off)%len(outs)]; g.Edges[ei].To != cur && need(g.Edges[ei].To) {
						pick = ei
						break
					}
				}
			}
			if pick < 0 {
				break
			}
			if !covered[pick] {
				covered[pick] = true
				unc[cur]--
			}
			walk = append(walk, pick)
			cur = g.Edges[pick].To
		}
		if len(walk) == 0 {
			break
		}
		tours = append(tours, walk)
	}
	return tours
}

// nonceKinds is called by the C07 check after the Ledger replay.
func nonceKinds(c *core.Ctx) {
	started := time.Now()
	cfgName := "NonceKinds.cfg"
	if c.Thorough() {
		cfgName = "NonceKindsBig.cfg"
	}
	res := c.TLC(tlc.Options{SpecDir: c.SpecDir("Ledger"), Module: "NonceKinds", Config: cfgName, Workers: 1, Timeout: c.MinutesT(2, 20)})
	if res == nil {
		return
	}
	if res.Violated != "" || !res.Finished {
		c.Infra("NonceKinds model: %s\n%s", res.Describe(), res.Tail)
		return
	}
	g, err := mbt.Load(res.Lines)
	if err != nil {
		c.Infra("NonceKinds edges: %v", err)
		return
	}
	if c.Thorough() { // the specification is sensitive to the check it is about: without it for the two special kinds TLC must object
		neg := c.TLC(tlc.Options{SpecDir: c.SpecDir("Ledger"), Module: "NonceKinds", Config: "NonceKindsUnchecked.cfg", Workers: 1, Timeout: c.MinutesT(2, 5)})
		if neg == nil {
			return
		}
		if neg.Violated == "" {
			c.Infra("NonceKinds with Checked lacking mst and cut: TLC reports no violated invariant (vacuous specification): %s", neg.Describe())
			return
		}
		c.SetExtra("nonce_kinds_unchecked_control", neg.Violated)
	}
	// flat mode keeps an undo log file (kvState.wal) in the database directory and syncs it at every commit:
	// a memory-backed scratch directory where there is one (a busy disk costs 3-4x per committed block)
	base, err := os.MkdirTemp("/dev/shm", "vnoncek")
	if err != nil {
		base, err = os.MkdirTemp("", "vnoncek")
	}
	if err != nil {
		c.Infra("tempdir: %v", err)
		return
	}
	defer os.RemoveAll(base)

	rng := rand.New(rand.NewSource(c.Seed*7919 + 17))
	tours := kTours(g, rng)
	nTour := len(tours)
	tours = append(tours, g.Walks(c.Pick(6, 200), c.Pick(12, 25), rng)...)
	// order: round-robin over the families, so that each gets its share of the time budget (the families of
	// one kind are small and finish early); seeded order within a family
	byFam := map[string][][]int{}
	var single, mixed []string
	for _, p := range tours {
		f := famOf(g, p)
		if _, ok := byFam[f]; !ok {
			if strings.Contains(f, ",") {
				mixed = append(mixed, f)
			} else {
				single = append(single, f)
			}
		}
		byFam[f] = append(byFam[f], p)
	}
	sort.Strings(single)
	sort.Strings(mixed)
	var order [][]int
	perFam := map[string]int{}
	for f, l := range byFam {
		perFam[f] = len(l)
	}
	for _, fams := range [][]string{append(single, mixed...)} {
		for _, f := range fams {
			l := byFam[f]
			rng.Shuffle(len(l), func(a, b int) { l[a], l[b] = l[b], l[a] })
		}
		for i := 0; ; i++ {
			added := false
			for _, f := range fams {
				if i < len(byFam[f]) {
					order = append(order, byFam[f][i])
					added = true
				}
			}
			if !added {
				break
			}
		}
	}
	// the whole addition stays below ~36 s in the quick tier however long TLC took on a loaded machine
	// ... after the behaviours that, greedily, meet every situation (kind x deviation x path x position) of the model
	allCases := map[string]bool{}
	keysOf := make([][]string, len(order))
	for i, p := range order {
		seen := map[string]bool{}
		for _, ei := range p {
			var a kAct
			if json.Unmarshal(g.Edges[ei].Act, &a) != nil {
				continue
			}
			for _, k := range caseKeys(a) {
				if !seen[k] {
					seen[k] = true
					keysOf[i] = append(keysOf[i], k)
				}
				allCases[k] = true
			}
		}
	}
	var first [][]int
	taken := make([]bool, len(order))
	have := map[string]bool{}
	for len(have) < len(allCases) {
		best, gain := -1, 0
		for i := range order {
			if taken[i] {
				continue
			}
			n := 0
			for _, k := range keysOf[i] {
				if !have[k] {
					n++
				}
			}
			if n > gain {
				best, gain = i, n
			}
		}
		if best < 0 {
			break
		}
		taken[best] = true
		first = append(first, order[best])
		for _, k := range keysOf[best] {
			have[k] = true
		}
	}
	nFirst := len(first)
	for i, p := range order {
		if !taken[i] {
			first = append(first, p)
		}
	}
	order = first
	controlErr := kControl(newKeys(c.Seed), filepath.Join(base, "control"))
	// the whole addition stays near 30 s in the quick tier however long TLC took on a loaded machine
	budget := time.Duration(c.Pick(29, 150))*time.Second - time.Since(started)
	if min := time.Duration(c.Pick(8, 60)) * time.Second; budget < min {
		budget = min
	}
	keys := newKeys(c.Seed)
	st := &kStats{cases: map[string]bool{}}
	replayed, cut, nontrivial := 0, 0, 0
	donePerFam := map[string]int{}
	seenKeys := map[string]bool{}
	edgesDone := map[int]bool{}
	t0 := time.Now()
	for pi, p := range order {
		if time.Since(t0) > budget {
			cut = len(order) - pi
			break
		}
		before := st.blocksOffered + st.submissions
		tb := time.Now()
		m, at, desc := kReplay(g, p, keys, filepath.Join(base, fmt.Sprintf("b%d", pi)), st, seenKeys, pi%6 == 0)
		os.RemoveAll(filepath.Join(base, fmt.Sprintf("b%d", pi)))
		replayed++
		donePerFam[famOf(g, p)]++
		if st.blocksOffered+st.submissions > before {
			nontrivial++
		}
		for i := 0; i < at && i < len(p); i++ {
			edgesDone[p[i]] = true
		}
		if m == nil {
			if len(c.Out().Samples) < 3 && len(desc) > 3 {
				n := len(desc)
				if n > 8 {
					n = 8
				}
				c.Sample(map[string]interface{}{"nonce_kinds_behaviour_prefix": desc[:n], "steps": len(desc)})
			}
			continue
		}
		if time.Since(tb) > 40*time.Second {
			// the mempool evicts by wall clock (60 s): a behaviour this slow says nothing about the code
			c.Infra("nonce kinds replay: one behaviour took %v on this machine; its mismatch is not evaluated (%s%s)", time.Since(tb), m.desc, m.drift)
			return
		}
		rec := map[string]interface{}{"behaviour": desc, "step": at, "mismatch": m.desc, "spec": "spec/Ledger/NonceKinds.tla " + cfgName,
			"instantiation": "a1 = appx.NewAccount(7100+10*seed); 4 ed25519 validators sign the multi-sign transactions; signer set A = {a1, sx} (threshold 10 = a1 alone), B = {b1, b2}; upgraded contract = config.ContractConsCommitteeAddr; replicas: trie, flat"}
		switch {
		case m.infra != "":
			c.Infra("nonce kinds replay: %s (behaviour %v)", m.infra, desc)
			return
		case m.key != "":
			seenKeys[m.key] = true
			c.Violate(m.key, m.desc, rec)
		default:
			c.Drift("nonce kinds: %s", m.drift)
		}
	}
	o := c.Out()
	if controlErr != nil {
		found := false
		for _, v := range o.Violations {
			if strings.HasPrefix(v.Key, "nonce-kinds/") {
				found = true
			}
		}
		if !found { // (a tree that fails the replay explains a failed control; otherwise the binding is in doubt)
			c.Infra("nonce kinds: vacuous binding: %v", controlErr)
		}
	}
	o.Traces += replayed
	o.Evaluations += st.steps
	o.Distinct += nontrivial
	o.Rule += "; NonceKinds: behaviour = path through the TLC-exported graph of NonceKinds (first step chooses a family of transaction kinds, then blocks offered by a foreign proposer and batches submitted to the mempool, each a sequence of <= 3 transactions with at most one deviating from its sender's exact next nonce: replayed verbatim, fresh on a used nonce, gap, duplicate) replayed on a trie and a flat replica of the real application; non-trivial = at least one block offered or one transaction submitted"
	var cases []string
	for k := range st.cases {
		cases = append(cases, k)
	}
	sort.Strings(cases)
	c.SetExtra("nonce_kinds", map[string]interface{}{
		"config": cfgName, "model_states": len(g.States), "model_edges": len(g.Edges), "edges_replayed": len(edgesDone),
		"behaviours_planned": len(order), "tour_behaviours": nTour, "situations_in_model": len(allCases), "behaviours_covering_every_situation": nFirst, "behaviours_per_family": perFam, "replayed_per_family": donePerFam, "behaviours_replayed": replayed, "not_replayed_time_budget": cut,
		"steps": st.steps, "blocks_offered": st.blocksOffered, "blocks_committed": st.blocksCommitted, "blocks_the_model_rejects": st.attacks,
		"mempool_submissions": st.submissions, "situations_exercised": len(cases), "situations": cases, "wall_s": time.Since(started).Seconds()})
}
