// Package c03 checks property C03: only >2/3 of the voting power, correctly signed
// for exactly that block, makes a commit.
//
// Model: spec/VoteSet/VoteSet.tla.  Two bounded instances are checked exhaustively by
// TLC and every explored transition is exported:
//   - the vote graph (SpecVotes): NewVoteSet / AddVote / SetPeerMaj23 on types.VoteSet
//     for every comparison class of voting-power vectors, good, duplicate, re-signed,
//     conflicting and defective votes, peer-claimed majorities;
//   - the commit lattice (SpecCommits): VerifyCommit / reconstructLastCommit on commits
//     assembled slot by slot from absent, good, other-block, other-round, nil,
//     wrong-height, wrong-type, badly signed, foreign and misplaced precommits.
//
// Binding: a transition tour over the vote graph plus seeded random walks is replayed
// on the real types.VoteSet with real ed25519 keys for several instantiations (unit
// powers, powers scaled to a total just below 2^62, powers that hit or miss the 2/3
// boundary by one unit; prevote and precommit sets; block ids that differ only in the
// part-set header; every abstract defect in every concrete form the wire allows).
// After every step the harness compares added / error class / evidence pair,
// TwoThirdsMajority, HasTwoThirdsAny, HasAll, the bit arrays, the canonical votes and
// the round total, and in every quorum state MakeCommit and VerifyCommit.  Every edge
// of the commit lattice is executed on ValidatorSet.VerifyCommit directly, in the
// fast-sync shape (block id computed from a real block), through
// BlockExecutor.ValidateBlock (validateBlock) and through NewConsensusState
// (reconstructLastCommit).
//
// A third instance (spec/VoteSet/FastSync.tla, SpecFastSync) models the syncing node of
// blockchain/reactor.go poolRoutine: a peer supplies the block `first` served for height
// H, second.LastBlockID, second.LastCommit.BlockID and the precommits independently of
// each other; the node stores `first` iff VerifyCommit accepts the precommits for the id
// computed from `first` itself, otherwise it stops the peer and asks the next one.  TLC
// checks FastSyncSound (a block is stored at H only with a commit for exactly its id) and
// must refute the two named deviations (verification against the id second.LastBlockID
// names / the id the commit names).  Behaviours of one or two Serve actions are executed
// on real BlockchainReactors (triple.go); compared after every action: the block the
// syncing node's application holds at H, classified by its full id.
package c03

import (
	"encoding/json"
	"fmt"
	"os"
	"strings"
	"sync"
	"time"

	"verifh/core"
	"verifh/env"
	"verifh/mbt"
	"verifh/tlc"
)

func init() { core.Register("C03", run) }

type voteJob struct {
	vecKey string
	abs    []int
	params instParams
	seqs   [][]int
	kind   string // tour | walks
	deep   *sync.Map
}

type jobResult struct {
	behaviours int
	steps      int
	distinct   int
	r          *replayer
	in         *inst
	mm         *mismatch
	record     interface{}
}

func vecKey(p []int) string { return fmt.Sprint(p) }

func run(c *core.Ctx) {
	env.GlobalInit()
	if c.Child != "" {
		fsChild(c)
		return
	}
	if c.Replay != "" {
		replayRecorded(c)
		return
	}
	o := c.Out()
	o.Level = "model_checking"
	o.Rule = "behaviour = path through the TLC-exported vote graph of VoteSet (a tour covering every edge + seeded random walks) replayed on a real types.VoteSet for one concrete instantiation, or one edge of the commit lattice executed at the four commit-verification call sites, or a path of the fast-sync graph (one or two peers serving first / second.LastBlockID / second.LastCommit) executed on real BlockchainReactors; non-trivial = at least one vote was admitted or one commit accepted/rejected or one served pair examined by poolRoutine; distinct = distinct (instantiation, edge sequence)"
	o.Assumptions = []string{
		"validator sets of 1..3 (quick) / 1..4 (thorough) validators, one representative (several orders) of every class of power vectors that differ in which subsets exceed 2/3 of / equal the total; larger sets are not explored",
		"concrete powers are the abstract vector, a multiple with total just below 2^62, and a perturbed multiple verified (all subsets, exact arithmetic) to be comparison-equivalent with a subset hitting or missing the 2/3 boundary by at most one unit",
		"two non-nil block ids and the nil id; one (quick) or two (thorough) peers claiming majorities",
		"one defect per defective vote; in the quick tier non-signature defects are generated for one validator per state and for one block id",
		"the ed25519 implementation and the canonical sign-bytes encoder are trusted to be sound; signatures are real",
		"fast sync: height H = 1 of a chain started from genesis; the block served for H is the genuine one, another internally consistent one, the genuine header over altered content, or a block of height H+1; precommits are cast for the genuine and the other block's id only; second.LastCommit is assembled from 5 (quick) / 9 (thorough) of the 13 slot alternatives; at most two peers serve in turn; the fast-sync graph is sampled by strata (block served x id named by second x id named by the commit x what the precommits are a commit for x first/second peer), not replayed exhaustively; the two block deliveries of one peer are not interleaved with the trySync tick (poolRoutine acts only on a complete pair)",
	}
	o.Trusted = []string{"TLC", "golang.org/x/crypto ed25519", "the exact subset-comparison equivalence test of power vectors in the harness (math/big)"}

	// the instance is split over several configurations so that the TLC runs proceed in parallel
	voteCfgs, commitCfgs := []string{"VoteSetA.cfg", "VoteSetB.cfg"}, []string{"VoteSetCommit.cfg"}
	if c.Thorough() {
		voteCfgs, commitCfgs = []string{"VoteSetT1.cfg", "VoteSetT2.cfg", "VoteSetT3.cfg"}, []string{"VoteSetCommitBig.cfg"}
	}
	// the fast-sync node (FastSync.tla) and its two named deviations, which TLC must refute
	syncCfgs := []string{"FastSync.cfg"}
	if c.Thorough() {
		syncCfgs = []string{"FastSyncBig.cfg", "FastSyncBig4.cfg"}
	}
	devCfgs := []string{"FastSyncDevClaimed.cfg", "FastSyncDevCommitField.cfg"}
	all := append(append([]string{}, voteCfgs...), commitCfgs...)
	nVC := len(all)
	all = append(append(all, syncCfgs...), devCfgs...)
	results := make([]*tlc.Result, len(all))
	errs := make([]error, len(all))
	var wg sync.WaitGroup
	tlcStart := time.Now()
	for i, cf := range all {
		wg.Add(1)
		go func(i int, cf string) {
			defer wg.Done()
			results[i], errs[i] = runTLC(c, cf)
		}(i, cf)
	}
	wg.Wait()
	var linesV, linesC, linesS []string
	var refuted []string
	for i, r := range results {
		if errs[i] != nil {
			c.Infra("tlc %s: %v", all[i], errs[i])
			return
		}
		o.States += r.Distinct
		o.Transitions += r.Generated
		o.TLCRuns = append(o.TLCRuns, fmt.Sprintf("%s %s: %s", moduleOf(all[i]), all[i], r.Describe()))
		if o.CheckerCmd == "" {
			o.CheckerCmd = r.Cmd
		}
		if i >= nVC+len(syncCfgs) {
			// a named deviation (verification against the id second.LastBlockID / the commit itself names):
			// the invariant must have teeth
			if r.Violated != "FastSyncSound" {
				c.Infra("FastSync model %s: TLC does not refute the deviation (expected a violation of FastSyncSound): %s\n%s", all[i], r.Describe(), r.Tail)
				return
			}
			refuted = append(refuted, all[i]+" violates "+r.Violated)
			r.Lines = nil
			continue
		}
		if r.Violated != "" || !r.Finished || r.TimedOut || r.ErrorText != "" {
			c.Infra("VoteSet model %s: %s\n%s", all[i], r.Describe(), r.Tail)
			return
		}
		switch {
		case i < len(voteCfgs):
			linesV = append(linesV, r.Lines...)
		case i < nVC:
			linesC = append(linesC, r.Lines...)
		default:
			linesS = append(linesS, r.Lines...)
		}
		r.Lines = nil
	}
	c.SetExtra("tlc_wall_s", time.Since(tlcStart).Seconds())
	o.Exhaustive = true
	gV, err := mbt.Load(linesV)
	if err != nil {
		c.Infra("vote graph: %v", err)
		return
	}
	linesV = nil
	gC, err := mbt.Load(linesC)
	if err != nil {
		c.Infra("commit lattice: %v", err)
		return
	}
	linesC = nil
	mV, err := parseModel(gV)
	if err != nil {
		c.Infra("vote graph: %v", err)
		return
	}
	mC, err := parseModel(gC)
	if err != nil {
		c.Infra("commit lattice: %v", err)
		return
	}
	gS, err := mbt.Load(linesS)
	if err != nil {
		c.Infra("fast-sync graph: %v", err)
		return
	}
	linesS = nil
	mS, err := parseFsTModel(gS)
	if err != nil {
		c.Infra("fast-sync graph: %v", err)
		return
	}
	c.SetExtra("fastsync_graph", map[string]interface{}{"states": len(gS.States), "edges": len(gS.Edges), "configs": syncCfgs, "deviations_refuted_by_tlc": refuted})
	c.SetExtra("vote_graph", map[string]interface{}{"states": len(gV.States), "edges": len(gV.Edges), "edges_by_action": gV.ActionKinds("op"), "vote_edges_by_defect": gV.ActionKinds("d"), "configs": voteCfgs})
	c.SetExtra("commit_lattice", map[string]interface{}{"edges": len(gC.Edges), "configs": commitCfgs})

	if !negativeControls(c, mV, mC) {
		return
	}
	dbg := func(what string) {
		if os.Getenv("VERIF_C03_DEBUG") != "" {
			fmt.Fprintf(os.Stderr, "debug %s at %.1fs\n", what, time.Since(c.Start).Seconds())
		}
	}
	dbg("tlc and controls done")
	t0 := time.Now()
	replayVotes(c, mV)
	dbg("votes done")
	c.SetExtra("vote_replay_wall_s", time.Since(t0).Seconds())
	t0 = time.Now()
	replayCommits(c, mC)
	c.SetExtra("commit_replay_wall_s", time.Since(t0).Seconds())
	dbg("commits done")
	t0 = time.Now()
	replayFastSync(c, mC)
	dbg("fastsync done")
	c.SetExtra("fastsync_wall_s", time.Since(t0).Seconds())
	t0 = time.Now()
	replayTriples(c, mS)
	c.SetExtra("fastsync_triples_wall_s", time.Since(t0).Seconds())
	if os.Getenv("VERIF_C03_DEBUG") != "" {
		for _, k := range []string{"tlc_wall_s", "vote_replay_wall_s", "commit_replay_wall_s", "fastsync_wall_s", "fastsync_triples_wall_s", "fastsync_graph", "fastsync_reactor", "fastsync_triples"} {
			b, _ := json.Marshal(o.Extra[k])
			fmt.Fprintf(os.Stderr, "debug %s = %s\n", k, b)
		}
		for _, d := range o.Drift {
			fmt.Fprintln(os.Stderr, "debug drift:", d)
		}
		for _, d := range o.Infra {
			fmt.Fprintln(os.Stderr, "debug infra:", d)
		}
	}
}

func moduleOf(config string) string {
	if strings.HasPrefix(config, "FastSync") {
		return "FastSync"
	}
	return "MC_VoteSet"
}

// runTLC runs one configuration. A run that ends without a verdict, an error or a timeout
// (the JVM was killed from outside) is repeated once.
func runTLC(c *core.Ctx, config string) (*tlc.Result, error) {
	opts := tlc.Options{SpecDir: c.SpecDir("VoteSet"), Module: moduleOf(config), Config: config, Workers: 1, Timeout: c.MinutesT(4, 25)}
	r, err := tlc.Run(opts)
	if err == nil && !r.Finished && r.Violated == "" && !r.TimedOut && r.ErrorText == "" && !r.Deadlock {
		r, err = tlc.Run(opts)
	}
	return r, err
}
