package c03

import (
	"fmt"
	"math/rand"
	"sort"
	"sync"
	"time"

	"github.com/lianxiangcloud/linkchain/types"

	"verifh/core"
)

// ---- vote graph --------------------------------------------------------------------

// instParamsFor returns the which-th concrete instantiation of the abstract power vector.
func instParamsFor(c *core.Ctx, abs []int, which int) instParams {
	rng := rand.New(rand.NewSource(c.Seed*7919 + int64(which)*104729 + int64(len(abs))))
	p := instParams{abs: abs, seed: c.Seed}
	switch which {
	case 0:
		p.name, p.mode, p.powers = "unit-precommit", "unit", toI64(abs)
		p.chainID, p.height, p.round, p.typ, p.bidMode = "verif-c03", 1, 0, types.VoteTypePrecommit, "distinct"
	case 1:
		p.name, p.mode, p.powers = "scaled-prevote", "scaled", scaledPowers(abs)
		p.chainID, p.height, p.round, p.typ, p.bidMode = "verif-c03-b", uint64(1)<<40+uint64(c.Seed), 2, types.VoteTypePrevote, "parts"
	case 2:
		// total just below 2^62 and a subset that hits or misses the 2/3 boundary by one unit
		p.name, p.mode = "edge-precommit", "edge"
		if e, ok := edgePowers(abs, maxTotal, rng); ok {
			p.powers = e
		} else {
			p.mode, p.powers = "scaled", scaledPowers(abs)
		}
		p.chainID, p.height, p.round, p.typ, p.bidMode = "c", 7, 1, types.VoteTypePrecommit, "parts"
	default:
		// the boundary at a moderate scale, precommits of a late round
		p.name, p.mode = "edge-small-precommit", "edge"
		if e, ok := edgePowers(abs, 1000+rng.Int63n(100000), rng); ok {
			p.powers = e
		} else {
			p.mode, p.powers = "unit", toI64(abs)
		}
		p.chainID, p.height, p.round, p.typ, p.bidMode = "verif-c03-d", 3, 40, types.VoteTypePrecommit, "distinct"
	}
	p.name = fmt.Sprintf("%s%v", p.name, abs)
	return p
}

func runVoteJob(m *model, j voteJob) jobResult {
	in := newInst(j.params)
	r := &replayer{m: m, in: in, deep: j.deep}
	res := jobResult{r: r, in: in}
	seen := map[string]bool{}
	for _, seq := range j.seqs {
		pick0 := r.pick
		mm, done, trace := r.run(seq, func(ei int) *mAct { return m.acts[ei] })
		res.behaviours++
		res.steps += done
		k := fmt.Sprint(seq)
		if !seen[k] && done > 1 {
			seen[k] = true
			res.distinct++
		}
		if mm != nil {
			res.mm = mm
			if len(trace) > 60 {
				trace = append([]string{fmt.Sprintf("... %d earlier steps ...", len(trace)-60)}, trace[len(trace)-60:]...)
			}
			// the replay part: the behaviour up to the failing step with the model's expected states
			var acts, states []string
			for _, ei := range seq[:done] {
				acts = append(acts, mbtCompact(m.g.Edges[ei].Act))
				states = append(states, mbtCompact(m.g.Edges[ei].ToSt))
			}
			res.record = map[string]interface{}{"kind": "votes", "instantiation": in.describe(), "actions": trace, "failing_step": done, "mismatch": mm.desc,
				"replay": map[string]interface{}{"inst": recOf(j.params), "pick": pick0, "acts": acts, "states": states}}
			return res
		}
	}
	return res
}

func replayVotes(c *core.Ctx, m *model) {
	o := c.Out()
	g := m.g
	rng := rand.New(rand.NewSource(c.Seed))
	tours := g.Tour(0, rng)
	byVec := map[string][][]int{}
	absOf := map[string][]int{}
	for _, t := range tours {
		if len(t) == 0 {
			continue
		}
		a := m.acts[t[0]]
		if a.Op != "new" {
			c.Infra("vote graph: a tour does not start with NewVoteSet")
			return
		}
		k := vecKey(a.Pw)
		byVec[k] = append(byVec[k], t)
		absOf[k] = a.Pw
	}
	walks := g.Walks(c.Pick(600, 8000), 45, rng)
	walksByVec := map[string][][]int{}
	for _, w := range walks {
		if len(w) > 0 {
			k := vecKey(m.acts[w[0]].Pw)
			walksByVec[k] = append(walksByVec[k], w)
		}
	}
	var keys []string
	for k := range byVec {
		keys = append(keys, k)
	}
	sort.Strings(keys)
	var jobs []voteJob
	for vi, k := range keys {
		abs := absOf[k]
		for which := 0; which < 4; which++ {
			p := instParamsFor(c, abs, which)
			// the whole tour on the unit instantiation; thorough: also on the boundary-near-2^62
			// instantiation (sets of up to three validators), otherwise every second behaviour on it and on the
			// scaled prevote one; quick: those two replay every third behaviour of the tour each
			var seqs [][]int
			switch {
			case which == 0 || (c.Thorough() && which == 2 && len(abs) < 4):
				seqs = byVec[k]
			case which < 3:
				for ti, t := range byVec[k] {
					if (ti+vi+int(c.Seed))%c.Pick(3, 2) == which-1 {
						seqs = append(seqs, t)
					}
				}
			}
			// split into chunks so that the jobs balance over the workers; the chunks of one instantiation
			// share the record of the model states whose commit has been checked
			chunk := c.Pick(200, 1200)
			deep := &sync.Map{}
			for lo := 0; lo < len(seqs); lo += chunk {
				hi := lo + chunk
				if hi > len(seqs) {
					hi = len(seqs)
				}
				jobs = append(jobs, voteJob{vecKey: k, abs: abs, params: p, seqs: seqs[lo:hi], kind: "tour", deep: deep})
			}
			if ws := walksByVec[k]; len(ws) > 0 {
				lo, hi := which*len(ws)/4, (which+1)*len(ws)/4
				if hi > lo {
					pw := p
					pw.name += "/walks"
					jobs = append(jobs, voteJob{vecKey: k, abs: abs, params: pw, seqs: ws[lo:hi], kind: "walks", deep: &sync.Map{}})
				}
			}
		}
	}
	// longest jobs first
	sort.SliceStable(jobs, func(i, j int) bool { return len(jobs[i].seqs) > len(jobs[j].seqs) })
	results := make([]jobResult, len(jobs))
	var wg sync.WaitGroup
	sem := make(chan struct{}, 14)
	for ji := range jobs {
		wg.Add(1)
		go func(ji int) {
			defer wg.Done()
			sem <- struct{}{}
			defer func() { <-sem }()
			results[ji] = runVoteJob(m, jobs[ji])
		}(ji)
	}
	wg.Wait()
	variants := map[string]int{}
	modes := map[string]int{}
	var signed, commits, nocommit, conflicts, majorities, drift int
	edgeVectors := [][]int64{}
	for ji, r := range results {
		o.Traces += r.behaviours
		o.Evaluations += r.steps
		o.Distinct += r.distinct
		for k, v := range r.in.variant {
			variants[k] += v
		}
		modes[r.in.mode]++
		if r.in.mode == "edge" && len(edgeVectors) < 16 && jobs[ji].kind == "tour" {
			edgeVectors = append(edgeVectors, r.in.powers)
		}
		signed += r.r.signedOK
		commits += r.r.commits
		nocommit += r.r.nocommit
		conflicts += r.r.conflicts
		majorities += r.r.majorities
		if r.mm != nil {
			if r.mm.shape {
				drift++
				c.Drift("%s: %s: %s", r.in.name, r.mm.key, r.mm.desc)
			} else {
				c.Violate(r.mm.key, fmt.Sprintf("%s: %s", r.in.name, r.mm.desc), r.record)
			}
		}
	}
	for ji, j := range jobs {
		if j.kind == "tour" && len(j.abs) >= 3 {
			seq := j.seqs[len(j.seqs)/2]
			n := len(seq)
			if n > 12 {
				n = 12
			}
			var tr []string
			for _, ei := range seq[:n] {
				tr = append(tr, m.acts[ei].raw)
			}
			c.Sample(map[string]interface{}{"instantiation": results[ji].in.describe(), "behaviour_prefix": tr})
			break
		}
	}
	c.SetExtra("vote_replay", map[string]interface{}{"jobs": len(jobs), "tours": len(tours), "walks": len(walks), "votes_admitted": signed,
		"conflicts_surfaced": conflicts, "majorities_reached": majorities, "commits_made_and_verified": commits, "states_without_majority_refusing_commit": nocommit,
		"concrete_variants_used": variants, "jobs_by_power_mode": modes, "boundary_power_vectors": edgeVectors})
	if drift*5 > len(jobs) {
		c.Infra("specification stale: %d of %d vote-graph jobs ended in drift", drift, len(jobs))
	}
}

// ---- commit lattice ------------------------------------------------------------------

func commitInstParams(c *core.Ctx, abs []int, which int) instParams {
	p := instParamsFor(c, abs, which)
	p.typ = types.VoteTypePrecommit
	p.name = "commit/" + p.name
	if which != 1 {
		p.bidMode = "blocks"
	}
	if p.height < 2 {
		p.height = 2 // the LastCommit of the block at height 3 then; height 1 has no LastCommit to verify
	}
	return p
}

func replayCommits(c *core.Ctx, m *model) {
	o := c.Out()
	g := m.g
	// group the commit edges by power vector (the state they loop on)
	type grp struct {
		abs   []int
		edges []int
	}
	groups := map[string]*grp{}
	for ei, e := range g.Edges {
		a := m.acts[ei]
		if a.Op != "commit" {
			continue
		}
		abs := m.states[e.From].Pw
		k := vecKey(abs)
		if groups[k] == nil {
			groups[k] = &grp{abs: abs}
		}
		groups[k].edges = append(groups[k].edges, ei)
	}
	var keys []string
	for k := range groups {
		keys = append(keys, k)
	}
	sort.Strings(keys)
	type cjob struct {
		abs   []int
		edges []int
		which int
		sites map[string]bool
	}
	var jobs []cjob
	chunk := c.Pick(500, 8000)
	for _, k := range keys {
		gr := groups[k]
		for lo := 0; lo < len(gr.edges); lo += chunk {
			hi := lo + chunk
			if hi > len(gr.edges) {
				hi = len(gr.edges)
			}
			ed := gr.edges[lo:hi]
			// quick, and sets of four validators in the thorough tier: the scaled and the boundary
			// instantiation take every second commit each
			half := func(par int) []int {
				if c.Thorough() && len(gr.abs) < 4 {
					return ed
				}
				var out []int
				for _, ei := range ed {
					if (ei+int(c.Seed))%2 == par {
						out = append(out, ei)
					}
				}
				return out
			}
			// 0: unit powers, ids of real blocks, every call site; 1: scaled powers, block ids that differ
			// in the part-set header only; 2: boundary powers near 2^62, ids of real blocks
			jobs = append(jobs, cjob{gr.abs, ed, 0, map[string]bool{"direct": true, "fastsync": true, "validate": true, "reconstruct": true}})
			jobs = append(jobs, cjob{gr.abs, half(0), 1, map[string]bool{"direct": true, "validate": true}})
			jobs = append(jobs, cjob{gr.abs, half(1), 2, map[string]bool{"direct": true, "fastsync": true, "reconstruct": true}})
		}
	}
	type cres struct {
		st      commitStats
		mm      *mismatch
		record  interface{}
		name    string
		variant map[string]int
	}
	results := make([]cres, len(jobs))
	var wg sync.WaitGroup
	sem := make(chan struct{}, 14)
	for ji := range jobs {
		wg.Add(1)
		go func(ji int) {
			defer wg.Done()
			sem <- struct{}{}
			defer func() { <-sem }()
			j := jobs[ji]
			res := &results[ji]
			res.variant = map[string]int{}
			p := commitInstParams(c, j.abs, j.which)
			res.name = p.name
			// one instantiation per claimed height: the abstract block ids are ids of real blocks of that height
			sitesBy := map[bool]*commitSites{}
			for _, hOK := range []bool{true, false} {
				in := newInst(p)
				claimed := in.height
				if !hOK {
					claimed++
				}
				sitesBy[hOK] = newCommitSites(in, claimed)
			}
			for n, ei := range j.edges {
				a := m.acts[ei]
				s := sitesBy[a.HOK]
				mm, names := s.replayCommit(a, n+int(c.Seed), &res.st, j.sites)
				if mm != nil {
					res.mm = mm
					var sites []string
					for st := range j.sites {
						sites = append(sites, st)
					}
					sort.Strings(sites)
					res.record = map[string]interface{}{"kind": "commit", "instantiation": s.in.describe(), "action": a.raw, "slots": names, "mismatch": mm.desc,
						"replay": map[string]interface{}{"inst": recOf(p), "pick": n + int(c.Seed), "act": a.raw, "sites": sites}}
					break
				}
			}
			for _, s := range sitesBy {
				for k, v := range s.in.variant {
					res.variant[k] += v
				}
			}
		}(ji)
	}
	wg.Wait()
	var tot commitStats
	variants := map[string]int{}
	for _, r := range results {
		tot.edges += r.st.edges
		tot.calls += r.st.calls
		tot.accepted += r.st.accepted
		tot.reconstructed += r.st.reconstructed
		for k, v := range r.variant {
			variants[k] += v
		}
		if r.mm != nil {
			if r.mm.shape {
				c.Drift("%s: %s: %s", r.name, r.mm.key, r.mm.desc)
			} else {
				c.Violate(r.mm.key, fmt.Sprintf("%s: %s", r.name, r.mm.desc), r.record)
			}
		}
	}
	o.Traces += tot.edges
	o.Evaluations += tot.calls
	o.Distinct += tot.edges
	c.SetExtra("commit_replay", map[string]interface{}{"jobs": len(jobs), "commits_executed": tot.edges, "call_site_evaluations": tot.calls,
		"accepted_by_verifycommit": tot.accepted, "reconstructed": tot.reconstructed, "slot_variants_used": variants})
	if len(jobs) > 0 {
		for ji := len(jobs) - 1; ji >= 0; ji-- {
			if len(jobs[ji].edges) > 0 {
				ei := jobs[ji].edges[len(jobs[ji].edges)/2]
				c.Sample(map[string]interface{}{"commit_lattice_edge": m.acts[ei].raw, "instantiation": results[ji].name})
				break
			}
		}
	}
}

// ---- negative controls -----------------------------------------------------------------

// negativeControls replays one behaviour / two lattice edges with single expected values
// corrupted; the comparison must reject each of them, otherwise the binding is vacuous.
func negativeControls(c *core.Ctx, mV, mC *model) bool {
	start := time.Now()
	g := mV.g
	rng := rand.New(rand.NewSource(c.Seed + 99))
	// a behaviour that admits votes, surfaces a conflict, rejects a defective vote and reaches a majority
	var seq []int
	for _, w := range g.Walks(6000, 45, rng) {
		var added, defect, conflict, maj bool
		for _, ei := range w {
			a := mV.acts[ei]
			added = added || (a.Op == "vote" && a.Added)
			defect = defect || (a.Op == "vote" && a.D != "none")
			conflict = conflict || (a.Op == "vote" && a.Err == "conflict")
			maj = maj || mV.states[g.Edges[ei].To].Maj != "none"
		}
		if added && defect && conflict && maj {
			seq = w
			break
		}
	}
	if seq == nil {
		c.Infra("negative control: no random walk admits a vote, surfaces a conflict, rejects a defective vote and reaches a majority")
		return false
	}
	abs := mV.acts[seq[0]].Pw
	type ctl struct {
		name string
		sel  func(a *mAct) bool
		mut  func(a *mAct)
	}
	ctls := []ctl{
		{"admitted vote expected as not added", func(a *mAct) bool { return a.Op == "vote" && a.Added && a.Err == "none" }, func(a *mAct) { a.Added = false }},
		{"defective vote expected as accepted", func(a *mAct) bool { return a.Op == "vote" && a.D != "none" }, func(a *mAct) { a.Err = "none" }},
		{"conflict expected as plain admission", func(a *mAct) bool { return a.Op == "vote" && a.Err == "conflict" }, func(a *mAct) { a.Err = "none" }},
		{"evidence pair expected with another canonical vote", func(a *mAct) bool { return a.Op == "vote" && a.Err == "conflict" }, func(a *mAct) { a.evA = otherBlock(a.evA) }},
	}
	detected := []string{}
	clean := func(m *model) *replayer {
		return &replayer{m: m, in: newInst(instParamsFor(c, abs, 0)), deep: &sync.Map{}}
	}
	if mm, _, _ := clean(mV).run(seq, func(ei int) *mAct { return mV.acts[ei] }); mm != nil {
		// the uncorrupted behaviour itself fails: the main replay reports it
		return true
	}
	for _, ct := range ctls {
		target := -1
		for _, ei := range seq {
			if ct.sel(mV.acts[ei]) {
				target = ei
				break
			}
		}
		if target < 0 {
			c.Infra("negative control %q: no step to corrupt", ct.name)
			return false
		}
		mm, _, _ := clean(mV).run(seq, func(ei int) *mAct {
			if ei != target {
				return mV.acts[ei]
			}
			cp := *mV.acts[ei]
			ct.mut(&cp)
			return &cp
		})
		if mm == nil {
			c.Infra("vacuous binding: the replay accepts a behaviour with a corrupted expectation (%s)", ct.name)
			return false
		}
		detected = append(detected, ct.name+" -> "+mm.key)
	}
	// a corrupted model state: the majority block of the last state that has one
	{
		target := -1
		for _, ei := range seq {
			if mV.states[g.Edges[ei].To].Maj != "none" {
				target = g.Edges[ei].To
			}
		}
		cp := *mV.states[target]
		cp.Maj = otherBlock(cp.Maj)
		m2 := &model{g: g, states: append([]*mState{}, mV.states...), acts: mV.acts}
		m2.states[target] = &cp
		mm, _, _ := clean(m2).run(seq, func(ei int) *mAct { return mV.acts[ei] })
		if mm == nil {
			c.Infra("vacuous binding: the replay accepts a behaviour whose expected majority block was changed")
			return false
		}
		detected = append(detected, "majority block changed in the expected state -> "+mm.key)
	}
	// commit lattice: one accepted and one rejected edge with the verdict flipped
	for _, want := range []bool{true, false} {
		target := -1
		for ei, a := range mC.acts {
			if a.Op == "commit" && a.HOK && a.Extra == 0 && a.Verify == want && len(a.Kinds) >= 2 {
				target = ei
				break
			}
		}
		if target < 0 {
			c.Infra("negative control: the commit lattice has no edge with verify=%v", want)
			return false
		}
		abs := mC.states[mC.g.Edges[target].From].Pw
		in := newInst(commitInstParams(c, abs, 0))
		s := newCommitSites(in, in.height)
		all := map[string]bool{"direct": true, "fastsync": true, "validate": true, "reconstruct": true}
		var st commitStats
		if mm, _ := s.replayCommit(mC.acts[target], 0, &st, all); mm != nil {
			continue // the uncorrupted edge itself fails: the main replay reports it
		}
		for _, site := range []string{"direct", "fastsync", "validate"} {
			cp := *mC.acts[target]
			cp.Verify = !cp.Verify
			mm, _ := s.replayCommit(&cp, 0, &st, map[string]bool{site: true})
			if mm == nil {
				c.Infra("vacuous binding: the commit replay (%s) accepts a flipped VerifyCommit verdict (verify=%v)", site, want)
				return false
			}
			detected = append(detected, fmt.Sprintf("VerifyCommit verdict flipped from %v at %s -> %s", want, site, mm.key))
		}
		cp := *mC.acts[target]
		if cp.Reconstruct == "none" {
			cp.Reconstruct = cp.Bid
		} else {
			cp.Reconstruct = "none"
		}
		if mm, _ := s.replayCommit(&cp, 0, &st, map[string]bool{"reconstruct": true}); mm == nil {
			c.Infra("vacuous binding: the commit replay accepts a flipped reconstructLastCommit verdict")
			return false
		} else {
			detected = append(detected, "reconstructLastCommit verdict flipped -> "+mm.key)
		}
	}
	c.SetExtra("negative_controls", map[string]interface{}{"rejected": detected, "wall_s": time.Since(start).Seconds()})
	return true
}
