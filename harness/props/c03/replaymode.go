package c03

import (
	"encoding/json"
	"fmt"
	"io/ioutil"
	"sync"

	"verifh/core"
	"verifh/mbt"
)

// `check C03 --replay <file>`: re-executes exactly the recorded failing input on the real
// code - the recorded behaviour with the model's expected results and states (vote graph),
// the recorded commit at the recorded call sites (commit lattice), or the recorded
// scenario on the two real reactors (fast sync) - without running TLC again.

type instRec struct {
	Name    string  `json:"name"`
	Abs     []int   `json:"abs"`
	Powers  []int64 `json:"powers"`
	Mode    string  `json:"mode"`
	Seed    int64   `json:"seed"`
	ChainID string  `json:"chain_id"`
	Height  uint64  `json:"height"`
	Round   int     `json:"round"`
	Typ     byte    `json:"type"`
	BidMode string  `json:"block_ids"`
}

func recOf(p instParams) instRec {
	return instRec{p.name, p.abs, p.powers, p.mode, p.seed, p.chainID, p.height, p.round, p.typ, p.bidMode}
}

func (r instRec) params() instParams {
	return instParams{name: r.Name, abs: r.Abs, powers: r.Powers, mode: r.Mode, seed: r.Seed, chainID: r.ChainID, height: r.Height,
		round: r.Round, typ: r.Typ, bidMode: r.BidMode}
}

func mbtCompact(r json.RawMessage) string { return mbt.Compact(r) }

const initStateJSON = `{"pw":[],"v":[],"bits":[],"sum":0,"maj":"none","any":false,"all":false,"bb":{},"pm":{}}`

func replayRecorded(c *core.Ctx) {
	b, err := ioutil.ReadFile(c.Replay)
	if err != nil {
		c.Infra("replay file: %v", err)
		return
	}
	var f struct {
		Key    string `json:"key"`
		Record struct {
			Kind   string `json:"kind"`
			Replay struct {
				Inst     instRec    `json:"inst"`
				Pick     int        `json:"pick"`
				Acts     []string   `json:"acts"`
				States   []string   `json:"states"`
				Act      string     `json:"act"`
				Sites    []string   `json:"sites"`
				Scenario fsScenario `json:"scenario"`
				Triple   fsTriple   `json:"triple"`
				Seed     int64      `json:"seed"`
			} `json:"replay"`
		} `json:"record"`
	}
	if err := json.Unmarshal(b, &f); err != nil {
		c.Infra("replay file: %v", err)
		return
	}
	rp := f.Record.Replay
	report := func(mm *mismatch, rec interface{}) {
		if mm == nil {
			fmt.Println("replay: the recorded input no longer fails")
			return
		}
		if mm.shape {
			c.Drift("%s: %s", mm.key, mm.desc)
			return
		}
		c.Violate(mm.key, mm.desc, rec)
	}
	switch f.Record.Kind {
	case "votes":
		if len(rp.Acts) == 0 || len(rp.Acts) != len(rp.States) {
			c.Infra("replay file: malformed behaviour")
			return
		}
		g := &mbt.Graph{States: []json.RawMessage{json.RawMessage(initStateJSON)}}
		var seq []int
		for i := range rp.Acts {
			g.States = append(g.States, json.RawMessage(rp.States[i]))
			g.Edges = append(g.Edges, mbt.Edge{From: i, To: i + 1, Act: json.RawMessage(rp.Acts[i]), ToSt: json.RawMessage(rp.States[i])})
			seq = append(seq, i)
		}
		m, err := parseModel(g)
		if err != nil {
			c.Infra("replay file: %v", err)
			return
		}
		in := newInst(rp.Inst.params())
		r := &replayer{m: m, in: in, pick: rp.Pick, deep: &sync.Map{}}
		mm, done, trace := r.run(seq, func(ei int) *mAct { return m.acts[ei] })
		c.AddTraces(1)
		c.AddEvals(done)
		report(mm, map[string]interface{}{"kind": "votes", "instantiation": in.describe(), "actions": trace, "failing_step": done, "replay": rp})
	case "commit":
		var a mAct
		if err := json.Unmarshal([]byte(rp.Act), &a); err != nil {
			c.Infra("replay file: %v", err)
			return
		}
		a.raw = rp.Act
		in := newInst(rp.Inst.params())
		claimed := in.height
		if !a.HOK {
			claimed++
		}
		s := newCommitSites(in, claimed)
		sites := map[string]bool{}
		for _, st := range rp.Sites {
			sites[st] = true
		}
		var st commitStats
		mm, names := s.replayCommit(&a, rp.Pick, &st, sites)
		c.AddTraces(1)
		c.AddEvals(st.calls)
		report(mm, map[string]interface{}{"kind": "commit", "instantiation": in.describe(), "action": a.raw, "slots": names, "replay": rp})
	case "fastsync":
		sc := rp.Scenario
		var v, d string
		for attempt := 0; attempt < 4; attempt++ {
			if v, d = fsRun(sc, rp.Seed); v != "none" {
				break
			}
		}
		c.AddTraces(1)
		c.AddEvals(1)
		rec := map[string]interface{}{"kind": "fastsync", "scenario": sc, "verdict": v, "detail": d, "replay": rp}
		switch {
		case v == "none":
			c.Infra("fast sync scenario: %s", d)
		case v == "accepted" && !sc.Verify:
			c.Violate("fastsync-reactor/accepts-what-is-no-commit", fmt.Sprintf("the syncing node committed block 1 on slots %v (commit.BlockID names %s) of validator set %v; the specification rejects this commit", sc.Kinds, sc.BidField, sc.Pw), rec)
		case v == "rejected" && sc.Verify:
			c.Violate("fastsync-reactor/rejects-a-commit", fmt.Sprintf("the syncing node rejected block 1 on slots %v of validator set %v (%s); the specification accepts this commit", sc.Kinds, sc.Pw, d), rec)
		default:
			fmt.Println("replay: the recorded input no longer fails")
		}
	case "fastsync3":
		// the recorded behaviour on the real reactors, in a child process (ApplyBlock may panic)
		sc := rp.Triple
		seed := c.Seed
		c.Seed = rp.Seed
		ends, commits, _, _, ok := runTriples(c, []fsTriple{sc}, nil)
		c.Seed = seed
		per, held, died, have := fsObserved(0, ends, commits, sc)
		if !ok || !have {
			c.Infra("fast sync (triples): the recorded behaviour could not be executed")
			return
		}
		c.AddTraces(1)
		c.AddEvals(len(per))
		rec := map[string]interface{}{"kind": "fastsync3", "scenario": sc, "observed": per, "held": held, "process_died": died, "replay": rp}
		vs := fsJudge(sc, per, held, died)
		n := 0
		for _, v := range vs {
			switch {
			case v.infra:
				c.Infra("fast sync (triples): %s", v.desc)
			case v.shape:
				c.Drift("%s: %s", v.key, v.desc)
			default:
				c.Violate(v.key, v.desc, rec)
				n++
			}
		}
		if n == 0 {
			fmt.Println("replay: the recorded input no longer fails")
		}
	default:
		c.Infra("replay file: unknown record kind %q", f.Record.Kind)
	}
}
