package c03

import (
	"fmt"

	cfg "github.com/lianxiangcloud/linkchain/config"
	cs "github.com/lianxiangcloud/linkchain/consensus"
	"github.com/lianxiangcloud/linkchain/libs/common"
	dbm "github.com/lianxiangcloud/linkchain/libs/db"
	"github.com/lianxiangcloud/linkchain/libs/log"
	"github.com/lianxiangcloud/linkchain/types"
)

// Replay of the commit lattice (op "commit" of the model) on the real
// ValidatorSet.VerifyCommit and on its call sites:
//   direct      VerifyCommit(chainID, blockID, height, commit)
//   fastsync    the shape of blockchain/reactor.go poolRoutine:
//               VerifyCommit(chainID, firstID, first.Height, second.LastCommit) with firstID
//               computed from the real block `first` and its part set
//   validate    BlockExecutor.ValidateBlock -> validateBlock: the LastCommit check of a
//               block that is valid in every other respect
//   reconstruct NewConsensusState -> reconstructLastCommit with the commit as the stored
//               seen commit

var sigBadVariants = 5

// slotVote instantiates the precommit of kind `kind` in slot k (0-based).
func (in *inst) slotVote(kind string, k int, bB, bO string, pick int) (*types.Vote, string) {
	nx := (k + 1) % in.n
	mk := func(signer int, idx int, b string, rnd int) *types.Vote {
		key := fmt.Sprintf("pc/%d/%d/%s/%d", signer, idx, b, rnd)
		if v, ok := in.cache[key]; ok {
			return v
		}
		v := in.raw(idx, b, 0)
		v.Round = in.round + rnd
		in.sign(in.keys[signer], in.chainID, v)
		in.cache[key] = v
		return v
	}
	switch kind {
	case "absent":
		return nil, kind
	case "B":
		return mk(k, k, bB, 0), kind
	case "B@r1":
		return mk(k, k, bB, 1), kind
	case "O":
		return mk(k, k, bO, 0), kind
	case "O@r1":
		return mk(k, k, bO, 1), kind
	case "nil":
		return mk(k, k, "nil", 0), kind
	case "nil@r1":
		return mk(k, k, "nil", 1), kind
	case "nextAsNext": // byte-identical to the next validator's own precommit
		return mk(nx, nx, bB, 0), kind
	case "nextAsSlot":
		return mk(nx, k, bB, 0), kind
	}
	variant := pick
	key := fmt.Sprintf("pcx/%s/%d/%s/%d", kind, k, bB, variant)
	if v, ok := in.cache[key]; ok {
		return v, fmt.Sprintf("%s/%d", kind, variant)
	}
	v := in.raw(k, bB, 0)
	name := kind
	switch kind {
	case "hBad": // validly signed for another height
		if variant%2 == 0 || in.height == 1 {
			v.Height = in.height + 1
		} else {
			v.Height = in.height - 1
		}
		in.sign(in.keys[k], in.chainID, v)
		name = fmt.Sprintf("hBad/%d", variant%2)
	case "tBad": // a validly signed prevote (or a type that does not exist)
		if variant%2 == 0 {
			v.Type = types.VoteTypePrevote
		} else {
			v.Type = 0x03
		}
		in.sign(in.keys[k], in.chainID, v)
		name = fmt.Sprintf("tBad/%d", variant%2)
	case "foreign": // a key outside the set, naming slot k (or itself)
		if variant%2 == 1 {
			v.ValidatorAddress = in.foreign.PubKey().Address()
		}
		in.sign(in.foreign, in.chainID, v)
		name = fmt.Sprintf("foreign/%d", variant%2)
	case "sigBad":
		switch variant % sigBadVariants {
		case 0: // signed for another chain id
			in.sign(in.keys[k], in.otherCh, v)
		case 1: // transplanted from the validator's precommit for the other block
			v.Signature = mk(k, k, bO, 0).Signature
		case 2: // garbled
			in.sign(in.keys[k], in.chainID, v)
			v.Signature = flipSig(v.Signature)
		case 3: // transplanted from the validator's precommit of the next round
			v.Signature = mk(k, k, bB, 1).Signature
		case 4: // transplanted from the validator's prevote for the same block
			o := in.raw(k, bB, 0)
			o.Type = types.VoteTypePrevote
			v.Signature = in.sign(in.keys[k], in.chainID, o).Signature
		}
		name = fmt.Sprintf("sigBad/%d", variant%sigBadVariants)
	default:
		panic("unknown slot kind " + kind)
	}
	in.cache[key] = v
	return v, name
}

type commitSites struct {
	in      *inst
	first   *types.Block // the block the commit is about (fast-sync shape), at the claimed height
	status  cs.NewStatus
	db      dbm.DB
	exec    *cs.BlockExecutor
	conf    *cfg.ConsensusConfig
	claimed uint64
}

func emptyCommit() *types.Commit { return &types.Commit{} }

func newHeaderBlock(chainID string, height uint64, tm uint64, lastID types.BlockID, lastCommit *types.Commit, valsHash, consHash common.Hash) *types.Block {
	b := types.MakeBlock(height, nil, lastCommit)
	b.Header.ChainID = chainID
	b.Header.Time = tm
	b.Header.LastBlockID = lastID
	b.Header.LastCommitHash = lastCommit.Hash()
	b.Header.ValidatorsHash = valsHash
	b.Header.ConsensusHash = consHash
	b.Header.DataHash = b.Data.Hash()
	b.Header.EvidenceHash = b.Evidence.Hash()
	return b
}

// newCommitSites prepares the surroundings of the call sites for inst `in`, for commits
// claimed to be for height `claimed`; abstract block B1 becomes the id of a real block.
func newCommitSites(in *inst, claimed uint64) *commitSites {
	s := &commitSites{in: in, claimed: claimed}
	params := types.DefaultConsensusParams()
	consHash := common.BytesToHash(params.Hash())
	valsHash := common.BytesToHash(in.valSet.Hash())
	prevID := types.BlockID{Hash: hashOf(in.name + "/prev"), PartsHeader: types.PartSetHeader{Total: 1, Hash: hashOf(in.name + "/prevparts").Bytes()}}
	s.first = newHeaderBlock(in.chainID, claimed, uint64(in.t0.Unix()), prevID, emptyCommit(), valsHash, consHash)
	s.db = dbm.NewMemDB()
	s.exec = cs.NewBlockExecutor(s.db, log.NewNopLogger(), cs.MockEvidencePool{})
	s.conf = cfg.TestConsensusConfig()
	s.status = cs.NewStatus{ChainID: in.chainID, LastBlockHeight: claimed, LastBlockTotalTx: 0, LastBlockTime: uint64(in.t0.Unix()),
		// the set in force at the committed height is LastValidators; the current set has other keys
		Validators: in.otherVS.Copy(), LastValidators: in.valSet.Copy(), LastHeightValidatorsChanged: 1, LastRecover: true,
		ConsensusParams: *params, LastHeightConsensusParamsChanged: 1}
	if in.bidMode == "blocks" {
		// the abstract block ids become the ids of two real blocks of the claimed height
		if len(in.cache) != 0 {
			panic("block ids must be fixed before the first vote is signed")
		}
		in.bids["B1"] = s.firstID()
		other := newHeaderBlock(in.chainID, claimed, uint64(in.t0.Unix())+5, prevID, emptyCommit(), valsHash, consHash)
		in.bids["B2"] = types.BlockID{Hash: other.Hash(), PartsHeader: other.MakePartSet(s.status.ConsensusParams.BlockPartSizeBytes).Header()}
	}
	return s
}

// firstID computes the block id the way poolRoutine does.
func (s *commitSites) firstID() types.BlockID {
	parts := s.first.MakePartSet(s.status.ConsensusParams.BlockPartSizeBytes)
	return types.BlockID{Hash: s.first.Hash(), PartsHeader: parts.Header()}
}

type seenApp struct {
	commit *types.Commit
}

func (a *seenApp) Height() uint64                                   { return 0 }
func (a *seenApp) LoadBlockMeta(h uint64) *types.BlockMeta          { return nil }
func (a *seenApp) LoadBlock(h uint64) *types.Block                  { return nil }
func (a *seenApp) LoadBlockPart(h uint64, i int) *types.Part        { return nil }
func (a *seenApp) LoadBlockCommit(h uint64) *types.Commit           { return a.commit }
func (a *seenApp) LoadSeenCommit(h uint64) *types.Commit            { return a.commit }
func (a *seenApp) GetValidators(h uint64) []*types.Validator        { return nil }
func (a *seenApp) GetRecoverValidators(h uint64) []*types.Validator { return nil }
func (a *seenApp) CreateBlock(h uint64, maxTxs int, gasLimit uint64, t uint64) *types.Block {
	return nil
}
func (a *seenApp) PreRunBlock(b *types.Block)     {}
func (a *seenApp) CheckBlock(b *types.Block) bool { return true }
func (a *seenApp) CommitBlock(b *types.Block, ps *types.PartSet, sc *types.Commit, fs bool) ([]*types.Validator, error) {
	return nil, nil
}
func (a *seenApp) SetLastChangedVals(h uint64, v []*types.Validator) {}

type commitStats struct {
	edges, calls, accepted, reconstructed int
}

// replayCommit executes one commit edge at every call site; returns the first mismatch.
func (s *commitSites) replayCommit(a *mAct, pick int, st *commitStats, sites map[string]bool) (*mismatch, []string) {
	in := s.in
	n := in.n
	bB, bO := a.Bid, a.Other
	var pcs []*types.Vote
	var names []string
	for k := 0; k < n; k++ {
		v, name := in.slotVote(a.Kinds[k], k, bB, bO, pick+k)
		pcs = append(pcs, v)
		names = append(names, name)
		in.used("slot/" + name)
	}
	if a.Extra > 0 {
		v, _ := in.slotVote("B", n-1, bB, bO, 0)
		pcs = append(pcs, v)
	} else if a.Extra < 0 {
		pcs = pcs[:n-1]
	}
	claimed := in.height
	if !a.HOK {
		claimed = in.height + 1
	}
	if claimed != s.claimed {
		panic("commit sites prepared for another height")
	}
	mk := func() *types.Commit {
		return &types.Commit{BlockID: in.bids[bB], Precommits: append([]*types.Vote{}, pcs...)}
	}
	st.edges++
	cmp := func(site string, got bool, want bool, what string) *mismatch {
		st.calls++
		if got == want {
			return nil
		}
		if got {
			return &mismatch{key: site + "/accepts-what-is-no-commit", desc: fmt.Sprintf("%s accepts slots %v (extra %d, height claimed correctly: %v) as a commit for %s; the specification rejects it", what, names, a.Extra, a.HOK, bB)}
		}
		return &mismatch{key: site + "/rejects-a-commit", desc: fmt.Sprintf("%s rejects slots %v as a commit for %s; the specification accepts it", what, names, bB)}
	}
	// direct
	if sites["direct"] {
		var err error
		if p := guard(func() { err = in.valSet.VerifyCommit(in.chainID, in.bids[bB], claimed, mk()) }); p != nil {
			return &mismatch{key: "panic/verify-commit", desc: fmt.Sprintf("VerifyCommit panicked on slots %v: %v", names, p)}, names
		}
		if err == nil {
			st.accepted++
		}
		if mm := cmp("verifycommit", err == nil, a.Verify, "VerifyCommit"); mm != nil {
			return mm, names
		}
		if p := guard(func() { err = in.valSet.VerifyCommit(in.chainID, in.bids[bO], claimed, mk()) }); p != nil {
			return &mismatch{key: "panic/verify-commit", desc: fmt.Sprintf("VerifyCommit panicked on slots %v: %v", names, p)}, names
		}
		if mm := cmp("verifycommit-other-block", err == nil, a.VerifyOther, "VerifyCommit for the other block id"); mm != nil {
			return mm, names
		}
	}
	// fast-sync shape: second.LastCommit against the id computed from the real first block
	if sites["fastsync"] {
		second := newHeaderBlock(in.chainID, claimed+1, uint64(in.t0.Unix())+1, in.bids[bB], mk(), s.first.Header.ValidatorsHash, s.first.Header.ConsensusHash)
		var err error
		if p := guard(func() {
			firstID := s.firstID()
			// poolRoutine's status is the one before `first`: its Validators are the set in force at first.Height
			err = in.valSet.VerifyCommit(in.chainID, firstID, s.first.Header.Height, second.LastCommit)
		}); p != nil {
			return &mismatch{key: "panic/fastsync", desc: fmt.Sprintf("the fast-sync verification panicked on slots %v: %v", names, p)}, names
		}
		if mm := cmp("fastsync", err == nil, a.Verify, "the fast-sync check VerifyCommit(chainID, firstID, first.Height, second.LastCommit)"); mm != nil {
			return mm, names
		}
	}
	// validateBlock
	if sites["validate"] {
		status := s.status.Copy()
		status.LastBlockID = in.bids[bB]
		blk := newHeaderBlock(in.chainID, claimed+1, uint64(in.t0.Unix())+1, in.bids[bB], mk(), common.BytesToHash(status.Validators.Hash()), common.BytesToHash(status.ConsensusParams.Hash()))
		var err error
		if p := guard(func() { err = s.exec.ValidateBlock(status, blk) }); p != nil {
			return &mismatch{key: "panic/validate-block", desc: fmt.Sprintf("ValidateBlock panicked on slots %v: %v", names, p)}, names
		}
		if mm := cmp("validateblock", err == nil, a.Verify, "validateBlock (LastCommit of an otherwise valid block)"); mm != nil {
			if err != nil {
				mm.desc += fmt.Sprintf(" [error: %v]", err)
			}
			return mm, names
		}
	}
	// reconstructLastCommit
	if sites["reconstruct"] && a.Extra == 0 && a.HOK {
		status := s.status.Copy()
		status.LastBlockID = in.bids[bB]
		app := &seenApp{commit: mk()}
		var state *cs.ConsensusState
		p := guard(func() {
			state = cs.NewConsensusState(s.conf, status, s.exec, app, cs.MockMempool{}, cs.MockEvidencePool{})
		})
		got := "none"
		if p == nil {
			if state.LastCommit == nil {
				return &mismatch{key: "reconstruct/no-last-commit", desc: fmt.Sprintf("NewConsensusState returned without a LastCommit for slots %v", names)}, names
			}
			bid, ok := state.LastCommit.TwoThirdsMajority()
			if !ok {
				return &mismatch{key: "reconstruct/accepts-without-majority", desc: fmt.Sprintf("reconstructLastCommit kept a LastCommit without majority for slots %v", names)}, names
			}
			for b, id := range in.bids {
				if id.Equals(bid) {
					got = b
				}
			}
			st.reconstructed++
		}
		st.calls++
		if got != a.Reconstruct {
			if got != "none" {
				return &mismatch{key: "reconstruct/accepts-what-is-no-commit", desc: fmt.Sprintf("reconstructLastCommit accepts slots %v with majority %s; the specification says %s", names, got, a.Reconstruct)}, names
			}
			return &mismatch{key: "reconstruct/rejects-a-commit", desc: fmt.Sprintf("reconstructLastCommit fails (%v) on slots %v; the specification reconstructs a majority for %s", p, names, a.Reconstruct)}, names
		}
	}
	return nil, names
}
