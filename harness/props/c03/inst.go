package c03

import (
	"bytes"
	"fmt"
	"math"
	"sort"
	"time"

	"github.com/lianxiangcloud/linkchain/libs/common"
	"github.com/lianxiangcloud/linkchain/libs/crypto"
	"github.com/lianxiangcloud/linkchain/types"
)

// inst is one concrete instantiation of an abstract validator set: real ed25519
// keys (derived from the seed), concrete voting powers, chain id, height, round,
// vote type and concrete block ids for the abstract "nil" / "B1" / "B2".
type inst struct {
	name    string
	abs     []int
	powers  []int64
	mode    string // unit | scaled | edge
	n       int
	keys    []crypto.PrivKeyEd25519 // by validator index (address order)
	addrs   []crypto.Address
	foreign crypto.PrivKeyEd25519 // a key outside the set
	valSet  *types.ValidatorSet
	otherVS *types.ValidatorSet // same size and powers, other keys
	chainID string
	otherCh string
	height  uint64
	round   int
	typ     byte
	bids    map[string]types.BlockID
	bidMode string
	t0      time.Time
	cache   map[string]*types.Vote
	variant map[string]int // concrete variants used, by "<flag>/<variant>"
}

type instParams struct {
	name    string
	abs     []int
	powers  []int64
	mode    string
	seed    int64
	chainID string
	height  uint64
	round   int
	typ     byte
	bidMode string // "distinct": unrelated hashes | "parts": B2 differs from B1 only in the part-set header | "blocks": ids of real blocks
}

func keysFor(tag string, n int) (keys []crypto.PrivKeyEd25519) {
	for i := 0; i < n; i++ {
		keys = append(keys, crypto.GenPrivKeyEd25519FromSecret([]byte(fmt.Sprintf("%s/%d", tag, i))))
	}
	sort.Slice(keys, func(i, j int) bool {
		return bytes.Compare(keys[i].PubKey().Address(), keys[j].PubKey().Address()) < 0
	})
	return
}

func valSetOf(keys []crypto.PrivKeyEd25519, powers []int64) *types.ValidatorSet {
	vals := make([]*types.Validator, len(keys))
	for i, k := range keys {
		vals[i] = types.NewValidator(k.PubKey(), common.EmptyAddress, powers[i])
	}
	return types.NewValidatorSet(vals)
}

func hashOf(s string) common.Hash {
	return common.BytesToHash(crypto.Sha256([]byte(s)))
}

func newInst(p instParams) *inst {
	in := &inst{name: p.name, abs: p.abs, powers: p.powers, mode: p.mode, n: len(p.abs), chainID: p.chainID, otherCh: p.chainID + "-x",
		height: p.height, round: p.round, typ: p.typ, bidMode: p.bidMode, cache: map[string]*types.Vote{}, variant: map[string]int{}}
	tag := fmt.Sprintf("c03/%d/%s", p.seed, p.name)
	in.keys = keysFor(tag, in.n)
	for _, k := range in.keys {
		in.addrs = append(in.addrs, k.PubKey().Address())
	}
	in.foreign = crypto.GenPrivKeyEd25519FromSecret([]byte(tag + "/foreign"))
	in.valSet = valSetOf(in.keys, in.powers)
	in.otherVS = valSetOf(keysFor(tag+"/other", in.n), in.powers)
	in.t0 = time.Unix(1600000000+p.seed, 0).UTC()
	b1 := types.BlockID{Hash: hashOf(tag + "/B1"), PartsHeader: types.PartSetHeader{Total: 1, Hash: crypto.Sha256([]byte(tag + "/B1/parts"))}}
	b2 := types.BlockID{Hash: hashOf(tag + "/B2"), PartsHeader: types.PartSetHeader{Total: 2, Hash: crypto.Sha256([]byte(tag + "/B2/parts"))}}
	if p.bidMode == "parts" {
		// same block hash, only the part-set header differs (and only in one field)
		b2 = types.BlockID{Hash: b1.Hash, PartsHeader: types.PartSetHeader{Total: b1.PartsHeader.Total + 1, Hash: b1.PartsHeader.Hash}}
	}
	in.bids = map[string]types.BlockID{"nil": {}, "B1": b1, "B2": b2}
	return in
}

func (in *inst) describe() map[string]interface{} {
	return map[string]interface{}{"name": in.name, "abstract_powers": in.abs, "powers": in.powers, "power_mode": in.mode, "chain_id": in.chainID,
		"height": in.height, "round": in.round, "type": in.typ, "block_ids": in.bidMode}
}

func (in *inst) sign(key crypto.PrivKeyEd25519, chain string, v *types.Vote) *types.Vote {
	sig, err := key.Sign(v.SignBytes(chain))
	if err != nil {
		panic(err)
	}
	v.Signature = sig
	return v
}

// raw builds the unsigned vote validator i would cast for abstract block b.
func (in *inst) raw(i int, b string, tsOff int) *types.Vote {
	return &types.Vote{ValidatorAddress: in.addrs[i], ValidatorIndex: i, ValidatorSize: in.n, Height: in.height, Round: in.round,
		Timestamp: in.t0.Add(time.Duration(tsOff) * time.Second), Type: in.typ, BlockID: in.bids[b]}
}

// good returns (cached) the correctly signed vote of validator i for b; tsOff selects a
// re-signed variant (the timestamp is part of the sign bytes, so the signature differs).
func (in *inst) good(i int, b string, tsOff int) *types.Vote {
	key := fmt.Sprintf("good/%d/%s/%d", i, b, tsOff)
	if v, ok := in.cache[key]; ok {
		return v
	}
	v := in.sign(in.keys[i], in.chainID, in.raw(i, b, tsOff))
	in.cache[key] = v
	return v
}

func otherType(t byte) byte {
	if t == types.VoteTypePrecommit {
		return types.VoteTypePrevote
	}
	return types.VoteTypePrecommit
}

func otherBlock(b string) string {
	if b == "B1" {
		return "B2"
	}
	return "B1"
}

func flipSig(s crypto.Signature) crypto.Signature {
	e := s.(crypto.SignatureEd25519)
	e[17] ^= 0x40
	return e
}

var defectVariants = map[string]int{"idxNeg": 3, "idxBig": 3, "addrEmpty": 2, "addrWrong": 6, "size": 4, "height": 3, "round": 3, "type": 4, "sig": 9}

// defective builds the vote with abstract defect d, in its pick-th concrete variant.
// Every variant is defective in exactly the named respect: all other fields are
// those of a good vote and, except for d = "sig", the signature is valid for the
// content as sent (for "addrWrong" variants signed by another key it is that
// key's valid signature).
func (in *inst) defective(d string, i int, b string, tsOff int, pick int) (*types.Vote, string) {
	nv := defectVariants[d]
	k := pick % nv
	key := fmt.Sprintf("def/%s/%d/%d/%s/%d", d, k, i, b, tsOff)
	name := fmt.Sprintf("%s/%d", d, k)
	if v, ok := in.cache[key]; ok {
		return v, name
	}
	v := in.raw(i, b, tsOff)
	signer := in.keys[i]
	j := (i + 1) % in.n // another validator (== i when the set has one member)
	switch d {
	case "idxNeg":
		v.ValidatorIndex = []int{-1, -in.n - 1, math.MinInt32}[k]
	case "idxBig":
		v.ValidatorIndex = []int{in.n, in.n + 7, math.MaxInt32}[k]
	case "addrEmpty":
		if k == 0 {
			v.ValidatorAddress = nil
		} else {
			v.ValidatorAddress = crypto.Address{}
		}
	case "addrWrong":
		switch k {
		case 0: // another validator's address, still signed by i ("wrong address")
			if j == i {
				v.ValidatorAddress = in.foreign.PubKey().Address()
			} else {
				v.ValidatorAddress = in.addrs[j]
			}
		case 1: // another validator's own, validly signed vote carrying index i ("wrong index")
			if j == i {
				v.ValidatorAddress = in.foreign.PubKey().Address()
				signer = in.foreign
			} else {
				v.ValidatorAddress = in.addrs[j]
				signer = in.keys[j]
			}
		case 2: // a key outside the set under its own address
			v.ValidatorAddress = in.foreign.PubKey().Address()
			signer = in.foreign
		case 3: // truncated address
			v.ValidatorAddress = append(crypto.Address{}, in.addrs[i][:len(in.addrs[i])-1]...)
		case 4: // extended address
			v.ValidatorAddress = append(append(crypto.Address{}, in.addrs[i]...), 0)
		case 5: // one bit flipped
			a := append(crypto.Address{}, in.addrs[i]...)
			a[len(a)-1] ^= 1
			v.ValidatorAddress = a
		}
	case "size":
		v.ValidatorSize = []int{in.n + 1, in.n - 1, -1, math.MaxInt32}[k]
	case "height":
		hs := []uint64{in.height + 1, in.height - 1, 1 << 63}
		if in.height == 1 {
			hs[1] = 0
		}
		v.Height = hs[k]
	case "round":
		v.Round = []int{in.round + 1, in.round - 1, -1 - in.round}[k]
	case "type":
		v.Type = []byte{otherType(in.typ), 0x00, 0x03, types.ProposalTypeNormal}[k]
	}
	if d != "sig" {
		in.sign(signer, in.chainID, v)
	} else {
		switch k {
		case 0: // one bit flipped
			in.sign(signer, in.chainID, v)
			v.Signature = flipSig(v.Signature)
		case 1: // transplanted from the same validator's vote for another block
			o := in.raw(i, otherBlock(b), tsOff)
			v.Signature = in.sign(signer, in.chainID, o).Signature
		case 2: // the same vote signed for another chain id
			in.sign(signer, in.otherCh, v)
		case 3: // signed by the key of another slot
			if j == i {
				in.sign(in.foreign, in.chainID, v)
			} else {
				in.sign(in.keys[j], in.chainID, v)
			}
		case 4: // signed by a key outside the set
			in.sign(in.foreign, in.chainID, v)
		case 5: // transplanted from the same vote at the next height
			o := in.raw(i, b, tsOff)
			o.Height++
			v.Signature = in.sign(signer, in.chainID, o).Signature
		case 6: // transplanted from the same vote of the other type / next round
			o := in.raw(i, b, tsOff)
			if i%2 == 0 {
				o.Type = otherType(o.Type)
			} else {
				o.Round++
			}
			v.Signature = in.sign(signer, in.chainID, o).Signature
		case 7: // no signature at all
			v.Signature = nil
		case 8: // a signature of another scheme
			v.Signature = crypto.SignatureSecp256k1(bytes.Repeat([]byte{7}, 65))
		}
	}
	in.cache[key] = v
	return v, name
}

func (in *inst) used(name string) { in.variant[name]++ }
