package c03

import (
	"bufio"
	"encoding/json"
	"fmt"
	"io/ioutil"
	"net"
	"os"
	"strings"
	"sync"
	"sync/atomic"
	"time"

	bc "github.com/lianxiangcloud/linkchain/blockchain"
	cs "github.com/lianxiangcloud/linkchain/consensus"
	cmn "github.com/lianxiangcloud/linkchain/libs/common"
	dbm "github.com/lianxiangcloud/linkchain/libs/db"
	"github.com/lianxiangcloud/linkchain/libs/log"
	"github.com/lianxiangcloud/linkchain/libs/p2p"
	"github.com/lianxiangcloud/linkchain/types"

	"verifh/core"
)

// The fast-sync call site itself (blockchain/reactor.go poolRoutine) is executed by two
// real BlockchainReactor instances joined by an in-memory network: a serving node that
// holds block 1 and block 2, and a syncing node at genesis.  Every byte between them is
// what the reactors themselves encode (status response, block requests, block
// responses), so block 2's LastCommit reaches VerifyCommit(chainID, firstID,
// first.Height, second.LastCommit) through the wire decoder, exactly as from a peer.
// Verdict of the syncing node: it commits block 1 (CommitBlock of its application is
// called) or it stops the peer for error.  The scenarios run in a child process
// because a failure after the verification (ApplyBlock) panics in a goroutine of the
// reactor.

type fsScenario struct {
	Pw       []int    `json:"pw"`
	Kinds    []string `json:"kinds"`
	BidField string   `json:"bid_field"` // which block id the commit's own BlockID field names
	Verify   bool     `json:"verify"`    // the model's verdict for block B1
	Which    int      `json:"which"`     // instantiation
	Act      string   `json:"act"`
}

type fsOutcome struct {
	Idx     int      `json:"idx"`
	Verdict string   `json:"verdict"` // accepted | rejected | none
	Detail  string   `json:"detail"`
	Retried []string `json:"retried,omitempty"` // attempts that ended without a verdict, and why
}

// ---- in-memory network ------------------------------------------------------------

type fsPeer struct {
	cmn.BaseService
	id      string
	deliver func(chID byte, msg []byte)
	sent    int64 // messages handed to Send / TrySend
}

func newFsPeer(id string, deliver func(byte, []byte)) *fsPeer {
	p := &fsPeer{id: id, deliver: deliver}
	p.BaseService = *cmn.NewBaseService(nil, "fsPeer", p)
	return p
}
func (p *fsPeer) ID() string                   { return p.id }
func (p *fsPeer) RemoteAddr() net.Addr         { return &net.TCPAddr{IP: net.IPv4(127, 0, 0, 1), Port: 1} }
func (p *fsPeer) NodeInfo() p2p.NodeInfo       { return p2p.NodeInfo{CachePeerID: p.id} }
func (p *fsPeer) IsOutbound() bool             { return true }
func (p *fsPeer) Status() p2p.ConnectionStatus { return p2p.ConnectionStatus{} }
func (p *fsPeer) Send(ch byte, msg []byte) bool {
	atomic.AddInt64(&p.sent, 1)
	go p.deliver(ch, append([]byte{}, msg...))
	return true
}
func (p *fsPeer) TrySend(ch byte, msg []byte) bool { return p.Send(ch, msg) }
func (p *fsPeer) Close() error                     { return nil }
func (p *fsPeer) Set(string, interface{})          {}
func (p *fsPeer) Get(string) interface{}           { return nil }

type fsPeerSet struct {
	mtx     sync.Mutex
	peers   map[string]p2p.Peer
	lookups int64 // GetByID calls (poolRoutine is the only caller)
}

func (s *fsPeerSet) add(p p2p.Peer) {
	s.mtx.Lock()
	s.peers[p.ID()] = p
	s.mtx.Unlock()
}
func (s *fsPeerSet) remove(id string) {
	s.mtx.Lock()
	delete(s.peers, id)
	s.mtx.Unlock()
}
func (s *fsPeerSet) HasID(id string) bool {
	s.mtx.Lock()
	defer s.mtx.Unlock()
	return s.peers[id] != nil
}
func (s *fsPeerSet) HasIP(string) bool { return false }
func (s *fsPeerSet) GetByID(id string) p2p.Peer {
	atomic.AddInt64(&s.lookups, 1)
	s.mtx.Lock()
	defer s.mtx.Unlock()
	return s.peers[id]
}
func (s *fsPeerSet) GetByIP(string) p2p.Peer { return nil }
func (s *fsPeerSet) Size() int {
	s.mtx.Lock()
	defer s.mtx.Unlock()
	return len(s.peers)
}
func (s *fsPeerSet) List() (l []p2p.Peer) {
	s.mtx.Lock()
	defer s.mtx.Unlock()
	for _, p := range s.peers {
		l = append(l, p)
	}
	return
}

type fsConsensusStub struct{ p2p.BaseReactor }

func (r *fsConsensusStub) SwitchToConsensus(cs.NewStatus, int) {}
func (r *fsConsensusStub) SwitchToFastSync()                   {}

type fsStop struct {
	peer, reason string
	lookups      int64 // peer lookups made before this call
}

type fsNet struct {
	cmn.BaseService
	set     *fsPeerSet
	stopped chan fsStop
	cons    *fsConsensusStub
}

func newFsNet() *fsNet {
	n := &fsNet{set: &fsPeerSet{peers: map[string]p2p.Peer{}}, stopped: make(chan fsStop, 64), cons: &fsConsensusStub{}}
	n.BaseService = *cmn.NewBaseService(nil, "fsNet", n)
	n.cons.BaseReactor = *p2p.NewBaseReactor("CONSENSUS", n.cons)
	return n
}
func (n *fsNet) GetByID(id string) p2p.Peer { return n.set.GetByID(id) }
func (n *fsNet) StopPeerForError(peer p2p.Peer, reason interface{}) {
	id := ""
	if peer != nil {
		id = peer.ID()
	}
	select {
	case n.stopped <- fsStop{id, fmt.Sprint(reason), atomic.LoadInt64(&n.set.lookups)}:
	default:
	}
}
func (n *fsNet) Reactor(name string) p2p.Reactor                   { return n.cons }
func (n *fsNet) AddReactor(name string, r p2p.Reactor) p2p.Reactor { return r }
func (n *fsNet) Broadcast(byte, []byte) chan bool                  { return make(chan bool, 1) }
func (n *fsNet) BroadcastE(byte, string, []byte) chan bool         { return make(chan bool, 1) }
func (n *fsNet) Peers() p2p.IPeerSet                               { return n.set }
func (n *fsNet) LocalNodeInfo() p2p.NodeInfo                       { return p2p.NodeInfo{} }
func (n *fsNet) NumPeers() (int, int, int)                         { return n.set.Size(), 0, 0 }
func (n *fsNet) MarkBadNode(p2p.NodeInfo)                          {}
func (n *fsNet) CloseAllConnection()                               {}

// ---- applications ---------------------------------------------------------------------

type fsApp struct {
	mtx       sync.Mutex
	height    uint64
	blocks    map[uint64]*types.Block
	committed chan uint64
	loads     []uint64 // heights LoadBlock was asked for, in order (a serving node: the requests it answered)
}

func (a *fsApp) Height() uint64 {
	a.mtx.Lock()
	defer a.mtx.Unlock()
	return a.height
}
func (a *fsApp) LoadBlockMeta(h uint64) *types.BlockMeta { return nil }
func (a *fsApp) LoadBlock(h uint64) *types.Block {
	a.mtx.Lock()
	defer a.mtx.Unlock()
	a.loads = append(a.loads, h)
	return a.blocks[h]
}
func (a *fsApp) loaded() []uint64 {
	a.mtx.Lock()
	defer a.mtx.Unlock()
	return append([]uint64{}, a.loads...)
}
func (a *fsApp) LoadBlockPart(h uint64, i int) *types.Part        { return nil }
func (a *fsApp) LoadBlockCommit(h uint64) *types.Commit           { return nil }
func (a *fsApp) LoadSeenCommit(h uint64) *types.Commit            { return nil }
func (a *fsApp) GetValidators(h uint64) []*types.Validator        { return nil }
func (a *fsApp) GetRecoverValidators(h uint64) []*types.Validator { return nil }
func (a *fsApp) CreateBlock(h uint64, maxTxs int, gasLimit uint64, t uint64) *types.Block {
	return nil
}
func (a *fsApp) PreRunBlock(b *types.Block)     {}
func (a *fsApp) CheckBlock(b *types.Block) bool { return true }
func (a *fsApp) CommitBlock(b *types.Block, ps *types.PartSet, sc *types.Commit, fs bool) ([]*types.Validator, error) {
	a.mtx.Lock()
	a.height = b.Height
	a.blocks[b.Height] = b
	a.mtx.Unlock()
	select {
	case a.committed <- b.Height:
	default:
	}
	return nil, nil
}
func (a *fsApp) SetLastChangedVals(h uint64, v []*types.Validator) {}

// ---- one scenario ------------------------------------------------------------------------

func fsRun(sc fsScenario, seed int64) (verdict, detail string) {
	p := instParams{abs: sc.Pw, seed: seed, chainID: "verif-c03-fs", height: 1, round: 0, typ: types.VoteTypePrecommit, bidMode: "blocks"}
	p.name, p.mode, p.powers = fmt.Sprintf("fastsync-unit%v", sc.Pw), "unit", toI64(sc.Pw)
	if sc.Which == 1 {
		q := instParamsFor(&core.Ctx{Seed: seed}, sc.Pw, 2)
		p.name, p.mode, p.powers, p.round = fmt.Sprintf("fastsync-edge%v", sc.Pw), q.mode, q.powers, 2
	}
	in := newInst(p)
	gen := &types.GenesisDoc{ChainID: in.chainID, ConsensusParams: types.DefaultConsensusParams()}
	for _, v := range in.valSet.Validators {
		gen.Validators = append(gen.Validators, types.GenesisValidator{PubKey: v.PubKey, Power: v.VotingPower})
	}
	cdb := dbm.NewMemDB()
	status, err := cs.CreateStatusFromGenesisDoc(cdb, gen)
	if err != nil {
		return "none", "genesis: " + err.Error()
	}
	valsHash := cmn.BytesToHash(status.Validators.Hash())
	consHash := cmn.BytesToHash(status.ConsensusParams.Hash())
	partSize := status.ConsensusParams.BlockPartSizeBytes
	idOf := func(b *types.Block) types.BlockID {
		return types.BlockID{Hash: b.Hash(), PartsHeader: b.MakePartSet(partSize).Header()}
	}
	first := newHeaderBlock(in.chainID, 1, uint64(in.t0.Unix()), types.BlockID{}, emptyCommit(), valsHash, consHash)
	other := newHeaderBlock(in.chainID, 1, uint64(in.t0.Unix())+5, types.BlockID{}, emptyCommit(), valsHash, consHash)
	in.bids["B1"], in.bids["B2"] = idOf(first), idOf(other)
	var pcs []*types.Vote
	for k := 0; k < in.n; k++ {
		v, _ := in.slotVote(sc.Kinds[k], k, "B1", "B2", int(seed)+k)
		pcs = append(pcs, v)
	}
	commit := &types.Commit{BlockID: in.bids[sc.BidField], Precommits: pcs}
	second := newHeaderBlock(in.chainID, 2, uint64(in.t0.Unix())+1, in.bids["B1"], commit, valsHash, consHash)

	serverApp := &fsApp{height: 2, blocks: map[uint64]*types.Block{1: first, 2: second}, committed: make(chan uint64, 4)}
	clientApp := &fsApp{height: 0, blocks: map[uint64]*types.Block{}, committed: make(chan uint64, 4)}
	serverNet, clientNet := newFsNet(), newFsNet()
	sdb := dbm.NewMemDB()
	sstatus, _ := cs.CreateStatusFromGenesisDoc(sdb, gen)
	sstatus.LastBlockHeight = 2
	server := bc.NewBlockchainReactor(sstatus, cs.NewBlockExecutor(sdb, log.NewNopLogger(), cs.MockEvidencePool{}), serverApp, false, serverNet)
	client := bc.NewBlockchainReactor(status, cs.NewBlockExecutor(cdb, log.NewNopLogger(), cs.MockEvidencePool{}), clientApp, true, clientNet)
	server.SetLogger(log.NewNopLogger())
	client.SetLogger(log.NewNopLogger())
	var clientAtServer, serverAtClient *fsPeer
	clientAtServer = newFsPeer("client", func(ch byte, msg []byte) { client.Receive(ch, serverAtClient, msg) })
	serverAtClient = newFsPeer("server", func(ch byte, msg []byte) { server.Receive(ch, clientAtServer, msg) })
	serverNet.set.add(clientAtServer)
	clientNet.set.add(serverAtClient)
	if err := client.Start(); err != nil {
		return "none", "client start: " + err.Error()
	}
	defer client.Stop()
	// the serving node greets the syncing one with its status (height 2)
	server.AddPeer(clientAtServer)
	deadline := time.After(15 * time.Second)
	poll := time.NewTicker(5 * time.Millisecond)
	defer poll.Stop()
	redoSeen := 0
	for {
		select {
		case h := <-clientApp.committed:
			return "accepted", fmt.Sprintf("block %d committed", h)
		case st := <-clientNet.stopped:
			r := st.reason
			if strings.Contains(r, "validation error") {
				return "rejected", r
			}
			// a peer error of the block pool (its receive-rate / silence timers fire when the machine
			// is overloaded): no verdict about the commit, the attempt is abandoned
			return "none", "peer stopped for another reason: " + r
		case <-poll.C:
			// poolRoutine looked a peer up twice without sending a request: the two RedoRequests of a rejected
			// pair.  No peer error is reported when BlockPool.RedoRequest returns request.peerID after the
			// requester has already reset it (it reads the field after removePeer).
			if atomic.LoadInt64(&clientNet.set.lookups)-atomic.LoadInt64(&serverAtClient.sent) >= 2 {
				if redoSeen++; redoSeen >= 3 {
					select {
					case st := <-clientNet.stopped:
						if strings.Contains(st.reason, "validation error") {
							return "rejected", st.reason
						}
					default:
					}
					select {
					case h := <-clientApp.committed:
						return "accepted", fmt.Sprintf("block %d committed", h)
					case <-time.After(60 * time.Millisecond):
					}
					return "rejected", "the pair was rejected (both requests redone) but no peer was stopped for error"
				}
			} else {
				redoSeen = 0
			}
		case <-deadline:
			return "none", "neither a commit nor a validation error within 15 s"
		}
	}
}

// fsChild runs the scenarios given in the job argument (child process).
func fsChild(c *core.Ctx) {
	var scs []fsScenario
	data, err := ioutil.ReadFile(c.Child) // the job argument is the path of the scenario file
	if err == nil && len(data) > 0 && data[0] == '{' {
		var job fsTripleJob
		if err = json.Unmarshal(data, &job); err == nil {
			fsTripleChild(c, job.Triples)
			return
		}
	}
	if err == nil {
		err = json.Unmarshal(data, &scs)
	}
	if err != nil {
		fmt.Fprintln(os.Stderr, "bad job:", err)
		os.Exit(3)
	}
	w := bufio.NewWriter(os.Stdout)
	var mu sync.Mutex
	var wg sync.WaitGroup
	sem := make(chan struct{}, 8)
	for i, sc := range scs {
		wg.Add(1)
		go func(i int, sc fsScenario) {
			defer wg.Done()
			sem <- struct{}{}
			defer func() { <-sem }()
			var v, d string
			var retried []string
			for attempt := 0; attempt < 4; attempt++ {
				if v, d = fsRun(sc, c.Seed); v != "none" {
					break
				}
				retried = append(retried, d)
			}
			b, _ := json.Marshal(fsOutcome{Idx: i, Verdict: v, Detail: d, Retried: retried})
			mu.Lock()
			fmt.Fprintf(w, "AT %d\nRESULT %s\n", i, b)
			w.Flush()
			mu.Unlock()
		}(i, sc)
	}
	wg.Wait()
	fmt.Fprintln(w, "DONE")
	w.Flush()
}

// replayFastSync selects lattice edges and executes them through the real reactors.
func replayFastSync(c *core.Ctx, m *model) {
	var scs []fsScenario
	perVec := map[string]int{}
	quota := c.Pick(10, 60)
	// every accepted commit and a spread of rejected ones, for validator sets of three or more
	for pass := 0; pass < 2; pass++ {
		for ei, e := range m.g.Edges {
			a := m.acts[ei]
			if a.Op != "commit" || a.Extra != 0 || !a.HOK {
				continue
			}
			abs := m.states[e.From].Pw
			if len(abs) < 3 {
				continue
			}
			k := vecKey(abs)
			interesting := false
			nB, nO, others := 0, 0, 0
			for _, kd := range a.Kinds {
				switch kd {
				case "B":
					nB++
				case "O":
					nO++
				case "absent":
				default:
					others++
				}
			}
			if pass == 0 {
				// accepted commits, commits entirely for the other block, and commits that miss the threshold
				// with honest votes only
				interesting = (a.Verify && (ei+int(c.Seed))%3 == 0) || (nO == len(a.Kinds)) || (others == 0 && nO == 0 && nB == len(a.Kinds)-1)
			} else {
				interesting = !a.Verify && others > 0 && (ei*7+int(c.Seed))%211 == 0
			}
			if !interesting || perVec[k] >= quota*(pass+1) {
				continue
			}
			perVec[k]++
			bidField := "B1"
			if nO > nB {
				bidField = "B2" // a commit that is, by its own BlockID field and votes, one for the other block
			}
			scs = append(scs, fsScenario{Pw: abs, Kinds: a.Kinds, BidField: bidField, Verify: a.Verify, Which: (ei + pass) % 2, Act: a.raw})
		}
	}
	if len(scs) == 0 {
		c.Infra("fast sync: no scenario selected")
		return
	}
	arg, _ := json.Marshal(scs)
	f, err := ioutil.TempFile("", "vc03fs")
	if err != nil {
		c.Infra("fast sync: %v", err)
		return
	}
	defer os.Remove(f.Name())
	_, err = f.Write(arg)
	f.Close()
	if err != nil {
		c.Infra("fast sync: %v", err)
		return
	}
	results, at, crash := c.RunChild(f.Name(), c.MinutesT(2, 10))
	got := map[int]fsOutcome{}
	for _, r := range results {
		var o fsOutcome
		if json.Unmarshal([]byte(r), &o) == nil {
			got[o.Idx] = o
		}
	}
	accepted, rejected := 0, 0
	var retried []string
	for i, sc := range scs {
		o, ok := got[i]
		if !ok {
			continue
		}
		for _, r := range o.Retried {
			retried = append(retried, fmt.Sprintf("scenario %d: %s", i, r))
		}
		c.AddTraces(1)
		c.AddEvals(1)
		rec := map[string]interface{}{"kind": "fastsync", "scenario": sc, "verdict": o.Verdict, "detail": o.Detail,
			"replay": map[string]interface{}{"scenario": sc, "seed": c.Seed}}
		switch {
		case o.Verdict == "none":
			c.Infra("fast sync scenario %d (%v %v): %s", i, sc.Pw, sc.Kinds, o.Detail)
		case o.Verdict == "accepted" && !sc.Verify:
			c.Violate("fastsync-reactor/accepts-what-is-no-commit", fmt.Sprintf("the syncing node committed block 1 on slots %v (commit.BlockID names %s) of validator set %v; the specification rejects this commit", sc.Kinds, sc.BidField, sc.Pw), rec)
		case o.Verdict == "rejected" && sc.Verify:
			c.Violate("fastsync-reactor/rejects-a-commit", fmt.Sprintf("the syncing node rejected block 1 on slots %v of validator set %v (%s); the specification accepts this commit", sc.Kinds, sc.Pw, o.Detail), rec)
		}
		if o.Verdict == "accepted" {
			accepted++
		} else if o.Verdict == "rejected" {
			rejected++
		}
	}
	if crash == "TIMEOUT" {
		c.Infra("fast sync scenarios timed out (last reported: %s)", at)
	} else if crash != "" {
		c.Infra("the fast-sync child process died (last reported scenario %s): %s", at, crash)
	}
	c.SetExtra("fastsync_reactor", map[string]interface{}{"scenarios": len(scs), "block_committed": accepted, "peer_stopped": rejected, "attempts_without_verdict_repeated": retried})
	c.Out().Distinct += len(got)
}
