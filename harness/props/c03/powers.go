package c03

import (
	"math/big"
	"math/rand"
)

// The code under test depends on the voting powers only through comparisons of a
// subset sum with total*2/3 (integer division) and with the total.  Two power
// vectors are comparison-equivalent when every subset of validators compares the
// same way in both; a behaviour of the model computed for the small abstract
// vector then is, step for step, the behaviour for the concrete one.  The
// equivalence is decided exactly (big integers, all 2^n subsets), never assumed.

const maxTotal = int64(1)<<62 - 1 // the property quantifies over totals below 2^62

type subsetSig struct {
	over []bool // sum > total*2/3
	all  []bool // sum == total
}

func sigOf(p []int64) subsetSig {
	n := len(p)
	total := new(big.Int)
	for _, x := range p {
		total.Add(total, big.NewInt(x))
	}
	two := new(big.Int).Mul(total, big.NewInt(2))
	s := subsetSig{over: make([]bool, 1<<uint(n)), all: make([]bool, 1<<uint(n))}
	for m := 0; m < 1<<uint(n); m++ {
		sum := new(big.Int)
		for i := 0; i < n; i++ {
			if m>>uint(i)&1 == 1 {
				sum.Add(sum, big.NewInt(p[i]))
			}
		}
		s.over[m] = new(big.Int).Mul(sum, big.NewInt(3)).Cmp(two) > 0
		s.all[m] = sum.Cmp(total) == 0
	}
	return s
}

func (a subsetSig) equal(b subsetSig) bool {
	if len(a.over) != len(b.over) {
		return false
	}
	for i := range a.over {
		if a.over[i] != b.over[i] || a.all[i] != b.all[i] {
			return false
		}
	}
	return true
}

func toI64(p []int) []int64 {
	out := make([]int64, len(p))
	for i, x := range p {
		out[i] = int64(x)
	}
	return out
}

func totalOf(p []int64) int64 {
	var t int64
	for _, x := range p {
		t += x
	}
	return t
}

// minMargin returns the smallest distance (in power units) of any subset sum from
// the threshold floor(2*total/3): 0 = a subset hits the boundary exactly (and so is
// no majority), 1 = a subset exceeds it by exactly one unit.
func minMargin(p []int64) int64 {
	total := totalOf(p) // < 2^62, so total*2 fits
	th := total * 2 / 3
	best := int64(-1)
	n := len(p)
	for m := 1; m < 1<<uint(n); m++ {
		var s int64
		for i := 0; i < n; i++ {
			if m>>uint(i)&1 == 1 {
				s += p[i]
			}
		}
		d := s - th
		if d < 0 {
			d = -d
		}
		if best < 0 || d < best {
			best = d
		}
	}
	return best
}

// scaledPowers multiplies the abstract vector so that the total lies just below 2^62.
func scaledPowers(abs []int) []int64 {
	p := toI64(abs)
	k := maxTotal / totalOf(p)
	for i := range p {
		p[i] *= k
	}
	return p
}

// edgePowers searches, around multiples of the abstract vector, for a comparison-
// equivalent vector in which some subset hits or misses the 2/3 boundary by at most
// one unit and whose total is close to the given ceiling.  ok=false if none exists.
func edgePowers(abs []int, ceiling int64, rng *rand.Rand) (best []int64, ok bool) {
	base := toI64(abs)
	want := sigOf(base)
	n := len(abs)
	k0 := ceiling / totalOf(base)
	var cands [][]int64
	for dk := int64(0); dk < 3; dk++ {
		k := k0 - dk
		if k < 1 {
			break
		}
		// every perturbation of each component by -1, 0, +1
		combos := 1
		for i := 0; i < n; i++ {
			combos *= 3
		}
		for c := 0; c < combos; c++ {
			p := make([]int64, n)
			x := c
			valid := true
			for i := 0; i < n; i++ {
				p[i] = base[i]*k + int64(x%3) - 1
				x /= 3
				if p[i] < 1 {
					valid = false
				}
			}
			if !valid {
				continue
			}
			var t int64
			for _, v := range p {
				t += v
			}
			if t > ceiling || t < 1 {
				continue
			}
			if !sigOf(p).equal(want) {
				continue
			}
			m := minMargin(p)
			if m > 1 {
				continue
			}
			cands = append(cands, p)
		}
	}
	// make one subset tight by moving power between a member and a non-member (the total, and
	// with it the threshold, is unchanged): a winning subset is brought down to threshold+1, a
	// losing one up to exactly the threshold
	c0 := make([]int64, n)
	for i := range c0 {
		c0[i] = base[i] * k0
	}
	th := totalOf(c0) * 2 / 3
	for m := 1; m < 1<<uint(n)-1; m++ {
		var s int64
		for i := 0; i < n; i++ {
			if m>>uint(i)&1 == 1 {
				s += c0[i]
			}
		}
		move := s - (th + 1) // > 0: take from the subset
		if s <= th {
			move = s - th // < 0: give to the subset
		}
		if move == 0 {
			continue
		}
		for i := 0; i < n; i++ {
			for j := 0; j < n; j++ {
				if m>>uint(i)&1 != 1 || m>>uint(j)&1 != 0 {
					continue
				}
				p := append([]int64{}, c0...)
				p[i] -= move
				p[j] += move
				if p[i] < 1 || p[j] < 1 || !sigOf(p).equal(want) || minMargin(p) > 1 {
					continue
				}
				cands = append(cands, p)
			}
		}
	}
	if len(cands) == 0 {
		return nil, false
	}
	return cands[rng.Intn(len(cands))], true
}
