package c03

import (
	"bufio"
	"encoding/json"
	"fmt"
	"io/ioutil"
	"math/big"
	"math/rand"
	"os"
	"sort"
	"strings"
	"sync"
	"sync/atomic"
	"time"

	bc "github.com/lianxiangcloud/linkchain/blockchain"
	cs "github.com/lianxiangcloud/linkchain/consensus"
	cmn "github.com/lianxiangcloud/linkchain/libs/common"
	"github.com/lianxiangcloud/linkchain/libs/crypto"
	dbm "github.com/lianxiangcloud/linkchain/libs/db"
	"github.com/lianxiangcloud/linkchain/libs/log"
	"github.com/lianxiangcloud/linkchain/types"

	"verifh/core"
	"verifh/mbt"
)

// The binding of the fast-sync call site (spec/VoteSet/FastSync.tla).
//
// poolRoutine commits the block `first` when VerifyCommit(chainID, firstID, first.Height,
// second.LastCommit) returns nil.  A peer supplies `first`, second.LastBlockID,
// second.LastCommit.BlockID and the precommits independently of each other; the model
// enumerates them and says, for every combination, which block the syncing node holds at
// height H afterwards (or none) and whether the peer was stopped.
//
// Every behaviour of the model (one or two Serve actions: the second peer is asked after
// the first was stopped) is executed on a real BlockchainReactor in fast-sync mode (real
// BlockPool, requesters, poolRoutine, BlockExecutor.ApplyBlock).  Each serving peer is a
// second real BlockchainReactor whose application is the script: it answers the request
// for H with the chosen block (genuine / another consistent block / genuine header over
// altered content / a block of height H+1) and the request for H+1 with a block carrying
// the chosen LastBlockID and LastCommit.  All bytes between the nodes are produced and
// decoded by the reactors themselves.  pi_prop: the block the syncing node's application
// holds at H after every Serve (classified by its full id: header hash and part-set header
// of the stored content), and that nothing is held at another height; whether the peer was
// stopped, whether the node panicked and the stored seen-commit are shape.

// ---- the exported graph ----------------------------------------------------------------

type fsTState struct {
	Pw      []int    `json:"pw"`
	Height  int      `json:"height"`
	Store   string   `json:"store"`
	Seen    []string `json:"seen"`
	LastID  string   `json:"lastID"`
	Dropped int      `json:"dropped"`
	Stalled bool     `json:"stalled"`
	Dead    bool     `json:"dead"`
}

type fsTAct struct {
	Op             string   `json:"op"`
	Pw             []int    `json:"pw"`
	First          string   `json:"first"`
	Sid            string   `json:"sid"`
	Cid            string   `json:"cid"`
	Kinds          []string `json:"kinds"`
	Placed         bool     `json:"placed"`
	Ok             bool     `json:"ok"`
	CommittedFirst bool     `json:"committedFirst"`
	CommittedG     bool     `json:"committedG"`
	CommittedX     bool     `json:"committedX"`
	raw            string
}

type fsTModel struct {
	g      *mbt.Graph
	states []*fsTState
	acts   []*fsTAct
}

func parseFsTModel(g *mbt.Graph) (*fsTModel, error) {
	m := &fsTModel{g: g}
	for i, raw := range g.States {
		st := &fsTState{}
		if err := json.Unmarshal(raw, st); err != nil {
			return nil, fmt.Errorf("state %d: %v", i, err)
		}
		m.states = append(m.states, st)
	}
	for i, e := range g.Edges {
		a := &fsTAct{}
		if err := json.Unmarshal(e.Act, a); err != nil {
			return nil, fmt.Errorf("edge %d: %v", i, err)
		}
		if a.Op != "new" && a.Op != "sync" {
			return nil, fmt.Errorf("edge %d: unknown action %q", i, a.Op)
		}
		a.raw = mbt.Compact(e.Act)
		m.acts = append(m.acts, a)
	}
	return m, nil
}

// ---- scenarios (parent -> child) and observations (child -> parent) --------------------------

// fsAttempt is one Serve action with the model's state after it.
type fsAttempt struct {
	First string   `json:"first"`
	Sid   string   `json:"sid"`
	Cid   string   `json:"cid"`
	Kinds []string `json:"kinds"`
	// the model
	Placed  bool   `json:"placed"`
	Ok      bool   `json:"ok"`
	Store   string `json:"store"` // block held at H after the action ("none")
	Dropped int    `json:"dropped"`
	Stalled bool   `json:"stalled"`
	Dead    bool   `json:"dead"`
	Class   string `json:"class"` // what the precommits are, by the property: a commit for G | a commit for X | no commit
	Act     string `json:"act"`
}

// fsNoStore: the pair was examined and rejected; "rejected" = without the peer being stopped for error
func fsNoStore(outcome string) bool { return outcome == "dropped" || outcome == "rejected" }

func (a fsAttempt) want() string {
	switch {
	case !a.Placed:
		return "quiet"
	case a.Ok:
		return "stored"
	}
	return "dropped"
}

type fsTriple struct {
	Pw       []int       `json:"pw"`
	Which    int         `json:"which"` // instantiation of the powers
	Pick     int         `json:"pick"`  // concrete variants of the blocks and of the defective slots
	Attempts []fsAttempt `json:"attempts"`
}

type fsAttemptObs struct {
	Outcome string `json:"outcome"` // stored | dropped | rejected (as dropped, but no peer was stopped) | quiet | none
	Kind    string `json:"kind"`    // stored: which block, by its full id
	Height  uint64 `json:"height"`
	SeenOK  bool   `json:"seen_ok"` // stored: the commit handed to CommitBlock is the second.LastCommit served
	Detail  string `json:"detail"`
}

type fsTObs struct {
	Idx     int               `json:"idx"`
	Ev      string            `json:"ev"` // commit | end
	Try     int               `json:"try"`
	Attempt int               `json:"attempt"`
	Commit  *fsAttemptObs     `json:"commit,omitempty"`   // ev = commit: reported from inside CommitBlock
	Per     []fsAttemptObs    `json:"per,omitempty"`      // ev = end
	Held    map[string]string `json:"held,omitempty"`     // ev = end: height -> kind, what the application holds
	Concr   map[string]string `json:"concrete,omitempty"` // ev = end: the concrete variants used
	Retried []string          `json:"retried,omitempty"`  // ev = end: tries that were not conclusive, and why
}

// ---- the application of the syncing node ------------------------------------------------------

type fsTApp struct {
	fsApp
	classify func(b *types.Block) string
	cur      int32 // the attempt in progress
	seen     []*types.Commit
	events   chan fsAttemptObs
	report   func(attempt int, o fsAttemptObs)
	kinds    map[uint64]string
}

func (a *fsTApp) CommitBlock(b *types.Block, ps *types.PartSet, sc *types.Commit, fs bool) ([]*types.Validator, error) {
	at := int(atomic.LoadInt32(&a.cur))
	o := fsAttemptObs{Outcome: "stored", Kind: a.classify(b), Height: b.Height}
	a.mtx.Lock()
	if at < len(a.seen) && sc != nil && a.seen[at] != nil {
		o.SeenOK = sc.Hash() == a.seen[at].Hash() && sc.BlockID.Equals(a.seen[at].BlockID)
	}
	if prev, ok := a.kinds[b.Height]; ok {
		o.Detail = " (a block was already held at this height: " + prev + ")"
	}
	a.kinds[b.Height] = o.Kind
	a.height = b.Height
	a.blocks[b.Height] = b
	a.mtx.Unlock()
	// reported before the reactor goes on to ApplyBlock, which panics the process when it fails
	a.report(at, o)
	select {
	case a.events <- o:
	default:
	}
	return nil, nil
}

func (a *fsTApp) held() map[string]string {
	a.mtx.Lock()
	defer a.mtx.Unlock()
	out := map[string]string{}
	for h, k := range a.kinds {
		out[fmt.Sprint(h)] = k
	}
	return out
}

// ---- one scenario on the real reactors ---------------------------------------------------------

func fsTxBlock(chainID string, height uint64, tm uint64, lastID types.BlockID, lastCommit *types.Commit, valsHash, consHash cmn.Hash, ntx int, fixHeader bool) *types.Block {
	b := newHeaderBlock(chainID, height, tm, lastID, lastCommit, valsHash, consHash)
	var txs types.Txs
	for i := 0; i < ntx; i++ {
		txs = append(txs, types.NewTransaction(uint64(i), cmn.HexToAddress("0x01"), big.NewInt(12345+int64(i)), 100000, big.NewInt(1), nil))
	}
	b.Data = &types.Data{Txs: txs}
	if fixHeader {
		b.Header.NumTxs = uint64(ntx)
		b.Header.TotalTxs = uint64(ntx)
		b.Header.DataHash = b.Data.Hash()
	}
	return b
}

// fsTripleRun executes the scenario once. An attempt is taken to have had no effect when the node has
// been idle, after everything the peer sent was delivered, for 6 trySync periods where the model says
// so too (first is never placed), and for 10 s where the model expects a commit or a rejection (a
// wrong "no effect" there would be a false alarm; poolRoutine can be late on a loaded machine).
func fsTripleRun(sc fsTriple, seed int64, report func(attempt int, o fsAttemptObs)) (per []fsAttemptObs, held map[string]string, concr map[string]string) {
	fail := func(d string) ([]fsAttemptObs, map[string]string, map[string]string) {
		return []fsAttemptObs{{Outcome: "none", Detail: d}}, nil, nil
	}
	p := instParams{abs: sc.Pw, seed: seed, chainID: "verif-c03-fs3", height: 1, round: 0, typ: types.VoteTypePrecommit, bidMode: "blocks"}
	p.name, p.mode, p.powers = fmt.Sprintf("fastsync3-unit%v", sc.Pw), "unit", toI64(sc.Pw)
	if sc.Which == 1 {
		q := instParamsFor(&core.Ctx{Seed: seed}, sc.Pw, 2)
		p.name, p.mode, p.powers, p.round = fmt.Sprintf("fastsync3-edge%v", sc.Pw), q.mode, q.powers, 2
	}
	in := newInst(p)
	gen := &types.GenesisDoc{ChainID: in.chainID, ConsensusParams: types.DefaultConsensusParams()}
	for _, v := range in.valSet.Validators {
		gen.Validators = append(gen.Validators, types.GenesisValidator{PubKey: v.PubKey, Power: v.VotingPower})
	}
	cdb := dbm.NewMemDB()
	status, err := cs.CreateStatusFromGenesisDoc(cdb, gen)
	if err != nil {
		return fail("genesis: " + err.Error())
	}
	valsHash := cmn.BytesToHash(status.Validators.Hash())
	consHash := cmn.BytesToHash(status.ConsensusParams.Hash())
	partSize := status.ConsensusParams.BlockPartSizeBytes
	idOf := func(b *types.Block) types.BlockID {
		return types.BlockID{Hash: b.Hash(), PartsHeader: b.MakePartSet(partSize).Header()}
	}
	t0 := uint64(in.t0.Unix())
	concr = map[string]string{"powers": p.mode}
	// the blocks a peer may serve for height 1
	blocks := map[string]*types.Block{}
	gTx := (sc.Pick / 8) % 2 // the genuine block carries a transaction or none
	blocks["G"] = fsTxBlock(in.chainID, 1, t0, types.BlockID{}, emptyCommit(), valsHash, consHash, gTx, true)
	concr["G"] = fmt.Sprintf("%d tx", gTx)
	switch sc.Pick % 2 {
	case 0: // another header (time), same content
		blocks["X"] = fsTxBlock(in.chainID, 1, t0+5, types.BlockID{}, emptyCommit(), valsHash, consHash, gTx, true)
		concr["X"] = "other time"
	default: // one more transaction, header made to match
		blocks["X"] = fsTxBlock(in.chainID, 1, t0, types.BlockID{}, emptyCommit(), valsHash, consHash, gTx+1, true)
		concr["X"] = "one more transaction, header matching"
	}
	switch (sc.Pick / 2) % 3 {
	case 0: // one more transaction under the genuine header
		d := fsTxBlock(in.chainID, 1, t0, types.BlockID{}, emptyCommit(), valsHash, consHash, gTx+1, false)
		d.Header = types.CopyHeader(blocks["G"].Header)
		blocks["D"] = d
		concr["D"] = "one more transaction under the genuine header"
	case 1: // a precommit smuggled into the (empty) last commit under the genuine header
		v := in.sign(in.keys[0], in.chainID, in.raw(0, "nil", 0))
		d := fsTxBlock(in.chainID, 1, t0, types.BlockID{}, &types.Commit{Precommits: []*types.Vote{v}}, valsHash, consHash, gTx, true)
		d.Header = types.CopyHeader(blocks["G"].Header)
		blocks["D"] = d
		concr["D"] = "a vote in the last commit under the genuine header"
	default: // the transactions of X under the genuine header (genuine hash, the other block's content)
		d := fsTxBlock(in.chainID, 1, t0, types.BlockID{}, emptyCommit(), valsHash, consHash, gTx+2, false)
		d.Header = types.CopyHeader(blocks["G"].Header)
		blocks["D"] = d
		concr["D"] = "two more transactions under the genuine header"
	}
	ids := map[string]types.BlockID{}
	for _, k := range []string{"G", "X", "D"} {
		ids[k] = idOf(blocks[k])
	}
	ids["J"] = types.BlockID{Hash: hashOf(in.name + "/junk"), PartsHeader: types.PartSetHeader{Total: 1, Hash: crypto.Sha256([]byte(in.name + "/junkparts"))}}
	if ids["G"].Equals(ids["X"]) || ids["G"].Equals(ids["D"]) || ids["X"].Equals(ids["D"]) || ids["G"].Hash != ids["D"].Hash || ids["G"].Hash == ids["X"].Hash {
		return fail("the served blocks do not have the ids the model assumes")
	}
	if blocks["G"].ValidateBasic() != nil || blocks["X"].ValidateBasic() != nil || blocks["D"].ValidateBasic() == nil {
		return fail("the served blocks do not have the validity the model assumes")
	}
	in.bids["B1"], in.bids["B2"] = ids["G"], ids["X"]
	classify := func(b *types.Block) string {
		id := idOf(b)
		for _, k := range []string{"G", "X", "D"} {
			if id.Equals(ids[k]) {
				return k
			}
		}
		if b.Height != 1 {
			return fmt.Sprintf("height-%d", b.Height)
		}
		return "other"
	}

	clientApp := &fsTApp{fsApp: fsApp{height: 0, blocks: map[uint64]*types.Block{}, committed: make(chan uint64, 4)}, classify: classify,
		events: make(chan fsAttemptObs, 8), report: report, kinds: map[uint64]string{}}
	clientNet := newFsNet()
	client := bc.NewBlockchainReactor(status, cs.NewBlockExecutor(cdb, log.NewNopLogger(), cs.MockEvidencePool{}), clientApp, true, clientNet)
	client.SetLogger(log.NewNopLogger())
	client.KeepFastSync(true) // never hand over to the (absent) consensus reactor
	// what every attempt serves
	type served struct {
		server         *bc.BlockchainReactor
		net            *fsNet
		clientAtServer *fsPeer
		serverAtClient *fsPeer
		delivered      int32
		app            *fsApp
	}
	var srv []*served
	for ai, at := range sc.Attempts {
		var pcs []*types.Vote
		for k := 0; k < in.n; k++ {
			v, name := in.slotVote(at.Kinds[k], k, "B1", "B2", sc.Pick+k+ai)
			pcs = append(pcs, v)
			concr[fmt.Sprintf("slot/%d/%d", ai, k)] = name
		}
		commit := &types.Commit{BlockID: ids[at.Cid], Precommits: pcs}
		second := newHeaderBlock(in.chainID, 2, t0+1, ids[at.Sid], commit, valsHash, consHash)
		first := blocks[at.First]
		if at.First == "later" {
			// a block of height 2 (not the one served for height 2) in answer to the request for height 1
			first = newHeaderBlock(in.chainID, 2, t0+2, ids["G"], commit, valsHash, consHash)
		}
		if first == nil {
			return fail("unknown first block kind " + at.First)
		}
		clientApp.seen = append(clientApp.seen, commit)
		s := &served{net: newFsNet()}
		app := &fsApp{height: 2, blocks: map[uint64]*types.Block{1: first, 2: second}, committed: make(chan uint64, 4)}
		s.app = app
		sdb := dbm.NewMemDB()
		sstatus, _ := cs.CreateStatusFromGenesisDoc(sdb, gen)
		sstatus.LastBlockHeight = 2
		s.server = bc.NewBlockchainReactor(sstatus, cs.NewBlockExecutor(sdb, log.NewNopLogger(), cs.MockEvidencePool{}), app, false, s.net)
		s.server.SetLogger(log.NewNopLogger())
		id := fmt.Sprintf("server%d", ai)
		s.clientAtServer = newFsPeer("client", func(ch byte, msg []byte) {
			client.Receive(ch, s.serverAtClient, msg)
			atomic.AddInt32(&s.delivered, 1)
		})
		s.serverAtClient = newFsPeer(id, func(ch byte, msg []byte) { s.server.Receive(ch, s.clientAtServer, msg) })
		s.net.set.add(s.clientAtServer)
		srv = append(srv, s)
	}
	if err := client.Start(); err != nil {
		return fail("client start: " + err.Error())
	}
	// the reactor is stopped only where poolRoutine has nothing left to examine: BlockPool.OnStop removes the
	// requester of the current height while poolRoutine is still running, and a RedoRequest that comes
	// after it dereferences nil (a shutdown race of /repo, not part of this property)
	defer func() {
		if n := len(per); n > 0 && (per[n-1].Outcome == "stored" || fsNoStore(per[n-1].Outcome) || (per[n-1].Outcome == "quiet" && n <= len(sc.Attempts) && sc.Attempts[n-1].want() == "quiet")) {
			client.Stop()
		}
	}()

	grace := 60 * time.Millisecond
	noCommitFollows := func(o *fsAttemptObs) {
		select {
		case ev := <-clientApp.events:
			// a block was stored although the peer was stopped / nothing should have happened
			*o = ev
			o.Detail = " (after the pair had been rejected)"
		case <-time.After(grace):
		}
	}
	// lookups poolRoutine made that were not followed by sending a block request: one after each RedoRequest
	// (two per rejected pair) and one per pool error
	redoLookups := func() int64 {
		n := atomic.LoadInt64(&clientNet.set.lookups)
		for _, s := range srv {
			n -= atomic.LoadInt64(&s.serverAtClient.sent)
		}
		return n
	}
	for ai := range sc.Attempts {
		s := srv[ai]
		atomic.StoreInt32(&clientApp.cur, int32(ai))
		base := redoLookups()
		quiet := 300 * time.Millisecond
		if sc.Attempts[ai].want() != "quiet" {
			quiet = 10 * time.Second
		}
		clientNet.set.add(s.serverAtClient)
		s.server.AddPeer(s.clientAtServer) // the serving node greets the syncing one with its status (height 2)
		var o fsAttemptObs
		deadline := time.After(15*time.Second + 2*quiet)
		poll := time.NewTicker(5 * time.Millisecond)
		var idleSince time.Time
		redoSeen := 0
		// the pair was rejected: wait until poolRoutine has looked up the sender of the second block too (only
		// then is the iteration over and may the next peer be connected - else it could be taken for that
		// sender), then make sure no commit follows
		rejected := func(detail string, stopped bool) {
			for t0 := time.Now(); redoLookups() < base+2 && time.Since(t0) < 2*time.Second; {
				time.Sleep(time.Millisecond)
			}
			o = fsAttemptObs{Outcome: "dropped", Detail: detail}
			if !stopped {
				o.Outcome = "rejected"
			}
			noCommitFollows(&o)
		}
	WAIT:
		for {
			select {
			case ev := <-clientApp.events:
				o = ev
				break WAIT
			case st := <-clientNet.stopped:
				if st.peer != s.serverAtClient.ID() {
					continue // a late report about a peer already removed
				}
				if strings.Contains(st.reason, "validation error") {
					rejected(st.reason, true)
				} else {
					// a peer error of the block pool (its timers fire when the machine is overloaded): no verdict
					o = fsAttemptObs{Outcome: "none", Detail: "peer stopped for another reason: " + st.reason}
				}
				break WAIT
			case <-poll.C:
				// both RedoRequests made and still no peer error reported: BlockPool.RedoRequest returns
				// request.peerID after removePeer, by which time the requester may have reset it to "", and
				// poolRoutine then finds no peer to stop
				if redoLookups() >= base+2 {
					if redoSeen++; redoSeen >= 3 {
						select {
						case st := <-clientNet.stopped:
							if st.peer == s.serverAtClient.ID() && strings.Contains(st.reason, "validation error") {
								rejected(st.reason, true)
								break WAIT
							}
						default:
						}
						rejected("the pair was rejected (both requests redone, the peer removed from the pool) but no peer was stopped for error", false)
						break WAIT
					}
				} else {
					redoSeen = 0
				}
				// status response + two block responses delivered, and nothing since
				if atomic.LoadInt32(&s.delivered) >= 3 {
					if idleSince.IsZero() {
						idleSince = time.Now()
					} else if time.Since(idleSince) >= quiet {
						o = fsAttemptObs{Outcome: "quiet", Detail: fmt.Sprintf("no commit and no rejection within %v after the peer's answers were delivered (requests answered by the peer, by height: %v; messages delivered: %d)", quiet, s.app.loaded(), atomic.LoadInt32(&s.delivered))}
						break WAIT
					}
				}
			case <-deadline:
				o = fsAttemptObs{Outcome: "none", Detail: "neither a commit nor a rejection nor all answers delivered in time"}
				break WAIT
			}
		}
		poll.Stop()
		per = append(per, o)
		if o.Outcome != "dropped" && o.Outcome != "rejected" {
			break // stored, stalled or no verdict: the behaviour ends here
		}
		// what Switch.StopPeerForError does: the peer is removed from the set and from every reactor (a peer
		// that was not stopped is taken to leave by itself)
		clientNet.set.remove(s.serverAtClient.ID())
		client.RemovePeer(s.serverAtClient, "stopped for error")
	}
	if last := per[len(per)-1]; last.Outcome == "stored" {
		// nothing else may be stored
		select {
		case ev := <-clientApp.events:
			per = append(per, ev)
		case <-time.After(grace):
		}
	}
	return per, clientApp.held(), concr
}

// fsTripleSettled: every attempt ended with a verdict
func fsTripleSettled(sc fsTriple, per []fsAttemptObs) bool {
	for _, o := range per {
		if o.Outcome == "none" {
			return false
		}
	}
	return true
}

type fsTripleJob struct {
	Triples []fsTriple `json:"triples"`
}

func fsTripleChild(c *core.Ctx, scs []fsTriple) {
	w := bufio.NewWriter(os.Stdout)
	var mu sync.Mutex
	emit := func(o fsTObs) {
		b, _ := json.Marshal(o)
		mu.Lock()
		fmt.Fprintf(w, "AT %d\nRESULT %s\n", o.Idx, b)
		w.Flush()
		mu.Unlock()
	}
	// a fixed number of workers takes the scenarios in order (those that may kill the process are last)
	var wg sync.WaitGroup
	next := int32(-1)
	for wk := 0; wk < 24; wk++ {
		wg.Add(1)
		go func() {
			defer wg.Done()
			for {
				i := int(atomic.AddInt32(&next, 1))
				if i >= len(scs) {
					return
				}
				sc := scs[i]
				var per []fsAttemptObs
				var held, concr map[string]string
				try := 0
				var retried []string
				for try < 3 {
					t := try
					per, held, concr = fsTripleRun(sc, c.Seed, func(attempt int, o fsAttemptObs) {
						emit(fsTObs{Idx: i, Ev: "commit", Try: t, Attempt: attempt, Commit: &o})
					})
					if fsTripleSettled(sc, per) {
						break
					}
					last := per[len(per)-1]
					retried = append(retried, fmt.Sprintf("attempt %d: %s %s", len(per)-1, last.Outcome, last.Detail))
					try++
				}
				emit(fsTObs{Idx: i, Ev: "end", Try: try, Per: per, Held: held, Concr: concr, Retried: retried})
			}
		}()
	}
	wg.Wait()
	mu.Lock()
	fmt.Fprintln(w, "DONE")
	w.Flush()
	mu.Unlock()
}

// ---- the verdict ------------------------------------------------------------------------------

type fsVerdict struct {
	key, desc string
	shape     bool
	infra     bool
}

func fsWho(a fsAttempt) string {
	return fmt.Sprintf("first = %s, second.LastBlockID names %s, second.LastCommit names %s with slots %v", a.First, a.Sid, a.Cid, a.Kinds)
}

// fsJudge compares what the syncing node did with the model, attempt by attempt. died: the
// process ended before the scenario did (per then holds what CommitBlock reported).
func fsJudge(sc fsTriple, per []fsAttemptObs, held map[string]string, died bool) (out []fsVerdict) {
	add := func(v fsVerdict) { out = append(out, v) }
	for i, o := range per {
		if i >= len(sc.Attempts) {
			if o.Outcome == "stored" {
				add(fsVerdict{key: "fastsync-triple/stores-a-second-block", desc: fmt.Sprintf("validator set %v: after the behaviour ended the syncing node stored another block (%s at height %d)", sc.Pw, o.Kind, o.Height)})
			}
			break
		}
		a := sc.Attempts[i]
		switch {
		case o.Outcome == "none":
			add(fsVerdict{infra: true, desc: fmt.Sprintf("attempt %d (%s): %s", i, fsWho(a), o.Detail)})
			return
		case o.Outcome == "stored":
			if !a.Ok || o.Kind != a.First || o.Height != 1 {
				add(fsVerdict{key: "fastsync-triple/stores-block-without-commit-for-it", desc: fmt.Sprintf("validator set %v, peer %d serves %s: fast sync stored block %s at height %d%s; by the specification the precommits served are %s - validators holding more than 2/3 of the power did not sign the id of the stored block", sc.Pw, i+1, fsWho(a), o.Kind, o.Height, o.Detail, a.Class)})
				return
			}
			if !o.SeenOK {
				add(fsVerdict{shape: true, key: "fastsync-triple/seen-commit", desc: fmt.Sprintf("validator set %v, %s: the commit stored with block %s is not the second.LastCommit that was served", sc.Pw, fsWho(a), o.Kind)})
			}
		case a.Ok: // dropped or quiet, the model stores
			add(fsVerdict{key: "fastsync-triple/rejects-a-committed-block", desc: fmt.Sprintf("validator set %v, peer %d serves %s: fast sync did not store block %s (%s: %s); by the specification the precommits served are a commit for exactly this block", sc.Pw, i+1, fsWho(a), a.First, o.Outcome, o.Detail)})
			return
		case o.Outcome == "rejected" && a.want() == "dropped":
			// pi_shape, and a known race of BlockPool.RedoRequest (counted in the evidence, not reported as drift)
		case o.Outcome != a.want():
			add(fsVerdict{shape: true, key: "fastsync-triple/peer-" + o.Outcome, desc: fmt.Sprintf("validator set %v, %s: the peer was %s, the specification says %s", sc.Pw, fsWho(a), o.Outcome, a.want())})
			return
		}
	}
	if len(per) > 0 && len(per) < len(sc.Attempts) && fsNoStore(per[len(per)-1].Outcome) {
		add(fsVerdict{infra: true, desc: "the scenario ended before its last attempt"})
	}
	if died {
		last := sc.Attempts[len(sc.Attempts)-1]
		if len(per) > 0 && len(per) <= len(sc.Attempts) {
			last = sc.Attempts[len(per)-1]
		}
		if !last.Dead {
			add(fsVerdict{shape: true, key: "fastsync-triple/died-after-commit", desc: fmt.Sprintf("validator set %v, %s: the process ended after CommitBlock (ApplyBlock panics on a block that does not validate); the specification keeps the node running", sc.Pw, fsWho(last))})
		}
		return
	}
	// what the application holds at the end: the model's block at H, nothing anywhere else
	want := sc.Attempts[len(sc.Attempts)-1].Store
	if len(per) > 0 && len(per) <= len(sc.Attempts) {
		want = sc.Attempts[len(per)-1].Store
	}
	got := "none"
	if k, ok := held["1"]; ok {
		got = k
	}
	if got != want && len(out) == 0 {
		add(fsVerdict{key: "fastsync-triple/holds-another-block", desc: fmt.Sprintf("validator set %v: after %d attempts the application holds %s at height 1, the specification says %s", sc.Pw, len(per), got, want)})
	}
	for h, k := range held {
		if h != "1" && len(out) == 0 {
			add(fsVerdict{key: "fastsync-triple/stores-a-second-block", desc: fmt.Sprintf("validator set %v: the application holds block %s at height %s, for which no commit was served", sc.Pw, k, h)})
		}
	}
	return
}

// ---- selection and execution ---------------------------------------------------------------------

func fsClass(a *fsTAct) string {
	switch {
	case a.CommittedG:
		return "a commit for G"
	case a.CommittedX:
		return "a commit for X"
	}
	return "no commit"
}

func (m *fsTModel) attemptOf(ei int) fsAttempt {
	a := m.acts[ei]
	to := m.states[m.g.Edges[ei].To]
	return fsAttempt{First: a.First, Sid: a.Sid, Cid: a.Cid, Kinds: a.Kinds, Placed: a.Placed, Ok: a.Ok,
		Store: to.Store, Dropped: to.Dropped, Stalled: to.Stalled, Dead: to.Dead, Class: fsClass(a), Act: a.raw}
}

// selectTriples picks the behaviours that are executed: per stratum (block served, id named by
// second, id named by the commit, what the precommits are a commit for, first or second peer) up to
// quota edges, spread over the validator sets; a behaviour for an edge of the second peer starts
// with a rejected attempt of the same validator set.
func selectTriples(c *core.Ctx, m *fsTModel, quota int) (scs []fsTriple, strata int, edges int) {
	rng := rand.New(rand.NewSource(c.Seed*31 + 17))
	byStratum := map[string][]int{}
	rejected := map[string][]int{} // validator set / block served -> rejected edges of the first peer
	for ei, e := range m.g.Edges {
		a := m.acts[ei]
		if a.Op != "sync" {
			continue
		}
		edges++
		from := m.states[e.From]
		k := fmt.Sprintf("%s|%s|%s|%s|%d", a.First, a.Sid, a.Cid, fsClass(a), from.Dropped)
		if !a.Placed {
			// never examined by poolRoutine: what second claims makes no difference
			k = fmt.Sprintf("%s|*|*|*|%d", a.First, from.Dropped)
		}
		byStratum[k] = append(byStratum[k], ei)
		if from.Dropped == 0 && a.Placed && !a.Ok {
			rejected[vecKey(from.Pw)+a.First] = append(rejected[vecKey(from.Pw)+a.First], ei)
		}
	}
	var keys []string
	for k := range byStratum {
		keys = append(keys, k)
	}
	sort.Strings(keys)
	strata = len(keys)
	for _, k := range keys {
		cand := byStratum[k]
		rng.Shuffle(len(cand), func(i, j int) { cand[i], cand[j] = cand[j], cand[i] })
		// no validator set twice before every set had its turn
		perVec := map[string]int{}
		taken := 0
		for round := 0; taken < quota && round < quota; round++ {
			for _, ei := range cand {
				if taken >= quota {
					break
				}
				from := m.states[m.g.Edges[ei].From]
				vk := vecKey(from.Pw)
				if perVec[vk] != round {
					continue
				}
				perVec[vk]++
				sc := fsTriple{Pw: from.Pw, Which: (ei + taken) % 2, Pick: rng.Intn(1 << 16)}
				if from.Dropped > 0 {
					// the rejected attempt before it serves, in turn, each kind of block
					var rej []int
					for j := 0; j < 3 && len(rej) == 0; j++ {
						rej = rejected[vk+[]string{"G", "X", "D"}[(taken+j)%3]]
					}
					if len(rej) == 0 {
						continue
					}
					sc.Attempts = append(sc.Attempts, m.attemptOf(rej[rng.Intn(len(rej))]))
				}
				sc.Attempts = append(sc.Attempts, m.attemptOf(ei))
				scs = append(scs, sc)
				taken++
			}
		}
	}
	rank := func(sc fsTriple) int {
		r := 1
		for _, a := range sc.Attempts {
			if a.First == "D" {
				return 2 // the only blocks ApplyBlock can panic on: they go last
			}
			if !a.Placed {
				r = 0 // the slowest (a quiet period is waited for): first
			}
		}
		return r
	}
	sort.SliceStable(scs, func(i, j int) bool { return rank(scs[i]) < rank(scs[j]) })
	return
}

// runTriples executes the scenarios in child processes; a child that dies (ApplyBlock panics in a
// goroutine of the reactor) is replaced and the scenarios it had not finished are run again; one that
// reported a CommitBlock and did not end twice is judged on what it reported. skipped: scenarios given
// up after too many deaths.
var fsDeathNotes []string // how child processes ended abnormally (evidence only)

func runTriples(c *core.Ctx, scs []fsTriple, enough func(ends map[int]fsTObs, commits map[int][]fsTObs) bool) (ends map[int]fsTObs, commits map[int][]fsTObs, deaths int, skipped int, ok bool) {
	ends, commits = map[int]fsTObs{}, map[int][]fsTObs{}
	pending := make([]int, len(scs))
	for i := range scs {
		pending[i] = i
	}
	suspect := map[int]int{}
	deadline := time.Now().Add(c.MinutesT(3, 15))
	for len(pending) > 0 {
		if deaths >= c.Pick(40, 120) || time.Now().After(deadline) || (deaths >= 3 && enough != nil && enough(ends, commits)) {
			return ends, commits, deaths, len(pending), true
		}
		job := fsTripleJob{}
		for _, i := range pending {
			job.Triples = append(job.Triples, scs[i])
		}
		arg, _ := json.Marshal(job)
		f, err := ioutil.TempFile("", "vc03fs3")
		if err != nil {
			c.Infra("fast sync (triples): %v", err)
			return ends, commits, deaths, len(pending), false
		}
		_, err = f.Write(arg)
		f.Close()
		if err != nil {
			os.Remove(f.Name())
			c.Infra("fast sync (triples): %v", err)
			return ends, commits, deaths, len(pending), false
		}
		results, at, crash := c.RunChild(f.Name(), time.Until(deadline)+time.Second)
		os.Remove(f.Name())
		reported := map[int]bool{}
		for _, r := range results {
			var o fsTObs
			if json.Unmarshal([]byte(r), &o) != nil || o.Idx < 0 || o.Idx >= len(pending) {
				continue
			}
			o.Idx = pending[o.Idx]
			if o.Ev == "end" {
				ends[o.Idx] = o
			} else if o.Ev == "commit" {
				commits[o.Idx] = append(commits[o.Idx], o)
				reported[o.Idx] = true
			}
		}
		if crash == "TIMEOUT" {
			c.Infra("fast sync (triples): scenarios timed out (last reported: %s)", at)
			return ends, commits, deaths, len(pending), false
		}
		var next []int
		for _, i := range pending {
			if _, done := ends[i]; done {
				continue
			}
			if reported[i] && crash != "" {
				// it was past CommitBlock when the process died: its own ApplyBlock or another scenario's
				if suspect[i]++; suspect[i] >= 2 {
					continue
				}
			}
			next = append(next, i)
		}
		if crash != "" {
			deaths++
			if len(fsDeathNotes) < 5 {
				note := crash
				if len(note) > 1500 {
					note = note[:1500] + " ..."
				}
				fsDeathNotes = append(fsDeathNotes, note)
			}
			if len(results) == 0 {
				c.Infra("the fast-sync child process died without reporting anything: %s", crash)
				return ends, commits, deaths, len(next), false
			}
		} else if len(next) > 0 {
			c.Infra("fast sync (triples): the child ended without reporting %d scenarios", len(next))
			return ends, commits, deaths, len(next), false
		}
		pending = next
	}
	return ends, commits, deaths, 0, true
}

// observed returns what is judged for scenario i: the final report, or - the process having died -
// what CommitBlock reported
func fsObserved(i int, ends map[int]fsTObs, commits map[int][]fsTObs, sc fsTriple) (per []fsAttemptObs, held map[string]string, died bool, have bool) {
	if e, ok := ends[i]; ok {
		return e.Per, e.Held, false, true
	}
	cm := commits[i]
	if len(cm) == 0 {
		return nil, nil, false, false
	}
	last := cm[len(cm)-1]
	// the attempts before the one that stored were rejected
	for a := 0; a < last.Attempt && a < len(sc.Attempts); a++ {
		per = append(per, fsAttemptObs{Outcome: sc.Attempts[a].want()})
	}
	per = append(per, *last.Commit)
	return per, nil, true, true
}

func replayTriples(c *core.Ctx, m *fsTModel) {
	scs, strata, edges := selectTriples(c, m, c.Pick(3, 40))
	if len(scs) == 0 {
		c.Infra("fast sync (triples): no scenario selected")
		return
	}
	// once child processes keep dying and what was observed already violates the property, the rest is given up
	enough := func(ends map[int]fsTObs, commits map[int][]fsTObs) bool {
		for i := range scs {
			if per, held, died, have := fsObserved(i, ends, commits, scs[i]); have {
				for _, v := range fsJudge(scs[i], per, held, died) {
					if !v.shape && !v.infra {
						return true
					}
				}
			}
		}
		return false
	}
	ends, commits, deaths, skipped, ok := runTriples(c, scs, enough)
	stats := map[string]int{}
	firstKinds := map[string]int{}
	executed, attempts := 0, 0
	var retried []string
	var sampleOK *fsTriple
	var ctlStored, ctlDropped *fsTriple
	var ctlStoredPer, ctlDroppedPer []fsAttemptObs
	var ctlStoredHeld, ctlDroppedHeld map[string]string
	for i := range scs {
		sc := scs[i]
		per, held, died, have := fsObserved(i, ends, commits, sc)
		if !have {
			continue
		}
		executed++
		attempts += len(per)
		c.AddTraces(1)
		c.AddEvals(len(per))
		for ai, o := range per {
			stats[o.Outcome]++
			if ai < len(sc.Attempts) {
				firstKinds[sc.Attempts[ai].First+"/"+o.Outcome]++
			}
		}
		if died {
			stats["process died after CommitBlock"]++
		}
		vs := fsJudge(sc, per, held, died)
		rec := map[string]interface{}{"kind": "fastsync3", "scenario": sc, "observed": per, "held": held, "process_died": died,
			"replay": map[string]interface{}{"triple": sc, "seed": c.Seed}}
		if e, ok := ends[i]; ok {
			rec["concrete"] = e.Concr
			for _, r := range e.Retried {
				retried = append(retried, fmt.Sprintf("behaviour %d: %s", i, r))
			}
		}
		for _, v := range vs {
			switch {
			case v.infra:
				c.Infra("fast sync (triples) scenario %d: %s", i, v.desc)
			case v.shape:
				c.Drift("%s: %s", v.key, v.desc)
			default:
				c.Violate(v.key, v.desc, rec)
			}
		}
		if len(vs) == 0 && !died {
			last := sc.Attempts[len(sc.Attempts)-1]
			if last.Ok && ctlStored == nil {
				ctlStored, ctlStoredPer, ctlStoredHeld = &scs[i], per, held
			}
			if !last.Ok && last.Placed && ctlDropped == nil && last.First != "G" {
				ctlDropped, ctlDroppedPer, ctlDroppedHeld = &scs[i], per, held
			}
			if sampleOK == nil && len(sc.Attempts) == 2 && last.Ok {
				sampleOK = &scs[i]
				c.Sample(map[string]interface{}{"fastsync_triple_behaviour": sc, "observed": per, "held": held})
			}
		}
	}
	c.Out().Distinct += executed
	if skipped > 0 && ok && len(c.Out().Violations) == 0 {
		c.Infra("fast sync (triples): %d scenarios not executed (%d child processes died)", skipped, deaths)
	}
	// negative controls on real observations: a corrupted expectation must be reported
	var controls []string
	if ok && len(c.Out().Violations) == 0 {
		if ctlStored == nil || ctlDropped == nil {
			c.Infra("fast sync (triples): no scenario to build the negative controls from (stored: %v, dropped: %v)", ctlStored != nil, ctlDropped != nil)
		} else {
			flip := func(sc fsTriple, f func(a *fsAttempt)) fsTriple {
				cp := sc
				cp.Attempts = append([]fsAttempt{}, sc.Attempts...)
				f(&cp.Attempts[len(cp.Attempts)-1])
				return cp
			}
			type ctl struct {
				name string
				sc   fsTriple
				per  []fsAttemptObs
				held map[string]string
				want string
			}
			ctls := []ctl{
				{"stored block expected as rejected", flip(*ctlStored, func(a *fsAttempt) { a.Ok, a.Store = false, "none" }), ctlStoredPer, ctlStoredHeld, "fastsync-triple/stores-block-without-commit-for-it"},
				{"stored block expected to be another block", flip(*ctlStored, func(a *fsAttempt) {
					if a.First == "G" {
						a.First, a.Store = "X", "X"
					} else {
						a.First, a.Store = "G", "G"
					}
				}), ctlStoredPer, ctlStoredHeld, "fastsync-triple/stores-block-without-commit-for-it"},
				{"rejected block expected as stored", flip(*ctlDropped, func(a *fsAttempt) { a.Ok, a.Store = true, a.First }), ctlDroppedPer, ctlDroppedHeld, "fastsync-triple/rejects-a-committed-block"},
				{"application expected to hold a block after a rejection", flip(*ctlDropped, func(a *fsAttempt) { a.Store = a.First }), ctlDroppedPer, ctlDroppedHeld, "fastsync-triple/holds-another-block"},
			}
			for _, ct := range ctls {
				found := false
				for _, v := range fsJudge(ct.sc, ct.per, ct.held, false) {
					if !v.shape && !v.infra && v.key == ct.want {
						found = true
					}
				}
				if !found {
					c.Infra("vacuous binding: the fast-sync comparison accepts a corrupted expectation (%s)", ct.name)
				} else {
					controls = append(controls, ct.name+" -> "+ct.want)
				}
			}
		}
	}
	c.SetExtra("fastsync_triples", map[string]interface{}{"model_sync_edges": edges, "strata": strata, "behaviours_selected": len(scs), "behaviours_executed": executed,
		"attempts_executed": attempts, "outcomes": stats, "by_first_block": firstKinds, "child_processes_died": deaths, "behaviours_given_up": skipped, "child_process_deaths": fsDeathNotes,
		"pairs_rejected_without_stopping_a_peer": stats["rejected"],
		"note_rejected":                          "outcome 'rejected': both requests were redone and nothing stored, but StopPeerForError was not called - BlockPool.RedoRequest returns request.peerID after removePeer, when the requester goroutine may already have reset it to the empty string (pi_shape, not compared)", "inconclusive_tries_repeated": retried, "negative_controls_rejected": controls})
}
