package c03

import (
	"encoding/json"
	"fmt"
	"regexp"
	"strconv"
	"sync"

	"github.com/pkg/errors"

	"github.com/lianxiangcloud/linkchain/types"

	"verifh/mbt"
)

// ---- the exported model graph, parsed once and shared read-only -------------

type mState struct {
	Pw   []int                        `json:"pw"`
	V    []string                     `json:"v"`
	Bits []int                        `json:"bits"`
	Sum  int64                        `json:"sum"`
	Maj  string                       `json:"maj"`
	Any  bool                         `json:"any"`
	All  bool                         `json:"all"`
	BB   map[string][]json.RawMessage `json:"bb"`
	PM   map[string]string            `json:"pm"`

	flags map[string]int   // per block id: tracked + 2*peerMaj23
	has   map[string][]int // per block id: which validators' votes are tallied
}

func (s *mState) known(i int, b string) bool { return s.V[i] == b || s.has[b][i] == 1 }

type mAct struct {
	Op string `json:"op"`
	// new
	Pw []int `json:"pw"`
	// vote
	Who   int               `json:"who"` // 1-based
	D     string            `json:"d"`
	B     string            `json:"b"`
	Rel   string            `json:"rel"`
	Added bool              `json:"added"`
	Err   string            `json:"err"`
	Ev    []json.RawMessage `json:"ev"`
	// peer
	P  string `json:"p"`
	Ok bool   `json:"ok"`
	// commit
	Kinds       []string `json:"kinds"`
	Extra       int      `json:"extra"`
	HOK         bool     `json:"hOK"`
	Bid         string   `json:"bid"`
	Other       string   `json:"other"`
	Verify      bool     `json:"verify"`
	VerifyOther bool     `json:"verifyOther"`
	Reconstruct string   `json:"reconstruct"`
	Committed   bool     `json:"committed"`
	Clean       bool     `json:"clean"`

	evWho   int
	evA     string
	evB     string
	raw     string
	corrupt string // non-empty: this expectation was corrupted on purpose (negative control)
}

type model struct {
	g      *mbt.Graph
	states []*mState
	acts   []*mAct
}

func parseModel(g *mbt.Graph) (*model, error) {
	m := &model{g: g}
	for i, raw := range g.States {
		st := &mState{}
		if err := json.Unmarshal(raw, st); err != nil {
			return nil, fmt.Errorf("state %d: %v", i, err)
		}
		st.flags, st.has = map[string]int{}, map[string][]int{}
		for b, pair := range st.BB {
			if len(pair) != 2 {
				return nil, fmt.Errorf("state %d: bad blockVotes entry", i)
			}
			var f int
			var h []int
			if json.Unmarshal(pair[0], &f) != nil || json.Unmarshal(pair[1], &h) != nil {
				return nil, fmt.Errorf("state %d: bad blockVotes entry", i)
			}
			st.flags[b], st.has[b] = f, h
		}
		m.states = append(m.states, st)
	}
	for i, e := range g.Edges {
		a := &mAct{}
		if err := json.Unmarshal(e.Act, a); err != nil {
			return nil, fmt.Errorf("edge %d: %v", i, err)
		}
		a.raw = mbt.Compact(e.Act)
		if a.Op == "vote" {
			if len(a.Ev) != 3 || json.Unmarshal(a.Ev[0], &a.evWho) != nil || json.Unmarshal(a.Ev[1], &a.evA) != nil || json.Unmarshal(a.Ev[2], &a.evB) != nil {
				return nil, fmt.Errorf("edge %d: bad evidence triple", i)
			}
		}
		m.acts = append(m.acts, a)
	}
	return m, nil
}

// ---- mismatches ----------------------------------------------------------------

type mismatch struct {
	key   string // stable violation key
	desc  string
	shape bool // pi_shape (drift), not pi_prop
}

// ---- replay of one behaviour on a real types.VoteSet ----------------------------

type replayer struct {
	m    *model
	in   *inst
	pick int       // running counter that selects concrete variants
	deep *sync.Map // model states whose commit has been checked for this instantiation
	// statistics
	steps      int
	signedOK   int
	commits    int
	nocommit   int
	conflicts  int
	majorities int
}

func errClass(err error) string {
	if err == nil {
		return "none"
	}
	if _, ok := err.(*types.ErrVoteConflictingVotes); ok {
		return "conflict"
	}
	return "invalid"
}

var expectedCause = map[string][]error{
	"idxNeg":    {types.ErrVoteInvalidValidatorIndex},
	"idxBig":    {types.ErrVoteInvalidValidatorIndex},
	"addrEmpty": {types.ErrVoteInvalidValidatorAddress},
	"addrWrong": {types.ErrVoteInvalidValidatorAddress},
	"size":      {types.ErrVoteInvalidValidatorSize},
	"height":    {types.ErrVoteUnexpectedStep},
	"round":     {types.ErrVoteUnexpectedStep},
	"type":      {types.ErrVoteUnexpectedStep},
	"sig":       {types.ErrVoteInvalidSignature, types.ErrVoteNonDeterministicSignature},
	"none":      {types.ErrVoteNonDeterministicSignature},
}

func guard(f func()) (p interface{}) {
	defer func() { p = recover() }()
	f()
	return nil
}

// concreteVote instantiates the abstract vote of action a in state from.
func (r *replayer) concreteVote(a *mAct, from *mState, stored map[string]*types.Vote) (*types.Vote, string) {
	i := a.Who - 1
	r.pick++
	skey := fmt.Sprintf("%d/%s", i, a.B)
	if a.D == "none" {
		switch a.Rel {
		case "fresh":
			return r.in.good(i, a.B, 0), "fresh"
		case "exact":
			st := stored[skey]
			switch r.pick % 3 {
			case 0:
				return st, "exact/same-object"
			case 1:
				return st.Copy(), "exact/copy"
			default: // the stored signature on a vote whose (signed) timestamp differs
				c := st.Copy()
				c.Timestamp = c.Timestamp.Add(3e9)
				return c, "exact/same-signature-other-timestamp"
			}
		default: // resign
			if r.pick%2 == 0 {
				return r.in.good(i, a.B, 1), "resign/later-timestamp"
			}
			c := stored[skey].Copy()
			c.Signature = flipSig(c.Signature)
			return c, "resign/garbled-signature"
		}
	}
	tsOff := 0
	if a.Rel == "resign" {
		tsOff = 1
	}
	return r.in.defective(a.D, i, a.B, tsOff, r.pick)
}

var reFrac = regexp.MustCompile(` (-?\d+)/(-?\d+) = `)

// observe compares everything pi_prop names with the model state st.
func (r *replayer) observe(vs *types.VoteSet, sid int, stored map[string]*types.Vote) *mismatch {
	st := r.m.states[sid]
	in := r.in
	bid, ok := vs.TwoThirdsMajority()
	wantOK := st.Maj != "none"
	if ok != wantOK || (ok && !bid.Equals(in.bids[st.Maj])) || (!ok && !bid.IsZero()) {
		return &mismatch{key: "voteset/two-thirds-majority", desc: fmt.Sprintf("TwoThirdsMajority() = (%v, %v), the specification says %q", bid, ok, st.Maj)}
	}
	if vs.HasTwoThirdsMajority() != wantOK || vs.IsCommit() != (wantOK && in.typ == types.VoteTypePrecommit) {
		return &mismatch{key: "voteset/two-thirds-majority", desc: fmt.Sprintf("HasTwoThirdsMajority() = %v, IsCommit() = %v, the specification says majority %q", vs.HasTwoThirdsMajority(), vs.IsCommit(), st.Maj)}
	}
	if got := vs.HasTwoThirdsAny(); got != st.Any {
		return &mismatch{key: "voteset/has-two-thirds-any", desc: fmt.Sprintf("HasTwoThirdsAny() = %v, the specification says %v", got, st.Any)}
	}
	if got := vs.HasAll(); got != st.All {
		return &mismatch{key: "voteset/has-all", desc: fmt.Sprintf("HasAll() = %v, the specification says %v", got, st.All)}
	}
	ba := vs.BitArray()
	if ba.Size() != in.n {
		return &mismatch{key: "voteset/bit-array", desc: fmt.Sprintf("BitArray() has %d bits for %d validators", ba.Size(), in.n)}
	}
	var wantSum int64
	for i := 0; i < in.n; i++ {
		if ba.GetIndex(i) != (st.Bits[i] == 1) {
			return &mismatch{key: "voteset/bit-array", desc: fmt.Sprintf("BitArray() bit %d = %v, the specification says %v", i, ba.GetIndex(i), st.Bits[i] == 1)}
		}
		if st.Bits[i] == 1 {
			wantSum += in.powers[i]
		}
		// the canonical vote of every validator
		got := vs.GetByIndex(i)
		if (got == nil) != (st.V[i] == "none") {
			return &mismatch{key: "voteset/canonical-vote", desc: fmt.Sprintf("GetByIndex(%d) = %v, the specification says a vote for %q", i, got, st.V[i])}
		}
		if got != nil {
			if want := stored[fmt.Sprintf("%d/%s", i, st.V[i])]; got != want {
				return &mismatch{key: "voteset/canonical-vote", desc: fmt.Sprintf("GetByIndex(%d) = %v, the specification says the stored vote for %q: %v", i, got, st.V[i], want)}
			}
			if byA := vs.GetByAddress(in.addrs[i]); byA != got {
				return &mismatch{key: "voteset/canonical-vote", desc: fmt.Sprintf("GetByAddress(validator %d) = %v but GetByIndex = %v", i, byA, got)}
			}
		}
	}
	for b, id := range in.bids {
		bb := vs.BitArrayByBlockID(id)
		if (bb != nil) != (st.flags[b]&1 == 1) {
			return &mismatch{key: "voteset/bit-array-by-block", desc: fmt.Sprintf("BitArrayByBlockID(%s) = %v, the specification says tracked=%v", b, bb, st.flags[b]&1 == 1)}
		}
		if bb != nil {
			for i := 0; i < in.n; i++ {
				if bb.GetIndex(i) != (st.has[b][i] == 1) {
					return &mismatch{key: "voteset/bit-array-by-block", desc: fmt.Sprintf("BitArrayByBlockID(%s) bit %d = %v, the specification says %v", b, i, bb.GetIndex(i), st.has[b][i] == 1)}
				}
			}
		}
	}
	// the round total (rendered only through BitArrayString: "<bits> sum/total = frac")
	if m := reFrac.FindStringSubmatch(vs.BitArrayString()); m == nil {
		return &mismatch{key: "shape/bit-array-string", desc: "BitArrayString() does not render sum/total: " + vs.BitArrayString(), shape: true}
	} else {
		sum, _ := strconv.ParseInt(m[1], 10, 64)
		tot, _ := strconv.ParseInt(m[2], 10, 64)
		if sum != wantSum || tot != totalOf(in.powers) {
			return &mismatch{key: "voteset/round-total", desc: fmt.Sprintf("tallied %d of %d, the specification says %d of %d", sum, tot, wantSum, totalOf(in.powers))}
		}
	}
	if in.typ != types.VoteTypePrecommit {
		return nil
	}
	if _, done := r.deep.LoadOrStore(sid, true); done {
		return nil
	}
	// MakeCommit / VerifyCommit on this state
	var commit *types.Commit
	p := guard(func() { commit = vs.MakeCommit() })
	if !wantOK {
		r.nocommit++
		if p == nil {
			return &mismatch{key: "commit/made-without-majority", desc: fmt.Sprintf("MakeCommit() returned %v although no block has a two-thirds majority", commit)}
		}
		return nil
	}
	if p != nil {
		return &mismatch{key: "commit/make-commit-panics", desc: fmt.Sprintf("MakeCommit() panicked with a majority for %q: %v", st.Maj, p)}
	}
	r.commits++
	if !commit.BlockID.Equals(in.bids[st.Maj]) || len(commit.Precommits) != in.n {
		return &mismatch{key: "commit/make-commit", desc: fmt.Sprintf("MakeCommit() = %v for majority %q", commit, st.Maj)}
	}
	for i, pc := range commit.Precommits {
		if pc != vs.GetByIndex(i) {
			return &mismatch{key: "commit/make-commit", desc: fmt.Sprintf("MakeCommit() slot %d = %v, canonical vote %v", i, pc, vs.GetByIndex(i))}
		}
	}
	fresh := func() *types.Commit {
		return &types.Commit{BlockID: commit.BlockID, Precommits: append([]*types.Vote{}, commit.Precommits...)}
	}
	if err := in.valSet.VerifyCommit(in.chainID, in.bids[st.Maj], in.height, fresh()); err != nil {
		return &mismatch{key: "commit/own-commit-rejected", desc: fmt.Sprintf("VerifyCommit rejects the commit the vote set made for %q: %v", st.Maj, err)}
	}
	for b, id := range in.bids {
		if b == st.Maj {
			continue
		}
		if err := in.valSet.VerifyCommit(in.chainID, id, in.height, fresh()); err == nil {
			return &mismatch{key: "commit/accepted-for-other-block", desc: fmt.Sprintf("VerifyCommit accepts the commit made for %q as a commit for %q", st.Maj, b)}
		}
	}
	if err := in.valSet.VerifyCommit(in.otherCh, in.bids[st.Maj], in.height, fresh()); err == nil {
		return &mismatch{key: "commit/accepted-for-other-chain", desc: "VerifyCommit accepts the commit under another chain id"}
	}
	if err := in.valSet.VerifyCommit(in.chainID, in.bids[st.Maj], in.height+1, fresh()); err == nil {
		return &mismatch{key: "commit/accepted-for-other-height", desc: "VerifyCommit accepts the commit for the next height"}
	}
	if err := in.otherVS.VerifyCommit(in.chainID, in.bids[st.Maj], in.height, fresh()); err == nil {
		return &mismatch{key: "commit/accepted-by-other-validators", desc: "VerifyCommit of a validator set with other keys accepts the commit"}
	}
	return nil
}

// run replays the behaviour seq (edge indexes from the initial state). It returns the
// first mismatch and the number of steps executed.
func (r *replayer) run(seq []int, acts func(ei int) *mAct) (mm *mismatch, done int, trace []string) {
	var vs *types.VoteSet
	stored := map[string]*types.Vote{}
	in := r.in
	for pos, ei := range seq {
		e := r.m.g.Edges[ei]
		a := acts(ei)
		from, to := r.m.states[e.From], r.m.states[e.To]
		trace = append(trace, a.raw)
		done = pos + 1
		r.steps++
		switch a.Op {
		case "new":
			vs = types.NewVoteSet(in.chainID, in.height, in.round, in.typ, in.valSet)
		case "peer":
			var err error
			if p := guard(func() { err = vs.SetPeerMaj23(a.P, in.bids[a.B]) }); p != nil {
				return &mismatch{key: "panic/set-peer-maj23", desc: fmt.Sprintf("SetPeerMaj23 panicked: %v", p)}, done, trace
			}
			if (err == nil) != a.Ok {
				return &mismatch{key: "shape/set-peer-maj23", desc: fmt.Sprintf("SetPeerMaj23(%s, %s) returned %v, the specification says ok=%v", a.P, a.B, err, a.Ok), shape: true}, done, trace
			}
		case "vote":
			v, variant := r.concreteVote(a, from, stored)
			in.used(variant)
			var added bool
			var err error
			if p := guard(func() { added, err = vs.AddVote(v) }); p != nil {
				return &mismatch{key: "panic/add-vote/" + a.D, desc: fmt.Sprintf("AddVote panicked on variant %s: %v", variant, p)}, done, trace
			}
			cls := errClass(err)
			if added != a.Added {
				dir := "not-added"
				if added {
					dir = "added"
				}
				return &mismatch{key: fmt.Sprintf("voteset/%s/%s", dir, a.D), desc: fmt.Sprintf("AddVote(%s) returned added=%v err=%v, the specification says added=%v err=%s", variant, added, err, a.Added, a.Err)}, done, trace
			}
			if cls != a.Err {
				return &mismatch{key: fmt.Sprintf("voteset/error-class/%s-for-%s/%s", cls, a.Err, a.D), desc: fmt.Sprintf("AddVote(%s) returned err=%v (class %s), the specification says %s", variant, err, cls, a.Err)}, done, trace
			}
			if cls == "conflict" {
				r.conflicts++
				ev := err.(*types.ErrVoteConflictingVotes)
				wantA := stored[fmt.Sprintf("%d/%s", a.evWho-1, a.evA)]
				if ev.DuplicateVoteEvidence == nil || ev.VoteA != wantA || ev.VoteB != v || !ev.PubKey.Equals(in.keys[a.Who-1].PubKey()) {
					return &mismatch{key: "voteset/evidence-pair", desc: fmt.Sprintf("conflict evidence (%v) is not the pair canonical vote for %q / new vote for %q of validator %d", ev.DuplicateVoteEvidence, a.evA, a.evB, a.Who-1)}, done, trace
				}
				if verr := ev.DuplicateVoteEvidence.Verify(in.chainID, in.keys[a.Who-1].PubKey()); verr != nil {
					return &mismatch{key: "shape/evidence-verify", desc: fmt.Sprintf("the surfaced evidence does not verify: %v", verr), shape: true}, done, trace
				}
			} else if cls == "invalid" {
				ok := false
				for _, c := range expectedCause[a.D] {
					if errors.Cause(err) == c {
						ok = true
					}
				}
				if !ok {
					return &mismatch{key: "shape/error-value/" + a.D, desc: fmt.Sprintf("AddVote(%s) failed with %v", variant, err), shape: true}, done, trace
				}
			} else if added {
				r.signedOK++
			}
			i := a.Who - 1
			if a.D == "none" && !from.known(i, a.B) && to.known(i, a.B) {
				stored[fmt.Sprintf("%d/%s", i, a.B)] = v
			}
			if from.Maj == "none" && to.Maj != "none" {
				r.majorities++
			}
		default:
			continue
		}
		var mm *mismatch
		if p := guard(func() { mm = r.observe(vs, e.To, stored) }); p != nil {
			return &mismatch{key: "panic/query", desc: fmt.Sprintf("a query of the vote set panicked: %v", p)}, done, trace
		}
		if mm != nil {
			return mm, done, trace
		}
	}
	return nil, done, trace
}
