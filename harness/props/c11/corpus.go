package c11

// corpus.go builds a deterministic corpus of populated consensus / storage / wire
// values for the serialization round-trip check. All randomness comes from the rng
// handed to buildCorpus; nothing here reads the clock or crypto/rand.

import (
	"bytes"
	"fmt"
	"math"
	"math/big"
	"math/rand"
	"reflect"
	"time"

	"github.com/lianxiangcloud/linkchain/blockchain"
	"github.com/lianxiangcloud/linkchain/consensus"
	cstypes "github.com/lianxiangcloud/linkchain/consensus/types"
	"github.com/lianxiangcloud/linkchain/evidence"
	cmn "github.com/lianxiangcloud/linkchain/libs/common"
	"github.com/lianxiangcloud/linkchain/libs/crypto"
	"github.com/lianxiangcloud/linkchain/libs/crypto/merkle"
	lktypes "github.com/lianxiangcloud/linkchain/libs/cryptonote/types"
	"github.com/lianxiangcloud/linkchain/libs/p2p/conn"
	"github.com/lianxiangcloud/linkchain/libs/ser"
	"github.com/lianxiangcloud/linkchain/mempool"
	"github.com/lianxiangcloud/linkchain/state"
	"github.com/lianxiangcloud/linkchain/types"
)

// namedVal is one populated instance of a consensus/storage/wire type.
type namedVal struct {
	Name string      // e.g. "types.Vote/populated", "types.Tx/TokenTransaction/...", "consensus.ConsensusMessage/VoteMessage/..."
	Ptr  interface{} // ALWAYS a non-nil pointer to the value (possibly a pointer to an interface-typed variable).
}

// ---------------------------------------------------------------------------
// boundary tables

var (
	u64Bounds  = []uint64{0, 1, 127, 128, 255, 256, 1 << 32, math.MaxInt64, math.MaxUint64}
	u32Bounds  = []uint32{0, 1, 127, 128, 255, 256, math.MaxUint32}
	intBounds  = []int{0, 1, -1, 127, 128, 255, 256, 1 << 32, math.MaxInt64, math.MinInt64, math.MinInt32, math.MaxInt32}
	i64Bounds  = []int64{0, 1, -1, 127, 128, 255, 256, 1 << 32, math.MaxInt64, math.MinInt64, math.MinInt32, math.MaxInt32}
	i32Bounds  = []int32{0, 1, -1, 127, 128, 255, 256, math.MaxInt32, math.MinInt32}
	byteBounds = []byte{0, 1, 2, 127, 128, 255}
	uintBounds = []uint{0, 1, 127, 128, 255, 256, 1 << 32, math.MaxInt64, math.MaxUint64}
)

func mod(i, n int) int {
	i %= n
	if i < 0 {
		i += n
	}
	return i
}

func u64B(i int) uint64 { return u64Bounds[mod(i, len(u64Bounds))] }
func u32B(i int) uint32 { return u32Bounds[mod(i, len(u32Bounds))] }
func intB(i int) int    { return intBounds[mod(i, len(intBounds))] }
func i64B(i int) int64  { return i64Bounds[mod(i, len(i64Bounds))] }
func i32B(i int) int32  { return i32Bounds[mod(i, len(i32Bounds))] }
func byteB(i int) byte  { return byteBounds[mod(i, len(byteBounds))] }
func uintB(i int) uint  { return uintBounds[mod(i, len(uintBounds))] }

const nBig = 7

// bigB returns a fresh boundary big.Int: 0, 1, 127, 128, 2^64, 2^255, 2^256-1.
func bigB(i int) *big.Int {
	two := big.NewInt(2)
	switch mod(i, nBig) {
	case 0:
		return big.NewInt(0)
	case 1:
		return big.NewInt(1)
	case 2:
		return big.NewInt(127)
	case 3:
		return big.NewInt(128)
	case 4:
		return new(big.Int).Exp(two, big.NewInt(64), nil)
	case 5:
		return new(big.Int).Exp(two, big.NewInt(255), nil)
	default:
		return new(big.Int).Sub(new(big.Int).Exp(two, big.NewInt(256), nil), big.NewInt(1))
	}
}

type timeCase struct {
	label string
	t     time.Time
}

func timeCases() []timeCase {
	return []timeCase{
		{"epoch", time.Unix(0, 0).UTC()},
		{"ns999999999", time.Unix(1500000000, 999999999).UTC()},
		{"pre1970", time.Date(1969, 12, 31, 23, 59, 59, 999999999, time.UTC)},
		{"pre1970-far", time.Unix(-(1 << 40), 1).UTC()},
		{"zero", time.Time{}},
		{"far-future", time.Date(9999, 12, 31, 23, 59, 59, 999999999, time.UTC)},
		{"extreme-future", time.Unix(1<<56, 0).UTC()},
	}
}

func timeB(i int) time.Time {
	tc := timeCases()
	return tc[mod(i, len(tc))].t
}

// ---------------------------------------------------------------------------
// builder

type corpusBuilder struct {
	rng   *rand.Rand
	items []namedVal
	seen  map[string]bool
	err   error
}

func (b *corpusBuilder) fail(format string, a ...interface{}) {
	if b.err == nil {
		b.err = fmt.Errorf(format, a...)
	}
}

func (b *corpusBuilder) add(name string, ptr interface{}) {
	if ptr == nil {
		b.fail("corpus item %q: nil Ptr", name)
		return
	}
	rv := reflect.ValueOf(ptr)
	if rv.Kind() != reflect.Ptr || rv.IsNil() {
		b.fail("corpus item %q: Ptr must be a non-nil pointer, got %T", name, ptr)
		return
	}
	if b.seen[name] {
		b.fail("corpus item %q: duplicate name", name)
		return
	}
	b.seen[name] = true
	b.items = append(b.items, namedVal{Name: name, Ptr: ptr})
}

func (b *corpusBuilder) bytes(n int) []byte {
	out := make([]byte, n)
	for i := range out {
		out[i] = byte(b.rng.Intn(256))
	}
	return out
}

func (b *corpusBuilder) addr() (a cmn.Address) { copy(a[:], b.bytes(len(a))); return }
func (b *corpusBuilder) hash() (h cmn.Hash)    { copy(h[:], b.bytes(len(h))); return }
func (b *corpusBuilder) key() (k lktypes.Key)  { copy(k[:], b.bytes(len(k))); return }
func (b *corpusBuilder) bloom() (bl types.Bloom) {
	copy(bl[:], b.bytes(len(bl)))
	return
}

type bsCase struct {
	label string
	v     []byte
}

// byteCases: length 0 (nil and empty), 1 (<0x80 and >=0x80), 55, 56, 300.
func (b *corpusBuilder) byteCases() []bsCase {
	return []bsCase{
		{"nil", nil},
		{"empty", []byte{}},
		{"1x00", []byte{0x00}},
		{"1x7f", []byte{0x7f}},
		{"1x80", []byte{0x80}},
		{"1xff", []byte{0xff}},
		{"len55", b.bytes(55)},
		{"len56", b.bytes(56)},
		{"len300", b.bytes(300)},
	}
}

const nBytesCases = 9

func (b *corpusBuilder) bytesB(i int) []byte {
	return b.byteCases()[mod(i, nBytesCases)].v
}

func boundaryAddr(i int) cmn.Address {
	var a cmn.Address
	switch mod(i, 5) {
	case 0: // all zero
	case 1:
		a[0] = 0x01
	case 2:
		a[len(a)-1] = 0x01
	case 3:
		for j := range a {
			a[j] = 0xff
		}
	default:
		a[0] = 0x80
		a[len(a)-1] = 0x7f
	}
	return a
}

// ---------------------------------------------------------------------------
// crypto values

func (b *corpusBuilder) pubEd() crypto.PubKey {
	return crypto.GenPrivKeyEd25519FromSecret(b.bytes(32)).PubKey()
}

func (b *corpusBuilder) pubSecp() crypto.PubKey {
	return crypto.GenPrivKeySecp256k1FromSecret(b.bytes(32)).PubKey()
}

// pub cycles: ed25519, secp256k1, nil, raw random ed25519, raw random secp256k1.
func (b *corpusBuilder) pub(i int) crypto.PubKey {
	switch mod(i, 5) {
	case 0:
		return b.pubEd()
	case 1:
		return b.pubSecp()
	case 2:
		return nil
	case 3:
		var pk crypto.PubKeyEd25519
		copy(pk[:], b.bytes(len(pk)))
		return pk
	default:
		var pk crypto.PubKeySecp256k1
		copy(pk[:], b.bytes(len(pk)))
		pk[0] = 0x02
		return pk
	}
}

// pubNonNil never returns nil.
func (b *corpusBuilder) pubNonNil(i int) crypto.PubKey {
	if mod(i, 2) == 0 {
		return b.pubEd()
	}
	return b.pubSecp()
}

// sig cycles: ed25519, secp256k1, nil, empty secp256k1, zero ed25519, 1-byte secp256k1.
func (b *corpusBuilder) sig(i int) crypto.Signature {
	switch mod(i, 6) {
	case 0:
		var s crypto.SignatureEd25519
		copy(s[:], b.bytes(len(s)))
		return s
	case 1:
		return crypto.SignatureSecp256k1(b.bytes(70 + b.rng.Intn(3)))
	case 2:
		return nil
	case 3:
		return crypto.SignatureSecp256k1{}
	case 4:
		return crypto.SignatureEd25519{}
	default:
		return crypto.SignatureSecp256k1{0x7f}
	}
}

func (b *corpusBuilder) addCrypto() {
	for i := 0; i < 5; i++ {
		pk := b.pub(i)
		label := [...]string{"ed25519", "secp256k1", "nil", "ed25519-raw", "secp256k1-raw"}[i]
		b.add("crypto.PubKey/"+label, &pk)
	}
	for i := 0; i < 6; i++ {
		s := b.sig(i)
		label := [...]string{"ed25519", "secp256k1", "nil", "secp256k1-empty", "ed25519-zero", "secp256k1-1byte"}[i]
		b.add("crypto.Signature/"+label, &s)
	}
	var ed crypto.PubKeyEd25519
	copy(ed[:], b.bytes(len(ed)))
	b.add("crypto.PubKeyEd25519/concrete", &ed)
	var sp crypto.PubKeySecp256k1
	copy(sp[:], b.bytes(len(sp)))
	b.add("crypto.PubKeySecp256k1/concrete", &sp)
	var se crypto.SignatureEd25519
	copy(se[:], b.bytes(len(se)))
	b.add("crypto.SignatureEd25519/concrete", &se)
	ss := crypto.SignatureSecp256k1(b.bytes(71))
	b.add("crypto.SignatureSecp256k1/concrete", &ss)
	for _, c := range b.byteCases() {
		a := crypto.Address(c.v)
		b.add("crypto.Address/"+c.label, &a)
	}
}

// ---------------------------------------------------------------------------
// block-level building blocks

func (b *corpusBuilder) partSetHeader(i int) types.PartSetHeader {
	return types.PartSetHeader{Total: intB(i), Hash: cmn.HexBytes(b.bytesB(i + 6))}
}

func (b *corpusBuilder) blockID(i int) types.BlockID {
	if mod(i, 4) == 3 {
		return types.BlockID{}
	}
	return types.BlockID{Hash: b.hash(), PartsHeader: b.partSetHeader(i)}
}

func (b *corpusBuilder) vote(i int) *types.Vote {
	return &types.Vote{
		ValidatorAddress: crypto.Address(b.bytesB(i + 2)),
		ValidatorIndex:   intB(i),
		ValidatorSize:    intB(i + 3),
		Height:           u64B(i),
		Round:            intB(i + 5),
		Timestamp:        timeB(i),
		Type:             byteB(i),
		BlockID:          b.blockID(i),
		Signature:        b.sig(i),
	}
}

// realisticVote is what a validator would actually sign and gossip.
func (b *corpusBuilder) realisticVote(i int, typ byte) *types.Vote {
	pk := b.pubNonNil(i)
	return &types.Vote{
		ValidatorAddress: pk.Address(),
		ValidatorIndex:   i,
		ValidatorSize:    4,
		Height:           10,
		Round:            1,
		Timestamp:        time.Unix(1600000000+int64(i), int64(i)*1000).UTC(),
		Type:             typ,
		BlockID:          types.BlockID{Hash: b.hash(), PartsHeader: types.PartSetHeader{Total: 3, Hash: b.bytes(32)}},
		Signature:        b.sig(mod(i, 2)),
	}
}

func (b *corpusBuilder) addVotes() {
	b.add("types.Vote/zero", &types.Vote{})
	for i := 0; i < 12; i++ {
		b.add(fmt.Sprintf("types.Vote/bounds-%02d", i), b.vote(i))
	}
	for i, label := range []string{"sig-ed25519", "sig-secp256k1", "sig-nil", "sig-secp256k1-empty", "sig-ed25519-zero", "sig-secp256k1-1byte"} {
		v := b.realisticVote(i, types.VoteTypePrevote)
		v.Signature = b.sig(i)
		b.add("types.Vote/"+label, v)
	}
	for _, tc := range timeCases() {
		v := b.realisticVote(1, types.VoteTypePrecommit)
		v.Timestamp = tc.t
		b.add("types.Vote/time-"+tc.label, v)
	}
}

func (b *corpusBuilder) proposal(i int) *types.Proposal {
	return &types.Proposal{
		Type:             byteB(i + 1),
		Height:           u64B(i + 1),
		Round:            intB(i),
		Timestamp:        timeB(i + 2),
		BlockPartsHeader: b.partSetHeader(i + 1),
		POLRound:         intB(i + 2),
		POLBlockID:       b.blockID(i + 1),
		Signature:        b.sig(i + 1),
	}
}

func (b *corpusBuilder) addProposals() {
	b.add("types.Proposal/zero", &types.Proposal{})
	for i := 0; i < 12; i++ {
		b.add(fmt.Sprintf("types.Proposal/bounds-%02d", i), b.proposal(i))
	}
	b.add("types.Proposal/normal-no-pol", &types.Proposal{
		Type: types.ProposalTypeNormal, Height: 7, Round: 0, Timestamp: time.Unix(1600000000, 5).UTC(),
		BlockPartsHeader: types.PartSetHeader{Total: 1, Hash: b.bytes(32)}, POLRound: -1, Signature: b.sig(0),
	})
	b.add("types.Proposal/recover-with-pol", &types.Proposal{
		Type: types.ProposalTypeRecover, Height: 8, Round: 2, Timestamp: time.Unix(1600000001, 0).UTC(),
		BlockPartsHeader: types.PartSetHeader{Total: 2, Hash: b.bytes(32)}, POLRound: 1, POLBlockID: b.blockID(0), Signature: b.sig(1),
	})
}

func (b *corpusBuilder) heartbeat(i int) *types.Heartbeat {
	return &types.Heartbeat{
		ValidatorAddress: crypto.Address(b.bytesB(i + 3)),
		ValidatorIndex:   intB(i + 1),
		Height:           u64B(i + 2),
		Round:            intB(i + 3),
		Sequence:         intB(i + 4),
		Signature:        b.sig(i),
	}
}

func (b *corpusBuilder) addHeartbeats() {
	b.add("types.Heartbeat/zero", &types.Heartbeat{})
	for i := 0; i < 9; i++ {
		b.add(fmt.Sprintf("types.Heartbeat/bounds-%02d", i), b.heartbeat(i))
	}
}

func (b *corpusBuilder) commitWith(pattern string) *types.Commit {
	c := &types.Commit{BlockID: b.blockID(0)}
	c.Precommits = make([]*types.Vote, 0, len(pattern))
	for i, ch := range pattern {
		if ch == 'n' {
			c.Precommits = append(c.Precommits, nil)
			continue
		}
		v := b.realisticVote(i, types.VoteTypePrecommit)
		v.BlockID = c.BlockID
		c.Precommits = append(c.Precommits, v)
	}
	return c
}

func (b *corpusBuilder) addCommits() {
	b.add("types.Commit/zero", &types.Commit{})
	b.add("types.Commit/empty-precommits", &types.Commit{BlockID: b.blockID(1), Precommits: []*types.Vote{}})
	b.add("types.Commit/one-vote", b.commitWith("v"))
	b.add("types.Commit/four-votes", b.commitWith("vvvv"))
	b.add("types.Commit/some-nil-precommits", b.commitWith("vnvn"))
	b.add("types.Commit/first-nil", b.commitWith("nvvv"))
	b.add("types.Commit/all-nil-precommits", b.commitWith("nnnn"))
	c := &types.Commit{BlockID: b.blockID(2)}
	for i := 0; i < 12; i++ {
		c.Precommits = append(c.Precommits, b.vote(i))
	}
	b.add("types.Commit/boundary-votes", c)
}

func (b *corpusBuilder) addPartsAndIDs() {
	for i, c := range b.byteCases() {
		b.add("types.PartSetHeader/hash-"+c.label, &types.PartSetHeader{Total: intB(i), Hash: cmn.HexBytes(c.v)})
	}
	for i := 9; i < 12; i++ {
		h := b.partSetHeader(i)
		b.add(fmt.Sprintf("types.PartSetHeader/bounds-%02d", i), &h)
	}
	b.add("types.BlockID/zero", &types.BlockID{})
	for i := 0; i < 6; i++ {
		id := types.BlockID{Hash: b.hash(), PartsHeader: b.partSetHeader(i)}
		b.add(fmt.Sprintf("types.BlockID/bounds-%02d", i), &id)
	}
	b.add("types.BlockID/hash-only", &types.BlockID{Hash: b.hash()})

	// parts cut from real data by the real part-set code (merkle proofs populated)
	for _, n := range []int{1, 3, 5} {
		ps := types.NewPartSetFromData(b.bytes(n*64-7), 64)
		for i := 0; i < ps.Total(); i++ {
			b.add(fmt.Sprintf("types.Part/partset-%dof%d", i, n), ps.GetPart(i))
		}
	}
	b.add("types.Part/zero", &types.Part{})
	for i, c := range b.byteCases() {
		p := &types.Part{Index: intB(i), Bytes: cmn.HexBytes(c.v)}
		switch mod(i, 4) {
		case 0:
			p.Proof = merkle.SimpleProof{Aunts: nil}
		case 1:
			p.Proof = merkle.SimpleProof{Aunts: [][]byte{}}
		case 2:
			p.Proof = merkle.SimpleProof{Aunts: [][]byte{b.bytes(32), b.bytes(32), b.bytes(32)}}
		default:
			p.Proof = merkle.SimpleProof{Aunts: [][]byte{{}, {0x00}, {0x7f}, {0x80}, b.bytes(55), b.bytes(56), b.bytes(300)}}
		}
		b.add("types.Part/bytes-"+c.label, p)
	}
	sp := merkle.SimpleProof{Aunts: [][]byte{b.bytes(32), b.bytes(20)}}
	b.add("merkle.SimpleProof/two-aunts", &sp)
	b.add("merkle.SimpleProof/zero", &merkle.SimpleProof{})
}

// ---------------------------------------------------------------------------
// evidence

func (b *corpusBuilder) dupVoteEvidence(i int) *types.DuplicateVoteEvidence {
	pk := b.pubNonNil(i)
	va := b.realisticVote(i, types.VoteTypePrevote)
	vb := b.realisticVote(i, types.VoteTypePrevote)
	va.ValidatorAddress, vb.ValidatorAddress = pk.Address(), pk.Address()
	return &types.DuplicateVoteEvidence{PubKey: pk, VoteA: va, VoteB: vb}
}

func (b *corpusBuilder) faultEvidence(i int) *types.FaultValidatorsEvidence {
	return &types.FaultValidatorsEvidence{BlockHeight: u64B(i + 1), Round: intB(i), Proposer: b.pubNonNil(i), FaultVal: b.pubNonNil(i + 1)}
}

func (b *corpusBuilder) addEvidence() {
	b.add("types.DuplicateVoteEvidence/zero", &types.DuplicateVoteEvidence{})
	b.add("types.DuplicateVoteEvidence/ed25519", b.dupVoteEvidence(0))
	b.add("types.DuplicateVoteEvidence/secp256k1", b.dupVoteEvidence(1))
	b.add("types.DuplicateVoteEvidence/nil-votes", &types.DuplicateVoteEvidence{PubKey: b.pubEd()})
	b.add("types.DuplicateVoteEvidence/nil-pubkey", &types.DuplicateVoteEvidence{VoteA: b.vote(1), VoteB: b.vote(8)})
	b.add("types.DuplicateVoteEvidence/boundary-votes", &types.DuplicateVoteEvidence{PubKey: b.pubSecp(), VoteA: b.vote(9), VoteB: b.vote(10)})

	b.add("types.FaultValidatorsEvidence/zero", &types.FaultValidatorsEvidence{})
	for i := 0; i < 9; i++ {
		b.add(fmt.Sprintf("types.FaultValidatorsEvidence/bounds-%02d", i), b.faultEvidence(i))
	}
	b.add("types.FaultValidatorsEvidence/nil-faultval", &types.FaultValidatorsEvidence{BlockHeight: 5, Round: 1, Proposer: b.pubEd()})

	var ev types.Evidence = b.dupVoteEvidence(2)
	b.add("types.Evidence/DuplicateVoteEvidence", &ev)
	var ev2 types.Evidence = b.faultEvidence(3)
	b.add("types.Evidence/FaultValidatorsEvidence", &ev2)
	var ev3 types.Evidence = types.MockGoodEvidence{Height_: 128, Address_: b.bytes(20)}
	b.add("types.Evidence/MockGoodEvidence", &ev3)
	var ev4 types.Evidence = types.MockBadEvidence{MockGoodEvidence: types.MockGoodEvidence{Height_: math.MaxUint64, Address_: []byte{0x80}}}
	b.add("types.Evidence/MockBadEvidence", &ev4)
	var evNil types.Evidence
	b.add("types.Evidence/nil", &evNil)

	var elNil types.EvidenceList
	b.add("types.EvidenceList/nil", &elNil)
	elEmpty := types.EvidenceList{}
	b.add("types.EvidenceList/empty", &elEmpty)
	elBoth := types.EvidenceList{b.dupVoteEvidence(0), b.faultEvidence(1)}
	b.add("types.EvidenceList/both-kinds", &elBoth)
	elMany := types.EvidenceList{b.dupVoteEvidence(1), b.faultEvidence(2), types.MockGoodEvidence{Height_: 1, Address_: b.bytes(20)}, b.faultEvidence(8), b.dupVoteEvidence(4)}
	b.add("types.EvidenceList/five-mixed", &elMany)
	elNilElem := types.EvidenceList{b.faultEvidence(4), nil, b.dupVoteEvidence(5)}
	b.add("types.EvidenceList/with-nil-element", &elNilElem)

	var slNil []types.Evidence
	b.add("[]types.Evidence/nil", &slNil)
	slBoth := []types.Evidence{b.faultEvidence(5), b.dupVoteEvidence(6)}
	b.add("[]types.Evidence/both-kinds", &slBoth)

	b.add("types.EvidenceData/zero", &types.EvidenceData{})
	b.add("types.EvidenceData/both-kinds", &types.EvidenceData{Evidence: types.EvidenceList{b.dupVoteEvidence(7), b.faultEvidence(6)}})
}

// ---------------------------------------------------------------------------
// validators

func (b *corpusBuilder) validators(n int) []*types.Validator {
	out := make([]*types.Validator, n)
	for i := range out {
		out[i] = types.NewValidator(b.pubNonNil(i), b.addr(), int64(10*(i+1)))
	}
	return out
}

func (b *corpusBuilder) addValidators() {
	b.add("types.Validator/zero", &types.Validator{})
	b.add("types.Validator/new-ed25519", types.NewValidator(b.pubEd(), b.addr(), 10))
	b.add("types.Validator/new-secp256k1", types.NewValidator(b.pubSecp(), b.addr(), math.MaxInt64))
	for i := 0; i < 12; i++ {
		b.add(fmt.Sprintf("types.Validator/bounds-%02d", i), &types.Validator{
			Address:     crypto.Address(b.bytesB(i + 1)),
			PubKey:      b.pub(i),
			CoinBase:    boundaryAddr(i),
			VotingPower: i64B(i),
			Accum:       i64B(i + 7),
		})
	}
	b.add("types.ValidatorSet/zero", &types.ValidatorSet{})
	b.add("types.ValidatorSet/new-0", types.NewValidatorSet(nil))
	b.add("types.ValidatorSet/new-1", types.NewValidatorSet(b.validators(1)))
	b.add("types.ValidatorSet/new-4", types.NewValidatorSet(b.validators(4)))
	vs7 := types.NewValidatorSet(b.validators(7))
	vs7.IncrementAccum(3)
	b.add("types.ValidatorSet/new-7-rotated", vs7)
	big4 := b.validators(4)
	for i, v := range big4 {
		v.VotingPower = math.MaxInt64 / int64(i+1)
	}
	b.add("types.ValidatorSet/new-4-huge-power", types.NewValidatorSet(big4))
	lit := &types.ValidatorSet{}
	for i := 0; i < 12; i++ {
		lit.Validators = append(lit.Validators, &types.Validator{
			Address: crypto.Address(b.bytes(20)), PubKey: b.pubNonNil(i), CoinBase: boundaryAddr(i), VotingPower: i64B(i), Accum: i64B(i + 5),
		})
	}
	b.add("types.ValidatorSet/literal-bounds-nil-proposer", lit)
	b.add("types.ValidatorSet/literal-nil-element", &types.ValidatorSet{Validators: []*types.Validator{nil, types.NewValidator(b.pubEd(), b.addr(), 1)}, Proposer: types.NewValidator(b.pubSecp(), b.addr(), 2)})
	b.add("types.ValidatorSet/empty-slice", &types.ValidatorSet{Validators: []*types.Validator{}})

	b.add("types.Candidate/zero", &types.Candidate{})
	for i := 0; i < 5; i++ {
		b.add(fmt.Sprintf("types.CandidateState/bounds-%02d", i), &types.CandidateState{
			Candidate:    types.Candidate{Address: crypto.Address(b.bytesB(i + 6)), PubKey: b.pub(i), VotingPower: i64B(i + 8), CoinBase: boundaryAddr(i)},
			Score:        i64B(i + 2),
			PunishHeight: u64B(i + 4),
		})
	}
}

func (b *corpusBuilder) candidateInOrder(i int) *types.CandidateInOrder {
	return &types.CandidateInOrder{
		Candidate:   types.Candidate{Address: crypto.Address(b.bytesB(i + 6)), PubKey: b.pub(i), VotingPower: i64B(i), CoinBase: boundaryAddr(i)},
		ProduceInfo: intB(i + 1),
		Deposit:     i64B(i + 2),
		Score:       i64B(i + 3),
		Rand:        i64B(i + 4),
		Rank:        intB(i + 5),
	}
}

// ---------------------------------------------------------------------------
// transactions

type txCase struct {
	kind  string // concrete type name without package
	label string
	tx    types.Tx
}

// mirrors of the unexported wire layouts (same exported fields, same order, same tags)
type sigMirror struct {
	V *big.Int
	R *big.Int
	S *big.Int
}

type txdataMirror struct {
	AccountNonce uint64
	Price        *big.Int
	GasLimit     uint64
	Recipient    *cmn.Address `rlp:"nil"`
	Amount       *big.Int
	Payload      []byte
	V            *big.Int
	R            *big.Int
	S            *big.Int
}

type tokenDataMirror struct {
	TokenAddress cmn.Address
	AccountNonce uint64
	Price        *big.Int
	GasLimit     uint64
	Recipient    *cmn.Address `rlp:"nil"`
	Amount       *big.Int
	Payload      []byte
	Signdata     sigMirror
}

type cutMirror struct {
	Main       types.ContractUpgradeMainInfo
	Signatures []*sigMirror
}

// viaBytes builds a value the way the node obtains it from the network: by decoding bytes.
func (b *corpusBuilder) viaBytes(what string, mirror interface{}, target interface{}) bool {
	bz, err := ser.EncodeToBytes(mirror)
	if err != nil {
		b.fail("%s: encoding mirror: %v", what, err)
		return false
	}
	if err := ser.DecodeBytes(bz, target); err != nil {
		b.fail("%s: decoding mirror bytes %x: %v", what, bz, err)
		return false
	}
	return true
}

func (b *corpusBuilder) sig65(v byte) []byte {
	s := b.bytes(65)
	s[64] = v
	return s
}

func (b *corpusBuilder) transactionCases() []txCase {
	var out []txCase
	put := func(label string, tx *types.Transaction) {
		if tx != nil {
			out = append(out, txCase{"Transaction", label, tx})
		}
	}
	put("transfer-min", types.NewTransaction(0, cmn.Address{}, big.NewInt(0), 0, nil, nil))
	put("transfer-max", types.NewTransaction(math.MaxUint64, boundaryAddr(3), bigB(6), math.MaxUint64, nil, b.bytes(300)))
	put("transfer-nil-amount", types.NewTransaction(1, b.addr(), nil, 21000, nil, []byte{}))
	put("create", types.NewContractCreation(1, big.NewInt(128), 1<<32, nil, b.bytes(56)))
	put("create-empty-payload", types.NewContractCreation(127, bigB(4), 255, big.NewInt(1), nil))
	for i, c := range b.byteCases() {
		put("payload-"+c.label, types.NewTransaction(u64B(i), b.addr(), bigB(i), u64B(i+1)|1, nil, c.v))
	}
	base := types.NewTransaction(256, b.addr(), bigB(5), 100000, nil, b.bytes(55))
	for _, v := range []byte{0, 1} {
		ws, err := base.WithSignature(types.GlobalSTDSigner, b.sig65(v))
		if err != nil {
			b.fail("Transaction.WithSignature: %v", err)
			continue
		}
		put(fmt.Sprintf("with-signature-v%d", v), ws)
	}
	// really signed
	for tries := 0; tries < 8; tries++ {
		prv, err := crypto.ToECDSA(b.bytes(32))
		if err != nil {
			continue
		}
		stx := types.NewTransaction(7, b.addr(), big.NewInt(1e18), 0, nil, nil)
		if err := stx.Sign(types.GlobalSTDSigner, prv); err != nil {
			b.fail("Transaction.Sign: %v", err)
		} else {
			put("signed", stx)
		}
		break
	}
	// arbitrary field values, obtained the way a peer's tx is obtained
	for i := 0; i < 9; i++ {
		m := txdataMirror{
			AccountNonce: u64B(i), Price: bigB(i), GasLimit: u64B(i + 4), Amount: bigB(i + 2), Payload: b.bytesB(i + 3),
			V: bigB(i + 1), R: bigB(i + 5), S: bigB(i + 6),
		}
		if i%3 != 0 {
			a := boundaryAddr(i)
			m.Recipient = &a
		}
		tx := new(types.Transaction)
		if b.viaBytes("Transaction mirror", &m, tx) {
			put(fmt.Sprintf("decoded-bounds-%02d", i), tx)
		}
	}
	put("zero", new(types.Transaction))
	return out
}

func (b *corpusBuilder) tokenTxCases() []txCase {
	var out []txCase
	put := func(label string, tx *types.TokenTransaction) {
		out = append(out, txCase{"TokenTransaction", label, tx})
	}
	put("lkc-min", types.NewTokenTransaction(cmn.Address{}, 0, cmn.Address{}, big.NewInt(0), 0, nil, nil))
	put("token-max", types.NewTokenTransaction(boundaryAddr(3), math.MaxUint64, boundaryAddr(3), bigB(6), math.MaxUint64, nil, b.bytes(300)))
	for i, c := range b.byteCases() {
		put("payload-"+c.label, types.NewTokenTransaction(boundaryAddr(i), u64B(i), b.addr(), bigB(i), u64B(i+2)|1, nil, c.v))
	}
	for tries := 0; tries < 8; tries++ {
		prv, err := crypto.ToECDSA(b.bytes(32))
		if err != nil {
			continue
		}
		stx := types.NewTokenTransaction(b.addr(), 3, b.addr(), big.NewInt(12345), 0, nil, b.bytes(10))
		if err := stx.Sign(types.GlobalSTDSigner, prv); err != nil {
			b.fail("TokenTransaction.Sign: %v", err)
		} else {
			put("signed", stx)
		}
		break
	}
	for i := 0; i < 9; i++ {
		m := tokenDataMirror{
			TokenAddress: boundaryAddr(i + 1), AccountNonce: u64B(i + 1), Price: bigB(i + 3), GasLimit: u64B(i), Amount: bigB(i), Payload: b.bytesB(i),
			Signdata: sigMirror{V: bigB(i + 2), R: bigB(i + 4), S: bigB(i + 5)},
		}
		if i%3 != 1 {
			a := b.addr()
			m.Recipient = &a
		}
		tx := new(types.TokenTransaction)
		if b.viaBytes("TokenTransaction mirror", &m, tx) {
			put(fmt.Sprintf("decoded-bounds-%02d", i), tx)
		}
	}
	put("zero", new(types.TokenTransaction))
	return out
}

func (b *corpusBuilder) sigData(n, off int) [][]byte {
	out := make([][]byte, n)
	for i := range out {
		bz, err := ser.EncodeToBytes(&sigMirror{V: bigB(off + i), R: bigB(off + i + 4), S: bigB(off + i + 5)})
		if err != nil {
			b.fail("encoding signature mirror: %v", err)
		}
		out[i] = bz
	}
	return out
}

func (b *corpusBuilder) contractUpgradeCases() []txCase {
	var out []txCase
	put := func(label string, tx *types.ContractUpgradeTx) {
		if tx == nil {
			b.fail("ContractUpgradeTx %s: constructor returned nil", label)
			return
		}
		out = append(out, txCase{"ContractUpgradeTx", label, tx})
	}
	for i, c := range b.byteCases() {
		mi := &types.ContractUpgradeMainInfo{FromAddr: boundaryAddr(i), Recipient: boundaryAddr(i + 1), AccountNonce: u64B(i), Payload: c.v}
		put("payload-"+c.label, types.UpgradeContractTx(mi, b.sigData(mod(i, 4), i)))
	}
	put("literal-nil-signatures", &types.ContractUpgradeTx{ContractUpgradeMainInfo: types.ContractUpgradeMainInfo{FromAddr: b.addr(), Recipient: b.addr(), AccountNonce: 9, Payload: b.bytes(64)}})
	put("zero", &types.ContractUpgradeTx{})
	m := cutMirror{
		Main:       types.ContractUpgradeMainInfo{FromAddr: b.addr(), Recipient: b.addr(), AccountNonce: 1 << 32, Payload: b.bytes(33)},
		Signatures: []*sigMirror{{V: bigB(1), R: bigB(5), S: bigB(6)}, nil, {V: bigB(3), R: bigB(4), S: bigB(0)}},
	}
	tx := new(types.ContractUpgradeTx)
	if b.viaBytes("ContractUpgradeTx mirror", &m, tx) {
		put("decoded-with-nil-signature", tx)
	}
	return out
}

func (b *corpusBuilder) multiSignCases() []txCase {
	var out []txCase
	put := func(label string, tx *types.MultiSignAccountTx) {
		out = append(out, txCase{"MultiSignAccountTx", label, tx})
	}
	put("zero", &types.MultiSignAccountTx{})
	put("no-signers-no-signatures", types.NewMultiSignAccountTx(&types.MultiSignMainInfo{AccountNonce: 1, SupportTxType: types.TxUpdateValidatorsType}, nil))
	for i := 0; i < 9; i++ {
		mi := &types.MultiSignMainInfo{
			AccountNonce:  u64B(i),
			SupportTxType: types.SupportType(intB(i)),
			SignersInfo:   types.SignersInfo{MinSignerPower: i32B(i)},
		}
		for j := 0; j < mod(i, 4)+1; j++ {
			mi.Signers = append(mi.Signers, &types.SignerEntry{Power: i32B(i + j), Addr: boundaryAddr(i + j)})
		}
		var sigs []types.ValidatorSign
		for j := 0; j < mod(i, 3)+1; j++ {
			sigs = append(sigs, types.ValidatorSign{Addr: b.bytesB(i + j), Signature: b.bytesB(i + j + 4)})
		}
		put(fmt.Sprintf("bounds-%02d", i), types.NewMultiSignAccountTx(mi, sigs))
	}
	put("empty-slices", &types.MultiSignAccountTx{
		MultiSignMainInfo: types.MultiSignMainInfo{SignersInfo: types.SignersInfo{Signers: []*types.SignerEntry{}}},
		Signatures:        []types.ValidatorSign{},
	})
	put("nil-signer-entry", &types.MultiSignAccountTx{
		MultiSignMainInfo: types.MultiSignMainInfo{AccountNonce: 2, SignersInfo: types.SignersInfo{MinSignerPower: 20, Signers: []*types.SignerEntry{nil, {Power: 10, Addr: b.addr()}}}},
		Signatures:        []types.ValidatorSign{{Addr: b.bytes(20), Signature: b.bytes(71)}},
	})
	// realistic: signatures are ser-with-type encoded crypto.Signature values
	var real []types.ValidatorSign
	for i := 0; i < 4; i++ {
		pk := b.pubNonNil(i)
		sbz, err := ser.EncodeToBytesWithType(b.sig(mod(i, 2)))
		if err != nil {
			b.fail("encoding crypto.Signature with type: %v", err)
		}
		real = append(real, types.ValidatorSign{Addr: pk.Address(), Signature: sbz})
	}
	put("realistic-4-validators", types.NewMultiSignAccountTx(&types.MultiSignMainInfo{
		AccountNonce: 5, SupportTxType: types.TxUpdateValidatorsType,
		SignersInfo: types.SignersInfo{MinSignerPower: 20, Signers: []*types.SignerEntry{{Power: 10, Addr: b.addr()}, {Power: 10, Addr: b.addr()}, {Power: 10, Addr: b.addr()}}},
	}, real))
	return out
}

func (b *corpusBuilder) keyV(n int) lktypes.KeyV {
	out := make(lktypes.KeyV, n)
	for i := range out {
		out[i] = b.key()
	}
	return out
}

func (b *corpusBuilder) key64() (k lktypes.Key64) {
	for i := range k {
		k[i] = b.key()
	}
	return
}

func (b *corpusBuilder) rctSigFull() lktypes.RctSig {
	return lktypes.RctSig{
		RctSigBase: lktypes.RctSigBase{
			Type:       uint8(lktypes.RCTTypeBulletproof2),
			PseudoOuts: b.keyV(2),
			EcdhInfo:   []lktypes.EcdhTuple{{Mask: b.key(), Amount: b.key(), SenderPK: b.key()}, {Mask: b.key(), Amount: b.key()}},
			OutPk:      lktypes.CtkeyV{{Dest: b.key(), Mask: b.key()}, {Dest: b.key(), Mask: b.key()}},
			TxnFee:     lktypes.Lk_amount(math.MaxUint64),
		},
		P: lktypes.RctSigPrunable{
			RangeSigs: []lktypes.RangeSig{{Asig: lktypes.BoroSig{S0: b.key64(), S1: b.key64(), Ee: b.key()}, Ci: b.key64()}},
			Bulletproofs: []lktypes.Bulletproof{{
				A: b.key(), S: b.key(), T1: b.key(), T2: b.key(), Taux: b.key(), Mu: b.key(),
				L: b.keyV(6), R: b.keyV(6), Aa: b.key(), B: b.key(), T: b.key(),
			}},
			MGs:        []lktypes.MgSig{{Ss: lktypes.KeyM{b.keyV(2), b.keyV(2), {}}, Cc: b.key()}, {Ss: nil, Cc: b.key()}},
			PseudoOuts: b.keyV(3),
			Ss:         []lktypes.Signature{{C: lktypes.EcScalar(b.key()), R: lktypes.EcScalar(b.key())}},
		},
	}
}

func (b *corpusBuilder) utxoCases() []txCase {
	var out []txCase
	put := func(label string, tx *types.UTXOTransaction) {
		out = append(out, txCase{"UTXOTransaction", label, tx})
	}
	put("zero", &types.UTXOTransaction{})

	full := &types.UTXOTransaction{
		Inputs: []types.Input{
			&types.UTXOInput{KeyOffset: []uint64{0, 1, 127, 128, 255, 256, 1 << 32, math.MaxInt64, math.MaxUint64}, KeyImage: b.key()},
			&types.AccountInput{Nonce: math.MaxUint64, Amount: bigB(6), CF: b.key(), Commit: b.key()},
			&types.MineInput{Height: 1 << 32},
			&types.UTXOInput{KeyOffset: nil, KeyImage: lktypes.Key{}},
		},
		Outputs: []types.Output{
			&types.UTXOOutput{OTAddr: b.key(), Amount: bigB(4), Remark: [32]byte(b.key())},
			&types.AccountOutput{To: b.addr(), Amount: bigB(5), Data: b.bytes(300), Commit: b.key()},
			&types.AccountOutput{To: cmn.Address{}, Amount: big.NewInt(0), Data: nil},
		},
		TokenID: boundaryAddr(3),
		RKey:    lktypes.PublicKey(b.key()),
		AddKeys: []lktypes.PublicKey{lktypes.PublicKey(b.key()), lktypes.PublicKey(b.key())},
		Fee:     bigB(4),
		Extra:   b.bytes(56),
		RCTSig:  b.rctSigFull(),
	}
	full.Sigs.V, full.Sigs.R, full.Sigs.S = big.NewInt(28), bigB(5), bigB(6)
	put("full-all-input-output-kinds", full)

	for i, c := range b.byteCases() {
		tx := &types.UTXOTransaction{TokenID: boundaryAddr(i), Fee: bigB(i), Extra: c.v}
		switch mod(i, 3) {
		case 0: // account in -> utxo out
			tx.Inputs = []types.Input{&types.AccountInput{Nonce: u64B(i), Amount: bigB(i + 1), CF: b.key(), Commit: b.key()}}
			tx.Outputs = []types.Output{&types.UTXOOutput{OTAddr: b.key(), Amount: bigB(i + 2)}}
			tx.Sigs.V, tx.Sigs.R, tx.Sigs.S = bigB(i+1), bigB(i+2), bigB(i+3)
		case 1: // utxo in -> account out
			tx.Inputs = []types.Input{&types.UTXOInput{KeyOffset: []uint64{u64B(i), u64B(i + 1)}, KeyImage: b.key()}}
			tx.Outputs = []types.Output{&types.AccountOutput{To: b.addr(), Amount: bigB(i + 3), Data: b.bytesB(i + 1), Commit: b.key()}}
			tx.RKey = lktypes.PublicKey(b.key())
			tx.RCTSig.Type = uint8(lktypes.RCTTypeSimple)
			tx.RCTSig.TxnFee = lktypes.Lk_amount(u64B(i))
			tx.RCTSig.P.MGs = []lktypes.MgSig{{Ss: lktypes.KeyM{b.keyV(2)}, Cc: b.key()}}
		default: // mine in, empty slices
			tx.Inputs = []types.Input{&types.MineInput{Height: u64B(i)}}
			tx.Outputs = []types.Output{}
			tx.AddKeys = []lktypes.PublicKey{}
			tx.RCTSig.PseudoOuts = lktypes.KeyV{}
			tx.RCTSig.P.Bulletproofs = []lktypes.Bulletproof{}
		}
		put("extra-"+c.label, tx)
	}
	put("nil-iface-elements", &types.UTXOTransaction{
		Inputs:  []types.Input{nil, &types.MineInput{Height: 1}},
		Outputs: []types.Output{&types.UTXOOutput{OTAddr: b.key(), Amount: big.NewInt(1)}, nil},
		Fee:     big.NewInt(1),
	})
	return out
}

func (b *corpusBuilder) allTxCases() []txCase {
	var out []txCase
	out = append(out, b.transactionCases()...)
	out = append(out, b.tokenTxCases()...)
	out = append(out, b.contractUpgradeCases()...)
	out = append(out, b.multiSignCases()...)
	out = append(out, b.utxoCases()...)
	return out
}

// pickTxs returns the first case of every kind whose label has the given prefix.
func pickTxs(cases []txCase, want map[string]string) types.Txs {
	var out types.Txs
	for _, kind := range []string{"Transaction", "TokenTransaction", "ContractUpgradeTx", "MultiSignAccountTx", "UTXOTransaction"} {
		for _, c := range cases {
			if c.kind == kind && c.label == want[kind] {
				out = append(out, c.tx)
				break
			}
		}
	}
	return out
}

func (b *corpusBuilder) addTxs(cases []txCase) {
	for i, c := range cases {
		if i%2 == 0 || c.label == "zero" || c.label == oneOfEach[c.kind] {
			b.add("types."+c.kind+"/"+c.label, c.tx) // concrete pointer
		}
		v := c.tx
		b.add("types.Tx/"+c.kind+"/"+c.label, &v) // interface variable
	}
	var nilTx types.Tx
	b.add("types.Tx/nil", &nilTx)

	var txsNil types.Txs
	b.add("types.Txs/nil", &txsNil)
	txsEmpty := types.Txs{}
	b.add("types.Txs/empty", &txsEmpty)
	one := pickTxs(cases, oneOfEach)
	b.add("types.Txs/one-of-each-kind", &one)
	all := make(types.Txs, 0, len(cases))
	for _, c := range cases {
		all = append(all, c.tx)
	}
	b.add("types.Txs/all-cases", &all)
	withNil := types.Txs{one[0], nil, one[len(one)-1]}
	b.add("types.Txs/with-nil-element", &withNil)
	plain := []types.Tx(one)
	b.add("[]types.Tx/one-of-each-kind", &plain)

	// standalone inputs / outputs / sub-structures
	var in types.Input = &types.UTXOInput{KeyOffset: []uint64{1, 2, 3}, KeyImage: b.key()}
	b.add("types.Input/UTXOInput", &in)
	var in2 types.Input = &types.AccountInput{Nonce: 1, Amount: bigB(4), CF: b.key(), Commit: b.key()}
	b.add("types.Input/AccountInput", &in2)
	var in3 types.Input = &types.MineInput{Height: math.MaxUint64}
	b.add("types.Input/MineInput", &in3)
	var inNil types.Input
	b.add("types.Input/nil", &inNil)
	var o1 types.Output = &types.UTXOOutput{OTAddr: b.key(), Amount: bigB(5), Remark: [32]byte(b.key())}
	b.add("types.Output/UTXOOutput", &o1)
	var o2 types.Output = &types.AccountOutput{To: b.addr(), Amount: bigB(6), Data: b.bytes(55), Commit: b.key()}
	b.add("types.Output/AccountOutput", &o2)
	rs := b.rctSigFull()
	b.add("lktypes.RctSig/full", &rs)
	b.add("lktypes.RctSig/zero", &lktypes.RctSig{})
	b.add("types.UTXOOutputData/populated", &types.UTXOOutputData{OTAddr: b.key(), Height: math.MaxUint64, Commit: b.key(), TokenID: b.addr(), Remark: [32]byte(b.key())})
	b.add("types.SignersInfo/populated", &types.SignersInfo{MinSignerPower: math.MinInt32, Signers: []*types.SignerEntry{{Power: math.MaxInt32, Addr: b.addr()}, {Power: -1, Addr: cmn.Address{}}}})
	for i := 0; i < 5; i++ {
		b.add(fmt.Sprintf("types.TxEntry/bounds-%02d", i), &types.TxEntry{BlockHash: b.hash(), BlockHeight: u64B(i + 4), Index: u64B(i)})
	}
}

var oneOfEach = map[string]string{
	"Transaction":        "with-signature-v1",
	"TokenTransaction":   "signed",
	"ContractUpgradeTx":  "payload-len56",
	"MultiSignAccountTx": "realistic-4-validators",
	"UTXOTransaction":    "full-all-input-output-kinds",
}

// ---------------------------------------------------------------------------
// headers, blocks, block meta

func (b *corpusBuilder) header(i int) *types.Header {
	chain := [...]string{"", "c", "chain-test", string(b.bytes(55)), string(b.bytes(56)), "\x00", "\x7f", "\x80", string(b.bytes(300))}
	return &types.Header{
		ChainID:        chain[mod(i, len(chain))],
		Height:         u64B(i),
		Coinbase:       boundaryAddr(i),
		Time:           u64B(i + 1),
		NumTxs:         u64B(i + 2),
		TotalTxs:       u64B(i + 3),
		Recover:        u32B(i),
		ParentHash:     b.hash(),
		LastBlockID:    b.blockID(i),
		LastCommitHash: b.hash(),
		ValidatorsHash: b.hash(),
		ConsensusHash:  b.hash(),
		DataHash:       b.hash(),
		StateHash:      b.hash(),
		ReceiptHash:    b.hash(),
		GasLimit:       u64B(i + 4),
		GasUsed:        u64B(i + 5),
		EvidenceHash:   b.hash(),
	}
}

func (b *corpusBuilder) block(i int, txs types.Txs, ev types.EvidenceList, commit *types.Commit) *types.Block {
	h := b.header(i)
	h.NumTxs = uint64(len(txs))
	return &types.Block{
		Header:     h,
		Data:       &types.Data{Txs: txs},
		Evidence:   types.EvidenceData{Evidence: ev},
		LastCommit: commit,
	}
}

func (b *corpusBuilder) addBlocks(cases []txCase) {
	b.add("types.Header/zero", &types.Header{})
	for i := 0; i < 9; i++ {
		b.add(fmt.Sprintf("types.Header/bounds-%02d", i), b.header(i))
	}
	b.add("types.Data/zero", &types.Data{})
	b.add("types.Data/empty-txs", &types.Data{Txs: types.Txs{}})
	b.add("types.Data/one-of-each-kind", &types.Data{Txs: pickTxs(cases, oneOfEach)})

	one := pickTxs(cases, oneOfEach)
	all := make(types.Txs, 0, len(cases))
	for _, c := range cases {
		all = append(all, c.tx)
	}
	ev := types.EvidenceList{b.dupVoteEvidence(0), b.faultEvidence(1)}

	b.add("types.Block/zero", &types.Block{})
	b.add("types.Block/empty", b.block(1, nil, nil, &types.Commit{}))
	b.add("types.Block/empty-nonnil-slices", b.block(2, types.Txs{}, types.EvidenceList{}, &types.Commit{Precommits: []*types.Vote{}}))
	b.add("types.Block/one-tx-of-each-kind", b.block(3, one, nil, b.commitWith("vvvv")))
	b.add("types.Block/evidence-and-nil-precommits", b.block(4, one[:2], ev, b.commitWith("vnvn")))
	b.add("types.Block/all-tx-cases", b.block(5, all, ev, b.commitWith("nvvv")))
	b.add("types.Block/nil-lastcommit", b.block(6, one[:1], nil, nil))
	b.add("types.Block/nil-data", &types.Block{Header: b.header(7), LastCommit: b.commitWith("v")})
	b.add("types.Block/nil-header", &types.Block{Data: &types.Data{Txs: one[:1]}, LastCommit: b.commitWith("v")})
	for i := 0; i < 9; i++ {
		var txs types.Txs
		for j := 0; j < mod(i, 3); j++ {
			txs = append(txs, cases[mod(i*7+j*13, len(cases))].tx)
		}
		b.add(fmt.Sprintf("types.Block/header-bounds-%02d", i), b.block(i, txs, nil, b.commitWith("vn"[:mod(i, 3)])))
	}
	for _, kind := range []string{"Transaction", "TokenTransaction", "ContractUpgradeTx", "MultiSignAccountTx", "UTXOTransaction"} {
		var txs types.Txs
		for _, c := range cases {
			if c.kind == kind {
				txs = append(txs, c.tx)
			}
		}
		b.add("types.Block/only-"+kind, b.block(1, txs, nil, b.commitWith("vvv")))
	}

	b.add("types.BlockMeta/zero", &types.BlockMeta{})
	b.add("types.BlockMeta/nil-header", &types.BlockMeta{BlockID: b.blockID(0)})
	for i := 0; i < 5; i++ {
		b.add(fmt.Sprintf("types.BlockMeta/bounds-%02d", i), &types.BlockMeta{BlockID: b.blockID(i), Header: b.header(i + 2)})
	}
	blk := b.block(3, one, ev, b.commitWith("vvnv"))
	bz, err := ser.EncodeToBytes(blk)
	if err != nil {
		b.fail("encoding block for part set: %v", err)
	} else {
		ps := types.NewPartSetFromData(bz, 1024)
		b.add("types.BlockMeta/from-real-partset", &types.BlockMeta{BlockID: types.BlockID{Hash: b.hash(), PartsHeader: ps.Header()}, Header: blk.Header})
		b.add("types.Part/real-block-first", ps.GetPart(0))
		b.add("types.Part/real-block-last", ps.GetPart(ps.Total()-1))
		hdr := ps.Header()
		b.add("types.PartSetHeader/from-real-partset", &hdr)
	}
	b.add("types.SignedHeader/populated", &types.SignedHeader{Header: b.header(4), Commit: b.commitWith("vnv")})
	b.add("types.SignedHeader/zero", &types.SignedHeader{})
}

// ---------------------------------------------------------------------------
// receipts, logs, accounts, status, tx results

func (b *corpusBuilder) logEntry(i int, derived bool) *types.Log {
	l := &types.Log{Address: boundaryAddr(i), Data: b.bytesB(i)}
	switch mod(i, 4) {
	case 0:
		l.Topics = nil
	case 1:
		l.Topics = []cmn.Hash{}
	case 2:
		l.Topics = []cmn.Hash{b.hash()}
	default:
		l.Topics = []cmn.Hash{b.hash(), {}, b.hash(), b.hash()}
	}
	if derived {
		l.BlockNumber = u64B(i + 1)
		l.TxHash = b.hash()
		l.TxIndex = uintB(i + 2)
		l.BlockHash = b.hash()
		l.Index = uintB(i + 3)
		l.BlockTime = u64B(i + 4)
	}
	return l
}

func (b *corpusBuilder) receipt(i, nlogs int) *types.Receipt {
	vmerr := [...]string{"", "out of gas", string(b.bytes(56)), "\x01", "\x80"}
	r := &types.Receipt{
		PostState:         b.bytesB(i + 1),
		Status:            u64B(i),
		VMErr:             vmerr[mod(i, len(vmerr))],
		CumulativeGasUsed: u64B(i + 2),
		TxHash:            b.hash(),
		ContractAddress:   boundaryAddr(i),
		GasUsed:           u64B(i + 3),
	}
	if i%2 == 1 {
		r.Bloom = b.bloom()
	}
	if nlogs >= 0 {
		r.Logs = make([]*types.Log, nlogs)
		for j := range r.Logs {
			r.Logs[j] = b.logEntry(i+j, false)
		}
	}
	return r
}

func (b *corpusBuilder) addReceipts() {
	b.add("types.Log/zero", &types.Log{})
	for i := 0; i < 9; i++ {
		b.add(fmt.Sprintf("types.Log/consensus-fields-%02d", i), b.logEntry(i, false))
	}
	b.add("types.LogForStorage/zero", &types.LogForStorage{})
	for i := 0; i < 9; i++ {
		b.add(fmt.Sprintf("types.LogForStorage/all-fields-%02d", i), (*types.LogForStorage)(b.logEntry(i, true)))
	}

	b.add("types.Receipt/zero", &types.Receipt{})
	b.add("types.Receipt/new-success", types.NewReceipt(b.bytes(32), nil, 21000))
	b.add("types.Receipt/new-failed", types.NewReceipt(nil, fmt.Errorf("execution reverted"), math.MaxUint64))
	for i := 0; i < 9; i++ {
		b.add(fmt.Sprintf("types.Receipt/bounds-%02d", i), b.receipt(i, mod(i, 4)-1))
	}
	// NOTE: a nil *types.Log element is deliberately absent: (*Log).EncodeSER dereferences its
	// receiver, so encoding []*Log{nil} panics; the node never builds such a receipt.

	b.add("types.ReceiptForStorage/zero", &types.ReceiptForStorage{})
	for i := 0; i < 9; i++ {
		r := b.receipt(i, mod(i, 4)-1)
		for j := range r.Logs {
			r.Logs[j] = b.logEntry(i+j, true)
		}
		b.add(fmt.Sprintf("types.ReceiptForStorage/bounds-%02d", i), r.ForStorage())
	}

	var rsNil types.Receipts
	b.add("types.Receipts/nil", &rsNil)
	rsEmpty := types.Receipts{}
	b.add("types.Receipts/empty", &rsEmpty)
	rs1 := types.Receipts{b.receipt(1, 2)}
	b.add("types.Receipts/one", &rs1)
	rs3 := types.Receipts{b.receipt(2, 0), b.receipt(3, 3), b.receipt(8, -1)}
	b.add("types.Receipts/three", &rs3)
	rsNilElem := types.Receipts{b.receipt(4, 1), nil}
	b.add("types.Receipts/with-nil-element", &rsNilElem)
	stor := []*types.ReceiptForStorage{b.receipt(5, 2).ForStorage(), b.receipt(6, 0).ForStorage()}
	b.add("[]*types.ReceiptForStorage/two", &stor)
}

func (b *corpusBuilder) addAccounts() {
	emptyCode := crypto.Keccak256(nil)
	b.add("state.Account/zero", &state.Account{})
	b.add("state.Account/tokens-nil", &state.Account{Nonce: 1, Credits: 127, Balance: bigB(4), Root: b.hash(), CodeHash: emptyCode})
	b.add("state.Account/tokens-empty", &state.Account{Nonce: 128, Credits: 255, Balance: bigB(0), Tokens: map[cmn.Address]*big.Int{}, Root: b.hash(), CodeHash: emptyCode})
	b.add("state.Account/tokens-1", &state.Account{Nonce: 256, Credits: 1 << 32, Balance: bigB(5), Tokens: map[cmn.Address]*big.Int{b.addr(): bigB(6)}, Root: b.hash(), CodeHash: b.bytes(32)})
	five := map[cmn.Address]*big.Int{}
	for i, k := range [][2]byte{{0x01, 0x00}, {0x02, 0x00}, {0x00, 0x01}, {0x00, 0x02}, {0xff, 0xff}} {
		var a cmn.Address
		a[0], a[len(a)-1] = k[0], k[1]
		if k[0] == 0xff {
			a = boundaryAddr(3)
		}
		five[a] = bigB(i + 2)
	}
	b.add("state.Account/tokens-5-first-last-byte-keys", &state.Account{Nonce: math.MaxInt64, Credits: math.MaxUint64, Balance: bigB(6), Tokens: five, Root: b.hash(), CodeHash: emptyCode})
	b.add("state.Account/tokens-zero-key-zero-value", &state.Account{Balance: big.NewInt(0), Tokens: map[cmn.Address]*big.Int{{}: big.NewInt(0)}, CodeHash: []byte{}})
	many := map[cmn.Address]*big.Int{}
	for i := 0; i < 40; i++ {
		many[b.addr()] = bigB(i)
	}
	b.add("state.Account/tokens-40-random", &state.Account{Nonce: 9, Balance: bigB(1), Tokens: many, Root: b.hash(), CodeHash: b.bytes(32)})
	for i, c := range b.byteCases() {
		b.add("state.Account/codehash-"+c.label, &state.Account{Nonce: u64B(i), Credits: u64B(i + 3), Balance: bigB(i), Tokens: map[cmn.Address]*big.Int{boundaryAddr(i): bigB(i + 1)}, Root: b.hash(), CodeHash: c.v})
	}
	b.add("state.Account/nil-balance", &state.Account{Nonce: 3, Tokens: map[cmn.Address]*big.Int{}, CodeHash: emptyCode})
}

func (b *corpusBuilder) consensusParams(i int) types.ConsensusParams {
	return types.ConsensusParams{
		BlockSize:      types.BlockSize{MaxBytes: intB(i), MaxTxs: intB(i + 1), MaxGas: u64B(i)},
		TxSize:         types.TxSize{MaxBytes: intB(i + 2), MaxGas: u64B(i + 1)},
		BlockGossip:    types.BlockGossip{BlockPartSizeBytes: intB(i + 3)},
		EvidenceParams: types.EvidenceParams{MaxAge: u64B(i + 2)},
	}
}

func (b *corpusBuilder) addStatus() {
	b.add("consensus.NewStatus/zero", &consensus.NewStatus{})
	v1 := types.NewValidatorSet(b.validators(1))
	b.add("consensus.NewStatus/genesis-1-validator", &consensus.NewStatus{
		ChainID: "chain-test", Validators: v1, LastValidators: types.NewValidatorSet(nil), LastHeightValidatorsChanged: 1,
		ConsensusParams: *types.DefaultConsensusParams(), LastHeightConsensusParamsChanged: 1,
	})
	v4 := types.NewValidatorSet(b.validators(4))
	l4 := v4.Copy()
	v4.IncrementAccum(1)
	b.add("consensus.NewStatus/running-4-validators", &consensus.NewStatus{
		ChainID: "chain-test", LastBlockHeight: 1 << 32, LastBlockTotalTx: math.MaxInt64, LastBlockID: b.blockID(0), LastBlockTime: 1600000000,
		Validators: v4, LastValidators: l4, LastHeightValidatorsChanged: 256, LastRecover: true,
		ConsensusParams: *types.DefaultConsensusParams(), LastHeightConsensusParamsChanged: 128,
	})
	for i := 0; i < 9; i++ {
		st := &consensus.NewStatus{
			ChainID: string(b.bytesB(i)), LastBlockHeight: u64B(i), LastBlockTotalTx: u64B(i + 1), LastBlockID: b.blockID(i), LastBlockTime: u64B(i + 2),
			LastHeightValidatorsChanged: u64B(i + 3), LastRecover: i%2 == 0,
			ConsensusParams: b.consensusParams(i), LastHeightConsensusParamsChanged: u64B(i + 4),
		}
		if i%3 != 0 {
			st.Validators = types.NewValidatorSet(b.validators(mod(i, 4) + 1))
		}
		if i%3 == 2 {
			st.LastValidators = types.NewValidatorSet(b.validators(2))
		}
		b.add(fmt.Sprintf("consensus.NewStatus/bounds-%02d", i), st)
	}
	for i := 0; i < 12; i++ {
		cp := b.consensusParams(i)
		b.add(fmt.Sprintf("types.ConsensusParams/bounds-%02d", i), &cp)
	}

	b.add("types.TxsResult/zero", &types.TxsResult{})
	b.add("types.TxsResult/empty-candidates", &types.TxsResult{GasUsed: 1, TrieRoot: b.hash(), StateHash: b.hash(), ReceiptHash: b.hash(), Candidates: []*types.CandidateInOrder{}})
	for i := 0; i < 9; i++ {
		tr := &types.TxsResult{GasUsed: u64B(i), TrieRoot: b.hash(), StateHash: b.hash(), ReceiptHash: b.hash()}
		if i%2 == 0 {
			tr.LogsBloom = b.bloom()
		}
		for j := 0; j < mod(i, 5); j++ {
			tr.Candidates = append(tr.Candidates, b.candidateInOrder(i+j))
		}
		b.add(fmt.Sprintf("types.TxsResult/bounds-%02d", i), tr)
	}
	b.add("types.TxsResult/nil-candidate-element", &types.TxsResult{GasUsed: 5, Candidates: []*types.CandidateInOrder{b.candidateInOrder(0), nil, b.candidateInOrder(1)}})
	for i := 0; i < 12; i++ {
		b.add(fmt.Sprintf("types.CandidateInOrder/bounds-%02d", i), b.candidateInOrder(i))
	}
}

// ---------------------------------------------------------------------------
// bit arrays

type baCase struct {
	label string
	ba    *cmn.BitArray
}

func (b *corpusBuilder) bitArray(bits int, fill string) *cmn.BitArray {
	ba := cmn.NewBitArray(bits)
	for i := 0; i < bits; i++ {
		switch fill {
		case "all":
			ba.SetIndex(i, true)
		case "rand":
			ba.SetIndex(i, b.rng.Intn(2) == 1)
		case "last":
			ba.SetIndex(i, i == bits-1)
		}
	}
	return ba
}

func (b *corpusBuilder) bitArrayCases() []baCase {
	return []baCase{
		{"nil", nil},
		{"1-unset", b.bitArray(1, "none")},
		{"1-set", b.bitArray(1, "all")},
		{"64-all", b.bitArray(64, "all")},
		{"64-rand", b.bitArray(64, "rand")},
		{"65-last", b.bitArray(65, "last")},
		{"65-all", b.bitArray(65, "all")},
		{"200-rand", b.bitArray(200, "rand")},
		{"zero-value", &cmn.BitArray{}},
	}
}

func (b *corpusBuilder) addBitArrays() {
	for _, c := range b.bitArrayCases() {
		if c.ba == nil {
			continue
		}
		b.add("cmn.BitArray/"+c.label, c.ba)
	}
}

// ---------------------------------------------------------------------------
// consensus reactor messages and WAL

func (b *corpusBuilder) realPart() *types.Part {
	ps := types.NewPartSetFromData(b.bytes(700), 256)
	return ps.GetPart(1)
}

// consensusMsgs returns pointer-typed messages exactly as the reactor builds them.
func (b *corpusBuilder) consensusMsgs() []struct {
	label string
	msg   consensus.ConsensusMessage
} {
	type cm = struct {
		label string
		msg   consensus.ConsensusMessage
	}
	var out []cm
	put := func(label string, m consensus.ConsensusMessage) { out = append(out, cm{label, m}) }

	put("NewRoundStepMessage/zero", &consensus.NewRoundStepMessage{})
	for i := 0; i < 12; i++ {
		put(fmt.Sprintf("NewRoundStepMessage/bounds-%02d", i), &consensus.NewRoundStepMessage{
			Height: u64B(i), Round: intB(i), Step: cstypes.RoundStepType(byteB(i + 1)), SecondsSinceStartTime: intB(i + 2), LastCommitRound: intB(i + 4),
		})
	}
	put("NewRoundStepMessage/typical", &consensus.NewRoundStepMessage{Height: 10, Round: 0, Step: cstypes.RoundStepPropose, SecondsSinceStartTime: 3, LastCommitRound: -1})

	for i, c := range b.bitArrayCases() {
		put("CommitStepMessage/bits-"+c.label, &consensus.CommitStepMessage{Height: u64B(i), BlockPartsHeader: b.partSetHeader(i), BlockParts: c.ba})
		put("ProposalPOLMessage/bits-"+c.label, &consensus.ProposalPOLMessage{Height: u64B(i + 1), ProposalPOLRound: intB(i), ProposalPOL: c.ba})
		put("VoteSetBitsMessage/bits-"+c.label, &consensus.VoteSetBitsMessage{Height: u64B(i + 2), Round: intB(i + 1), Type: byteB(i), BlockID: b.blockID(i), Votes: c.ba})
	}

	put("ProposalMessage/nil-proposal", &consensus.ProposalMessage{})
	for i := 0; i < 6; i++ {
		put(fmt.Sprintf("ProposalMessage/bounds-%02d", i), &consensus.ProposalMessage{Proposal: b.proposal(i)})
	}

	put("BlockPartMessage/nil-part", &consensus.BlockPartMessage{Height: 1, Round: 0})
	put("BlockPartMessage/real-part", &consensus.BlockPartMessage{Height: 10, Round: 1, Part: b.realPart()})
	for i, c := range b.byteCases() {
		put("BlockPartMessage/bytes-"+c.label, &consensus.BlockPartMessage{Height: u64B(i), Round: intB(i), Part: &types.Part{
			Index: intB(i + 1), Bytes: cmn.HexBytes(c.v), Proof: merkle.SimpleProof{Aunts: [][]byte{b.bytes(32), b.bytesB(i + 1)}},
		}})
	}

	put("VoteMessage/nil-vote", &consensus.VoteMessage{})
	for i := 0; i < 12; i++ {
		put(fmt.Sprintf("VoteMessage/bounds-%02d", i), &consensus.VoteMessage{Vote: b.vote(i)})
	}
	put("VoteMessage/realistic-prevote", &consensus.VoteMessage{Vote: b.realisticVote(0, types.VoteTypePrevote)})
	put("VoteMessage/realistic-precommit", &consensus.VoteMessage{Vote: b.realisticVote(1, types.VoteTypePrecommit)})

	for i := 0; i < 12; i++ {
		put(fmt.Sprintf("HasVoteMessage/bounds-%02d", i), &consensus.HasVoteMessage{Height: u64B(i), Round: intB(i), Type: byteB(i), Index: intB(i + 6)})
	}
	for i := 0; i < 9; i++ {
		put(fmt.Sprintf("VoteSetMaj23Message/bounds-%02d", i), &consensus.VoteSetMaj23Message{Height: u64B(i), Round: intB(i + 2), Type: byteB(i + 1), BlockID: b.blockID(i)})
	}

	put("ProposalHeartbeatMessage/nil-heartbeat", &consensus.ProposalHeartbeatMessage{})
	for i := 0; i < 6; i++ {
		put(fmt.Sprintf("ProposalHeartbeatMessage/bounds-%02d", i), &consensus.ProposalHeartbeatMessage{Heartbeat: b.heartbeat(i)})
	}
	return out
}

func (b *corpusBuilder) addConsensus() {
	msgs := b.consensusMsgs()
	for i, c := range msgs {
		if i%2 == 0 {
			b.add("consensus."+c.label, c.msg) // concrete pointer
		}
		m := c.msg
		b.add("consensus.ConsensusMessage/"+c.label, &m) // interface variable
	}
	var nilMsg consensus.ConsensusMessage
	b.add("consensus.ConsensusMessage/nil", &nilMsg)

	// WAL
	wi := 0
	wal := func(label string, payload consensus.WALMessage) {
		t := timeB(wi)
		wi++
		b.add("consensus.TimedWALMessage/"+label, &consensus.TimedWALMessage{Time: t, Msg: payload})
		if wi%3 == 0 {
			p := payload
			b.add("consensus.WALMessage/"+label, &p)
		}
	}
	peers := [...]string{"", "peer-1", string(b.bytes(20)), "\x00", "\x80", string(b.bytes(56))}
	for i, c := range msgs {
		// every 4th message keeps the WAL part of the corpus at a reasonable size
		if i%4 != 0 {
			continue
		}
		wal("MsgInfo/"+c.label, consensus.VerifWALMsgInfo(c.msg, peers[mod(i, len(peers))]))
	}
	wal("MsgInfo/nil-msg", consensus.VerifWALMsgInfo(nil, "peer-x"))
	for i := 0; i < 12; i++ {
		wal(fmt.Sprintf("TimeoutInfo/bounds-%02d", i), consensus.VerifWALTimeout(consensus.VerifTimeout{
			Duration: time.Duration(i64B(i)), Height: u64B(i), Round: intB(i + 1), Step: cstypes.RoundStepType(byteB(i)),
		}))
	}
	wal("TimeoutInfo/typical", consensus.VerifWALTimeout(consensus.VerifTimeout{Duration: 3 * time.Second, Height: 10, Round: 0, Step: cstypes.RoundStepPropose}))
	for i := 0; i < 9; i++ {
		wal(fmt.Sprintf("EndHeightMessage/bounds-%02d", i), consensus.EndHeightMessage{Height: u64B(i)})
	}
	steps := [...]string{"", "RoundStepNewHeight", "RoundStepPropose", string(b.bytes(56)), "\x7f"}
	for i := 0; i < 9; i++ {
		wal(fmt.Sprintf("EventDataRoundState/bounds-%02d", i), types.EventDataRoundState{Height: u64B(i), Round: intB(i), Step: steps[mod(i, len(steps))]})
	}
	for _, tc := range timeCases() {
		b.add("consensus.TimedWALMessage/time-"+tc.label, &consensus.TimedWALMessage{Time: tc.t, Msg: consensus.EndHeightMessage{Height: 1}})
	}
	b.add("consensus.TimedWALMessage/zero", &consensus.TimedWALMessage{})
	b.add("consensus.EndHeightMessage/concrete", &consensus.EndHeightMessage{Height: 1 << 32})
	b.add("types.EventDataRoundState/concrete", &types.EventDataRoundState{Height: 256, Round: -1, Step: "RoundStepCommit"})
	for _, tc := range timeCases() {
		t := tc.t
		b.add("time.Time/"+tc.label, &t)
	}
}

// ---------------------------------------------------------------------------
// mempool / evidence / blockchain / p2p

func (b *corpusBuilder) addMempool(cases []txCase) {
	for i, c := range cases {
		if i%5 != 0 && c.label != "zero" && c.label != oneOfEach[c.kind] {
			continue
		}
		var m mempool.MempoolMessage = mempool.TxMessage{Tx: c.tx}
		b.add("mempool.MempoolMessage/TxMessage/"+c.kind+"/"+c.label, &m)
	}
	for _, tx := range pickTxs(cases, oneOfEach) {
		b.add("mempool.TxMessage/"+tx.TypeName(), &mempool.TxMessage{Tx: tx})
	}
	var nilTxMsg mempool.MempoolMessage = mempool.TxMessage{}
	b.add("mempool.MempoolMessage/TxMessage/nil-tx", &nilTxMsg)
	b.add("mempool.TxMessage/nil-tx", &mempool.TxMessage{})

	hashes := func(n int) []cmn.Hash {
		out := make([]cmn.Hash, n)
		for i := range out {
			out[i] = b.hash()
		}
		return out
	}
	hm := []struct {
		label string
		m     mempool.TxHashMessage
	}{
		{"zero", mempool.TxHashMessage{}},
		{"notify-1", mempool.TxHashMessage{Hashs: hashes(1), Kind: mempool.TxHashNotify}},
		{"request-1", mempool.TxHashMessage{Hashs: hashes(1), Kind: mempool.TxHashRequest}},
		{"notify-empty", mempool.TxHashMessage{Hashs: []cmn.Hash{}, Kind: mempool.TxHashNotify}},
		{"notify-100", mempool.TxHashMessage{Hashs: hashes(100), Kind: mempool.TxHashNotify}},
		{"zero-hash-kind-min", mempool.TxHashMessage{Hashs: []cmn.Hash{{}}, Kind: mempool.TxHashMessageKind(math.MinInt64)}},
		{"kind-max", mempool.TxHashMessage{Hashs: hashes(2), Kind: mempool.TxHashMessageKind(math.MaxInt64)}},
		{"kind-neg1", mempool.TxHashMessage{Hashs: hashes(2), Kind: -1}},
	}
	for _, c := range hm {
		v := c.m
		b.add("mempool.TxHashMessage/"+c.label, &v)
		var m mempool.MempoolMessage = c.m
		b.add("mempool.MempoolMessage/TxHashMessage/"+c.label, &m)
	}
	var nilMsg mempool.MempoolMessage
	b.add("mempool.MempoolMessage/nil", &nilMsg)
}

func (b *corpusBuilder) addEvidenceReactor() {
	cases := []struct {
		label string
		m     *evidence.EvidenceListMessage
	}{
		{"zero", &evidence.EvidenceListMessage{}},
		{"empty", &evidence.EvidenceListMessage{Evidence: []types.Evidence{}}},
		{"one-duplicate-vote", &evidence.EvidenceListMessage{Evidence: []types.Evidence{b.dupVoteEvidence(0)}}},
		{"one-fault-validator", &evidence.EvidenceListMessage{Evidence: []types.Evidence{b.faultEvidence(1)}}},
		{"both-kinds", &evidence.EvidenceListMessage{Evidence: []types.Evidence{b.dupVoteEvidence(1), b.faultEvidence(2), b.dupVoteEvidence(2), b.faultEvidence(8)}}},
		{"mock-evidence", &evidence.EvidenceListMessage{Evidence: []types.Evidence{types.MockGoodEvidence{Height_: 3, Address_: b.bytes(20)}}}},
	}
	for _, c := range cases {
		b.add("evidence.EvidenceListMessage/"+c.label, c.m)
		var m evidence.EvidenceMessage = c.m
		b.add("evidence.EvidenceMessage/EvidenceListMessage/"+c.label, &m)
	}
	var nilMsg evidence.EvidenceMessage
	b.add("evidence.EvidenceMessage/nil", &nilMsg)
}

// bcMsg obtains an (unexported) blockchain reactor message by decoding hand-built bytes.
func (b *corpusBuilder) bcMsg(name, regName, wantType string, body interface{}) {
	db, pb := ser.NameToDisfix(regName)
	payload, err := ser.EncodeToBytes(body)
	if err != nil {
		b.fail("%s: encoding body: %v", name, err)
		return
	}
	bz := append(append(append([]byte{}, db[:]...), pb[:]...), payload...)
	var m blockchain.BlockchainMessage
	if err := ser.DecodeBytesWithType(bz, &m); err != nil {
		b.fail("%s: decoding hand-built bytes %x...: %v", name, bz[:minInt(len(bz), 48)], err)
		return
	}
	if got := fmt.Sprintf("%T", m); got != wantType {
		b.fail("%s: decoded to %s, want %s", name, got, wantType)
		return
	}
	// decodeCDCInterface drops the concrete decoder's error; make sure nothing was lost.
	back, err := ser.EncodeToBytesWithType(&m)
	if err != nil || !bytes.Equal(back, bz) {
		b.fail("%s: hand-built bytes did not survive decode (err=%v): built %x... got %x...", name, err, bz[:minInt(len(bz), 48)], back[:minInt(len(back), 48)])
		return
	}
	b.add(name, &m)
}

func minInt(a, c int) int {
	if a < c {
		return a
	}
	return c
}

func (b *corpusBuilder) addBlockchain(cases []txCase) {
	type heightBody struct{ Height uint64 }
	type blockBody struct{ Block *types.Block }
	for i := 0; i < 9; i++ {
		h := heightBody{Height: u64B(i)}
		b.bcMsg(fmt.Sprintf("blockchain.BlockchainMessage/bcBlockRequestMessage/bounds-%02d", i), "blockchain/BlockRequest", "*blockchain.bcBlockRequestMessage", h)
	}
	for _, i := range []int{0, 3, 8} {
		h := heightBody{Height: u64B(i)}
		b.bcMsg(fmt.Sprintf("blockchain.BlockchainMessage/bcNoBlockResponseMessage/bounds-%02d", i), "blockchain/NoBlockResponse", "*blockchain.bcNoBlockResponseMessage", h)
		b.bcMsg(fmt.Sprintf("blockchain.BlockchainMessage/bcStatusResponseMessage/bounds-%02d", i), "blockchainl/StatusResponse", "*blockchain.bcStatusResponseMessage", h)
		b.bcMsg(fmt.Sprintf("blockchain.BlockchainMessage/bcStatusRequestMessage/bounds-%02d", i), "blockchain/StatusRequest", "*blockchain.bcStatusRequestMessage", h)
	}
	one := pickTxs(cases, oneOfEach)
	ev := types.EvidenceList{b.dupVoteEvidence(3), b.faultEvidence(4)}
	b.bcMsg("blockchain.BlockchainMessage/bcBlockResponseMessage/empty-block", "blockchain/BlockResponse", "*blockchain.bcBlockResponseMessage",
		blockBody{Block: b.block(1, nil, nil, &types.Commit{})})
	b.bcMsg("blockchain.BlockchainMessage/bcBlockResponseMessage/one-tx-of-each-kind", "blockchain/BlockResponse", "*blockchain.bcBlockResponseMessage",
		blockBody{Block: b.block(3, one, ev, b.commitWith("vnvv"))})
	b.bcMsg("blockchain.BlockchainMessage/bcBlockResponseMessage/nil-block", "blockchain/BlockResponse", "*blockchain.bcBlockResponseMessage",
		blockBody{})
	var nilMsg blockchain.BlockchainMessage
	b.add("blockchain.BlockchainMessage/nil", &nilMsg)
}

func (b *corpusBuilder) addP2P() {
	var ping conn.Packet = conn.PacketPing{}
	b.add("conn.Packet/PacketPing", &ping)
	var pong conn.Packet = conn.PacketPong{}
	b.add("conn.Packet/PacketPong", &pong)
	b.add("conn.PacketPing/concrete", &conn.PacketPing{})
	b.add("conn.PacketPong/concrete", &conn.PacketPong{})
	for i, c := range b.byteCases() {
		pm := conn.PacketMsg{ChannelID: byteB(i), EOF: byteB(i + 1), Bytes: c.v}
		var p conn.Packet = pm
		b.add("conn.Packet/PacketMsg/bytes-"+c.label, &p)
		b.add("conn.PacketMsg/bytes-"+c.label, &pm)
	}
	large := conn.PacketMsg{ChannelID: 0x20, EOF: 1, Bytes: b.bytes(1024)}
	var p conn.Packet = large
	b.add("conn.Packet/PacketMsg/bytes-len1024", &p)
	var nilP conn.Packet
	b.add("conn.Packet/nil", &nilP)
}

// ---------------------------------------------------------------------------

// buildCorpus returns the corpus; for a given rng seed the result is always the same.
//
// Every reactor package (consensus, mempool, evidence, blockchain, libs/p2p/conn) and
// types / libs/crypto register their interfaces and concrete types in init(), so no
// Register* call is needed here.
func buildCorpus(rng *rand.Rand) (out []namedVal, err error) {
	b := &corpusBuilder{rng: rng, seen: map[string]bool{}}
	defer func() {
		if r := recover(); r != nil {
			out, err = nil, fmt.Errorf("buildCorpus: panic after %d items: %v", len(b.items), r)
		}
	}()
	b.addCrypto()
	b.addVotes()
	b.addProposals()
	b.addHeartbeats()
	b.addCommits()
	b.addPartsAndIDs()
	b.addEvidence()
	b.addValidators()
	txs := b.allTxCases()
	b.addTxs(txs)
	b.addBlocks(txs)
	b.addReceipts()
	b.addAccounts()
	b.addStatus()
	b.addBitArrays()
	b.addConsensus()
	b.addMempool(txs)
	b.addEvidenceReactor()
	b.addBlockchain(txs)
	b.addP2P()
	if b.err != nil {
		return nil, b.err
	}
	return b.items, nil
}
