package c11

// Level (i), sizes mode: the inputs of spec/Codec's "sizes" mode -- one header of every form whose size
// field runs over the boundary lattice of the arithmetic a decoder does on it, followed by 0, 1, size-1,
// size, size+1 bytes, alone or as an element of a trie node -- go through ALL slice-based entry points
// of libs/ser/raw.go (Split, SplitList, SplitString, CountValues, CountValues of the content) and through
// their storage-side caller trie.decodeNode (trie.VerifyProof with the bytes as the proof node), in child
// processes, every call under a watchdog: the call returns what the specification says, it does not
// panic, and it returns at all (CountValues' loop ends after at most one iteration per input byte in the
// specification: a call that is still running after the watchdog period has left that bound by orders
// of magnitude). The Stream decoder (DecodeBytes into interface{} and RawValue) sees the same inputs in
// the parent (checkDecode).

import (
	"bufio"
	"bytes"
	"encoding/json"
	"fmt"
	"io/ioutil"
	"os"
	"runtime"
	"strings"
	"sync"
	"sync/atomic"
	"time"

	"github.com/lianxiangcloud/linkchain/libs/common"
	"github.com/lianxiangcloud/linkchain/libs/crypto"
	"github.com/lianxiangcloud/linkchain/libs/ser"
	"github.com/lianxiangcloud/linkchain/libs/trie"

	"verifh/core"
)

type nodeRes struct {
	Ok bool   `json:"ok"`
	C  string `json:"c"`
}

type szLabel struct {
	Op     string    `json:"op"`
	Form   string    `json:"form"`
	K      int       `json:"k"`
	Sb     []int     `json:"sb"`
	Rest   int       `json:"rest"`
	Fill   int       `json:"fill"`
	Ctx    string    `json:"ctx"`
	S      []int     `json:"s"`
	Split  *splitRes `json:"split"`
	Count  *countRes `json:"count"`
	Steps  int       `json:"steps"`
	CCount *countRes `json:"ccount"`
	Node   *nodeRes  `json:"node"`
	R      verdict   `json:"r"`
	St     verdict   `json:"st"`
	RR     verdict   `json:"rr"`
}

func (l *szLabel) complete() bool {
	return l.Split != nil && l.Count != nil && l.CCount != nil && l.Node != nil
}

func (l *szLabel) describe() string {
	return fmt.Sprintf("%s header, %d size bytes, size field %x, %d following bytes (%02x), context %s", l.Form, l.K, intsToBytes(l.Sb), l.Rest, l.Fill, l.Ctx)
}

// ---- watchdog ---------------------------------------------------------------------------------------

type watchRes struct {
	err   error
	panic string // recovered panic value ("" = none)
	where string // innermost frame of the code under test on the panicking / spinning stack
	hung  bool
}

// szGuardedCall runs f on its own goroutine (the name is looked for in stack dumps).
func szGuardedCall(f func() error, ch chan<- watchRes) {
	defer func() {
		if r := recover(); r != nil {
			ch <- watchRes{panic: fmt.Sprint(r), where: repoFrame(string(stackOf(false)))}
		}
	}()
	ch <- watchRes{err: f()}
}

func stackOf(all bool) []byte {
	buf := make([]byte, 1<<16)
	for {
		n := runtime.Stack(buf, all)
		if n < len(buf) {
			return buf[:n]
		}
		buf = make([]byte, 2*len(buf))
	}
}

// repoFrame: the first frame of github.com/lianxiangcloud/linkchain in a goroutine's stack, as "pkg.Func".
func repoFrame(stack string) string {
	for _, line := range strings.Split(stack, "\n") {
		if i := strings.Index(line, "lianxiangcloud/linkchain/"); i >= 0 && !strings.HasPrefix(line, "\t") {
			fn := line[i+len("lianxiangcloud/linkchain/"):]
			if j := strings.LastIndex(fn, "("); j > 0 {
				fn = fn[:j]
			}
			if j := strings.LastIndex(fn, "/"); j >= 0 {
				fn = fn[j+1:]
			}
			return fn
		}
	}
	return ""
}

// watched runs f under a watchdog: a call that has not returned after wd (and after a second period of
// wd/2, so that a descheduled process is not mistaken for a loop) is reported as hung; its goroutine
// keeps spinning, the caller must not use that entry point again.
func watched(wd time.Duration, f func() error) watchRes {
	ch := make(chan watchRes, 1)
	go szGuardedCall(f, ch)
	t := time.NewTimer(wd)
	defer t.Stop()
	select {
	case r := <-ch:
		return r
	case <-t.C:
	}
	select {
	case r := <-ch:
		return r
	case <-time.After(wd / 2):
	}
	// which function is it in? the goroutine that runs szGuardedCall
	where := ""
	for _, g := range strings.Split(string(stackOf(true)), "\n\n") {
		if strings.Contains(g, "szGuardedCall") && !strings.Contains(g, "c11.watched(") {
			where = repoFrame(g)
			break
		}
	}
	return watchRes{hung: true, where: where}
}

// ---- the checks ---------------------------------------------------------------------------------------

type szProofDB map[string][]byte

func (db szProofDB) Load(key []byte) ([]byte, error) { return db[string(key)], nil }
func (db szProofDB) Exist(key []byte) (bool, error)  { _, ok := db[string(key)]; return ok, nil }

type szStats struct {
	Records     int              `json:"records"`
	Calls       int              `json:"calls"`
	Accepted    int              `json:"accepted"`   // inputs Split accepts
	Nodes       int              `json:"nodes"`      // inputs trie.decodeNode accepts
	ByCtx       map[string]int   `json:"by_ctx"`     //
	Skipped     map[string]int   `json:"skipped"`    // calls not made because the entry point hung before
	NodeDrift   int              `json:"node_drift"` // trie.decodeNode accepts/rejects differently from the model (not claimed by the property)
	NodeDriftX  []string         `json:"node_drift_examples"`
	ClassDrift  map[string]int   `json:"class_drift"`
	TriePanics  int              `json:"trie_panics"` // panics inside libs/trie's own code (after the raw decoders returned)
	TriePanicAt string           `json:"trie_panic_at"`
	Violations  []core.Violation `json:"violations"`
}

type szChecker struct {
	wd    time.Duration
	st    szStats
	hung  map[string]bool
	seenV map[string]bool
}

func newSzChecker(wd time.Duration) *szChecker {
	return &szChecker{wd: wd, hung: map[string]bool{}, seenV: map[string]bool{}, st: szStats{ByCtx: map[string]int{}, Skipped: map[string]int{}, ClassDrift: map[string]int{}}}
}

func (k *szChecker) violate(key, desc string, rec map[string]interface{}) {
	if k.seenV[key] {
		return
	}
	k.seenV[key] = true
	k.st.Violations = append(k.st.Violations, core.Violation{Key: key, Desc: desc, Record: rec})
}

// call runs one entry point under the watchdog; ok = it returned normally (res.err is its error).
func (k *szChecker) call(entry string, in []byte, rec map[string]interface{}, f func() error) (res watchRes, ok bool) {
	if k.hung[entry] {
		k.st.Skipped[entry]++
		return res, false
	}
	k.st.Calls++
	res = watched(k.wd, f)
	with := func(extra map[string]interface{}) map[string]interface{} {
		m := map[string]interface{}{"entry": entry}
		for a, b := range rec {
			m[a] = b
		}
		for a, b := range extra {
			m[a] = b
		}
		return m
	}
	switch {
	case res.hung:
		k.hung[entry] = true
		k.violate("hang/"+entry, fmt.Sprintf("%s(%x) did not return within %v (the specification's loop ends after at most %d iterations): an endless loop instead of a value or an error", entry, in, k.wd+k.wd/2, len(in)),
			with(map[string]interface{}{"watchdog": (k.wd + k.wd/2).String(), "spinning_in": res.where}))
		return res, false
	case res.panic != "" && entry == "trie.VerifyProof" && strings.HasPrefix(res.where, "trie."):
		// the raw decoders returned and libs/trie's own code failed on what they returned: trie nodes are not among
		// the types the property names and libs/trie is not its code -- recorded as an observation, not a verdict
		k.st.TriePanics++
		if k.st.TriePanicAt == "" {
			k.st.TriePanicAt = fmt.Sprintf("trie.VerifyProof with proof node %x: %s in %s", in, res.panic, res.where)
		}
		return res, false
	case res.panic != "":
		where := res.where
		if where == "" {
			where = entry
		}
		k.violate("panic/"+where, fmt.Sprintf("%s(%x) panicked instead of returning an error: %s", entry, in, res.panic), with(map[string]interface{}{"panic": res.panic, "panic_in": res.where}))
		return res, false
	}
	return res, true
}

func (k *szChecker) check(l *szLabel) {
	b := intsToBytes(l.S)
	k.st.Records++
	k.st.ByCtx[l.Ctx]++
	rec := map[string]interface{}{"input_hex": fmt.Sprintf("%x", b), "origin": "sizes: " + l.describe(), "sizes_label": l,
		"model_split": l.Split, "model_count": l.Count, "model_content_count": l.CCount, "model_node": l.Node}
	// Split
	var kind ser.Kind
	var content, rest []byte
	if res, ok := k.call("ser.Split", b, rec, func() (err error) { kind, content, rest, err = ser.Split(b); return }); ok {
		err := res.err
		switch {
		case (err == nil) != l.Split.Ok:
			k.violate("grammar/split/accept", fmt.Sprintf("Split(%x): err=%v, the specification says ok=%v (%s) [%s]", b, err, l.Split.Ok, l.Split.C, l.describe()), rec)
		case err == nil:
			k.st.Accepted++
			if kindName(kind) != l.Split.Kind || !bytes.Equal(content, intsToBytes(l.Split.Content)) || !bytes.Equal(rest, intsToBytes(l.Split.Rest)) {
				k.violate("grammar/split/value", fmt.Sprintf("Split(%x) = (%s, %x, %x), the specification says (%s, %s, %s)", b, kindName(kind), content, rest, l.Split.Kind, hexOf(l.Split.Content), hexOf(l.Split.Rest)), rec)
			}
		default:
			if got := classify(err); got != l.Split.C {
				k.st.ClassDrift["split: model "+l.Split.C+" / code "+got]++
			}
		}
	}
	// SplitList / SplitString: Split plus a kind test
	wantList := l.Split.Ok && l.Split.Kind == "list"
	wantStr := l.Split.Ok && l.Split.Kind != "list"
	var lc, lr []byte
	if res, ok := k.call("ser.SplitList", b, rec, func() (err error) { lc, lr, err = ser.SplitList(b); return }); ok {
		if (res.err == nil) != wantList {
			k.violate("grammar/split/kind", fmt.Sprintf("SplitList(%x): err=%v, the specification says ok=%v", b, res.err, wantList), rec)
		} else if res.err == nil && (!bytes.Equal(lc, intsToBytes(l.Split.Content)) || !bytes.Equal(lr, intsToBytes(l.Split.Rest))) {
			k.violate("grammar/split/value", fmt.Sprintf("SplitList(%x) = (%x, %x), the specification says (%s, %s)", b, lc, lr, hexOf(l.Split.Content), hexOf(l.Split.Rest)), rec)
		}
	}
	var sc, sr []byte
	if res, ok := k.call("ser.SplitString", b, rec, func() (err error) { sc, sr, err = ser.SplitString(b); return }); ok {
		if (res.err == nil) != wantStr {
			k.violate("grammar/split/kind", fmt.Sprintf("SplitString(%x): err=%v, the specification says ok=%v", b, res.err, wantStr), rec)
		} else if res.err == nil && (!bytes.Equal(sc, intsToBytes(l.Split.Content)) || !bytes.Equal(sr, intsToBytes(l.Split.Rest))) {
			k.violate("grammar/split/value", fmt.Sprintf("SplitString(%x) = (%x, %x), the specification says (%s, %s)", b, sc, sr, hexOf(l.Split.Content), hexOf(l.Split.Rest)), rec)
		}
	}
	// CountValues on the input and, the way trie.decodeNode does it, on the content of the item
	var n int
	if res, ok := k.call("ser.CountValues", b, rec, func() (err error) { n, err = ser.CountValues(b); return }); ok {
		if (res.err == nil) != l.Count.Ok || (res.err == nil && n != l.Count.N) {
			k.violate("grammar/count", fmt.Sprintf("CountValues(%x) = %d, %v; the specification says %d ok=%v (%s)", b, n, res.err, l.Count.N, l.Count.Ok, l.Count.C), rec)
		}
	}
	if l.Split.Ok {
		ct := intsToBytes(l.Split.Content)
		if res, ok := k.call("ser.CountValues", ct, rec, func() (err error) { n, err = ser.CountValues(ct); return }); ok {
			if (res.err == nil) != l.CCount.Ok || (res.err == nil && n != l.CCount.N) {
				k.violate("grammar/count", fmt.Sprintf("CountValues(%x) (content of %x) = %d, %v; the specification says %d ok=%v (%s)", ct, b, n, res.err, l.CCount.N, l.CCount.Ok, l.CCount.C), rec)
			}
		}
	}
	// the storage-side caller: the bytes as a trie node in a Merkle proof
	if len(b) > 0 {
		root := crypto.Keccak256Hash(b)
		db := szProofDB{string(root[:]): b}
		if res, ok := k.call("trie.VerifyProof", b, rec, func() (err error) { _, _, err = trie.VerifyProof(common.Hash(root), []byte("k"), db); return }); ok {
			decoded := !(res.err != nil && strings.Contains(res.err.Error(), "bad proof node 0"))
			if decoded {
				k.st.Nodes++
			}
			if decoded != l.Node.Ok {
				// whether a node is well formed is the trie's business, not part of the property: observation
				k.st.NodeDrift++
				if len(k.st.NodeDriftX) < 4 {
					k.st.NodeDriftX = append(k.st.NodeDriftX, fmt.Sprintf("%x: code err=%v, model ok=%v (%s)", b, res.err, l.Node.Ok, l.Node.C))
				}
			}
		}
	}
}

// ---- child job ----------------------------------------------------------------------------------------

type sizesJob struct {
	Kind   string `json:"kind"` // "rawsizes"
	File   string `json:"file"`
	Shard  int    `json:"shard"`
	Shards int    `json:"shards"`
}

func szWatchdog(c *core.Ctx) time.Duration {
	if c.Thorough() {
		return 20 * time.Second
	}
	return 8 * time.Second
}

func sizesChild(c *core.Ctx, j sizesJob) {
	w := bufio.NewWriter(os.Stdout)
	defer w.Flush()
	f, err := os.Open(j.File)
	if err != nil {
		fmt.Fprintln(os.Stderr, err)
		os.Exit(3)
	}
	defer f.Close()
	sc := bufio.NewScanner(f)
	sc.Buffer(make([]byte, 1<<20), 256<<20)
	k := newSzChecker(szWatchdog(c))
	n := 0
	for sc.Scan() {
		n++
		if n%j.Shards != j.Shard {
			continue
		}
		var l szLabel
		if json.Unmarshal(sc.Bytes(), &l) != nil || l.Op != "sz" || !l.complete() {
			fmt.Fprintln(os.Stderr, "bad sizes record at line", n)
			os.Exit(3)
		}
		if n%256 == 0 {
			fmt.Fprintf(w, "AT %s\n", hexShort(intsToBytes(l.S)))
			w.Flush()
		}
		k.check(&l)
	}
	out, _ := json.Marshal(k.st)
	fmt.Fprintf(w, "RESULT %s\nDONE\n", out)
}

// ---- parent -------------------------------------------------------------------------------------------

type sizesSink struct {
	mu    sync.Mutex
	f     *os.File
	bw    *bufio.Writer
	n     int
	keep  []*szLabel // a few accepted inputs kept for the negative control
	steps int
}

func newSizesSink(c *core.Ctx) *sizesSink {
	f, err := ioutil.TempFile("", "vc11sizes")
	if err != nil {
		c.Infra("tempfile: %v", err)
		return nil
	}
	return &sizesSink{f: f, bw: bufio.NewWriterSize(f, 1<<20)}
}

func (s *sizesSink) close() {
	if s != nil && s.f != nil {
		s.f.Close()
		os.Remove(s.f.Name())
	}
}

// onLine handles one label of a sizes run: the Stream decoders in the parent, the raw entry points later in children.
func (s *sizesSink) onLine(c *core.Ctx, gs *grammarStats, line string) {
	if strings.Contains(line[:minInt(len(line), 40)], `"szstep"`) {
		s.mu.Lock()
		s.steps++
		s.mu.Unlock()
		return
	}
	var l szLabel
	if err := json.Unmarshal([]byte(line), &l); err != nil || l.Op != "sz" || !l.complete() {
		c.Infra("unparsable sizes label: %v: %.120s", err, line)
		return
	}
	s.mu.Lock()
	s.bw.WriteString(line)
	s.bw.WriteByte('\n')
	s.n++
	if l.Split.Ok && len(l.S) >= 3 && len(s.keep) < 3 {
		s.keep = append(s.keep, &l)
	}
	s.mu.Unlock()
	what := "sizes: " + l.describe()
	checkDecode(c, gs, targets["any"], l.S, l.R, l.St, what, len(l.S) < 64 && needsAllocProbe(intsToBytes(l.S)))
	checkDecode(c, gs, targets["raw"], l.S, l.RR, l.RR, what, false)
}

// run ships the collected labels to child processes and folds their results into the evidence.
func (s *sizesSink) run(c *core.Ctx, gs *grammarStats) {
	s.mu.Lock()
	s.bw.Flush()
	s.f.Close()
	n := s.n
	s.mu.Unlock()
	if n == 0 {
		c.Infra("the sizes model exported nothing")
		return
	}
	shards := c.Pick(4, 8)
	var wg sync.WaitGroup
	var mu sync.Mutex
	total := szStats{ByCtx: map[string]int{}, Skipped: map[string]int{}, ClassDrift: map[string]int{}}
	for sh := 0; sh < shards; sh++ {
		wg.Add(1)
		go func(sh int) {
			defer wg.Done()
			arg, _ := json.Marshal(sizesJob{Kind: "rawsizes", File: s.f.Name(), Shard: sh, Shards: shards})
			results, at, crash := c.RunChild(string(arg), c.MinutesT(3, 15))
			for _, rj := range results {
				var st szStats
				if json.Unmarshal([]byte(rj), &st) != nil {
					c.Infra("sizes job %d: bad result", sh)
					continue
				}
				mu.Lock()
				total.Records += st.Records
				total.Calls += st.Calls
				total.Accepted += st.Accepted
				total.Nodes += st.Nodes
				total.NodeDrift += st.NodeDrift
				total.TriePanics += st.TriePanics
				if total.TriePanicAt == "" {
					total.TriePanicAt = st.TriePanicAt
				}
				if len(total.NodeDriftX) < 4 {
					total.NodeDriftX = append(total.NodeDriftX, st.NodeDriftX...)
				}
				for a, b := range st.ByCtx {
					total.ByCtx[a] += b
				}
				for a, b := range st.Skipped {
					total.Skipped[a] += b
				}
				for a, b := range st.ClassDrift {
					total.ClassDrift[a] += b
				}
				mu.Unlock()
				for _, v := range st.Violations {
					c.Violate(v.Key, v.Desc, v.Record)
				}
			}
			if crash == "TIMEOUT" {
				c.Infra("sizes job %d timed out at %s", sh, at)
			} else if crash != "" {
				// every call runs under recover: a dead process is a fatal error (stack overflow, out of memory) of the code under test
				reportCrash(c, sh, "size-field-input/"+at+" | raw entry points", crash)
			}
		}(sh)
	}
	wg.Wait()
	if total.Records != n && len(c.Out().Violations) == 0 {
		c.Infra("sizes: %d of %d records were replayed", total.Records, n)
	}
	gs.mu.Lock()
	gs.calls += total.Calls
	gs.szRecords += total.Records
	gs.mu.Unlock()
	if total.NodeDrift > 0 {
		c.Drift("observation: trie.decodeNode accepts / rejects %d size-field inputs differently from the model of libs/trie/node.go, e.g. %v", total.NodeDrift, total.NodeDriftX)
	}
	if total.TriePanics > 0 {
		c.Drift("observation (libs/trie, outside this property's code): %d size-field inputs make trie.VerifyProof panic inside libs/trie after the raw decoders returned, e.g. %s", total.TriePanics, total.TriePanicAt)
	}
	for k, v := range total.ClassDrift {
		gs.mu.Lock()
		gs.classDrift[k] += v
		gs.mu.Unlock()
	}
	c.SetExtra("size_field_level", map[string]interface{}{
		"inputs_replayed":            total.Records,
		"calls_under_watchdog":       total.Calls,
		"watchdog":                   (szWatchdog(c) + szWatchdog(c)/2).String(),
		"inputs_by_context":          total.ByCtx,
		"accepted_by_split":          total.Accepted,
		"accepted_as_trie_node":      total.Nodes,
		"calls_skipped_after_a_hang": total.Skipped,
		"panics_inside_libs_trie":    total.TriePanics,
		"panic_inside_libs_trie_at":  total.TriePanicAt,
		"entry_points":               []string{"ser.Split", "ser.SplitList", "ser.SplitString", "ser.CountValues (input)", "ser.CountValues (content)", "trie.VerifyProof (proof node = input)", "ser.DecodeBytes / DecodeReader into interface{} and RawValue (parent)"},
	})
	if len(s.keep) > 0 {
		c.Sample(map[string]interface{}{"kind": "size-field", "input_hex": hexOf(s.keep[len(s.keep)-1].S), "what": s.keep[len(s.keep)-1].describe()})
	}
}

// negative controls of the sizes binding: a flipped verdict must be noticed, and the watchdog must notice a loop.
func (s *sizesSink) negativeControls(c *core.Ctx) (caught int) {
	if len(s.keep) == 0 {
		c.Infra("negative controls: no accepted size-field input kept")
		return
	}
	{
		l := *s.keep[0]
		sp := *l.Split
		sp.Ok, sp.C = false, "value_too_large"
		l.Split = &sp
		k := newSzChecker(5 * time.Second)
		k.check(&l)
		if len(k.st.Violations) == 0 {
			c.Infra("vacuous binding: a flipped Split verdict for %s was not noticed", hexOf(l.S))
		} else {
			caught++
		}
	}
	{
		l := *s.keep[len(s.keep)-1]
		cn := *l.Count
		cn.N++
		l.Count = &cn
		k := newSzChecker(5 * time.Second)
		k.check(&l)
		if len(k.st.Violations) == 0 {
			c.Infra("vacuous binding: a corrupted CountValues expectation for %s was not noticed", hexOf(l.S))
		} else {
			caught++
		}
	}
	{
		// a loop that makes no progress (stopped afterwards through the flag) must be reported as hung, a panic as a panic
		var stop int32
		k := newSzChecker(100 * time.Millisecond)
		k.call("control.loop", []byte{1}, nil, func() error {
			for atomic.LoadInt32(&stop) == 0 {
			}
			return nil
		})
		atomic.StoreInt32(&stop, 1)
		k.call("control.panic", []byte{1}, nil, func() error { var x []byte; _ = x[len(x)+1:]; return nil })
		keys := map[string]bool{}
		for _, v := range k.st.Violations {
			keys[strings.SplitN(v.Key, "/", 2)[0]] = true
		}
		if !keys["hang"] || !keys["panic"] {
			c.Infra("vacuous binding: the watchdog did not report an endless loop / a panic (%v)", keys)
		} else {
			caught++
		}
	}
	return
}
