package c11

// Levels (ii) and (iii): the registered consensus / storage / wire types.
//   (ii)  every corpus value: encode -> decode -> equal -> re-encode -> same bytes, plain and with
//         type prefix, through DecodeBytes, DecodeBytesWithType and DecodeReader;
//   (iii) every corpus encoding pushed through the specification's mutation classes, seeded noise,
//         encodings of other types and random bytes into every decoder entry point: the call returns
//         a value or an error (no panic), allocation stays within 64 x input + 1 MiB, and a value that
//         comes out of a decoder survives its own round trip.
// Runs in child processes (a fatal error of the code under test must be attributed, not kill the check).

import (
	"bufio"
	"bytes"
	"encoding/binary"
	"encoding/hex"
	"encoding/json"
	"fmt"
	"hash/crc32"
	"math/rand"
	"os"
	"reflect"
	"sort"
	"strings"

	"github.com/lianxiangcloud/linkchain/consensus"
	"github.com/lianxiangcloud/linkchain/libs/ser"
	"github.com/lianxiangcloud/linkchain/types"

	"verifh/core"
)

type typedJob struct {
	Kind   string `json:"kind"` // "typed"
	Shard  int    `json:"shard"`
	Shards int    `json:"shards"`
	After  string `json:"after"` // resume after this corpus item (the process died while handling it)
	// replay of one recorded case
	Item     string `json:"item,omitempty"`
	Entry    string `json:"entry,omitempty"`
	Class    string `json:"class,omitempty"`
	InputHex string `json:"input_hex,omitempty"`
}

type typedResult struct {
	Items        int              `json:"items"`
	Types        []string         `json:"types"`
	RoundTrips   int              `json:"round_trips"`
	Inputs       int              `json:"inputs"`
	Calls        int              `json:"calls"`
	Accepted     int              `json:"accepted"`
	NonCanonical int              `json:"non_canonical"` // accepted inputs that do not re-encode to themselves (lenient decoder paths; statistic)
	Revalidated  int              `json:"revalidated"`   // decoder-produced values pushed through their own round trip
	ByClass      map[string]int   `json:"by_class"`
	MaxAlloc     uint64           `json:"max_alloc"`
	MaxAllocAt   string           `json:"max_alloc_at"`
	MaxRatio     float64          `json:"max_ratio"`
	Violations   []core.Violation `json:"violations"`
	Drift        []string         `json:"drift"`
	Crashes      int              `json:"crashes"`
	Blind        []string         `json:"blind"` // comparator saw no difference between a value and the zero value although the encodings differ
	Sample       interface{}      `json:"sample"`
}

type typedRun struct {
	c              *core.Ctx
	res            *typedResult
	rng            *rand.Rand
	seenV          map[string]bool
	seenD          map[string]bool
	known          map[string][]byte // registered name -> disfix
	w              *bufio.Writer
	blind, sighted map[string]bool
}

func (r *typedRun) violate(key, desc string, record interface{}) {
	if r.seenV[key] {
		return
	}
	r.seenV[key] = true
	r.res.Violations = append(r.res.Violations, core.Violation{Key: key, Desc: desc, Record: record})
}

func (r *typedRun) drift(key, text string) {
	if r.seenD[key] || len(r.res.Drift) >= 12 {
		return
	}
	r.seenD[key] = true
	r.res.Drift = append(r.res.Drift, text)
}

func (r *typedRun) at(item, phase string) {
	fmt.Fprintf(r.w, "AT %s | %s\n", item, phase)
	r.w.Flush()
}

func typeKey(ptr interface{}) string { return reflect.TypeOf(ptr).Elem().String() }

func hexTrunc(b []byte) string {
	if len(b) > 16384 {
		return fmt.Sprintf("%x...(%d bytes)", b[:16384], len(b))
	}
	return fmt.Sprintf("%x", b)
}

func hexShort(b []byte) string {
	if len(b) > 96 {
		return fmt.Sprintf("%x...(%d bytes)", b[:96], len(b))
	}
	return fmt.Sprintf("%x", b)
}

var crc32c = crc32.MakeTable(crc32.Castagnoli)

func walFrame(data []byte) []byte {
	out := make([]byte, 8+len(data))
	binary.BigEndian.PutUint32(out[0:4], crc32.Checksum(data, crc32c))
	binary.BigEndian.PutUint32(out[4:8], uint32(len(data)))
	copy(out[8:], data)
	return out
}

// registered names whose prefixes may occur inside encodings
var knownNames = []string{
	types.TxNormal, types.TxToken, types.TxMultiSignAccount, types.TxContractUpgrade, types.TxUTXO,
	"UTXOInput", "AccountInput", "MineInput", "UTXOOutput", "AccountOutput",
	"DuplicateVoteEvidence", "FaultValidatorsEvidence", "MockGoodEvidence", "MockBadEvidence",
	"PubKeyEd25519", "PubKeySecp256k1", "SignEd25519", "SignSecp256k1",
	"consensus/NewRoundStepMessage", "consensus/CommitStep", "consensus/Proposal", "consensus/ProposalPOL", "consensus/BlockPart",
	"consensus/Vote", "consensus/HasVote", "consensus/VoteSetMaj23", "consensus/VoteSetBits", "consensus/ProposalHeartbeat",
	"consensus/wal/MsgInfo", "consensus/wal/TimeoutInfo", "consensus/wal/EndHeightMessage",
	"mempool/TxMessage", "mempool/TxHashMessage", "evidence/EvidenceListMessage",
	"blockchain/BlockRequest", "blockchain/BlockResponse", "blockchain/NoBlockResponse", "blockchainl/StatusResponse", "blockchain/StatusRequest",
}

// entry points
const (
	epBytes  = "DecodeBytes"
	epBytesT = "DecodeBytesWithType"
	epReader = "DecodeReader"
	epWAL    = "WALDecoder.Decode"
)

func decodeEntry(ep string, b []byte, target interface{}) error {
	switch ep {
	case epBytes:
		return ser.DecodeBytes(b, target)
	case epBytesT:
		return ser.DecodeBytesWithType(b, target)
	case epReader:
		_, err := ser.DecodeReader(bytes.NewReader(b), target, int64(len(b)))
		return err
	}
	return fmt.Errorf("unknown entry point")
}

func encodeEntry(ep string, ptr interface{}) ([]byte, error) {
	if ep == epBytesT {
		return ser.EncodeToBytesWithType(ptr)
	}
	return ser.EncodeToBytes(ptr)
}

// roundTrip is level (ii) for one corpus value.
func (r *typedRun) roundTrip(it namedVal) (plain, withType []byte) {
	tk := typeKey(it.Ptr)
	for _, ep := range []string{epBytes, epBytesT} {
		var enc, enc2 []byte
		res := guard(func() error {
			var err error
			if enc, err = encodeEntry(ep, it.Ptr); err != nil {
				return err
			}
			enc2, err = encodeEntry(ep, it.Ptr)
			return err
		})
		rec := map[string]interface{}{"item": it.Name, "type": tk, "entry": ep}
		if res.panic != "" || res.err != nil {
			r.violate("typed/encode/"+tk, fmt.Sprintf("encoding %s failed: %v %s", it.Name, res.err, res.panic), rec)
			continue
		}
		rec["encoding_hex"] = hexTrunc(enc)
		if !bytes.Equal(enc, enc2) {
			r.violate("typed/encode-unstable/"+tk, fmt.Sprintf("two encodings of the same %s value differ (map order?)", tk), rec)
			continue
		}
		if ep == epBytes {
			plain = enc
		} else {
			withType = enc
		}
		eps := []string{ep}
		if ep == epBytes {
			eps = append(eps, epReader)
		}
		for _, dep := range eps {
			tgt := reflect.New(reflect.TypeOf(it.Ptr).Elem())
			dres := guard(func() error { return decodeEntry(dep, enc, tgt.Interface()) })
			r.res.Calls += 2
			rec["decode_entry"] = dep
			if dres.panic != "" || dres.err != nil {
				r.violate("typed/decode/"+tk, fmt.Sprintf("decoding the encoding of %s failed: %v %s", it.Name, dres.err, dres.panic), rec)
				continue
			}
			if d := diff(reflect.ValueOf(it.Ptr).Elem(), tgt.Elem(), "", 0); d != "" {
				rec["difference"] = d
				r.violate("typed/roundtrip/"+tk, fmt.Sprintf("decode(encode(v)) differs from v for %s at %s", it.Name, d), rec)
				continue
			}
			var re []byte
			eres := guard(func() error { var err error; re, err = encodeEntry(ep, tgt.Interface()); return err })
			if eres.panic != "" || eres.err != nil || !bytes.Equal(re, enc) {
				rec["reencoding_hex"] = hexTrunc(re)
				r.violate("typed/reencode/"+tk, fmt.Sprintf("re-encoding the decoded %s gives different bytes (%v %s)", it.Name, eres.err, eres.panic), rec)
				continue
			}
			r.res.RoundTrips++
		}
	}
	return
}

// probe is level (iii) for one input and one entry point.
func (r *typedRun) probe(it namedVal, ep, class string, in []byte) {
	tk := typeKey(it.Ptr)
	tgt := reflect.New(reflect.TypeOf(it.Ptr).Elem())
	var res callResult
	var walMsg *consensus.TimedWALMessage
	bound := allocBound(len(in))
	if ep == epWAL {
		bound += 1 << 20 // the frame decoder reads a length of at most maxMsgSizeBytes (1 MiB) before the data
	}
	al := measured(func() {
		tgt = reflect.New(reflect.TypeOf(it.Ptr).Elem())
		res = guard(func() error {
			if ep == epWAL {
				var err error
				walMsg, err = consensus.NewWALDecoder(bytes.NewReader(in)).Decode()
				return err
			}
			return decodeEntry(ep, in, tgt.Interface())
		})
	}, bound)
	r.res.Calls++
	r.res.ByClass[strings.SplitN(class, "#", 2)[0]]++
	rec := func() map[string]interface{} {
		return map[string]interface{}{"item": it.Name, "target_type": tk, "entry": ep, "class": class, "input_hex": hexTrunc(in), "input_len": len(in)}
	}
	if al > r.res.MaxAlloc {
		r.res.MaxAlloc, r.res.MaxAllocAt = al, fmt.Sprintf("%s %s %s (%d bytes in)", tk, ep, class, len(in))
	}
	if ratio := float64(al) / float64(len(in)+1); al > 1<<16 && ratio > r.res.MaxRatio {
		r.res.MaxRatio = ratio
	}
	if al > bound {
		key := "alloc/" + tk
		if strings.Contains(tk, "Account") || strings.Contains(class, "map-hugelen") {
			key = "alloc/map-claimed-length"
		}
		m := rec()
		m["allocated"], m["bound"] = al, bound
		r.violate(key, fmt.Sprintf("%s of %d bytes into %s allocated %d bytes (bound %d)", ep, len(in), tk, al, bound), m)
	}
	if res.panic != "" {
		m := rec()
		m["panic"] = res.panic
		r.violate(panicKey(res.panic), fmt.Sprintf("%s into %s panicked instead of returning an error: %s", ep, tk, res.panic), m)
		return
	}
	if res.err != nil {
		return
	}
	r.res.Accepted++
	// the value a decoder returned is a value of the type: it must survive its own round trip
	var vptr interface{} = tgt.Interface()
	encEp := ep
	if ep == epWAL {
		if walMsg == nil {
			return
		}
		vptr, encEp = walMsg, epBytes
	} else if ep == epReader {
		encEp = epBytes
	}
	var e2 []byte
	eres := guard(func() error { var err error; e2, err = encodeEntry(encEp, vptr); return err })
	if eres.panic != "" {
		r.drift("encode-panic/"+tk, fmt.Sprintf("observation: a %s value produced by %s (class %s, input %s) cannot be encoded again: %s", tk, ep, class, hexShort(in), eres.panic))
		return
	}
	if eres.err != nil {
		r.drift("encode-error/"+tk, fmt.Sprintf("observation: a %s value produced by %s (class %s) cannot be encoded again: %v", tk, ep, class, eres.err))
		return
	}
	cmpIn := in
	if ep == epWAL && len(in) >= 8 {
		cmpIn = in[8:]
	}
	if !bytes.Equal(e2, cmpIn) && !(ep == epReader && bytes.HasPrefix(cmpIn, e2)) {
		r.res.NonCanonical++
	}
	t2 := reflect.New(reflect.TypeOf(vptr).Elem())
	dres := guard(func() error { return decodeEntry(encEp, e2, t2.Interface()) })
	r.res.Revalidated++
	m := func() map[string]interface{} {
		x := rec()
		x["reencoding_hex"] = hexTrunc(e2)
		return x
	}
	if dres.panic != "" {
		x := m()
		x["panic"] = dres.panic
		r.violate(panicKey(dres.panic), fmt.Sprintf("decoding the re-encoding of a decoded %s panicked: %s", tk, dres.panic), x)
		return
	}
	if dres.err != nil {
		x := m()
		x["error"] = dres.err.Error()
		r.violate("roundtrip/decoded-value/"+tk, fmt.Sprintf("a %s value produced by the decoder does not decode from its own encoding: %v", tk, dres.err), x)
		return
	}
	if d := diff(reflect.ValueOf(vptr).Elem(), t2.Elem(), "", 0); d != "" {
		x := m()
		x["difference"] = d
		r.violate("roundtrip/decoded-value/"+tk, fmt.Sprintf("a %s value produced by the decoder changes in its own round trip at %s", tk, d), x)
		return
	}
	var e3 []byte
	e3res := guard(func() error { var err error; e3, err = encodeEntry(encEp, t2.Interface()); return err })
	if e3res.panic != "" || e3res.err != nil || !bytes.Equal(e3, e2) {
		x := m()
		x["third_encoding_hex"] = hexTrunc(e3)
		r.violate("roundtrip/decoded-value/"+tk, fmt.Sprintf("re-encoding is not stable for a decoder-produced %s (%v %s)", tk, e3res.err, e3res.panic), x)
	}
}

// innerPrefixSwaps replaces registered prefixes found inside enc by prefixes of other registered types.
func (r *typedRun) innerPrefixSwaps(enc []byte, max int) []namedBytes {
	var out []namedBytes
	names := make([]string, 0, len(r.known))
	for n := range r.known {
		names = append(names, n)
	}
	sort.Strings(names)
	for _, n := range names {
		d := r.known[n]
		off := 0
		for len(out) < max {
			i := bytes.Index(enc[off:], d)
			if i < 0 {
				break
			}
			i += off
			for _, f := range []string{"consensus/Vote", types.TxNormal, "PubKeyEd25519", nameGB} {
				fd := r.known[f]
				if f == nameGB {
					fd = disfixOf(nameGB)
				}
				if f == n || fd == nil {
					continue
				}
				out = append(out, namedBytes{"inner-pfx-foreign#" + n + "->" + f, cat(enc[:i], fd, enc[i+7:])})
			}
			unk := append([]byte{}, d...)
			unk[6] ^= 0x55
			out = append(out, namedBytes{"inner-pfx-unknown#" + n, cat(enc[:i], unk, enc[i+7:])})
			off = i + 7
		}
	}
	return out
}

// typedReplayChild re-executes one recorded (item, entry point, input) of level (iii).
func typedReplayChild(c *core.Ctx, j typedJob) {
	w := bufio.NewWriter(os.Stdout)
	defer w.Flush()
	r := &typedRun{c: c, res: &typedResult{ByClass: map[string]int{}}, rng: rand.New(rand.NewSource(c.Seed)), seenV: map[string]bool{}, seenD: map[string]bool{}, known: map[string][]byte{}, w: w, blind: map[string]bool{}, sighted: map[string]bool{}}
	registerAll()
	corpus, err := buildCorpus(rand.New(rand.NewSource(c.Seed)))
	if err != nil {
		fmt.Fprintln(os.Stderr, "corpus:", err)
		os.Exit(3)
	}
	for _, it := range corpus {
		if it.Name != j.Item {
			continue
		}
		r.at(it.Name, j.Entry+" "+j.Class)
		if j.InputHex == "" {
			r.roundTrip(it)
		} else {
			in, err := hex.DecodeString(j.InputHex)
			if err != nil {
				fmt.Fprintln(os.Stderr, "input:", err)
				os.Exit(3)
			}
			r.probe(it, j.Entry, j.Class, in)
		}
	}
	b, _ := json.Marshal(r.res)
	fmt.Fprintf(w, "RESULT %s\nDONE\n", b)
}

func typedChild(c *core.Ctx, j typedJob) {
	w := bufio.NewWriterSize(os.Stdout, 1<<16)
	defer w.Flush()
	r := &typedRun{c: c, res: &typedResult{ByClass: map[string]int{}}, rng: rand.New(rand.NewSource(c.Seed*7919 + int64(j.Shard))), seenV: map[string]bool{}, seenD: map[string]bool{}, known: map[string][]byte{}, w: w, blind: map[string]bool{}, sighted: map[string]bool{}}
	registerAll()
	for _, n := range knownNames {
		r.known[n] = disfixOf(n)
	}
	corpus, err := buildCorpus(rand.New(rand.NewSource(c.Seed)))
	if err != nil {
		fmt.Fprintln(os.Stderr, "corpus:", err)
		os.Exit(3)
	}
	nPos, nNoise, nCross, nRandom := 2, 8, 3, 4
	if c.Thorough() {
		nPos, nNoise, nCross, nRandom = 8, 48, 12, 30
	}
	emit := func() {
		b, _ := json.Marshal(r.res)
		fmt.Fprintf(w, "RESULT %s\n", b)
		w.Flush()
		r.res = &typedResult{ByClass: map[string]int{}}
	}
	// encodings of the whole corpus (for feeding one type's bytes into another type's decoder)
	var allEnc [][]byte
	for _, it := range corpus {
		var e []byte
		guard(func() error { var err error; e, err = ser.EncodeToBytesWithType(it.Ptr); return err })
		allEnc = append(allEnc, e)
	}
	sampled := false
	skipping := j.After != ""
	for idx, it := range corpus {
		if idx%j.Shards != j.Shard {
			continue
		}
		if skipping {
			if it.Name == j.After {
				skipping = false
			}
			continue
		}
		tk := typeKey(it.Ptr)
		res := r.res
		res.Types = []string{tk}
		res.Items++
		r.at(it.Name, "round trip")
		plain, withType := r.roundTrip(it)
		// the comparator is not vacuous for this type: a value that encodes differently from the zero value
		// must be seen as different from it
		if zero := reflect.New(reflect.TypeOf(it.Ptr).Elem()); plain != nil {
			var ze []byte
			zres := guard(func() error { var err error; ze, err = ser.EncodeToBytes(zero.Interface()); return err })
			if zres.panic == "" && zres.err == nil && !bytes.Equal(ze, plain) && !r.blind[tk] {
				if diff(reflect.ValueOf(it.Ptr).Elem(), zero.Elem(), "", 0) == "" {
					r.blind[tk] = true
					res.Blind = append(res.Blind, fmt.Sprintf("%s (%s)", tk, it.Name))
				} else {
					r.sighted[tk] = true
				}
			}
		}
		isIface := reflect.TypeOf(it.Ptr).Elem().Kind() == reflect.Interface
		_, isWAL := it.Ptr.(*consensus.TimedWALMessage)
		type feed struct {
			ep    string
			class string
			in    []byte
		}
		var feeds []feed
		add := func(eps []string, ms []namedBytes) {
			for i, m := range ms {
				for k, ep := range eps {
					// rotate the entry points over the inputs; prefix classes go through all of them
					if len(eps) > 1 && !strings.Contains(m.name, "pfx") && (i+k)%len(eps) != 0 {
						continue
					}
					feeds = append(feeds, feed{ep, m.name, m.b})
				}
			}
		}
		for vi, enc := range [][]byte{plain, withType} {
			if enc == nil {
				continue
			}
			eps := []string{epBytes, epReader}
			if vi == 1 {
				eps = []string{epBytesT}
			}
			if isIface {
				eps = []string{epBytes, epBytesT, epReader}
				if vi == 1 {
					continue // same bytes as the plain encoding for interface variables
				}
			}
			var ms []namedBytes
			ms = append(ms, structuralMutations(enc, nPos, r.rng)...)
			ms = append(ms, textMutations(enc, 1+nPos/2, r.rng)...)
			ms = append(ms, byteNoise(enc, nNoise, r.rng)...)
			ms = append(ms, r.innerPrefixSwaps(enc, 10)...)
			if isIface || vi == 1 {
				for _, f := range []string{"consensus/Vote", types.TxNormal, "PubKeyEd25519"} {
					for _, m := range goPfxMuts(enc, r.known[f]) {
						if !strings.HasPrefix(m.name, "pfx-") && f != "consensus/Vote" {
							continue // body mutations once
						}
						ms = append(ms, namedBytes{m.name + "#" + f, m.b})
					}
				}
			}
			add(eps, ms)
		}
		// encodings of other corpus values and random bytes into this type's decoders
		var other []namedBytes
		for k := 0; k < nCross; k++ {
			o := r.rng.Intn(len(corpus))
			if allEnc[o] != nil {
				other = append(other, namedBytes{"foreign-encoding#" + typeKey(corpus[o].Ptr), allEnc[o]})
			}
		}
		for k := 0; k < nRandom; k++ {
			other = append(other, namedBytes{"random-bytes", randomBytes(r.rng)})
		}
		other = append(other, namedBytes{"nesting-bomb", bytes.Repeat([]byte{0xc1}, 2000)}, namedBytes{"empty-input", []byte{}})
		add([]string{epBytes, epBytesT, epReader}, other)
		if isWAL && plain != nil {
			// the WAL frame decoder: well-framed mutated payloads (the CRC is recomputed) and broken frames
			var ms []namedBytes
			ms = append(ms, namedBytes{"wal/intact", walFrame(plain)})
			for _, m := range structuralMutations(plain, nPos, r.rng) {
				ms = append(ms, namedBytes{"wal/" + m.name, walFrame(m.b)})
			}
			for _, m := range r.innerPrefixSwaps(plain, 6) {
				ms = append(ms, namedBytes{"wal/" + m.name, walFrame(m.b)})
			}
			for _, m := range byteNoise(plain, nNoise, r.rng) {
				ms = append(ms, namedBytes{"wal/" + m.name, walFrame(m.b)})
			}
			f := walFrame(plain)
			bad := append([]byte{}, f...)
			bad[0] ^= 1
			ms = append(ms, namedBytes{"wal/frame-bad-crc", bad})
			huge := append([]byte{}, f...)
			binary.BigEndian.PutUint32(huge[4:8], 0xffffffff)
			ms = append(ms, namedBytes{"wal/frame-huge-length", huge})
			big1 := append([]byte{}, f...)
			binary.BigEndian.PutUint32(big1[4:8], 1<<20)
			ms = append(ms, namedBytes{"wal/frame-length-1MiB", big1})
			ms = append(ms, namedBytes{"wal/frame-truncated", f[:len(f)/2]}, namedBytes{"wal/frame-header-only", f[:8]}, namedBytes{"wal/frame-3-bytes", f[:3]})
			for _, m := range ms {
				feeds = append(feeds, feed{epWAL, m.name, m.b})
			}
		}
		lastClass := ""
		for _, f := range feeds {
			cl := strings.SplitN(f.class, "#", 2)[0]
			if cl != lastClass {
				r.at(it.Name, f.ep+" "+f.class)
				lastClass = cl
			}
			res.Inputs++
			r.probe(it, f.ep, f.class, f.in)
		}
		if !sampled && strings.Contains(it.Name, "Block/") && plain != nil && len(feeds) > 10 {
			res.Sample = map[string]interface{}{"item": it.Name, "type": tk, "encoding_len": len(plain), "inputs_derived": len(feeds), "first_classes": []string{feeds[0].class, feeds[len(feeds)/2].class, feeds[len(feeds)-1].class}}
			sampled = true
		}
		emit()
	}
	fmt.Fprintf(w, "DONE\n")
}
