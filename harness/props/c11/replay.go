package c11

// Level (i): the tables TLC exported from spec/Codec are replayed on the real libs/ser.

import (
	"bytes"
	"fmt"
	"reflect"
	"runtime"
	"strings"
	"sync"
	"time"

	"github.com/lianxiangcloud/linkchain/libs/ser"

	"verifh/core"
)

const allocSlack = 1 << 20 // 1 MiB
const allocFactor = 64

func allocBound(n int) uint64 { return uint64(allocFactor*n + allocSlack) }

// measured runs f and returns the bytes allocated while it ran. TotalAlloc is process wide: when the
// figure exceeds bound the call is repeated (f must be repeatable) and the minimum is taken, so that
// allocation by concurrent goroutines of the harness is not attributed to the call.
var measureMu sync.Mutex // one measured call at a time (the calls that can allocate a lot are the measured ones)

func measured(f func(), bound uint64) uint64 {
	measureMu.Lock()
	defer measureMu.Unlock()
	var a, b runtime.MemStats
	best := ^uint64(0)
	for try := 0; try < 4; try++ {
		runtime.ReadMemStats(&a)
		f()
		runtime.ReadMemStats(&b)
		if d := b.TotalAlloc - a.TotalAlloc; d < best {
			best = d
		}
		if best <= bound {
			break
		}
		time.Sleep(time.Millisecond) // let a concurrent burst (a long TLC line being parsed) pass
	}
	return best
}

type grammarStats struct {
	mu          sync.Mutex
	inputs      int            // byte strings pushed through the decoders
	calls       int            // calls on the real code
	accepted    int            // inputs the model accepts
	lenient     int            // accepted by the coded decoder, rejected by the strict one
	lenientBy   map[string]int // by strict error class
	ibDropped   int            // model error inside an interface body, real decoder accepted (dropped inner error)
	ibSeen      int
	ibExamples  []string
	values      int // model values encoded
	mutations   int
	perTarget   map[string]int
	classDrift  map[string]int
	maxAlloc    uint64
	maxAllocIn  string
	allocProbed int
	szRecords   int // size-field inputs replayed on the raw entry points
	probes      []probeIn
	probeSeen   map[string]bool
	sample      []interface{}
}

type probeIn struct {
	Tgt  string `json:"t"`
	Hex  string `json:"h"`
	What string `json:"w"`
}

func newGrammarStats() *grammarStats {
	return &grammarStats{lenientBy: map[string]int{}, perTarget: map[string]int{}, classDrift: map[string]int{}, probeSeen: map[string]bool{}}
}

func hexOf(xs []int) string { return fmt.Sprintf("%x", intsToBytes(xs)) }

func panicKey(msg string) string {
	if strings.Contains(msg, "is not assignable to type") {
		return "panic/iface-prefix-not-assignable"
	}
	return "panic/" + shortMsg(msg)
}

func shortMsg(msg string) string {
	var b strings.Builder
	for _, r := range msg {
		switch {
		case r >= '0' && r <= '9':
		case r == ' ' || r == ':' || r == '\n':
			b.WriteByte('-')
		default:
			b.WriteRune(r)
		}
		if b.Len() >= 48 {
			break
		}
	}
	return b.String()
}

// needsAllocProbe: inputs with a long-form header (a claimed size of more than 55 bytes).
func needsAllocProbe(b []byte) bool {
	for _, x := range b {
		if (x >= 0xb8 && x < 0xc0) || x >= 0xf8 {
			return true
		}
	}
	return false
}

// checkDecode pushes one byte string through every entry point of the target and compares
// with the model's verdict. what describes the origin (for the violation record).
func checkDecode(c *core.Ctx, gs *grammarStats, tg *target, in []int, r, st verdict, what string, probeAlloc bool) {
	b := intsToBytes(in)
	entries := []string{"bytes", "reader"}
	if tg.t.k == "ifc" {
		entries = append(entries, "bytesT")
	}
	if len(b)%3 == 0 {
		entries = append(entries, "slowreader")
	}
	gs.mu.Lock()
	gs.inputs++
	gs.perTarget[tg.name]++
	if probeAlloc {
		// allocation is measured afterwards in single-threaded child processes (allocprobe.go)
		k := tg.name + " " + string(b)
		if !gs.probeSeen[k] {
			gs.probeSeen[k] = true
			gs.probes = append(gs.probes, probeIn{Tgt: tg.name, Hex: fmt.Sprintf("%x", b), What: what})
		}
	}
	if r.Ok {
		gs.accepted++
		if !st.Ok {
			gs.lenient++
			gs.lenientBy[tg.name+"/"+st.C]++
		}
	}
	if r.Ib {
		gs.ibSeen++
	}
	gs.mu.Unlock()
	rec := func(entry string, extra map[string]interface{}) map[string]interface{} {
		m := map[string]interface{}{"target": tg.name, "go_type": tg.goType.String(), "entry": entry, "input_hex": fmt.Sprintf("%x", b), "origin": what,
			"model_verdict": map[string]interface{}{"ok": r.Ok, "class": r.C, "value": r.V.String(), "strict_ok": st.Ok, "strict_class": st.C},
			"model_r":       r, "model_st": st}
		for k, v := range extra {
			m[k] = v
		}
		return m
	}
	for _, entry := range entries {
		var val reflect.Value
		var res callResult
		val, res = tg.decode(b, entry)
		gs.mu.Lock()
		gs.calls++
		gs.mu.Unlock()
		if res.panic != "" {
			c.Violate(panicKey(res.panic), fmt.Sprintf("decoding into %s panicked instead of returning an error: %s", tg.goType, res.panic), rec(entry, map[string]interface{}{"panic": res.panic}))
			continue
		}
		modelOk := r.Ok
		if entry != "bytes" && entry != "bytesT" && !r.Ok && r.C == "more_than_one" {
			// DecodeReader leaves trailing input to the caller: the first value is accepted
			continue
		}
		realOk := res.err == nil
		if r.Ib && realOk && !modelOk {
			// decodeCDCInterface drops the inner decoder's error: a malformed body of an interface value
			// decodes "successfully" (observation, not claimed by the property)
			gs.mu.Lock()
			gs.ibDropped++
			if len(gs.ibExamples) < 6 && (gs.ibDropped%977 == 1 || len(gs.ibExamples) < 2) {
				gs.ibExamples = append(gs.ibExamples, fmt.Sprintf("%s(%x) into %s: specification %s inside the interface body, code accepts", entry, b, tg.goType, r.C))
			}
			gs.mu.Unlock()
			continue
		}
		if modelOk != realOk {
			dir := "accepts-what-the-specification-rejects"
			if modelOk {
				dir = "rejects-what-the-specification-accepts"
			}
			c.Violate("grammar/"+tg.name+"/"+dir, fmt.Sprintf("%s(%x) into %s: real decoder err=%v, specification: ok=%v class=%s", entry, b, tg.goType, res.err, r.Ok, r.C),
				rec(entry, map[string]interface{}{"real_error": fmt.Sprint(res.err)}))
			continue
		}
		if !modelOk {
			if got, want := classify(res.err), normClass(r.C); got != want && !r.Ib {
				gs.mu.Lock()
				gs.classDrift[tg.name+": model "+want+" / code "+got]++
				gs.mu.Unlock()
			}
			continue
		}
		got, err := fromGo(tg.t, val)
		if err != nil || !mvEqual(got, r.V) {
			c.Violate("grammar/"+tg.name+"/value", fmt.Sprintf("%s(%x) into %s: decoded %v (%v), the specification says %v", entry, b, tg.goType, got, err, r.V),
				rec(entry, map[string]interface{}{"real_value": got.String()}))
			continue
		}
		if entry == "bytes" {
			// canonical: what the strict decoder accepts re-encodes to exactly the input
			re, eres := tg.encode(val)
			if eres.panic != "" || eres.err != nil {
				c.Violate("grammar/"+tg.name+"/reencode", fmt.Sprintf("re-encoding the value decoded from %x failed: %v %s", b, eres.err, eres.panic), rec(entry, nil))
			} else if st.Ok && !bytes.Equal(re, b) {
				c.Violate("grammar/"+tg.name+"/reencode", fmt.Sprintf("%x decodes to %v which re-encodes to %x", b, got, re), rec(entry, map[string]interface{}{"reencoded_hex": fmt.Sprintf("%x", re)}))
			}
			gs.mu.Lock()
			gs.calls++
			gs.mu.Unlock()
		}
	}
}

func kindName(k ser.Kind) string {
	switch k {
	case ser.Byte:
		return "byte"
	case ser.String:
		return "string"
	case ser.List:
		return "list"
	}
	return "?"
}

// checkRaw compares ser.Split / SplitString / SplitList / CountValues with the model.
func checkRaw(c *core.Ctx, gs *grammarStats, l *label) {
	b := intsToBytes(l.S)
	var k ser.Kind
	var content, rest []byte
	var err error
	res := guard(func() error { k, content, rest, err = ser.Split(b); return err })
	gs.mu.Lock()
	gs.calls += 2
	gs.mu.Unlock()
	rec := map[string]interface{}{"input_hex": fmt.Sprintf("%x", b), "model_split": l.Split, "model_count": l.Count}
	if res.panic != "" {
		c.Violate(panicKey(res.panic), "ser.Split panicked: "+res.panic, rec)
	} else if (err == nil) != l.Split.Ok {
		c.Violate("grammar/split/accept", fmt.Sprintf("Split(%x): err=%v, the specification says ok=%v (%s)", b, err, l.Split.Ok, l.Split.C), rec)
	} else if err == nil {
		if kindName(k) != l.Split.Kind || !bytes.Equal(content, intsToBytes(l.Split.Content)) || !bytes.Equal(rest, intsToBytes(l.Split.Rest)) {
			c.Violate("grammar/split/value", fmt.Sprintf("Split(%x) = (%s, %x, %x), the specification says (%s, %s, %s)", b, kindName(k), content, rest, l.Split.Kind, hexOf(l.Split.Content), hexOf(l.Split.Rest)), rec)
		}
		// SplitString / SplitList are Split plus a kind test
		_, _, e1 := ser.SplitString(b)
		_, _, e2 := ser.SplitList(b)
		if (e1 == nil) != (l.Split.Kind != "list") || (e2 == nil) != (l.Split.Kind == "list") {
			c.Violate("grammar/split/kind", fmt.Sprintf("SplitString/SplitList(%x): %v / %v for kind %s", b, e1, e2, l.Split.Kind), rec)
		}
	} else if got := classify(err); got != l.Split.C {
		gs.mu.Lock()
		gs.classDrift["split: model "+l.Split.C+" / code "+got]++
		gs.mu.Unlock()
	}
	var n int
	res = guard(func() error { n, err = ser.CountValues(b); return err })
	if res.panic != "" {
		c.Violate(panicKey(res.panic), "ser.CountValues panicked: "+res.panic, rec)
	} else if (err == nil) != l.Count.Ok || (err == nil && n != l.Count.N) {
		c.Violate("grammar/count", fmt.Sprintf("CountValues(%x) = %d, %v; the specification says %d ok=%v (%s)", b, n, err, l.Count.N, l.Count.Ok, l.Count.C), rec)
	}
}

// replayDec handles one "dec" label (bytes mode).
func replayDec(c *core.Ctx, gs *grammarStats, l *label) {
	tg := targets[l.Tgt]
	if tg == nil {
		c.Infra("specification names unknown target %q", l.Tgt)
		return
	}
	b := intsToBytes(l.S)
	checkDecode(c, gs, tg, l.S, l.R, l.St, "bytes-universe", needsAllocProbe(b))
	if l.Tgt == "any" && l.Split != nil && l.Count != nil {
		checkRaw(c, gs, l)
	}
	gs.mu.Lock()
	if len(gs.sample) < 3 && l.R.Ok && len(l.S) >= 4 && !l.St.Ok {
		gs.sample = append(gs.sample, map[string]interface{}{"kind": "lenient-accept", "target": l.Tgt, "input_hex": hexOf(l.S), "value": l.R.V.String(), "strict_class": l.St.C})
	}
	gs.mu.Unlock()
}

// replayVal handles one "val" label (values mode): encode, decode, every mutation.
func replayVal(c *core.Ctx, gs *grammarStats, l *label) {
	tg := targets[l.Tgt]
	if tg == nil {
		c.Infra("specification names unknown target %q", l.Tgt)
		return
	}
	want := intsToBytes(l.S)
	rec := func(extra map[string]interface{}) map[string]interface{} {
		m := map[string]interface{}{"target": tg.name, "go_type": tg.goType.String(), "model_value": l.V.String(), "model_encoding_hex": fmt.Sprintf("%x", want)}
		for k, v := range extra {
			m[k] = v
		}
		return m
	}
	perms := 1
	if tg.t.k == "map" {
		perms = 3
	}
	for perm := 0; perm < perms; perm++ {
		p := reflect.New(tg.goType)
		if err := toGo(tg.t, l.V, p.Elem(), perm); err != nil {
			c.Infra("cannot instantiate %s value %v: %v", tg.name, l.V, err)
			return
		}
		reps := 1
		if tg.t.k == "map" {
			reps = 4 // Go randomises map iteration per range statement: equal maps must still give equal bytes
		}
		for rep := 0; rep < reps; rep++ {
			got, res := tg.encode(p.Elem())
			gs.mu.Lock()
			gs.calls++
			gs.mu.Unlock()
			if res.panic != "" || res.err != nil {
				c.Violate("encode/"+tg.name, fmt.Sprintf("encoding %v as %s failed: %v %s", l.V, tg.goType, res.err, res.panic), rec(nil))
				return
			}
			if !bytes.Equal(got, want) {
				key := "encode/" + tg.name
				if tg.t.k == "map" {
					key = "encode/map-order"
				}
				c.Violate(key, fmt.Sprintf("%s value %v encodes to %x, the specification says %x (insertion order %d, repetition %d)", tg.goType, l.V, got, want, perm, rep), rec(map[string]interface{}{"real_encoding_hex": fmt.Sprintf("%x", got)}))
				return
			}
		}
	}
	gs.mu.Lock()
	gs.values++
	if len(gs.sample) < 6 && (tg.t.k == "map" && len(l.V.E) == 3 || tg.name == "ifcs" && l.Idx == 5) {
		gs.sample = append(gs.sample, map[string]interface{}{"kind": "value", "target": l.Tgt, "value": l.V.String(), "encoding_hex": hexOf(l.S), "mutations": len(l.Muts)})
	}
	gs.mu.Unlock()
	// decode(encode(v)) = v by the real decoder (checkDecode compares with the model's verdict, which TLC showed equal to v)
	checkDecode(c, gs, tg, l.S, l.R, l.St, "encoding of "+l.V.String(), false)
	// the Go mutation operators used on real messages produce what the specification's operators produce
	crossCheckMutators(c, tg, l)
	for _, m := range l.Muts {
		gs.mu.Lock()
		gs.mutations++
		gs.mu.Unlock()
		b := intsToBytes(m.S)
		probe := strings.Contains(m.M, "huge") || needsAllocProbe(b) && len(b) < 64
		checkDecode(c, gs, tg, m.S, m.R, m.St, "mutation "+m.M+" of the encoding of "+l.V.String(), probe)
	}
}

// crossCheckMutators: goItemMuts (used on the real corpus) against the specification's ItemMuts / PfxMuts.
func crossCheckMutators(c *core.Ctx, tg *target, l *label) {
	enc := intsToBytes(l.S)
	var mine []namedBytes
	if tg.t.k == "ifc" || tg.withType {
		mine = goPfxMuts(enc, disfixOf(nameGB))
	} else {
		mine = goItemMuts(enc)
	}
	got := map[string][]byte{}
	for _, m := range mine {
		got[m.name] = m.b
	}
	for _, m := range l.Muts {
		if strings.HasPrefix(m.M, "child/") || strings.HasPrefix(m.M, "lying/") || strings.HasPrefix(m.M, "map-") || strings.HasPrefix(m.M, "int-") {
			continue
		}
		g, ok := got[m.M]
		if !ok || !bytes.Equal(g, intsToBytes(m.S)) {
			c.Infra("mutation operator %q: Go gives %x, specification gives %s on %x (%s)", m.M, g, hexOf(m.S), enc, tg.name)
			return
		}
	}
}
