package c11

// The structural mutation classes of spec/Codec/Codec.tla (ItemMuts, PfxMuts, ChildMuts) as Go
// operators, for use on the encodings of real consensus/storage values. On the model's own
// universe they are cross-checked against what TLC computed (crossCheckMutators).

import (
	"math/rand"
)

type namedBytes struct {
	name string
	b    []byte
}

type rawItem struct {
	ok   bool
	kind string // byte | string | list
	ts   int    // tag size
	cs   int    // content size
}

// rawKind parses the header of the item at the start of b (liberal: any well-formed header).
func rawKind(b []byte) rawItem {
	if len(b) == 0 {
		return rawItem{}
	}
	h := b[0]
	long := func(kind string, n int) rawItem {
		if n > len(b)-1 {
			return rawItem{}
		}
		v := 0
		for _, x := range b[1 : 1+n] {
			if v > 1<<40 {
				return rawItem{}
			}
			v = v<<8 | int(x)
		}
		if v < 56 || b[1] == 0 || v > len(b)-1-n {
			return rawItem{}
		}
		return rawItem{true, kind, n + 1, v}
	}
	short := func(kind string, ts, cs int) rawItem {
		if cs > len(b)-ts {
			return rawItem{}
		}
		return rawItem{true, kind, ts, cs}
	}
	switch {
	case h < 0x80:
		return rawItem{true, "byte", 0, 1}
	case h < 0xb8:
		if h == 0x81 && len(b) > 1 && b[1] < 0x80 {
			return rawItem{}
		}
		return short("string", 1, int(h-0x80))
	case h < 0xc0:
		return long("string", int(h-0xb7))
	case h < 0xf8:
		return short("list", 1, int(h-0xc0))
	default:
		return long("list", int(h-0xf7))
	}
}

func be(n int) []byte {
	var b []byte
	for n > 0 {
		b = append([]byte{byte(n)}, b...)
		n >>= 8
	}
	return b
}

func hdr(small byte, n int) []byte {
	if n < 56 {
		return []byte{small + byte(n)}
	}
	l := be(n)
	return append([]byte{small + 55 + byte(len(l))}, l...)
}

func cat(parts ...[]byte) []byte {
	var out []byte
	for _, p := range parts {
		out = append(out, p...)
	}
	if out == nil {
		out = []byte{}
	}
	return out
}

func rep(n int, x byte) []byte {
	b := make([]byte, n)
	for i := range b {
		b[i] = x
	}
	return b
}

// goItemMuts: ItemMuts(it) of the specification; it must be exactly one item.
func goItemMuts(it []byte) []namedBytes {
	k := rawKind(it)
	if !k.ok || k.ts+k.cs != len(it) {
		return nil
	}
	isb := k.kind == "byte"
	small := byte(0x80)
	if k.kind == "list" {
		small = 0xc0
	}
	ct := it[k.ts : k.ts+k.cs]
	var out []namedBytes
	add := func(name string, b []byte) { out = append(out, namedBytes{name, b}) }
	add("trunc1", cat(it[:len(it)-1]))
	if !isb && k.cs > 0 {
		add("trunchdr", cat(it[:k.ts]))
	}
	if k.cs >= 2 {
		add("truncmid", cat(it[:k.ts+k.cs/2]))
	}
	add("trail0", cat(it, []byte{0}))
	add("dup", cat(it, it))
	if !isb {
		add("size+1", cat(hdr(small, k.cs+1), ct))
		if k.cs >= 1 {
			add("size-1", cat(hdr(small, k.cs-1), ct))
		}
		if k.cs < 56 {
			add("longform", cat([]byte{small + 56, byte(k.cs)}, ct))
		}
		if k.cs >= 56 {
			l := be(k.cs)
			add("lzsize", cat([]byte{small + 56 + byte(len(l)), 0}, l, ct))
		} else {
			add("lzsize", cat([]byte{small + 57, 0, byte(k.cs)}, ct))
		}
	}
	if isb {
		add("byte-as-str", []byte{0x81, it[0]})
	}
	if k.kind == "string" {
		add("lead0", cat(hdr(0x80, k.cs+1), []byte{0}, ct))
	}
	if isb {
		add("lead0", []byte{0x82, 0, it[0]})
	}
	if !isb {
		add("huge4", cat([]byte{small + 59, 4, 0, 0, 0}, ct))
		add("huge8", cat([]byte{small + 63}, rep(8, 255), ct))
	}
	switch k.kind {
	case "string":
		add("flipkind", cat(hdr(0xc0, k.cs), ct))
	case "list":
		add("flipkind", cat(hdr(0x80, k.cs), ct))
	default:
		add("flipkind", []byte{0xc1, it[0]})
	}
	if !(len(it) == 1 && it[0] == 0x80) {
		add("empty-str", []byte{0x80})
	}
	if !(len(it) == 1 && it[0] == 0xc0) {
		add("empty-list", []byte{0xc0})
	}
	add("inc-last", cat(it[:len(it)-1], []byte{it[len(it)-1] + 1}))
	// drop the ones that do not change the input (the specification filters them too)
	var res []namedBytes
	for _, m := range out {
		if string(m.b) != string(it) {
			res = append(res, m)
		}
	}
	return res
}

// goPfxMuts: PfxMuts(enc) of the specification: enc = 7 prefix bytes + one item, or the nil byte.
func goPfxMuts(enc []byte, foreign []byte) []namedBytes {
	var out []namedBytes
	add := func(name string, b []byte) {
		if string(b) != string(enc) {
			out = append(out, namedBytes{name, b})
		}
	}
	if len(enc) == 1 && enc[0] == 0 {
		add("nil-as-prefix", []byte{1})
		add("nil-trail", []byte{0, 0})
		return out
	}
	if len(enc) < 8 {
		return nil
	}
	pf, body := enc[:7], enc[7:]
	add("pfx-unknown", cat(pf[:6], []byte{pf[6] + 1}, body))
	add("pfx-foreign", cat(foreign, body))
	add("pfx-short", cat(pf[:6], body))
	add("pfx-nil", cat([]byte{0}, body))
	add("pfx-only", cat(pf))
	for _, m := range goItemMuts(body) {
		add("body/"+m.name, cat(pf, m.b))
	}
	return out
}

// itemPos is the position of one item inside an encoding, with the chain of enclosing list headers.
type itemPos struct {
	start, end int
	parents    []int // start offsets of the enclosing lists, outermost first
}

// walkItems lists the items of b (best effort: raw interface prefixes inside lists make the walk stop
// descending at that point, which only reduces the number of positions).
func walkItems(b []byte, limit int) []itemPos {
	var out []itemPos
	var rec func(start, end int, parents []int)
	rec = func(start, end int, parents []int) {
		p := start
		for p < end && len(out) < limit {
			k := rawKind(b[p:end])
			if !k.ok {
				// maybe a 7-byte interface prefix (or the nil byte was a "byte" item): try to skip it
				if end-p > 7 {
					k2 := rawKind(b[p+7 : end])
					if k2.ok {
						p += 7
						continue
					}
				}
				return
			}
			out = append(out, itemPos{p, p + k.ts + k.cs, append([]int{}, parents...)})
			if k.kind == "list" && k.cs > 0 {
				rec(p+k.ts, p+k.ts+k.cs, append(append([]int{}, parents...), p))
			}
			p += k.ts + k.cs
		}
	}
	rec(0, len(b), nil)
	return out
}

// replaceItem rebuilds b with the item at pos replaced by repl. consistent: the enclosing list
// headers are rewritten to the new payload sizes ("child/" classes); otherwise they keep lying.
func replaceItem(b []byte, pos itemPos, repl []byte, consistent bool) []byte {
	out := cat(b[:pos.start], repl, b[pos.end:])
	if !consistent {
		return out
	}
	delta := len(repl) - (pos.end - pos.start)
	// rewrite headers innermost first; offsets of outer headers are unaffected by inner rewrites
	for i := len(pos.parents) - 1; i >= 0; i-- {
		ps := pos.parents[i]
		k := rawKind(b[ps:])
		if !k.ok {
			return out
		}
		newHdr := hdr(0xc0, k.cs+delta)
		out = cat(out[:ps], newHdr, out[ps+k.ts:])
		delta += len(newHdr) - k.ts
	}
	return out
}

// structuralMutations applies every item-level class at up to nPos randomly chosen item positions of
// enc (always including the top-level item), consistently and lying.
func structuralMutations(enc []byte, nPos int, rng *rand.Rand) []namedBytes {
	items := walkItems(enc, 4096)
	if len(items) == 0 {
		return nil
	}
	var chosen []itemPos
	chosen = append(chosen, items[0])
	for i := 0; i < nPos && len(items) > 1; i++ {
		chosen = append(chosen, items[1+rng.Intn(len(items)-1)])
	}
	var out []namedBytes
	for ci, pos := range chosen {
		it := enc[pos.start:pos.end]
		for _, m := range goItemMuts(it) {
			if ci == 0 && len(pos.parents) == 0 {
				out = append(out, namedBytes{m.name, cat(enc[:pos.start], m.b, enc[pos.end:])})
				continue
			}
			out = append(out, namedBytes{"child/" + m.name, replaceItem(enc, pos, m.b, true)})
			if len(m.b) != len(it) {
				out = append(out, namedBytes{"lying/" + m.name, replaceItem(enc, pos, m.b, false)})
			}
		}
	}
	return out
}

// textMutations: the integer-text and map-count classes (IntMuts / MapMuts) applied blindly to short
// ASCII-hex looking strings inside enc: '+' prefix, leading '0', upper case, huge count.
func textMutations(enc []byte, nPos int, rng *rand.Rand) []namedBytes {
	items := walkItems(enc, 4096)
	var cands []itemPos
	isHex := func(b []byte) bool {
		if len(b) == 0 || len(b) > 17 {
			return false
		}
		for i, x := range b {
			if !(x >= '0' && x <= '9' || x >= 'a' && x <= 'f' || i == 0 && x == '-') {
				return false
			}
		}
		return true
	}
	for _, it := range items {
		k := rawKind(enc[it.start:it.end])
		if k.ok && k.kind != "list" && isHex(enc[it.start+k.ts:it.end]) {
			cands = append(cands, it)
		}
	}
	var out []namedBytes
	for i := 0; i < nPos && len(cands) > 0; i++ {
		pos := cands[rng.Intn(len(cands))]
		k := rawKind(enc[pos.start:pos.end])
		tx := enc[pos.start+k.ts : pos.end]
		str := func(b []byte) []byte {
			if len(b) == 1 && b[0] < 0x80 {
				return b
			}
			return cat(hdr(0x80, len(b)), b)
		}
		out = append(out,
			namedBytes{"int-lead0", replaceItem(enc, pos, str(cat([]byte{'0'}, tx)), true)},
			namedBytes{"int-plus", replaceItem(enc, pos, str(cat([]byte{'+'}, tx)), true)},
			namedBytes{"int-nonhex", replaceItem(enc, pos, str(cat(tx, []byte{'g'})), true)},
			namedBytes{"int-empty", replaceItem(enc, pos, []byte{0x80}, true)},
			namedBytes{"map-hugelen", replaceItem(enc, pos, str([]byte("100000")), true)},
			namedBytes{"map-neglen", replaceItem(enc, pos, str([]byte("-1")), true)},
			namedBytes{"int-range", replaceItem(enc, pos, str([]byte("8000000000000000")), true)},
		)
	}
	return out
}

// byteNoise: seeded unstructured mutations (bit flips, random truncation, random splice) and random bytes.
func byteNoise(enc []byte, n int, rng *rand.Rand) []namedBytes {
	var out []namedBytes
	for i := 0; i < n; i++ {
		b := append([]byte{}, enc...)
		switch i % 4 {
		case 0:
			if len(b) > 0 {
				b[rng.Intn(len(b))] ^= 1 << uint(rng.Intn(8))
			}
			out = append(out, namedBytes{"noise/bitflip", b})
		case 1:
			if len(b) > 0 {
				b[rng.Intn(len(b))] = boundaryBytes[rng.Intn(len(boundaryBytes))]
			}
			out = append(out, namedBytes{"noise/boundary-byte", b})
		case 2:
			out = append(out, namedBytes{"noise/truncate", b[:rng.Intn(len(b)+1)]})
		default:
			if len(b) > 2 {
				i, j := rng.Intn(len(b)), rng.Intn(len(b))
				if i > j {
					i, j = j, i
				}
				b = cat(b[:i], b[j:])
			}
			out = append(out, namedBytes{"noise/cut", b})
		}
	}
	return out
}

var boundaryBytes = []byte{0x00, 0x01, 0x7f, 0x80, 0x81, 0xb7, 0xb8, 0xb9, 0xbf, 0xc0, 0xc1, 0xf7, 0xf8, 0xff}

func randomBytes(rng *rand.Rand) []byte {
	n := rng.Intn(48)
	if rng.Intn(8) == 0 {
		n = rng.Intn(600)
	}
	b := make([]byte, n)
	for i := range b {
		if rng.Intn(3) == 0 {
			b[i] = boundaryBytes[rng.Intn(len(boundaryBytes))]
		} else {
			b[i] = byte(rng.Intn(256))
		}
	}
	return b
}
