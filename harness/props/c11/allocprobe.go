package c11

// Allocation probes of level (i): the model inputs that carry a long-form header or a huge claimed
// length are decoded once more in single-threaded child processes, where runtime.MemStats.TotalAlloc
// around one call is the allocation of that call (in the parent several replay goroutines allocate
// concurrently), and where a fatal out-of-memory error is attributed instead of killing the check.

import (
	"bufio"
	"encoding/hex"
	"encoding/json"
	"fmt"
	"io/ioutil"
	"os"
	"sync"

	"verifh/core"
)

type allocJob struct {
	Kind   string `json:"kind"` // "allocprobe"
	File   string `json:"file"`
	Shard  int    `json:"shard"`
	Shards int    `json:"shards"`
}

type allocResult struct {
	Probed     int              `json:"probed"`
	MaxAlloc   uint64           `json:"max_alloc"`
	MaxAllocIn string           `json:"max_alloc_in"`
	Violations []core.Violation `json:"violations"`
}

func allocChild(c *core.Ctx, j allocJob) {
	w := bufio.NewWriter(os.Stdout)
	defer w.Flush()
	registerAll()
	f, err := os.Open(j.File)
	if err != nil {
		fmt.Fprintln(os.Stderr, err)
		os.Exit(3)
	}
	defer f.Close()
	sc := bufio.NewScanner(f)
	sc.Buffer(make([]byte, 1<<20), 64<<20)
	var res allocResult
	seen := map[string]bool{}
	n := 0
	for sc.Scan() {
		n++
		if n%j.Shards != j.Shard {
			continue
		}
		var p probeIn
		if json.Unmarshal(sc.Bytes(), &p) != nil {
			continue
		}
		tg := targets[p.Tgt]
		b, err := hex.DecodeString(p.Hex)
		if tg == nil || err != nil {
			continue
		}
		if n%512 == 0 || len(b) > 4096 {
			fmt.Fprintf(w, "AT %s %s\n", p.Tgt, hexShort(b))
			w.Flush()
		}
		for _, entry := range []string{"bytes", "reader"} {
			var cres callResult
			al := measured(func() { _, cres = tg.decode(b, entry) }, allocBound(len(b)))
			res.Probed++
			if al > res.MaxAlloc {
				res.MaxAlloc, res.MaxAllocIn = al, fmt.Sprintf("%s %s", tg.name, hexShort(b))
			}
			rec := map[string]interface{}{"target": tg.name, "go_type": tg.goType.String(), "entry": entry, "input_hex": p.Hex, "origin": p.What, "allocated": al, "bound": allocBound(len(b))}
			if al > allocBound(len(b)) {
				key := "alloc/" + tg.name
				if tg.name == "map" {
					key = "alloc/map-claimed-length"
				}
				if !seen[key] {
					seen[key] = true
					res.Violations = append(res.Violations, core.Violation{Key: key, Desc: fmt.Sprintf("decoding %d bytes into %s allocated %d bytes (bound %d): a claimed length is allocated before the input is checked", len(b), tg.goType, al, allocBound(len(b))), Record: rec})
				}
			}
			if cres.panic != "" {
				key := panicKey(cres.panic)
				if !seen[key] {
					seen[key] = true
					rec["panic"] = cres.panic
					res.Violations = append(res.Violations, core.Violation{Key: key, Desc: fmt.Sprintf("decoding into %s panicked instead of returning an error: %s", tg.goType, cres.panic), Record: rec})
				}
			}
		}
	}
	out, _ := json.Marshal(res)
	fmt.Fprintf(w, "RESULT %s\nDONE\n", out)
}

// runAllocProbes ships the collected inputs to child processes and folds their results into gs.
func runAllocProbes(c *core.Ctx, gs *grammarStats) {
	gs.mu.Lock()
	probes := gs.probes
	gs.probes = nil
	gs.mu.Unlock()
	if len(probes) == 0 {
		return
	}
	f, err := ioutil.TempFile("", "vc11probe")
	if err != nil {
		c.Infra("tempfile: %v", err)
		return
	}
	defer os.Remove(f.Name())
	bw := bufio.NewWriter(f)
	for _, p := range probes {
		b, _ := json.Marshal(p)
		bw.Write(b)
		bw.WriteByte('\n')
	}
	bw.Flush()
	f.Close()
	shards := c.Pick(4, 8)
	var wg sync.WaitGroup
	for s := 0; s < shards; s++ {
		wg.Add(1)
		go func(s int) {
			defer wg.Done()
			arg, _ := json.Marshal(allocJob{Kind: "allocprobe", File: f.Name(), Shard: s, Shards: shards})
			results, at, crash := c.RunChild(string(arg), c.MinutesT(3, 15))
			for _, rj := range results {
				var ar allocResult
				if json.Unmarshal([]byte(rj), &ar) != nil {
					continue
				}
				gs.mu.Lock()
				gs.allocProbed += ar.Probed
				gs.calls += ar.Probed
				if ar.MaxAlloc > gs.maxAlloc {
					gs.maxAlloc, gs.maxAllocIn = ar.MaxAlloc, ar.MaxAllocIn
				}
				gs.mu.Unlock()
				for _, v := range ar.Violations {
					c.Violate(v.Key, v.Desc, v.Record)
				}
			}
			if crash == "TIMEOUT" {
				c.Infra("allocation probe job %d timed out at %s", s, at)
			} else if crash != "" {
				reportCrash(c, s, "model-input/"+at+" | allocation probe", crash)
			}
		}(s)
	}
	wg.Wait()
}
