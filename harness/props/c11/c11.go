package c11

// C11 — wire and storage encoding is canonical, lossless, and safe on arbitrary input.
//
// Model: spec/Codec/Codec.tla — the wire grammar of libs/ser (RLP + registered-interface prefixes +
// text integers + sorted maps + optional pointers) as an encoder Enc and a type-directed decoder
// DecT in two flavours (as coded / strict). TLC checks, exhaustively within bounds, that the strict
// decoder is canonical, that the coded decoder agrees with it and has no leniency on the plain
// grammar, decode(encode(v)) = v, injectivity, and "a value or an error, nothing else".
//
// Binding, three levels:
//  (i)   model checking: everything TLC enumerated — every short input of the bounded universe with
//        the verdict of every decoder, every value with its encoding and the verdict on every
//        structural mutation of it, every registration order — is replayed on the real code
//        (EncodeToBytes / DecodeBytes / DecodeBytesWithType / DecodeReader / Split / CountValues /
//        RegisterInterface / RegisterConcrete) and compared: same bytes, same accept/reject, same value;
//  (ii)  exploration: a corpus of populated instances of the registered consensus / storage / wire
//        types goes through encode -> decode -> equal -> re-encode -> same bytes;
//  (iii) exploration: the corpus encodings go through the specification's mutation classes (the Go
//        operators are cross-checked against TLC's), noise, foreign encodings and random bytes into
//        every decoder entry point, in child processes: value or error, no panic, bounded allocation,
//        and decoder-produced values survive their own round trip.

import (
	"encoding/hex"
	"encoding/json"
	"fmt"
	"io/ioutil"
	"math/rand"
	"sort"
	"strings"
	"sync"
	"time"

	"verifh/core"
	"verifh/mbt"
	"verifh/tlc"
)

func init() { core.Register("C11", runC11) }

type childJob struct {
	Kind string `json:"kind"`
}

func runC11(c *core.Ctx) {
	if c.Child != "" {
		var k childJob
		if err := json.Unmarshal([]byte(c.Child), &k); err != nil {
			fmt.Println("bad job")
			return
		}
		switch k.Kind {
		case "typed":
			var j typedJob
			json.Unmarshal([]byte(c.Child), &j)
			typedChild(c, j)
		case "allocprobe":
			var j allocJob
			json.Unmarshal([]byte(c.Child), &j)
			allocChild(c, j)
		case "typedreplay":
			var j typedJob
			json.Unmarshal([]byte(c.Child), &j)
			typedReplayChild(c, j)
		case "registry":
			var j registryJob
			json.Unmarshal([]byte(c.Child), &j)
			registryChild(c, j)
		case "rawsizes":
			var j sizesJob
			json.Unmarshal([]byte(c.Child), &j)
			sizesChild(c, j)
		}
		return
	}
	o := c.Out()
	o.Level = "model_checking"
	o.Rule = "behaviour = one model-generated call sequence replayed on libs/ser: a byte string of the bounded universe fed to every decoder entry point of its target type, a model value encoded / decoded / pushed through every mutation class, or a registration order; plus one encode-decode-compare-re-encode round trip per corpus value (exploration). non-trivial = the input is accepted by a decoder or is a mutation of a valid encoding; evaluations = calls on the real code"
	o.Assumptions = []string{
		"level (i) (model checking) decides the grammar within the bounds of spec/Codec (inputs of at most 5-6 chunks over boundary alphabets, one header of every form with its size field over the boundary lattice 0 .. 2^64-1 followed by at most 257 (65537) bytes, values of depth <= 3, strings up to 256 bytes (65536 in the thorough tier), 2 interfaces x 3 concrete types); levels (ii)/(iii) are model-seeded exploration over a corpus, not exhaustive",
		"equal value = structural equality of what the encoding covers: caches/locks, rlp:\"-\" fields and unexported fields of default-encoded structs are not compared; nil and empty slices/maps, nil *big.Int and 0 are identified; times are compared by instant",
		"bounded allocation is measured (runtime.MemStats.TotalAlloc per call, bound 64 x input + 1 MiB, + 1 MiB for the WAL frame decoder's fixed cap), not proved",
		"the reactors' decodeMsg functions are unexported: their body, ser.DecodeBytesWithType(bz, &msg) into the reactor's message interface, is what is called",
		"never hangs = every call of a raw entry point returns within the watchdog period (12 s, thorough 30 s; the specification's loops end after at most one iteration per input byte); stateObject.GetCommittedState is covered through its decoder call ser.Split(enc), trie resolution through trie.decodeNode as called by trie.VerifyProof",
		"a malformed body of an interface value may be accepted because decodeCDCInterface drops the inner decoder's error: recorded as an observation, not compared",
	}
	o.Trusted = []string{"TLC", "the Go mirror types / value conversions of the model's targets (harness/props/c11/model.go)", "the structural comparator (equal.go; shown non-vacuous per type against the zero value)", "reflect, runtime.MemStats"}
	if err := checkDisfixConstants(); err != nil {
		c.Infra("%v", err)
		return
	}
	if c.Replay != "" {
		replayFile(c)
		return
	}
	registerAll()

	gs := newGrammarStats()
	type run struct {
		cfg     string
		kind    string // bytes | values | registry | ascoded | sizes | sizes-ascoded
		res     *tlc.Result
		keepDec []*label // a few labels kept for the negative controls
		keepVal []*label
		lines   []string
	}
	suffix := ""
	if c.Thorough() {
		suffix = "_thorough"
	}
	runs := []*run{
		{cfg: "CodecBytesA" + suffix + ".cfg", kind: "bytes"},
		{cfg: "CodecBytesB" + suffix + ".cfg", kind: "bytes"},
		{cfg: "CodecBytesC" + suffix + ".cfg", kind: "bytes"},
		{cfg: "CodecValues" + suffix + ".cfg", kind: "values"},
		{cfg: "CodecRegistry.cfg", kind: "registry"},
	}
	// size-field arithmetic: every header form x the boundary lattice of sizes x what follows x where it sits
	if c.Thorough() {
		runs = append(runs, &run{cfg: "CodecSizes_thorough.cfg", kind: "sizes"})
		// the as-coded variant: TLC itself finds the input on which libs/trie's compactToHex panics (documentary)
		runs = append(runs, &run{cfg: "CodecSizesAsCoded.cfg", kind: "sizes-ascoded"})
	} else {
		runs = append(runs, &run{cfg: "CodecSizesS.cfg", kind: "sizes"}, &run{cfg: "CodecSizesL.cfg", kind: "sizes"})
	}
	sizes := newSizesSink(c)
	if sizes == nil {
		return
	}
	defer sizes.close()
	if c.Thorough() {
		// untyped inputs of up to 6 bytes over the quick alphabet
		runs = append(runs, &run{cfg: "CodecBytesA6_thorough.cfg", kind: "bytes"})
		// the as-coded variant of the registry model: TLC itself finds the panic (documentary; the verdict comes from the replay)
		runs = append(runs, &run{cfg: "CodecRegistryAsCoded.cfg", kind: "ascoded"})
	}
	// level (ii)/(iii) jobs run while TLC works
	typedDone := make(chan struct{})
	var typedAgg typedResult
	typedAgg.ByClass = map[string]int{}
	go func() {
		defer close(typedDone)
		runTypedJobs(c, &typedAgg)
	}()

	var wg sync.WaitGroup
	for _, r := range runs {
		wg.Add(1)
		go func(r *run) {
			defer wg.Done()
			var mu sync.Mutex
			onLine := func(line string) {
				switch r.kind {
				case "registry", "ascoded":
					mu.Lock()
					r.lines = append(r.lines, line)
					mu.Unlock()
					return
				case "sizes":
					sizes.onLine(c, gs, line)
					return
				case "sizes-ascoded":
					return
				}
				l, err := parseLabel(line)
				if err != nil {
					c.Infra("unparsable line from %s: %v", r.cfg, err)
					return
				}
				switch l.Op {
				case "dec":
					replayDec(c, gs, l)
					if l.R.Ok && len(l.S) >= 3 && len(r.keepDec) < 4 {
						r.keepDec = append(r.keepDec, l)
					}
				case "val":
					replayVal(c, gs, l)
					if len(r.keepVal) < 40 && (l.Tgt == "rec" || l.Tgt == "map" || l.Tgt == "ifcs") {
						r.keepVal = append(r.keepVal, l)
					}
				}
			}
			r.res = c.TLC(tlc.Options{SpecDir: c.SpecDir("Codec"), Module: "Codec", Config: r.cfg, Workers: 1, Timeout: c.MinutesT(4, 25), OnLine: onLine, HeapMB: 3072})
		}(r)
	}
	wg.Wait()
	<-typedDone

	ok := true
	var regLines []string
	for _, r := range runs {
		if r.res == nil {
			ok = false
			continue
		}
		switch r.kind {
		case "ascoded":
			// the as-coded variant of the registry model is expected to violate RegNoPanic: that is the lead
			// the replay of the as-designed model reproduces (or not) on the real code
			c.SetExtra("as_coded_registry_model", fmt.Sprintf("TLC: violated=%q (expected RegNoPanic: decoding a registered type that does not implement the target interface panics in the model of the code as written)", r.res.Violated))
			if r.res.Violated == "" {
				c.Drift("the as-coded registry model no longer violates RegNoPanic")
			}
			continue
		case "sizes-ascoded":
			c.SetExtra("as_coded_sizes_model", fmt.Sprintf("TLC: violated=%q (expected SizesInv: in the model of libs/trie as written, decodeNode of a short node with an empty key -- c2 80 01 -- panics in compactToHex)", r.res.Violated))
			continue
		}
		if r.res.Violated != "" || !r.res.Finished {
			c.Infra("Codec model %s: %s\n%s", r.cfg, r.res.Describe(), r.res.Tail)
			ok = false
			continue
		}
		if r.kind == "registry" {
			regLines = r.lines
		}
	}
	if !ok {
		return
	}
	o.Exhaustive = true

	// allocation of the model inputs with long-form headers / huge claims, measured in quiet child processes
	runAllocProbes(c, gs)

	// the size-field inputs through every raw entry point and trie.decodeNode, under a watchdog, in child processes
	sizes.run(c, gs)

	// registry: every registration order that the tour needs to cover all edges, each in a fresh process
	regPaths, regSteps := replayRegistry(c, regLines)

	// negative controls: a corrupted expectation must be noticed, otherwise the binding is vacuous
	var keepDec, keepVal []*label
	for _, r := range runs {
		keepDec = append(keepDec, r.keepDec...)
		keepVal = append(keepVal, r.keepVal...)
	}
	negativeControls(c, keepDec, keepVal)
	c.SetExtra("negative_controls_caught_sizes", sizes.negativeControls(c))

	o.Traces = gs.inputs + gs.szRecords + gs.values + regPaths + typedAgg.RoundTrips
	o.Evaluations = gs.calls + regSteps*12 + typedAgg.Calls
	o.Distinct = gs.accepted + gs.mutations + typedAgg.Items
	c.SetExtra("grammar_level", map[string]interface{}{
		"inputs_replayed":                gs.inputs,
		"inputs_per_target":              gs.perTarget,
		"model_values_encoded":           gs.values,
		"mutations_replayed":             gs.mutations,
		"accepted_by_model":              gs.accepted,
		"lenient_accepts_by_class":       gs.lenientBy,
		"lenient_accepts":                gs.lenient,
		"interface_body_errors_in_model": gs.ibSeen,
		"of_which_accepted_by_the_code":  gs.ibDropped,
		"examples_accepted_by_the_code":  gs.ibExamples,
		"error_class_differences":        gs.classDrift,
		"alloc_probes":                   gs.allocProbed,
		"max_alloc_bytes":                gs.maxAlloc,
		"max_alloc_input":                gs.maxAllocIn,
		"registry_orders_replayed":       regPaths,
		"registry_steps":                 regSteps,
	})
	if gs.ibDropped > 0 {
		c.Drift("observation: %d model inputs with a malformed interface body are accepted by the real decoder (decodeCDCInterface discards the inner decoder's error); not claimed by the property", gs.ibDropped)
	}
	nd := 0
	for k, n := range gs.classDrift {
		if nd < 8 {
			c.Drift("error class differs (%d inputs): %s", n, k)
		}
		nd++
	}
	c.SetExtra("typed_level", map[string]interface{}{
		"corpus_items":               typedAgg.Items,
		"types":                      typedAgg.Types,
		"round_trips":                typedAgg.RoundTrips,
		"inputs":                     typedAgg.Inputs,
		"calls":                      typedAgg.Calls,
		"accepted":                   typedAgg.Accepted,
		"accepted_non_canonical":     typedAgg.NonCanonical,
		"decoder_values_revalidated": typedAgg.Revalidated,
		"inputs_by_class":            typedAgg.ByClass,
		"max_alloc_bytes":            typedAgg.MaxAlloc,
		"max_alloc_at":               typedAgg.MaxAllocAt,
	})
	for _, s := range gs.sample {
		c.Sample(s)
	}
	if typedAgg.Sample != nil {
		c.Sample(typedAgg.Sample)
	}
	c.SetExtra("bounds", map[string]interface{}{"configs": func() (n []string) {
		for _, r := range runs {
			n = append(n, r.cfg)
		}
		return
	}()})
	o.Explanation = "level (i) is model checking (TLC exhaustive over the bounded universes, every enumerated case replayed on the code); levels (ii) and (iii) are exploration seeded by the model's mutation classes"
}

// ---- level (ii)/(iii) orchestration ---------------------------------------------------------

func runTypedJobs(c *core.Ctx, agg *typedResult) {
	shards := 8
	if c.Thorough() {
		shards = 12
	}
	var wg sync.WaitGroup
	var mu sync.Mutex
	types := map[string]bool{}
	for s := 0; s < shards; s++ {
		wg.Add(1)
		go func(s int) {
			defer wg.Done()
			// a job whose process dies is resumed after the corpus item it died on (at most 6 times)
			var results []string
			var at, crash string
			var crashes []string
			after := ""
			for attempt := 0; attempt < 7; attempt++ {
				arg, _ := json.Marshal(typedJob{Kind: "typed", Shard: s, Shards: shards, After: after})
				var rs []string
				rs, at, crash = c.RunChild(string(arg), c.MinutesT(4, 25))
				results = append(results, rs...)
				if crash == "" || crash == "TIMEOUT" {
					break
				}
				item := strings.SplitN(at, " | ", 2)[0]
				crashes = append(crashes, at)
				reportCrash(c, s, at, crash)
				if item == after || item == "" {
					break
				}
				after = item
			}
			if len(crashes) > 0 {
				crash = ""
			}
			mu.Lock()
			defer mu.Unlock()
			for _, rj := range results {
				var tr typedResult
				if json.Unmarshal([]byte(rj), &tr) != nil {
					continue
				}
				agg.Items += tr.Items
				agg.RoundTrips += tr.RoundTrips
				agg.Inputs += tr.Inputs
				agg.Calls += tr.Calls
				agg.Accepted += tr.Accepted
				agg.NonCanonical += tr.NonCanonical
				agg.Revalidated += tr.Revalidated
				for k, n := range tr.ByClass {
					agg.ByClass[k] += n
				}
				if tr.MaxAlloc > agg.MaxAlloc {
					agg.MaxAlloc, agg.MaxAllocAt = tr.MaxAlloc, tr.MaxAllocAt
				}
				for _, t := range tr.Types {
					types[t] = true
				}
				if agg.Sample == nil {
					agg.Sample = tr.Sample
				}
				for _, v := range tr.Violations {
					mu.Unlock()
					c.Violate(v.Key, v.Desc, v.Record)
					mu.Lock()
				}
				for _, d := range tr.Drift {
					mu.Unlock()
					c.Drift("%s", d)
					mu.Lock()
				}
				for _, bl := range tr.Blind {
					mu.Unlock()
					c.Infra("vacuous comparison: a populated %s is not distinguished from the zero value", bl)
					mu.Lock()
				}
			}
			if crash == "TIMEOUT" {
				mu.Unlock()
				c.Infra("typed job %d timed out at %s", s, at)
				mu.Lock()
			}
			if len(crashes) > 0 {
				agg.Crashes += len(crashes)
			}
		}(s)
	}
	wg.Wait()
	for t := range types {
		agg.Types = append(agg.Types, t)
	}
	sort.Strings(agg.Types)
}

// reportCrash: the process decoding the input died: an unrecoverable failure of the code under test.
func reportCrash(c *core.Ctx, shard int, at, crash string) {
	parts := strings.SplitN(at, " | ", 2)
	item, phase := at, ""
	if len(parts) == 2 {
		item, phase = parts[0], parts[1]
	}
	if !strings.Contains(crash, "/repo/") && !strings.Contains(crash, "linkchain") {
		c.Infra("typed job %d died outside the code under test at %s: %s", shard, at, crash)
		return
	}
	key := "crash/" + strings.SplitN(item, "/", 2)[0]
	desc := fmt.Sprintf("the process died while decoding (%s, %s)", item, phase)
	if strings.Contains(crash, "makeMapDecoder") && (strings.Contains(crash, "out of memory") || strings.Contains(crash, "makemap") || strings.Contains(crash, "MakeMapWithSize")) {
		// same cause as the measured over-allocation: the claimed number of map entries is allocated up front
		key = "alloc/map-claimed-length"
		desc = fmt.Sprintf("fatal error (out of memory) in makeMapDecoder: the claimed number of map entries is allocated before any entry is read (%s, %s)", item, phase)
	}
	c.Violate(key, desc, map[string]interface{}{"item": item, "phase": phase, "crash": crash})
}

// ---- registry mode ----------------------------------------------------------------------------

type regObs struct {
	I   string `json:"i"`
	C   string `json:"c"`
	Enc string `json:"enc"`
	Dec string `json:"dec"`
}

type regAct struct {
	Op  string   `json:"op"`
	X   string   `json:"x"`
	Obs []regObs `json:"obs"`
}

type registryJob struct {
	Kind  string   `json:"kind"`
	Order []string `json:"order"`
}

type registryStep struct {
	X   string   `json:"x"`
	Obs []regObs `json:"obs"`
}

func replayRegistry(c *core.Ctx, lines []string) (paths, steps int) {
	g, err := mbt.Load(lines)
	if err != nil {
		c.Infra("registry graph: %v", err)
		return
	}
	c.SetExtra("registry_model", map[string]int{"states": len(g.States), "edges": len(g.Edges)})
	seqs := g.Tour(0, rand.New(rand.NewSource(c.Seed)))
	seqs = append(seqs, g.Walks(c.Pick(4, 40), 5, c.Rng)...)
	var wg sync.WaitGroup
	var mu sync.Mutex
	sem := make(chan struct{}, 8)
	for _, seq := range seqs {
		var acts []regAct
		for _, ei := range seq {
			var a regAct
			json.Unmarshal(g.Edges[ei].Act, &a)
			acts = append(acts, a)
		}
		if len(acts) == 0 {
			continue
		}
		wg.Add(1)
		go func(acts []regAct) {
			defer wg.Done()
			sem <- struct{}{}
			defer func() { <-sem }()
			var j registryJob
			j.Kind = "registry"
			for _, a := range acts {
				j.Order = append(j.Order, a.X)
			}
			arg, _ := json.Marshal(j)
			results, at, crash := c.RunChild(string(arg), 2*time.Minute)
			mu.Lock()
			paths++
			mu.Unlock()
			if crash == "TIMEOUT" {
				c.Infra("registry job %v timed out", j.Order)
				return
			}
			if crash != "" {
				c.Violate("crash/registry", fmt.Sprintf("the process died after registering %v (at %s)", j.Order, at), map[string]interface{}{"order": j.Order, "crash": crash})
				return
			}
			for k, rj := range results {
				if k >= len(acts) {
					break
				}
				var st registryStep
				if json.Unmarshal([]byte(rj), &st) != nil {
					c.Infra("registry job: bad result %q", rj)
					return
				}
				mu.Lock()
				steps++
				mu.Unlock()
				if bad := compareRegistry(acts[k].Obs, st.Obs); bad != "" {
					key := "registry/" + bad[:strings.Index(bad, ":")]
					if strings.Contains(bad, "panic") {
						key = "panic/iface-prefix-not-assignable"
					}
					c.Violate(key, fmt.Sprintf("after registering %v: %s", j.Order[:k+1], bad),
						map[string]interface{}{"registration_order": j.Order[:k+1], "model_observation": acts[k].Obs, "real_observation": st.Obs})
					return
				}
			}
			if len(results) < len(acts) {
				c.Infra("registry job %v reported %d of %d steps", j.Order, len(results), len(acts))
			}
		}(acts)
	}
	wg.Wait()
	return
}

// compareRegistry returns "" or "<class>: description" for the first difference.
func compareRegistry(model, real []regObs) string {
	if len(model) != len(real) {
		return "shape: observation tables differ in size"
	}
	for i, m := range model {
		r := real[i]
		if m.I != r.I || m.C != r.C {
			return "shape: observation tables differ in order"
		}
		if m.Enc != r.Enc {
			return fmt.Sprintf("encode: a %s value held by a %s variable: code %q, specification %q", m.C, m.I, r.Enc, m.Enc)
		}
		if m.Dec != r.Dec {
			return fmt.Sprintf("decode: the encoding of a %s value decoded into a %s variable: code %q, specification %q", m.C, m.I, r.Dec, m.Dec)
		}
	}
	return ""
}

// ---- negative controls -------------------------------------------------------------------------

func negativeControls(c *core.Ctx, decs, vals []*label) {
	if len(decs) == 0 || len(vals) == 0 {
		c.Infra("negative controls: nothing kept to corrupt")
		return
	}
	caught := 0
	// 1. a flipped accept/reject verdict of the specification
	{
		l := *decs[0]
		l.R.Ok, l.R.C = false, "canon_size"
		l.St.Ok = false
		sc := core.NewCtx(c.ID, c.Tier, c.Seed, c.Root)
		replayDec(sc, newGrammarStats(), &l)
		if len(sc.Out().Violations) == 0 {
			c.Infra("vacuous binding: a flipped verdict for input %s (%s) was not noticed", hexOf(l.S), l.Tgt)
		} else {
			caught++
		}
	}
	// 2. a corrupted expected value
	{
		l := *decs[len(decs)-1]
		v := *l.R.V
		v.B = append(append([]int{}, v.B...), 1)
		l.R.V = &v
		sc := core.NewCtx(c.ID, c.Tier, c.Seed, c.Root)
		replayDec(sc, newGrammarStats(), &l)
		if len(sc.Out().Violations) == 0 {
			c.Infra("vacuous binding: a corrupted expected value for input %s (%s) was not noticed", hexOf(l.S), l.Tgt)
		} else {
			caught++
		}
	}
	// 3. a corrupted expected encoding
	{
		l := *vals[len(vals)/2]
		l.S = append([]int{}, l.S...)
		l.S[len(l.S)-1] ^= 1
		l.Muts = nil
		sc := core.NewCtx(c.ID, c.Tier, c.Seed, c.Root)
		replayVal(sc, newGrammarStats(), &l)
		if len(sc.Out().Violations) == 0 {
			c.Infra("vacuous binding: a corrupted expected encoding of %v (%s) was not noticed", l.V, l.Tgt)
		} else {
			caught++
		}
	}
	// 4. a corrupted registry observation
	{
		m := []regObs{{"gI", "gA", "prefixed", "value"}}
		r := []regObs{{"gI", "gA", "prefixed", "error"}}
		if compareRegistry(m, r) == "" {
			c.Infra("vacuous binding: registry comparison")
		} else {
			caught++
		}
	}
	c.SetExtra("negative_controls_caught", caught)
}

// ---- --replay <file> -----------------------------------------------------------------------------

// replayFile re-executes exactly the case recorded in a replay file.
func replayFile(c *core.Ctx) {
	b, err := ioutil.ReadFile(c.Replay)
	if err != nil {
		c.Infra("replay file: %v", err)
		return
	}
	var rf struct {
		Key    string                 `json:"key"`
		Seed   int64                  `json:"seed"`
		Record map[string]interface{} `json:"record"`
	}
	if err := json.Unmarshal(b, &rf); err != nil {
		c.Infra("replay file: %v", err)
		return
	}
	c.Seed = rf.Seed
	str := func(k string) string { s, _ := rf.Record[k].(string); return s }
	switch {
	case rf.Record["registration_order"] != nil:
		var order []string
		for _, x := range rf.Record["registration_order"].([]interface{}) {
			order = append(order, fmt.Sprint(x))
		}
		var model []regObs
		mb, _ := json.Marshal(rf.Record["model_observation"])
		json.Unmarshal(mb, &model)
		arg, _ := json.Marshal(registryJob{Kind: "registry", Order: order})
		results, at, crash := c.RunChild(string(arg), 2*time.Minute)
		if crash != "" {
			c.Violate(rf.Key, fmt.Sprintf("the process died after registering %v (at %s)", order, at), map[string]interface{}{"crash": crash})
			return
		}
		if len(results) == len(order) {
			var st registryStep
			json.Unmarshal([]byte(results[len(results)-1]), &st)
			if bad := compareRegistry(model, st.Obs); bad != "" {
				c.Violate(rf.Key, fmt.Sprintf("after registering %v: %s", order, bad), map[string]interface{}{"registration_order": order, "model_observation": model, "real_observation": st.Obs})
			}
		}
		c.Out().Traces, c.Out().Evaluations = 1, len(order)*12
	case str("target") != "" && str("input_hex") != "":
		registerAll()
		tg := targets[str("target")]
		in, err := hex.DecodeString(str("input_hex"))
		if tg == nil || err != nil {
			c.Infra("replay file: unknown target / bad input")
			return
		}
		var r, st verdict
		mb, _ := json.Marshal(rf.Record["model_r"])
		json.Unmarshal(mb, &r)
		mb, _ = json.Marshal(rf.Record["model_st"])
		json.Unmarshal(mb, &st)
		ints := make([]int, len(in))
		for i, x := range in {
			ints[i] = int(x)
		}
		gs := newGrammarStats()
		checkDecode(c, gs, tg, ints, r, st, "replay of "+str("origin"), true)
		runAllocProbes(c, gs)
		c.Out().Traces, c.Out().Evaluations = 1, gs.calls
	case str("item") != "":
		if strings.Contains(str("input_hex"), "...(") {
			c.Infra("replay file: the recorded input was truncated")
			return
		}
		arg, _ := json.Marshal(typedJob{Kind: "typedreplay", Item: str("item"), Entry: str("entry"), Class: str("class"), InputHex: str("input_hex")})
		if str("phase") != "" && str("entry") == "" {
			c.Infra("replay of a process crash: re-run the tier with seed %d (the crashing input is generated, not recorded)", rf.Seed)
			return
		}
		results, at, crash := c.RunChild(string(arg), 5*time.Minute)
		if crash != "" && crash != "TIMEOUT" {
			reportCrash(c, 0, at, crash)
		}
		for _, rj := range results {
			var tr typedResult
			if json.Unmarshal([]byte(rj), &tr) == nil {
				for _, v := range tr.Violations {
					c.Violate(v.Key, v.Desc, v.Record)
				}
				c.Out().Evaluations += tr.Calls
			}
		}
		c.Out().Traces = 1
	default:
		c.Infra("replay file: record not understood")
	}
}
