package c11

// "Equal value" for the typed round trip: a structural comparison of exactly what the encoding
// covers. Not compared: caches and locks (atomic.Value, sync.*), fields tagged rlp:"-", unexported
// fields of structs that use the default struct encoding (the encoder skips them). Identified:
// nil and empty slices / maps, a nil *big.Int and zero (the wire has one form for each pair),
// times by instant.

import (
	"fmt"
	"math/big"
	"reflect"
	"strings"
	"sync"
	"sync/atomic"
	"time"
	"unsafe"

	"github.com/lianxiangcloud/linkchain/libs/ser"
)

var (
	bigIntType    = reflect.TypeOf(big.Int{})
	timeTypeR     = reflect.TypeOf(time.Time{})
	atomicValType = reflect.TypeOf(atomic.Value{})
	mutexType     = reflect.TypeOf(sync.Mutex{})
	rwMutexType   = reflect.TypeOf(sync.RWMutex{})
	onceType      = reflect.TypeOf(sync.Once{})
	encoderType   = reflect.TypeOf((*ser.Encoder)(nil)).Elem()
)

// access makes a value obtained through unexported fields usable (readable through Interface()).
func access(v reflect.Value) reflect.Value {
	if v.CanInterface() {
		return v
	}
	if v.CanAddr() {
		return reflect.NewAt(v.Type(), unsafe.Pointer(v.UnsafeAddr())).Elem()
	}
	return v
}

func addressable(v reflect.Value) reflect.Value {
	if v.CanAddr() {
		return v
	}
	c := reflect.New(v.Type()).Elem()
	if v.CanInterface() {
		c.Set(v)
	}
	return c
}

func skippedType(t reflect.Type) bool {
	switch t {
	case atomicValType, mutexType, rwMutexType, onceType:
		return true
	}
	return t.Kind() == reflect.Func || t.Kind() == reflect.Chan || t.Kind() == reflect.UnsafePointer
}

func customEncoded(t reflect.Type) bool {
	return t.Implements(encoderType) || reflect.PtrTo(t).Implements(encoderType)
}

func isEmptyish(v reflect.Value) bool {
	switch v.Kind() {
	case reflect.Slice, reflect.Map:
		return v.Len() == 0
	}
	return false
}

// diff returns "" if a and b are equal as far as the encoding is concerned, else the first difference.
func diff(a, b reflect.Value, path string, depth int) string {
	if depth > 64 {
		return ""
	}
	if !a.IsValid() || !b.IsValid() {
		if a.IsValid() != b.IsValid() {
			return path + ": one side invalid"
		}
		return ""
	}
	if a.Type() != b.Type() {
		return fmt.Sprintf("%s: type %v vs %v", path, a.Type(), b.Type())
	}
	t := a.Type()
	if skippedType(t) {
		return ""
	}
	a, b = access(a), access(b)
	switch {
	case t == timeTypeR:
		if a.CanInterface() && b.CanInterface() {
			ta, tb := a.Interface().(time.Time), b.Interface().(time.Time)
			if !ta.Equal(tb) {
				return fmt.Sprintf("%s: time %v vs %v", path, ta, tb)
			}
		}
		return ""
	case t == bigIntType:
		aa, bb := addressable(a), addressable(b)
		x, y := aa.Addr().Interface().(*big.Int), bb.Addr().Interface().(*big.Int)
		if x.Cmp(y) != 0 {
			return fmt.Sprintf("%s: %v vs %v", path, x, y)
		}
		return ""
	}
	switch t.Kind() {
	case reflect.Ptr:
		if t.Elem() == bigIntType {
			var x, y *big.Int
			if a.CanInterface() && b.CanInterface() {
				x, y = a.Interface().(*big.Int), b.Interface().(*big.Int)
			}
			if x == nil {
				x = new(big.Int)
			}
			if y == nil {
				y = new(big.Int)
			}
			if x.Cmp(y) != 0 {
				return fmt.Sprintf("%s: %v vs %v", path, x, y)
			}
			return ""
		}
		if a.IsNil() || b.IsNil() {
			if a.IsNil() != b.IsNil() {
				return fmt.Sprintf("%s: nil pointer vs non-nil (%v)", path, t)
			}
			return ""
		}
		return diff(a.Elem(), b.Elem(), path, depth+1)
	case reflect.Interface:
		if a.IsNil() || b.IsNil() {
			if a.IsNil() != b.IsNil() {
				return fmt.Sprintf("%s: nil interface vs non-nil", path)
			}
			return ""
		}
		ea, eb := a.Elem(), b.Elem()
		if ea.Type() != eb.Type() {
			return fmt.Sprintf("%s: dynamic type %v vs %v", path, ea.Type(), eb.Type())
		}
		return diff(addressable(ea), addressable(eb), path+"("+ea.Type().String()+")", depth+1)
	case reflect.Slice:
		if isEmptyish(a) && isEmptyish(b) {
			return ""
		}
		if a.Len() != b.Len() {
			return fmt.Sprintf("%s: length %d vs %d", path, a.Len(), b.Len())
		}
		if t.Elem().Kind() == reflect.Uint8 {
			for i := 0; i < a.Len(); i++ {
				if a.Index(i).Uint() != b.Index(i).Uint() {
					return fmt.Sprintf("%s[%d]: %x vs %x", path, i, a.Index(i).Uint(), b.Index(i).Uint())
				}
			}
			return ""
		}
		for i := 0; i < a.Len(); i++ {
			if d := diff(a.Index(i), b.Index(i), fmt.Sprintf("%s[%d]", path, i), depth+1); d != "" {
				return d
			}
		}
		return ""
	case reflect.Array:
		for i := 0; i < a.Len(); i++ {
			if d := diff(a.Index(i), b.Index(i), fmt.Sprintf("%s[%d]", path, i), depth+1); d != "" {
				return d
			}
		}
		return ""
	case reflect.Map:
		if isEmptyish(a) && isEmptyish(b) {
			return ""
		}
		if a.Len() != b.Len() {
			return fmt.Sprintf("%s: map size %d vs %d", path, a.Len(), b.Len())
		}
		for _, k := range a.MapKeys() {
			vb := b.MapIndex(k)
			if !vb.IsValid() {
				return fmt.Sprintf("%s: key %v missing", path, k)
			}
			if d := diff(addressable(a.MapIndex(k)), addressable(vb), fmt.Sprintf("%s[%v]", path, k), depth+1); d != "" {
				return d
			}
		}
		return ""
	case reflect.Struct:
		custom := customEncoded(t)
		for i := 0; i < t.NumField(); i++ {
			f := t.Field(i)
			if strings.Contains(f.Tag.Get("rlp"), "-") {
				continue
			}
			if f.PkgPath != "" && !custom {
				continue // unexported and the default struct writer skips it
			}
			if skippedType(f.Type) {
				continue
			}
			if d := diff(a.Field(i), b.Field(i), path+"."+f.Name, depth+1); d != "" {
				return d
			}
		}
		return ""
	case reflect.Bool:
		if a.Bool() != b.Bool() {
			return fmt.Sprintf("%s: %v vs %v", path, a.Bool(), b.Bool())
		}
	case reflect.Int, reflect.Int8, reflect.Int16, reflect.Int32, reflect.Int64:
		if a.Int() != b.Int() {
			return fmt.Sprintf("%s: %d vs %d", path, a.Int(), b.Int())
		}
	case reflect.Uint, reflect.Uint8, reflect.Uint16, reflect.Uint32, reflect.Uint64, reflect.Uintptr:
		if a.Uint() != b.Uint() {
			return fmt.Sprintf("%s: %d vs %d", path, a.Uint(), b.Uint())
		}
	case reflect.Float32, reflect.Float64:
		if a.Float() != b.Float() {
			return fmt.Sprintf("%s: %v vs %v", path, a.Float(), b.Float())
		}
	case reflect.String:
		if a.String() != b.String() {
			return fmt.Sprintf("%s: %q vs %q", path, a.String(), b.String())
		}
	}
	return ""
}
