package c11

// Registry mode on the real code: a fresh process registers the model's interfaces and concrete
// types in the given order; after every registration it observes, for each (interface, concrete)
// pair, how a value encodes through the interface and how the fully-registered encoding decodes
// into the interface (the observation ObserveOne of the specification).

import (
	"bufio"
	"bytes"
	"encoding/json"
	"fmt"
	"os"
	"reflect"

	"github.com/lianxiangcloud/linkchain/libs/ser"

	"verifh/core"
)

// the sample values of the specification (SampleVal): gA{300}, gV{{1,2}}, gB{5}
func sampleConcrete(c string) interface{} {
	switch c {
	case "gA":
		return &gA{X: 300}
	case "gV":
		return gV{B: []byte{1, 2}}
	default:
		return &gB{X: 5}
	}
}

var sampleBody = map[string][]byte{"gA": {0xc3, 0x82, 0x01, 0x2c}, "gV": {0xc3, 0x82, 0x01, 0x02}, "gB": {0xc1, 0x05}}
var sampleName = map[string]string{"gA": nameGA, "gV": nameGV, "gB": nameGB}

func observeOne(i, cn string) regObs {
	o := regObs{I: i, C: cn}
	val := sampleConcrete(cn)
	body := sampleBody[cn]
	full := append(disfixOf(sampleName[cn]), body...)
	// encode through the interface
	var enc []byte
	var res callResult
	assignable := true
	switch i {
	case "gI":
		x, ok := val.(gI)
		if !ok {
			assignable = false
		} else {
			res = guard(func() error { var err error; enc, err = ser.EncodeToBytes(&x); return err })
		}
	default:
		var x gE = val
		res = guard(func() error { var err error; enc, err = ser.EncodeToBytes(&x); return err })
	}
	switch {
	case !assignable:
		o.Enc = "n/a"
	case res.panic != "":
		o.Enc = "panic"
	case res.err != nil:
		o.Enc = "error"
	case bytes.Equal(enc, full):
		o.Enc = "prefixed"
	case bytes.Equal(enc, body):
		o.Enc = "plain"
	default:
		o.Enc = fmt.Sprintf("other:%x", enc)
	}
	// decode the fully registered encoding into the interface
	var got interface{}
	switch i {
	case "gI":
		var x gI
		res = guard(func() error { return ser.DecodeBytes(full, &x) })
		got = x
	default:
		var x gE
		res = guard(func() error { return ser.DecodeBytes(full, &x) })
		got = x
	}
	switch {
	case res.panic != "":
		o.Dec = "panic"
		if len(res.panic) > 0 {
			o.Dec = "panic"
		}
	case res.err != nil:
		o.Dec = "error"
	case reflect.DeepEqual(got, val):
		o.Dec = "value"
	default:
		switch got.(type) {
		case []byte, []interface{}:
			o.Dec = "generic"
		default:
			o.Dec = fmt.Sprintf("other:%T", got)
		}
	}
	return o
}

func registryChild(c *core.Ctx, j registryJob) {
	w := bufio.NewWriter(os.Stdout)
	defer w.Flush()
	for _, x := range j.Order {
		fmt.Fprintf(w, "AT registering %s\n", x)
		w.Flush()
		registerOne(x)
		st := registryStep{X: x}
		for _, i := range []string{"gI", "gE"} {
			for _, cn := range []string{"gA", "gV", "gB"} {
				st.Obs = append(st.Obs, observeOne(i, cn))
			}
		}
		b, _ := json.Marshal(st)
		fmt.Fprintf(w, "RESULT %s\n", b)
	}
	fmt.Fprintln(w, "DONE")
}
