package c11

// The Go mirror of spec/Codec/Codec.tla's value and type universe: type descriptors,
// the concrete Go types the model's targets stand for, and the conversions between
// the model's JSON values and Go values.

import (
	"bytes"
	"encoding/json"
	"fmt"
	"io"
	"math/big"
	"reflect"
	"sort"
	"strings"
	"sync"

	"github.com/lianxiangcloud/linkchain/libs/ser"
)

// ---- the registered interface / concrete types of the bounded model -------------

type gI interface{ isG() } // one method: only gA and gV implement it
type gE interface{}        // empty interface (the shape of ConsensusMessage, WALMessage, ...)

type gA struct{ X uint64 } // registered as pointer
func (*gA) isG()           {}

type gV struct{ B []byte } // registered as value
func (gV) isG()            {}

type gB struct{ X uint64 } // registered as pointer; does NOT implement gI

const (
	nameGA = "verif/c11/gA"
	nameGV = "verif/c11/gV"
	nameGB = "verif/c11/gB"
)

// the disfix bytes written into Codec.tla (Disfix); checked against ser.NameToDisfix at run time
var specDisfix = map[string][]byte{
	nameGA: {255, 60, 123, 189, 94, 70, 255},
	nameGV: {31, 102, 7, 45, 87, 77, 110},
	nameGB: {44, 29, 7, 196, 201, 97, 173},
}

func disfixOf(name string) []byte {
	db, pb := ser.NameToDisfix(name)
	return append(append([]byte{}, db[:]...), pb[:]...)
}

func checkDisfixConstants() error {
	for n, want := range specDisfix {
		if got := disfixOf(n); !bytes.Equal(got, want) {
			return fmt.Errorf("Codec.tla Disfix for %s is %v, ser.NameToDisfix gives %v", n, want, got)
		}
	}
	return nil
}

var regOnce sync.Once

// registerAll registers the model's interfaces and concrete types (not done in init():
// the registry-mode jobs need a process in which they are not registered yet).
func registerAll() {
	regOnce.Do(func() {
		registerOne("gI")
		registerOne("gE")
		registerOne("gA")
		registerOne("gV")
		registerOne("gB")
	})
}

func registerOne(x string) {
	switch x {
	case "gI":
		ser.RegisterInterface((*gI)(nil), nil)
	case "gE":
		ser.RegisterInterface((*gE)(nil), nil)
	case "gA":
		ser.RegisterConcrete(&gA{}, nameGA, nil)
	case "gV":
		ser.RegisterConcrete(gV{}, nameGV, nil)
	case "gB":
		ser.RegisterConcrete(&gB{}, nameGB, nil)
	}
}

// ---- struct targets ---------------------------------------------------------------

type inner struct{ X uint64 }
type rec struct {
	A uint64
	P *inner
	L []uint64
}
type recq struct {
	A uint64
	Q []*inner
}
type ifcs struct {
	I gI
	N uint64
}
type addr20 [20]byte

// ---- type descriptors (Ty in the spec) -----------------------------------------

type ty struct {
	k string
	n int
	s []*ty
}

var (
	tAny   = &ty{k: "any"}
	tBytes = &ty{k: "bytes"}
	tU64   = &ty{k: "uint", n: 64}
	tU8    = &ty{k: "uint", n: 8}
	tBig   = &ty{k: "big"}
	tBool  = &ty{k: "bool"}
	tInt   = &ty{k: "int", n: 64}
	tRaw   = &ty{k: "raw"}
	tMap   = &ty{k: "map"}
	tInner = &ty{k: "struct", s: []*ty{tU64}}
	tRec   = &ty{k: "struct", s: []*ty{tU64, {k: "ptr", s: []*ty{tInner}}, {k: "list", s: []*ty{tU64}}}}
	tRecQ  = &ty{k: "struct", s: []*ty{tU64, {k: "list", s: []*ty{{k: "ptr", s: []*ty{tInner}}}}}}
	tIfcI  = &ty{k: "ifc", n: 1}
	tIfcE  = &ty{k: "ifc", n: 2}
	tIfcS  = &ty{k: "struct", s: []*ty{tIfcI, tU64}}
	tLIfc  = &ty{k: "list", s: []*ty{tIfcI}}
	tGA    = &ty{k: "struct", s: []*ty{tU64}}
	tGV    = &ty{k: "struct", s: []*ty{tBytes}}
	tGB    = &ty{k: "struct", s: []*ty{tU64}}
	cTypes = []*ty{nil, tGA, tGV, tGB}
)

func tArr(n int) *ty { return &ty{k: "arr", n: n} }

// target is one decoder entry point of the model: the descriptor and the Go type it stands for.
type target struct {
	name     string
	t        *ty
	goType   reflect.Type // type of the decode target (the pointer passed is *goType)
	withType bool         // DecodeBytesWithType / EncodeToBytesWithType into a registered concrete type
}

var targets = map[string]*target{}

func addTarget(name string, t *ty, proto interface{}, withType bool) {
	targets[name] = &target{name: name, t: t, goType: reflect.TypeOf(proto).Elem(), withType: withType}
}

func init() {
	addTarget("any", tAny, new(interface{}), false)
	addTarget("bytes", tBytes, new([]byte), false)
	addTarget("u64", tU64, new(uint64), false)
	addTarget("u8", tU8, new(uint8), false)
	addTarget("big", tBig, new(*big.Int), false)
	addTarget("bool", tBool, new(bool), false)
	addTarget("arr1", tArr(1), new([1]byte), false)
	addTarget("arr2", tArr(2), new([2]byte), false)
	addTarget("arr20", tArr(20), new(addr20), false)
	addTarget("raw", tRaw, new(ser.RawValue), false)
	addTarget("i64", tInt, new(int64), false)
	addTarget("rec", tRec, new(rec), false)
	addTarget("recq", tRecQ, new(recq), false)
	addTarget("ifcs", tIfcS, new(ifcs), false)
	addTarget("ifct", tIfcI, new(gI), false)
	addTarget("ifce", tIfcE, new(gE), false)
	addTarget("lifc", tLIfc, new([]gI), false)
	addTarget("map", tMap, new(map[addr20]*big.Int), false)
	addTarget("ptru", &ty{k: "ptr", s: []*ty{tU64}}, new(*uint64), false)
	addTarget("wt", tGA, new(gA), true)
}

// ---- model values ---------------------------------------------------------------------

// mv is a value of the model: {"t": kind, "b": bytes/nibbles, "e": children}.
type mv struct {
	T string `json:"t"`
	B []int  `json:"b"`
	E []*mv  `json:"e"`
}

func (v *mv) bytes() []byte {
	out := make([]byte, len(v.B))
	for i, x := range v.B {
		out[i] = byte(x)
	}
	return out
}

func mvStr(b []byte) *mv {
	v := &mv{T: "str", B: make([]int, len(b))}
	for i, x := range b {
		v.B[i] = int(x)
	}
	return v
}

func (v *mv) String() string {
	if v == nil {
		return "<none>"
	}
	switch v.T {
	case "str", "raw":
		return fmt.Sprintf("%s(%x)", v.T, v.bytes())
	case "int", "nint":
		s := ""
		for _, n := range v.B {
			s += fmt.Sprintf("%x", n)
		}
		if s == "" {
			s = "0"
		}
		if v.T == "nint" {
			s = "-" + s
		}
		return "int(" + s + ")"
	case "nil":
		return "nil"
	case "ifc":
		return fmt.Sprintf("ifc#%d%v", v.B[0], v.E[0])
	}
	var parts []string
	for _, e := range v.E {
		parts = append(parts, e.String())
	}
	return v.T + "[" + strings.Join(parts, " ") + "]"
}

func mvEqual(a, b *mv) bool {
	if a == nil || b == nil {
		return a == b
	}
	if a.T != b.T || len(a.B) != len(b.B) || len(a.E) != len(b.E) {
		return false
	}
	for i := range a.B {
		if a.B[i] != b.B[i] {
			return false
		}
	}
	for i := range a.E {
		if !mvEqual(a.E[i], b.E[i]) {
			return false
		}
	}
	return true
}

func intsToBytes(xs []int) []byte {
	out := make([]byte, len(xs))
	for i, x := range xs {
		out[i] = byte(x)
	}
	return out
}

// ---- Go value -> model value ----------------------------------------------------

func minimalBE(u uint64) []byte {
	var b []byte
	for u > 0 {
		b = append([]byte{byte(u)}, b...)
		u >>= 8
	}
	return b
}

func fromGo(t *ty, rv reflect.Value) (*mv, error) {
	switch t.k {
	case "any":
		if rv.Kind() == reflect.Interface {
			if rv.IsNil() {
				return &mv{T: "nil"}, nil
			}
			rv = rv.Elem()
		}
		switch x := rv.Interface().(type) {
		case []byte:
			return mvStr(x), nil
		case []interface{}:
			out := &mv{T: "list"}
			for _, e := range x {
				c, err := fromGo(t, reflect.ValueOf(&e).Elem())
				if err != nil {
					return nil, err
				}
				out.E = append(out.E, c)
			}
			return out, nil
		default:
			return nil, fmt.Errorf("untyped decode produced %T", x)
		}
	case "bytes":
		return mvStr(rv.Bytes()), nil
	case "uint":
		return mvStr(minimalBE(rv.Uint())), nil
	case "big":
		bi := rv.Interface().(*big.Int)
		if bi == nil {
			return mvStr(nil), nil
		}
		if bi.Sign() < 0 {
			return nil, fmt.Errorf("negative big integer")
		}
		return mvStr(bi.Bytes()), nil
	case "bool":
		if rv.Bool() {
			return mvStr([]byte{1}), nil
		}
		return mvStr(nil), nil
	case "int":
		i := rv.Int()
		out := &mv{T: "int"}
		var mag uint64
		if i < 0 {
			out.T = "nint"
			mag = uint64(-(i + 1)) + 1
		} else {
			mag = uint64(i)
		}
		var nib []int
		for mag > 0 {
			nib = append([]int{int(mag & 15)}, nib...)
			mag >>= 4
		}
		out.B = nib
		return out, nil
	case "arr":
		b := make([]byte, rv.Len())
		for i := range b {
			b[i] = byte(rv.Index(i).Uint())
		}
		return mvStr(b), nil
	case "raw":
		v := mvStr(rv.Bytes())
		v.T = "raw"
		return v, nil
	case "list":
		out := &mv{T: "list"}
		for i := 0; i < rv.Len(); i++ {
			c, err := fromGo(t.s[0], rv.Index(i))
			if err != nil {
				return nil, err
			}
			out.E = append(out.E, c)
		}
		return out, nil
	case "struct":
		out := &mv{T: "list"}
		for i, ft := range t.s {
			c, err := fromGo(ft, rv.Field(i))
			if err != nil {
				return nil, err
			}
			out.E = append(out.E, c)
		}
		return out, nil
	case "ptr":
		if rv.IsNil() {
			return &mv{T: "nil"}, nil
		}
		return fromGo(t.s[0], rv.Elem())
	case "ifc":
		if rv.IsNil() {
			return &mv{T: "nil"}, nil
		}
		var cn int
		var body reflect.Value
		switch x := rv.Interface().(type) {
		case *gA:
			if x == nil {
				return nil, fmt.Errorf("typed nil *gA in interface")
			}
			cn, body = 1, reflect.ValueOf(x).Elem()
		case gV:
			cn, body = 2, reflect.ValueOf(x)
		case *gB:
			if x == nil {
				return nil, fmt.Errorf("typed nil *gB in interface")
			}
			cn, body = 3, reflect.ValueOf(x).Elem()
		default:
			return nil, fmt.Errorf("interface holds unexpected %T", x)
		}
		b, err := fromGo(cTypes[cn], body)
		if err != nil {
			return nil, err
		}
		return &mv{T: "ifc", B: []int{cn}, E: []*mv{b}}, nil
	case "map":
		out := &mv{T: "map"}
		m := rv.Interface().(map[addr20]*big.Int)
		keys := make([]addr20, 0, len(m))
		for k := range m {
			keys = append(keys, k)
		}
		sort.Slice(keys, func(i, j int) bool { return bytes.Compare(keys[i][:], keys[j][:]) < 0 })
		for _, k := range keys {
			val := m[k]
			var vb []byte
			if val != nil {
				vb = val.Bytes()
			}
			out.E = append(out.E, &mv{T: "list", E: []*mv{mvStr(k[:]), mvStr(vb)}})
		}
		return out, nil
	}
	return nil, fmt.Errorf("unknown descriptor %q", t.k)
}

// ---- model value -> Go value ------------------------------------------------------

// toGo stores the model value v of type t into the settable Go value rv. perm (maps only)
// chooses the insertion order.
func toGo(t *ty, v *mv, rv reflect.Value, perm int) error {
	switch t.k {
	case "any":
		switch v.T {
		case "nil":
			return nil
		case "list":
			lst := make([]interface{}, len(v.E))
			for i, e := range v.E {
				if err := toGo(t, e, reflect.ValueOf(&lst[i]).Elem(), perm); err != nil {
					return err
				}
			}
			rv.Set(reflect.ValueOf(lst))
		default:
			rv.Set(reflect.ValueOf(v.bytes()))
		}
	case "bytes":
		rv.SetBytes(v.bytes())
	case "uint":
		var u uint64
		for _, b := range v.bytes() {
			u = u<<8 | uint64(b)
		}
		rv.SetUint(u)
	case "big":
		rv.Set(reflect.ValueOf(new(big.Int).SetBytes(v.bytes())))
	case "bool":
		rv.SetBool(len(v.B) > 0)
	case "int":
		var mag uint64
		for _, n := range v.B {
			mag = mag<<4 | uint64(n)
		}
		if v.T == "nint" {
			rv.SetInt(-int64(mag-1) - 1)
		} else {
			rv.SetInt(int64(mag))
		}
	case "arr":
		for i, b := range v.bytes() {
			rv.Index(i).SetUint(uint64(b))
		}
	case "raw":
		rv.SetBytes(v.bytes())
	case "list":
		sl := reflect.MakeSlice(rv.Type(), len(v.E), len(v.E))
		for i, e := range v.E {
			if err := toGo(t.s[0], e, sl.Index(i), perm); err != nil {
				return err
			}
		}
		rv.Set(sl)
	case "struct":
		for i, ft := range t.s {
			if err := toGo(ft, v.E[i], rv.Field(i), perm); err != nil {
				return err
			}
		}
	case "ptr":
		if v.T == "nil" {
			return nil
		}
		p := reflect.New(rv.Type().Elem())
		if err := toGo(t.s[0], v, p.Elem(), perm); err != nil {
			return err
		}
		rv.Set(p)
	case "ifc":
		if v.T == "nil" {
			return nil
		}
		switch v.B[0] {
		case 1:
			x := &gA{}
			if err := toGo(tGA, v.E[0], reflect.ValueOf(x).Elem(), perm); err != nil {
				return err
			}
			rv.Set(reflect.ValueOf(x))
		case 2:
			var x gV
			if err := toGo(tGV, v.E[0], reflect.ValueOf(&x).Elem(), perm); err != nil {
				return err
			}
			rv.Set(reflect.ValueOf(x))
		case 3:
			x := &gB{}
			if err := toGo(tGB, v.E[0], reflect.ValueOf(x).Elem(), perm); err != nil {
				return err
			}
			rv.Set(reflect.ValueOf(x))
		}
	case "map":
		m := map[addr20]*big.Int{}
		n := len(v.E)
		for i := 0; i < n; i++ {
			j := i
			switch perm % 3 {
			case 1:
				j = n - 1 - i
			case 2:
				j = (i*2 + 1) % n
				if n%2 == 0 {
					j = (i + n/2) % n
				}
			}
			var k addr20
			copy(k[:], v.E[j].E[0].bytes())
			m[k] = new(big.Int).SetBytes(v.E[j].E[1].bytes())
		}
		rv.Set(reflect.ValueOf(m))
	default:
		return fmt.Errorf("unknown descriptor %q", t.k)
	}
	return nil
}

// ---- calls on the real code, under recover ---------------------------------------

type callResult struct {
	err   error
	panic string
	alloc uint64
}

func guard(f func() error) (res callResult) {
	defer func() {
		if r := recover(); r != nil {
			res.panic = fmt.Sprint(r)
		}
	}()
	res.err = f()
	return
}

// decodeInto decodes b with the target's entry point into a fresh Go value.
func (tg *target) decode(b []byte, entry string) (reflect.Value, callResult) {
	p := reflect.New(tg.goType)
	res := guard(func() error {
		switch entry {
		case "bytes":
			if tg.withType {
				return ser.DecodeBytesWithType(b, p.Interface())
			}
			return ser.DecodeBytes(b, p.Interface())
		case "bytesT": // the WithType entry on an interface target (consumeDisfix is a no-op there)
			return ser.DecodeBytesWithType(b, p.Interface())
		case "reader":
			var err error
			if tg.withType {
				_, err = ser.DecodeReaderWithType(bytes.NewReader(b), p.Interface(), int64(len(b)))
			} else {
				_, err = ser.DecodeReader(bytes.NewReader(b), p.Interface(), int64(len(b)))
			}
			return err
		case "slowreader": // not a ByteReader: Stream wraps it in a bufio.Reader
			var err error
			r := io.MultiReader(bytes.NewReader(b))
			if tg.withType {
				_, err = ser.DecodeReaderWithType(r, p.Interface(), int64(len(b)))
			} else {
				_, err = ser.DecodeReader(r, p.Interface(), int64(len(b)))
			}
			return err
		}
		return fmt.Errorf("unknown entry %s", entry)
	})
	return p.Elem(), res
}

func (tg *target) encode(rv reflect.Value) ([]byte, callResult) {
	var out []byte
	res := guard(func() error {
		var err error
		arg := rv.Addr().Interface()
		if tg.t.k == "ifc" || tg.t.k == "any" {
			arg = rv.Addr().Interface() // pointer to the interface variable
		}
		if tg.withType {
			out, err = ser.EncodeToBytesWithType(arg)
		} else {
			out, err = ser.EncodeToBytes(arg)
		}
		return err
	})
	return out, res
}

// classify maps an error of the real code to the model's error classes (pi_shape only).
func classify(err error) string {
	if err == nil {
		return ""
	}
	switch err {
	case io.EOF:
		return "eof"
	case io.ErrUnexpectedEOF:
		return "unexpected_eof"
	case ser.ErrValueTooLarge:
		return "value_too_large"
	case ser.ErrElemTooLarge:
		return "elem_too_large"
	case ser.ErrCanonSize:
		return "canon_size"
	case ser.ErrCanonInt:
		return "canon_int"
	case ser.ErrMoreThanOneValue:
		return "more_than_one"
	case ser.ErrExpectedString:
		return "expected_string"
	case ser.ErrExpectedList:
		return "expected_list"
	case ser.EOL:
		return "eol"
	}
	s := err.Error()
	for _, p := range [][2]string{
		{"non-canonical size", "canon_size"}, {"non-canonical integer", "canon_int"},
		{"expected input list", "expected_list"}, {"expected input string", "expected_string"},
		{"input string too long", "too_long"}, {"input string too short", "string_too_short"},
		{"too few elements", "too_few"}, {"too many elements", "too_many"},
		{"invalid boolean", "invalid_bool"}, {"invalid syntax", "int_syntax"}, {"out of range", "int_range"},
		{"unrecognized disambiguation", "unknown_prefix"}, {"not assignable", "not_assignable"}, {"does not implement", "not_assignable"},
		{"uint overflow", "too_long"},
	} {
		if strings.Contains(s, p[0]) {
			return p[1]
		}
	}
	return "other:" + s
}

func normClass(c string) string {
	switch c {
	case "uint_overflow", "string_too_long":
		return "too_long"
	}
	return c
}

// ---- records exported by the spec ---------------------------------------------------------

type verdict struct {
	Ok bool   `json:"ok"`
	V  *mv    `json:"v"`
	C  string `json:"c"`
	Ib bool   `json:"ib"`
}

type splitRes struct {
	Ok      bool   `json:"ok"`
	C       string `json:"c"`
	Kind    string `json:"kind"`
	Content []int  `json:"content"`
	Rest    []int  `json:"rest"`
}

type countRes struct {
	Ok bool   `json:"ok"`
	N  int    `json:"n"`
	C  string `json:"c"`
}

type mutRec struct {
	M  string  `json:"m"`
	S  []int   `json:"s"`
	R  verdict `json:"r"`
	St verdict `json:"st"`
}

type label struct {
	Op    string    `json:"op"`
	Tgt   string    `json:"tgt"`
	S     []int     `json:"s"`
	R     verdict   `json:"r"`
	St    verdict   `json:"st"`
	Split *splitRes `json:"split"`
	Count *countRes `json:"count"`
	Idx   int       `json:"idx"`
	V     *mv       `json:"v"`
	Muts  []mutRec  `json:"muts"`
}

func parseLabel(line string) (*label, error) {
	var l label
	if err := json.Unmarshal([]byte(line), &l); err != nil {
		return nil, err
	}
	return &l, nil
}
