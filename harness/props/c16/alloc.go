package c16

// The allocation phase: sizes a peer can name (PartSetHeader.Total of a proposal) are used
// as allocation sizes - by the reactor for the peer's bit array before anything is
// verified, and by the state machine for the part set of an accepted proposal. Running out
// of memory is not a panic: it ends the process whatever recover() is in place. Each
// scenario runs in a child whose address space is limited to 8 GiB.

import (
	"bufio"
	"encoding/json"
	"fmt"
	"math"
	"math/rand"
	"os"
	"syscall"

	cs "github.com/lianxiangcloud/linkchain/consensus"
	cmn "github.com/lianxiangcloud/linkchain/libs/common"
	"github.com/lianxiangcloud/linkchain/libs/ser"

	"verifh/core"
)

type allocScenario struct {
	Name   string `json:"name"`
	Total  int    `json:"total"`
	Signed bool   `json:"signed"` // carries the proposer's valid signature (Byzantine validator)
	Mode   string `json:"mode"`   // peer bookkeeping: "match" (the reactor allocates the peer's bit array) | "none"
	Bits   bool   `json:"bits"`   // not a proposal: a VoteSetBitsMessage whose bit array claims Total bits
}

var allocScenarios = []allocScenario{
	{"any peer, unsigned proposal with Total = 2^40 after announcing the node's round", 1 << 40, false, "match", false},
	{"any peer, unsigned proposal with Total = 2^31-1 after announcing the node's round", math.MaxInt32, false, "match", false},
	{"any peer, unsigned proposal with Total = MaxInt64 after announcing the node's round", math.MaxInt64, false, "match", false},
	{"Byzantine proposer, signed proposal with Total = 2^31-1", math.MaxInt32, true, "none", false},
	{"Byzantine proposer, signed proposal with Total = 2^40", 1 << 40, true, "none", false},
	{"any peer, VoteSetBits for the block the node voted for with a bit array of 2^40 bits (one element) after one vote", 1 << 40, false, "match", true},
}

const allocLimit = 8 << 30

func allocChild(c *core.Ctx, j job) {
	w := bufio.NewWriter(os.Stdout)
	defer w.Flush()
	res := &jobResult{Class: j.Class, ByEff: map[string]int{}, Latent: map[string]int{}, ByOwn: map[string]int{}}
	finish := func() {
		rj, _ := json.Marshal(res)
		fmt.Fprintf(w, "RESULT %s\nDONE\n", rj)
		w.Flush()
	}
	sc := allocScenarios[j.From]
	rng := rand.New(rand.NewSource(c.Seed + int64(j.From)))
	class := "h1-propose"
	if sc.Bits {
		class = "h1-prevote" // the node holds its own prevote for the block: Receive merges the peer's bits with ours
	}
	rn := &runner{class: class, rng: rng, res: res, w: w, variants: 1, seenKey: map[string]bool{}}
	if err := rn.rebuild(); err != nil {
		res.Infra = err.Error()
		finish()
		return
	}
	lim := syscall.Rlimit{Cur: allocLimit, Max: allocLimit}
	if err := syscall.Setrlimit(syscall.RLIMIT_AS, &lim); err != nil {
		res.Infra = "setrlimit: " + err.Error()
		finish()
		return
	}
	if sc.Bits {
		sj, _ := json.Marshal(sc)
		fmt.Fprintf(w, "AT %s\n", sj)
		w.Flush()
		rn.ensureMode(sc.Mode)
		// any vote of the node's round makes the reactor allocate the peer's vote bit arrays
		vm, err := rn.in.make(absMsg{T: "vote", Ch: "vote", H: 1, R: 0, Typ: 1, Who: 3, VIdx: "who", VAddr: "who", Size: 4, Bid: "block", Sig: "bad"})
		if err != nil {
			res.Infra = err.Error()
			finish()
			return
		}
		rn.wire(vm)
		rs := rn.b.rs()
		msg := &cs.VoteSetBitsMessage{Height: rs.Height, Round: rs.Round, Type: 1, BlockID: rn.in.blockID("block", rs.Height), Votes: &cmn.BitArray{Bits: sc.Total, Elems: []uint64{1}}}
		o := rn.wire(concrete{ch: cs.VoteSetBitsChannel, bytes: ser.MustEncodeToBytesWithType(msg)})
		res.Edges++
		res.Latent[fmt.Sprintf("allocation scenario survived: %s (reactor panic: %v, peer stopped: %v)", sc.Name, o.reactorFail != nil, o.stopped)]++
		finish()
		return
	}
	sig := "bad"
	if sc.Signed {
		sig = "proposer"
	}
	m := absMsg{T: "proposal", Ch: "data", PType: "normal", H: 1, R: 0, Pol: -1, Total: sNP, Hash: "ok", PolBid: "nil", Sig: sig}
	// instantiate with the valid total, then put the scenario's total in (and sign again)
	cm, err := rn.in.makeWithTotal(m, sc.Total)
	if err != nil {
		res.Infra = err.Error()
		finish()
		return
	}
	sj, _ := json.Marshal(sc)
	fmt.Fprintf(w, "AT %s\n", sj)
	w.Flush()
	rn.ensureMode(sc.Mode)
	o := rn.wire(cm)
	if o.smFail != nil {
		rn.addHit(hit{Key: "halt/proposal/" + panicClass(o.smFail), Kind: "halt", Class: "h1-propose", Path: "alloc/wire/" + sc.Mode, Signed: sc.Signed, Concrete: sc.Name, Detail: fmt.Sprint(o.smFail)})
	}
	res.Edges++
	// still alive: the allocation was refused by a check, recovered as a panic, or fitted
	res.Latent[fmt.Sprintf("allocation scenario survived: %s (reactor panic: %v, peer stopped: %v, forwarded: %d)", sc.Name, o.reactorFail != nil, o.stopped, o.popped)]++
	finish()
}

// makeWithTotal instantiates a proposal and overrides its number of parts.
func (in *inst) makeWithTotal(m absMsg, total int) (concrete, error) {
	cm, err := in.make(m)
	if err != nil {
		return cm, err
	}
	dm, err := decode(cm.bytes)
	if err != nil {
		return cm, err
	}
	pm := dm.(*cs.ProposalMessage)
	pm.Proposal.BlockPartsHeader.Total = total
	if m.Sig == "proposer" {
		if err := in.b.cl.PVs[in.abs[1]].SignProposal(in.b.cl.ChainID, pm.Proposal); err != nil {
			return cm, err
		}
	}
	cm.bytes = ser.MustEncodeToBytesWithType(pm)
	cm.desc = fmt.Sprintf("[total=%d]", total)
	return cm, nil
}
