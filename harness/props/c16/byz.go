package c16

// "byzblock": the proposer of the node's round (a Byzantine validator) signs a proposal
// for a block with missing components and sends it with all its parts (valid Merkle
// proofs). The block is assembled by addProposalBlockPart from BlockPartMessages; the
// node may reject it and prevote nil, its consensus routine must keep running.

import (
	"fmt"

	cs "github.com/lianxiangcloud/linkchain/consensus"
	"github.com/lianxiangcloud/linkchain/libs/crypto"
	"github.com/lianxiangcloud/linkchain/libs/ser"
	"github.com/lianxiangcloud/linkchain/types"
)

// makeByz instantiates the proposal and the parts of a byzblock message.
func (in *inst) makeByz(m absMsg) (out []concrete, err error) {
	defer func() {
		if r := recover(); r != nil {
			err = fmt.Errorf("instantiation of byzblock %q failed: %v", m.Content, r)
		}
	}()
	b := in.b
	status := b.status()
	var lc *types.Commit
	if in.h > 1 {
		lc = b.node().App.LoadSeenCommit(in.h - 1)
	}
	blk, _ := b.cl.MakeBlock(status, lc, in.h)
	fve := func() *types.FaultValidatorsEvidence {
		for _, ev := range blk.Evidence.Evidence {
			if f, ok := ev.(*types.FaultValidatorsEvidence); ok {
				return f
			}
		}
		f := &types.FaultValidatorsEvidence{BlockHeight: in.h - 1, Proposer: b.cl.PVs[in.abs[1]].GetPubKey()}
		blk.Evidence.Evidence = append(blk.Evidence.Evidence, f)
		return f
	}
	var data []byte
	switch m.Content {
	case "valid":
	case "nohdr":
		blk.Header = nil
	case "nodata":
		blk.Data = nil
	case "nolastcommit":
		blk.LastCommit = nil
	case "emptylastcommit":
		blk.LastCommit = &types.Commit{}
	case "fve-noproposer":
		fve().Proposer = nil
	case "fve-twice":
		blk.Evidence.Evidence = append(blk.Evidence.Evidence, fve())
	case "dve-novotes":
		blk.Evidence.Evidence = append(blk.Evidence.Evidence, &types.DuplicateVoteEvidence{PubKey: b.cl.PVs[in.abs[2]].GetPubKey()})
	case "dve-nopubkey":
		v := b.cl.MakeVote(in.abs[2], b.rs().Validators, in.h-1, 0, types.VoteTypePrevote, types.BlockID{})
		w := b.cl.MakeVote(in.abs[2], b.rs().Validators, in.h-1, 0, types.VoteTypePrevote, in.blockID("unknown", in.h))
		blk.Evidence.Evidence = append(blk.Evidence.Evidence, &types.DuplicateVoteEvidence{VoteA: v, VoteB: w})
	case "garbage":
		data = randBytes(in.rng, 3*partSize+17)
	default:
		return nil, fmt.Errorf("unknown byzblock content %q", m.Content)
	}
	if data == nil {
		if data, err = ser.EncodeToBytes(blk); err != nil {
			return nil, fmt.Errorf("encode block (%s): %v", m.Content, err)
		}
	}
	ps := types.NewPartSetFromData(data, partSize)
	p := types.NewProposal(in.h, in.r, ps.Header(), -1, types.BlockID{})
	p.Type = types.ProposalTypeNormal
	switch m.Sig {
	case "proposer":
		err = b.cl.PVs[in.abs[1]].SignProposal(b.cl.ChainID, p)
	case "other":
		err = b.cl.PVs[in.abs[2]].SignProposal(b.cl.ChainID, p)
	default:
		var s crypto.SignatureEd25519
		in.rng.Read(s[:])
		p.Signature = s
	}
	if err != nil {
		return nil, err
	}
	out = append(out, concrete{ch: cs.DataChannel, bytes: ser.MustEncodeToBytesWithType(&cs.ProposalMessage{Proposal: p}), desc: fmt.Sprintf("[proposal for a %d-part block: %s]", ps.Total(), m.Content)})
	for i := 0; i < ps.Total(); i++ {
		out = append(out, concrete{ch: cs.DataChannel, bytes: ser.MustEncodeToBytesWithType(&cs.BlockPartMessage{Height: in.h, Round: in.r, Part: ps.GetPart(i)}), desc: fmt.Sprintf("[part %d of %d]", i, ps.Total())})
	}
	return out, nil
}

// replayByz delivers the proposal and the parts through the reactor.
func (rn *runner) replayByz(e *edge) (changedState bool, err error) {
	m := e.Act.M
	msgs, err := rn.in.makeByz(m)
	if err != nil {
		return false, err
	}
	rn.at(fmt.Sprintf("%s %s", rn.class, string(e.M)))
	rn.probe = nil
	rn.ensureMode([]string{"none", "match"}[rn.rng.Intn(2)])
	pre := rn.snap()
	for i, cm := range msgs {
		o := rn.wire(cm)
		rn.nSince++
		rn.res.ByEff[e.Act.Eff]++
		if o.smFail != nil {
			rn.suspect = true
			rn.addHit(hit{Class: rn.class, Msg: e.M, Concrete: cm.desc, Hex: hexOf(cm.bytes), Path: fmt.Sprintf("wire, message %d of %d", i+1, len(msgs)), Signed: m.Sig == "proposer" || m.Sig == "other",
				Kind: "halt", Key: "halt/byzblock/" + m.Content, Detail: fmt.Sprint(o.smFail), Model: "as-is model: " + e.Act.AsIs + ", repaired model: " + e.Act.Eff})
			if e.Act.AsIs == "panic" {
				rn.res.AsIsPanic++
				rn.res.AsIsAgree++
			}
			return true, nil
		}
	}
	if e.Act.AsIs == "panic" {
		rn.res.AsIsPanic++
	}
	post := rn.snap()
	changed := pre != post
	if changed {
		rn.res.Affects++
		if !changing[e.Act.Eff] && e.Act.Eff != "block" {
			rn.unmodelled = true
		}
		if !e.Act.May {
			rn.suspect = true
			rn.addHit(hit{Class: rn.class, Msg: e.M, Path: "wire", Signed: m.Sig == "proposer" || m.Sig == "other", Kind: "state-change",
				Key: "state-change/byzblock/" + m.Sig, Detail: "the RoundState changed on a block the specification classifies as unable to affect the node: " + firstDiff(pre, post)})
		}
	} else {
		rn.res.Stutters++
		if changing[e.Act.Eff] {
			rn.drift("%s: the model says %q for %s; the node's RoundState did not change", rn.class, e.Act.Eff, string(e.M))
		}
	}
	return changed, nil
}
