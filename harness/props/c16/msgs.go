package c16

// Instantiation of the abstract messages of PeerInput.tla with concrete values:
// every symbolic boundary value (NEG, MAXI, FAR, MAXH) has several concrete
// representatives; "valid signature" classes are signed with the validators' REAL keys
// after all other fields have been set.

import (
	"encoding/json"
	"fmt"
	"math"
	"math/rand"
	"sort"
	"time"

	cs "github.com/lianxiangcloud/linkchain/consensus"
	cstypes "github.com/lianxiangcloud/linkchain/consensus/types"
	"github.com/lianxiangcloud/linkchain/libs/common"
	cmn "github.com/lianxiangcloud/linkchain/libs/common"
	"github.com/lianxiangcloud/linkchain/libs/crypto"
	"github.com/lianxiangcloud/linkchain/libs/crypto/merkle"
	"github.com/lianxiangcloud/linkchain/libs/ser"
	"github.com/lianxiangcloud/linkchain/types"
)

// the specification's sentinels
const (
	sNEG  = -9
	sMAXI = 99
	sFAR  = 7
	sMAXH = 99
	sNP   = 3
)

// absMsg is a message of the specification's lattice (the union of all record shapes).
type absMsg struct {
	T       string `json:"t"`
	Ch      string `json:"ch"`
	Nilc    bool   `json:"nilc"`
	H       int    `json:"h"`
	R       int    `json:"r"`
	Typ     int    `json:"typ"`
	Who     int    `json:"who"`
	VIdx    string `json:"vidx"`
	VAddr   string `json:"vaddr"`
	Size    int    `json:"size"`
	Bid     string `json:"bid"`
	Sig     string `json:"sig"`
	PType   string `json:"ptype"`
	Pol     int    `json:"pol"`
	Total   int    `json:"total"`
	Hash    string `json:"hash"`
	PolBid  string `json:"polbid"`
	Idx     int    `json:"idx"`
	Bytes   string `json:"bytes"`
	Proof   string `json:"proof"`
	Step    int    `json:"step"`
	Secs    int    `json:"secs"`
	Lcr     int    `json:"lcr"`
	Hdr     string `json:"hdr"`
	Ba      string `json:"ba"`
	PolR    int    `json:"polr"`
	Content string `json:"content"`
	Sz      string `json:"sz"` // "" (the type has no size dimension) | "small" | "lim-1" | "lim" | "lim+1"
}

// the reactor's maxMsgSize (consensus/reactor.go; unexported): decodeMsg refuses len(bz) > maxMsgSize. The
// replay checks the number through the model's "forwarded" label of the messages of exactly this size / one byte more.
const reactorMaxMsgSize = 1048576

func sizeOf(sz string) int {
	switch sz {
	case "lim-1":
		return reactorMaxMsgSize - 1
	case "lim":
		return reactorMaxMsgSize
	case "lim+1":
		return reactorMaxMsgSize + 1
	}
	return 0
}

// act is the label of an exported edge.
type act struct {
	Op         string          `json:"op"`
	M          absMsg          `json:"m"`
	Raw        json.RawMessage `json:"-"`
	May        bool            `json:"may"`
	Eff        string          `json:"eff"`
	Fwd        string          `json:"fwd"`
	Direct     string          `json:"direct"`
	AsIs       string          `json:"asis"`
	AsIsDirect string          `json:"asisdirect"`
	Site       string          `json:"site"`
	WalBig     bool            `json:"walbig"` // the WAL record of this delivery is above the WAL decoder's limit
	Res        string          `json:"res"`    // own steps: "ok" | "panic"
	Over       bool            `json:"over"`   // own steps: SetRound runs over an entry that exists already
}

// ownState is where the node's own steps have taken it (PeerInput.tla, variable own).
type ownState struct {
	H         int  `json:"h"`
	R         int  `json:"r"`
	Step      int  `json:"step"`
	Hvr       int  `json:"hvr"`
	N         int  `json:"n"`
	Committed bool `json:"committed"`
}

type projState struct {
	Cls     string        `json:"cls"`
	Q       int           `json:"q"`
	Claim   []interface{} `json:"claim"`
	Changed string        `json:"changed"`
	Cat     []int         `json:"cat"`
	Own     ownState      `json:"own"`
}

// key identifies a model state (the specification's View without `running`).
func (p projState) key() string {
	cat := append([]int{}, p.Cat...)
	sort.Ints(cat)
	return fmt.Sprintf("%s|q%d|%s|%s|%v|%+v", p.Cls, p.Q, claimKey(p.Claim), p.Changed, cat, p.Own)
}

// residueKey identifies the residue part of a model state (what the peer left behind), without the node's own progress.
func (p projState) residueKey() string {
	cat := append([]int{}, p.Cat...)
	sort.Ints(cat)
	return fmt.Sprintf("q%d|%s|%v", p.Q, claimKey(p.Claim), cat)
}

type edge struct {
	From projState       `json:"from"`
	Act  act             `json:"act"`
	To   projState       `json:"to"`
	Run  bool            `json:"run"`
	Cf   classFacts      `json:"cf"`
	M    json.RawMessage `json:"-"` // the abstract message as exported (for records and keys)
}

// concrete is one instantiated message.
type concrete struct {
	ch     byte
	bytes  []byte
	desc   string // the concrete values chosen for symbolic ones
	rounds []int  // the vote's round (probed in the snapshot)
	big    bool   // instantiated to an exact size at the reactor's limit
}

var channelIDs = map[string]byte{"state": cs.StateChannel, "data": cs.DataChannel, "vote": cs.VoteChannel, "bits": cs.VoteSetBitsChannel, "unknown": 0x7f}

// inst instantiates abstract messages for one built class.
type inst struct {
	b     *built
	rng   *rand.Rand
	fresh int    // makes FAR / MAXI / NEG rounds distinct from every round used before
	abs   [4]int // abstract validator -> node index: 0 target, 1 proposer of its (h, r), 2, 3 the others
	h     uint64
	r     int
	parts map[int]*types.Part // the honest part set of the height, by index
	total int
	hdr   types.PartSetHeader
	note  []string
}

func newInst(b *built, rng *rand.Rand) *inst {
	in := &inst{b: b, rng: rng}
	in.refresh()
	return in
}

// refresh re-reads what instantiation depends on (after a rebuild).
func (in *inst) refresh() {
	b := in.b
	rs := b.rs()
	in.h, in.r = rs.Height, rs.Round
	in.abs = [4]int{b.target, b.others[0], b.others[1], b.others[2]}
	in.parts = map[int]*types.Part{}
	in.total = 0
	// the honest parts of this height on the wire (round 0 proposal of the other validators)
	for _, w := range b.cl.Wire {
		switch x := w.Msg.(type) {
		case *cs.ProposalMessage:
			if x.Proposal.Height == in.h && in.total == 0 {
				in.hdr = x.Proposal.BlockPartsHeader
				in.total = in.hdr.Total
			}
		case *cs.BlockPartMessage:
			if x.Height == in.h {
				if _, ok := in.parts[x.Part.Index]; !ok {
					in.parts[x.Part.Index] = x.Part
				}
			}
		}
	}
}

func (in *inst) notef(f string, a ...interface{}) { in.note = append(in.note, fmt.Sprintf(f, a...)) }

func (in *inst) pick(name string, xs ...int64) int64 {
	x := xs[in.rng.Intn(len(xs))]
	in.notef("%s=%d", name, x)
	return x
}

// num maps a lattice integer to a concrete one.
func (in *inst) num(name string, v int) int {
	switch v {
	case sNEG:
		return int(in.pick(name, -2, -63, -64, -65, -129, math.MinInt32, math.MinInt64, math.MinInt64+1))
	case sMAXI:
		return int(in.pick(name, math.MaxInt32, math.MaxInt32+1, math.MaxInt64, math.MaxInt64-1, 1<<40))
	}
	return v
}

// round maps a lattice round; symbolic ones are fresh (never used before on this node).
func (in *inst) round(name string, v int) int {
	in.fresh++
	var x int
	switch v {
	case sNEG:
		x = []int{-2 - in.fresh, math.MinInt64 + in.fresh, math.MinInt32 - in.fresh}[in.rng.Intn(3)]
	case sMAXI:
		x = []int{math.MaxInt64 - in.fresh, math.MaxInt32 + in.fresh, math.MaxInt64/2 + in.fresh}[in.rng.Intn(3)]
		if in.fresh == 1 {
			x = math.MaxInt64
		}
	case sFAR:
		x = []int{in.r + 5 + in.fresh, 100000 + in.fresh}[in.rng.Intn(2)]
	default:
		return v
	}
	in.notef("%s=%d", name, x)
	return x
}

func (in *inst) height(v int) uint64 {
	if v == sMAXH {
		x := []uint64{math.MaxUint64, math.MaxInt64, math.MaxInt64 + 1, math.MaxUint32 + 1}[in.rng.Intn(4)]
		if x == math.MaxUint64 && in.h == 1 && in.rng.Intn(2) == 0 {
			// MaxUint64+1 wraps to 0 = h-1 only for h = 1 ... which the lattice has as "0" already
		}
		in.notef("h=%d", x)
		return x
	}
	if v < 0 {
		return 0
	}
	return uint64(v)
}

func randHash(rng *rand.Rand) common.Hash {
	var h common.Hash
	rng.Read(h[:])
	return h
}

func randBytes(rng *rand.Rand, n int) []byte {
	b := make([]byte, n)
	rng.Read(b)
	return b
}

// blockID of a lattice value for votes/claims of height h.
func (in *inst) blockID(tag string, h uint64) types.BlockID {
	switch tag {
	case "nil":
		return types.BlockID{}
	case "block":
		hh := h
		if hh < 1 || hh > in.h {
			hh = in.h
		}
		if id := in.b.wireBlockID(hh); !id.IsZero() {
			return id
		}
		return types.BlockID{Hash: randHash(in.rng), PartsHeader: types.PartSetHeader{Total: 1, Hash: randBytes(in.rng, 32)}}
	case "unknown":
		return types.BlockID{Hash: randHash(in.rng), PartsHeader: types.PartSetHeader{Total: 1 + in.rng.Intn(3), Hash: randBytes(in.rng, 32)}}
	case "huge":
		return types.BlockID{Hash: randHash(in.rng), PartsHeader: types.PartSetHeader{Total: int(in.pick("bid.total", math.MaxInt32, math.MaxInt64, -1, math.MinInt64)), Hash: randBytes(in.rng, 32)}}
	}
	panic("bad bid tag " + tag)
}

func (in *inst) bitArray(tag string, size int) *cmn.BitArray {
	if size <= 0 {
		size = 1
	}
	switch tag {
	case "nil":
		return nil
	case "ok":
		ba := cmn.NewBitArray(size)
		for i := 0; i < size; i++ {
			if in.rng.Intn(2) == 0 {
				ba.SetIndex(i, true)
			}
		}
		return ba
	case "short":
		if size == 1 {
			return &cmn.BitArray{Bits: 1, Elems: []uint64{}}
		}
		ba := cmn.NewBitArray(size - 1)
		ba.SetIndex(0, true)
		return ba
	case "long":
		n := size + int(in.pick("ba.extra", 1, 64, 65, 1000))
		ba := cmn.NewBitArray(n)
		for i := 0; i < n; i++ {
			ba.SetIndex(i, true)
		}
		return ba
	case "incons":
		switch in.pick("ba.incons", 0, 1, 2) {
		case 0:
			return &cmn.BitArray{Bits: size, Elems: nil}
		case 1:
			return &cmn.BitArray{Bits: 100000, Elems: []uint64{^uint64(0)}}
		default:
			return &cmn.BitArray{Bits: math.MaxInt64, Elems: []uint64{^uint64(0), ^uint64(0)}}
		}
	case "neg":
		return &cmn.BitArray{Bits: int(in.pick("ba.bits", -1, -64, math.MinInt64)), Elems: []uint64{^uint64(0)}}
	}
	panic("bad bit array tag " + tag)
}

// heldVote finds the exact vote the node already holds (for duplicates).
func (in *inst) heldVote(h uint64, r int, typ byte, addr []byte, id types.BlockID) *types.Vote {
	look := func(v *types.Vote) bool {
		return v != nil && v.Height == h && v.Round == r && v.Type == typ && string(v.ValidatorAddress) == string(addr) && v.BlockID.Equals(id)
	}
	for _, v := range in.b.given {
		if look(v) {
			return v
		}
	}
	for _, w := range in.b.cl.Wire {
		if vm, ok := w.Msg.(*cs.VoteMessage); ok && look(vm.Vote) {
			return vm.Vote
		}
	}
	return nil
}

// make instantiates m. It returns the wire bytes (encoded the way the reactor encodes).
func (in *inst) make(m absMsg) (c concrete, err error) {
	defer func() {
		if r := recover(); r != nil {
			err = fmt.Errorf("instantiation of %+v failed: %v", m, r)
		}
	}()
	in.note = nil
	b := in.b
	ch, ok := channelIDs[m.Ch]
	if !ok {
		return c, fmt.Errorf("unknown channel %q", m.Ch)
	}
	var msg cs.ConsensusMessage
	nodeOf := func(a int) int { return in.abs[a] }
	valIndex := func(node int) int {
		i, _ := b.rs().Validators.GetByAddress(b.cl.PVs[node].GetAddress())
		return i
	}
	switch m.T {
	case "vote":
		if m.Nilc {
			msg = &cs.VoteMessage{}
			break
		}
		who := nodeOf(m.Who)
		other := nodeOf((m.Who + 1) % 4)
		h := in.height(m.H)
		v := &types.Vote{Height: h, Round: in.round("r", m.R), Type: byte(m.Typ), Timestamp: time.Now().UTC(), ValidatorSize: in.num("size", m.Size)}
		v.BlockID = in.blockID(m.Bid, h)
		switch m.VIdx {
		case "who":
			v.ValidatorIndex = valIndex(who)
		case "other":
			v.ValidatorIndex = valIndex(other)
		case "neg1":
			v.ValidatorIndex = -1
		case "negbig":
			v.ValidatorIndex = in.num("vidx", sNEG)
		case "size":
			v.ValidatorIndex = 4
		case "max":
			v.ValidatorIndex = in.num("vidx", sMAXI)
		}
		switch m.VAddr {
		case "who":
			v.ValidatorAddress = b.cl.PVs[who].GetAddress()
		case "other":
			v.ValidatorAddress = b.cl.PVs[other].GetAddress()
		case "empty":
			if in.rng.Intn(2) == 0 {
				v.ValidatorAddress = crypto.Address{}
			}
		case "garbage":
			v.ValidatorAddress = randBytes(in.rng, int(in.pick("addrlen", 20, 19, 21, 1, 64)))
		}
		if m.VIdx == "who" && m.VAddr == "who" && m.Sig == "who" && in.rng.Intn(2) == 0 {
			if hv := in.heldVote(v.Height, v.Round, v.Type, v.ValidatorAddress, v.BlockID); hv != nil && hv.ValidatorSize == v.ValidatorSize {
				in.notef("exact-duplicate")
				cp := *hv
				v = &cp
				msg = &cs.VoteMessage{Vote: v}
				break
			}
		}
		switch m.Sig {
		case "who":
			if err := b.cl.PVs[who].SignVote(b.cl.ChainID, v); err != nil {
				return c, err
			}
		case "other":
			if err := b.cl.PVs[other].SignVote(b.cl.ChainID, v); err != nil {
				return c, err
			}
		case "bad":
			var s crypto.SignatureEd25519
			in.rng.Read(s[:])
			v.Signature = s
		case "none":
			v.Signature = nil
		}
		msg = &cs.VoteMessage{Vote: v}
	case "proposal":
		if m.Nilc {
			msg = &cs.ProposalMessage{}
			break
		}
		h := in.height(m.H)
		status := b.status()
		var lc *types.Commit
		if in.h > 1 {
			lc = b.node().App.LoadSeenCommit(in.h - 1)
		}
		_, ps := b.cl.MakeBlock(status, lc, in.h)
		hdr := ps.Header()
		switch m.Total {
		case sNP:
		case sMAXI:
			hdr.Total = int(in.pick("total", 1<<20, 1<<21, 1<<22)) // (2^31-1 and 2^40 are tried in the allocation phase)
		default:
			hdr.Total = in.num("total", m.Total)
		}
		switch m.Hash {
		case "empty":
			hdr.Hash = nil
		case "long":
			hdr.Hash = randBytes(in.rng, 1000)
		}
		pol := m.Pol
		switch pol {
		case sFAR:
			pol = in.r + 5
		default:
			pol = in.num("pol", pol)
		}
		p := types.NewProposal(h, in.round("r", m.R), hdr, pol, in.blockID(m.PolBid, h))
		p.Type = map[string]byte{"normal": types.ProposalTypeNormal, "recover": types.ProposalTypeRecover, "zero": 0, "bad": 0xff}[m.PType]
		switch m.Sig {
		case "proposer":
			if err := b.cl.PVs[nodeOf(1)].SignProposal(b.cl.ChainID, p); err != nil {
				return c, err
			}
		case "other":
			if err := b.cl.PVs[nodeOf(2)].SignProposal(b.cl.ChainID, p); err != nil {
				return c, err
			}
		case "bad":
			var s crypto.SignatureEd25519
			in.rng.Read(s[:])
			p.Signature = s
		case "none":
		}
		msg = &cs.ProposalMessage{Proposal: p}
	case "part":
		if m.Nilc {
			msg = &cs.BlockPartMessage{Height: in.height(m.H), Round: in.round("r", m.R)}
			break
		}
		if in.total < 3 || len(in.parts) != in.total {
			return c, fmt.Errorf("no honest part set of height %d on the wire (total %d, %d parts)", in.h, in.total, len(in.parts))
		}
		src := 0 // the honest part the content is taken from
		var idx int
		switch m.Idx {
		case 0, 1:
			idx, src = m.Idx, m.Idx
		case 2:
			idx, src = in.total-1, in.total-1
		case sNP:
			idx = in.total
		default:
			idx = in.num("idx", m.Idx)
		}
		hp := in.parts[src]
		part := &types.Part{Index: idx, Bytes: append([]byte{}, hp.Bytes...)}
		switch m.Bytes {
		case "garbage":
			part.Bytes = randBytes(in.rng, len(hp.Bytes))
		case "empty":
			part.Bytes = nil
		}
		aunts := hp.Proof.Aunts
		switch m.Proof {
		case "ok":
			part.Proof = merkle.SimpleProof{Aunts: append([][]byte{}, aunts...)}
		case "garbage":
			for range aunts {
				part.Proof.Aunts = append(part.Proof.Aunts, randBytes(in.rng, 32))
			}
		case "empty":
		case "long":
			for i := 0; i < 64; i++ {
				part.Proof.Aunts = append(part.Proof.Aunts, randBytes(in.rng, 32))
			}
		}
		msg = &cs.BlockPartMessage{Height: in.height(m.H), Round: in.round("r", m.R), Part: part}
	case "nrs":
		msg = &cs.NewRoundStepMessage{Height: in.height(m.H), Round: in.round("r", m.R), Step: cstypes.RoundStepType(m.Step),
			SecondsSinceStartTime: in.num("secs", m.Secs), LastCommitRound: in.num("lcr", m.Lcr)}
	case "commitstep":
		hdr := in.hdr
		if ps := b.rs().ProposalBlockParts; ps != nil {
			hdr = ps.Header()
		}
		switch m.Hdr {
		case "zero":
			hdr = types.PartSetHeader{}
		case "unknown":
			hdr = types.PartSetHeader{Total: 3, Hash: randBytes(in.rng, 32)}
		case "negtotal":
			hdr.Total = int(in.pick("hdr.total", -1, math.MinInt64, math.MaxInt64))
		}
		total := in.total
		if total == 0 {
			total = 3
		}
		msg = &cs.CommitStepMessage{Height: in.height(m.H), BlockPartsHeader: hdr, BlockParts: in.bitArray(m.Ba, total)}
	case "hasvote":
		msg = &cs.HasVoteMessage{Height: in.height(m.H), Round: in.round("r", m.R), Type: byte(m.Typ), Index: in.num("idx", m.Idx)}
	case "maj23":
		h := in.height(m.H)
		msg = &cs.VoteSetMaj23Message{Height: h, Round: in.round("r", m.R), Type: byte(m.Typ), BlockID: in.blockID(m.Bid, h)}
	case "bits":
		h := in.height(m.H)
		msg = &cs.VoteSetBitsMessage{Height: h, Round: in.round("r", m.R), Type: byte(m.Typ), BlockID: in.blockID(m.Bid, h), Votes: in.bitArray(m.Ba, 4)}
	case "pol":
		polr := m.PolR
		if polr == sFAR {
			polr = in.r + 5
		} else {
			polr = in.num("polr", polr)
		}
		msg = &cs.ProposalPOLMessage{Height: in.height(m.H), ProposalPOLRound: polr, ProposalPOL: in.bitArray(m.Ba, 4)}
	case "heartbeat":
		if m.Nilc {
			msg = &cs.ProposalHeartbeatMessage{}
			break
		}
		hb := &types.Heartbeat{ValidatorAddress: b.cl.PVs[nodeOf(1)].GetAddress(), ValidatorIndex: in.num("idx", m.Idx), Height: in.height(m.H),
			Round: in.num("r", m.R), Sequence: in.rng.Intn(3)}
		b.cl.PVs[nodeOf(1)].SignHeartbeat(b.cl.ChainID, hb)
		msg = &cs.ProposalHeartbeatMessage{Heartbeat: hb}
	default:
		return c, fmt.Errorf("unknown message type %q", m.T)
	}
	bz, err := ser.EncodeToBytesWithType(msg)
	if err != nil {
		return c, fmt.Errorf("encode %T: %v", msg, err)
	}
	if want := sizeOf(m.Sz); want > 0 && m.Nilc {
		in.notef("size-ignored(nil component)") // nothing to grow; the reactor does not forward it whatever its size
	} else if want > 0 {
		if bz, err = in.sizeTo(msg, m, want); err != nil {
			return c, err
		}
		in.notef("wire-bytes=%d", len(bz))
		c.big = true
	}
	c.ch, c.bytes = ch, bz
	c.desc = fmt.Sprint(in.note)
	if vm, ok := msg.(*cs.VoteMessage); ok && vm.Vote != nil {
		c.rounds = []int{vm.Vote.Round}
	}
	return c, nil
}

// filler is the bulk of the messages instantiated at the reactor's size limit.
var filler []byte

func fillBytes(rng *rand.Rand, n int) []byte {
	if len(filler) < n {
		filler = make([]byte, n+4096)
		rng.Read(filler)
	}
	return filler[:n:n]
}

// fillElems returns bit-array elements whose encoding takes exactly n bytes: 9 bytes per full element, the
// last one as wide as the rest requires (the encoding of an integer is as long as the integer is).
func fillElems(n int) []uint64 {
	if n < 1 {
		n = 1
	}
	k := (n - 1) / 9
	w := n - 9*k
	out := make([]uint64, k+1)
	for i := 0; i < k; i++ {
		out[i] = ^uint64(0)
	}
	out[k] = 1
	if w >= 2 {
		out[k] = 0x80 << uint(8*(w-2))
	}
	return out
}

// sizeTo makes the wire encoding of msg exactly `want` bytes long by growing the one field of the
// message type that can carry bulk: Part.Bytes, Vote.BlockID.PartsHeader.Hash (the vote then names an
// unknown block), Proposal.BlockPartsHeader.Hash, the elements of the BitArray of a VoteSetBits /
// ProposalPOL message. A signature class "valid" is signed again over the grown message.
func (in *inst) sizeTo(msg cs.ConsensusMessage, m absMsg, want int) ([]byte, error) {
	b := in.b
	var pad func(n int) error
	switch x := msg.(type) {
	case *cs.BlockPartMessage:
		if x.Part == nil {
			x.Part = &types.Part{}
		}
		pad = func(n int) error { x.Part.Bytes = fillBytes(in.rng, n); return nil }
	case *cs.VoteMessage:
		if x.Vote == nil {
			return nil, fmt.Errorf("a nil vote cannot be made large")
		}
		v := x.Vote
		v.BlockID = types.BlockID{Hash: randHash(in.rng), PartsHeader: types.PartSetHeader{Total: 1}}
		pad = func(n int) error {
			v.BlockID.PartsHeader.Hash = fillBytes(in.rng, n)
			switch m.Sig {
			case "who":
				return b.cl.PVs[in.abs[m.Who]].SignVote(b.cl.ChainID, v)
			case "other":
				return b.cl.PVs[in.abs[(m.Who+1)%4]].SignVote(b.cl.ChainID, v)
			}
			return nil
		}
	case *cs.ProposalMessage:
		if x.Proposal == nil {
			return nil, fmt.Errorf("a nil proposal cannot be made large")
		}
		p := x.Proposal
		pad = func(n int) error {
			p.BlockPartsHeader.Hash = fillBytes(in.rng, n)
			switch m.Sig {
			case "proposer":
				return b.cl.PVs[in.abs[1]].SignProposal(b.cl.ChainID, p)
			case "other":
				return b.cl.PVs[in.abs[2]].SignProposal(b.cl.ChainID, p)
			}
			return nil
		}
	case *cs.VoteSetBitsMessage:
		pad = func(n int) error {
			e := fillElems(n)
			x.Votes = &cmn.BitArray{Bits: 64 * len(e), Elems: e}
			return nil
		}
	case *cs.ProposalPOLMessage:
		pad = func(n int) error {
			e := fillElems(n)
			x.ProposalPOL = &cmn.BitArray{Bits: 64 * len(e), Elems: e}
			return nil
		}
	default:
		return nil, fmt.Errorf("%T has no size dimension", msg)
	}
	n := 70000 // (every length prefix on the way is as wide as at the target size)
	for i := 0; i < 8; i++ {
		if err := pad(n); err != nil {
			return nil, err
		}
		bz, err := ser.EncodeToBytesWithType(msg)
		if err != nil {
			return nil, fmt.Errorf("encode %T: %v", msg, err)
		}
		if len(bz) == want {
			return bz, nil
		}
		n += want - len(bz)
		if n < 1 {
			return nil, fmt.Errorf("%T cannot be made %d bytes long", msg, want)
		}
	}
	return nil, fmt.Errorf("%T: no filler length gives exactly %d bytes", msg, want)
}

// decode is what the reactor's decodeMsg does.
func decode(bz []byte) (m cs.ConsensusMessage, err error) {
	defer func() {
		if r := recover(); r != nil {
			err = fmt.Errorf("decoder panicked: %v", r)
		}
	}()
	err = ser.DecodeBytesWithType(bz, &m)
	return
}
