package c16

import (
	"bufio"
	"encoding/json"
	"fmt"
	"os"

	"verifh/core"
)

func gossipChild(c *core.Ctx, j job) {
	w := bufio.NewWriter(os.Stdout)
	defer w.Flush()
	res := &jobResult{Class: j.Class, ByEff: map[string]int{}, Latent: map[string]int{}}
	rj, _ := json.Marshal(res)
	fmt.Fprintf(w, "RESULT %s\nDONE\n", rj)
}

func allocChild(c *core.Ctx, j job) {
	w := bufio.NewWriter(os.Stdout)
	defer w.Flush()
	res := &jobResult{Class: j.Class, ByEff: map[string]int{}, Latent: map[string]int{}}
	rj, _ := json.Marshal(res)
	fmt.Fprintf(w, "RESULT %s\nDONE\n", rj)
}
