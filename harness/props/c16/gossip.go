package c16

// The gossip phase (spec/PeerInput/PeerGossip.tla): the reactor starts three goroutines
// per peer (gossipDataRoutine, gossipVotesRoutine, queryMaj23Routine) that read what the
// peer ANNOUNCED about itself (the PeerRoundState). They run outside any recover(): a
// failure there does not drop a peer, it ends the process - and the node's consensus
// routine with it. Behaviours of the model (the shortest behaviour to every site of death
// TLC finds in the model of the code as it is, and simulated behaviours of the repaired
// model) are replayed on a node whose gossip routines are live; the child process must
// survive, and the PeerRoundState must follow the model.

import (
	"bufio"
	"encoding/json"
	"fmt"
	"io/ioutil"
	"math"
	"math/rand"
	"os"
	"strings"
	"sync/atomic"
	"time"

	cs "github.com/lianxiangcloud/linkchain/consensus"
	cstypes "github.com/lianxiangcloud/linkchain/consensus/types"
	cmn "github.com/lianxiangcloud/linkchain/libs/common"
	"github.com/lianxiangcloud/linkchain/libs/crypto"
	"github.com/lianxiangcloud/linkchain/libs/p2p"
	"github.com/lianxiangcloud/linkchain/libs/ser"
	"github.com/lianxiangcloud/linkchain/types"

	"verifh/core"
)

// node classes of PeerGossip.tla -> state classes the harness builds
var gossipNodeClass = map[string]string{
	"g-h1-parts":   "h1-parts",
	"g-h1-commit":  "h1-commit",
	"g-h1-propose": "h1-propose",
	"g-h2-propose": "h2-propose",
	"g-h3-pruned":  "h3-pruned",
}
var gossipNodes = []string{"g-h1-parts", "g-h1-commit", "g-h1-propose", "g-h2-propose", "g-h3-pruned"}

// gAct is an action label of PeerGossip.
type gAct struct {
	T    string   `json:"t"`
	H    int      `json:"h"`
	R    int      `json:"r"`
	Pol  int      `json:"pol"`
	Kind string   `json:"kind"`
	Hdr  string   `json:"hdr"`
	Ba   []string `json:"ba"`
	PolR int      `json:"polr"`
}
type gPRS struct {
	H    int      `json:"h"`
	R    int      `json:"r"`
	Prop bool     `json:"prop"`
	Hdr  string   `json:"hdr"`
	Pbp  []string `json:"pbp"`
	PolR int      `json:"polr"`
	Pol  []string `json:"pol"`
	Ccr  int      `json:"ccr"`
}
type gStep struct {
	A    gAct   `json:"a"`
	To   gPRS   `json:"to"`
	Pend string `json:"pend"`
}
type gScenario struct {
	Node  string  `json:"node"`
	Lead  string  `json:"lead,omitempty"` // site of death the as-is model predicts at the end ("" for a simulated behaviour of the repaired model)
	Steps []gStep `json:"steps"`
}

// connectGossipPeer replaces the attacker by a peer whose gossip routines keep running.
func (r *rig) connectGossipPeer() {
	if r.peer != nil {
		atomic.StoreInt32(&r.peer.running, 0) // the previous peer's routines end
	}
	p := newMockPeer("attacker")
	atomic.StoreInt32(&p.running, 1)
	r.sw.peers = []p2p.Peer{p}
	r.peer = p
	r.conR.AddPeer(p)
}

// gossipRounds waits until the peer has been polled n more times by the gossip routines
// (each routine polls peer.IsRunning() once per iteration).
func (r *rig) gossipRounds(n int64, max time.Duration) bool {
	start := atomic.LoadInt64(&r.peer.polls)
	deadline := time.Now().Add(max)
	for atomic.LoadInt64(&r.peer.polls) < start+n {
		if time.Now().After(deadline) {
			return false
		}
		time.Sleep(100 * time.Microsecond)
	}
	return true
}

// gInst instantiates the abstract messages of PeerGossip.
type gInst struct {
	b   *built
	rng *rand.Rand
}

func (g *gInst) storedHeader(h uint64) (types.PartSetHeader, bool) {
	if ps := g.b.node().Mock.Parts[h]; ps != nil {
		return ps.Header(), true
	}
	return types.PartSetHeader{}, false
}

// nodeHeader is the header of the part set the node is collecting (or, when it collects none, of the
// honest proposal of its height - nothing compares equal to it then).
func (g *gInst) nodeHeader() types.PartSetHeader {
	if ps := g.b.rs().ProposalBlockParts; ps != nil {
		return ps.Header()
	}
	return types.PartSetHeader{Total: 3, Hash: randBytes(g.rng, 32)}
}

func (g *gInst) ba(tag []string, size int) *cmn.BitArray {
	if size <= 0 {
		size = 3
	}
	switch strings.Join(tag, "/") {
	case "nil/nil":
		return nil
	case "eq/ok":
		return cmn.NewBitArray(size) // the peer claims to have nothing: the node will try to send
	case "gt/ok":
		return cmn.NewBitArray(size + []int{1, 61, 64, 1000}[g.rng.Intn(4)])
	case "eq/none": // Bits and Elems disagree: too few words, none at all, or surplus words
		switch g.rng.Intn(4) {
		case 0:
			return &cmn.BitArray{Bits: size, Elems: []uint64{}}
		case 1:
			return &cmn.BitArray{Bits: size, Elems: []uint64{0, 0, 0}}
		case 2:
			return &cmn.BitArray{Bits: 1, Elems: []uint64{0, 0, 0}}
		}
		return &cmn.BitArray{Bits: size}
	case "gt/few":
		return &cmn.BitArray{Bits: []int{100000, math.MaxInt64, 65}[g.rng.Intn(3)], Elems: []uint64{0}}
	case "neg/ok":
		return &cmn.BitArray{Bits: []int{-1, -5, -65, math.MinInt64 + 1}[g.rng.Intn(4)], Elems: []uint64{0}}
	}
	panic("bad bit array tag " + strings.Join(tag, "/"))
}

func (g *gInst) round(r int) int {
	if r == sFAR {
		return g.b.rs().Round + 5 + g.rng.Intn(3)
	}
	return r
}

func (g *gInst) make(a gAct, prsHeight uint64) (ch byte, bz []byte, malformed bool) {
	var msg cs.ConsensusMessage
	wf := func(t []string) bool {
		s := strings.Join(t, "/")
		return s == "nil/nil" || s == "eq/ok" || s == "gt/ok"
	}
	switch a.T {
	case "nrs":
		ch = cs.StateChannel
		steps := []cstypes.RoundStepType{cstypes.RoundStepNewHeight, cstypes.RoundStepPropose, cstypes.RoundStepPrevote, cstypes.RoundStepPrecommit, cstypes.RoundStepCommit}
		msg = &cs.NewRoundStepMessage{Height: uint64(a.H), Round: g.round(a.R), Step: steps[g.rng.Intn(len(steps))], LastCommitRound: []int{-1, 0}[g.rng.Intn(2)]}
	case "proposal":
		ch = cs.DataChannel
		hdr := g.nodeHeader()
		switch a.Kind {
		case "other":
			hdr = types.PartSetHeader{Total: hdr.Total, Hash: randBytes(g.rng, 32)}
		case "other-neg":
			hdr = types.PartSetHeader{Total: []int{-1, -64, math.MinInt64}[g.rng.Intn(3)], Hash: randBytes(g.rng, 32)}
			malformed = true
		case "other-big": // more parts than the largest block the consensus parameters allow
			hdr = types.PartSetHeader{Total: []int{200000, 1 << 20}[g.rng.Intn(2)], Hash: randBytes(g.rng, 32)}
			malformed = true
		}
		p := types.NewProposal(uint64(a.H), g.round(a.R), hdr, a.Pol, types.BlockID{})
		p.Type = types.ProposalTypeNormal
		var s crypto.SignatureEd25519
		g.rng.Read(s[:])
		p.Signature = s // the reactor's bookkeeping does not verify it
		msg = &cs.ProposalMessage{Proposal: p}
	case "commitstep":
		ch = cs.StateChannel
		var hdr types.PartSetHeader
		size := 3
		switch a.Hdr {
		case "node":
			hdr = g.nodeHeader()
			size = hdr.Total
		case "stored":
			if sh, ok := g.storedHeader(prsHeight); ok {
				hdr, size = sh, sh.Total
			} else {
				hdr = types.PartSetHeader{Total: 3, Hash: randBytes(g.rng, 32)}
			}
		case "other":
			hdr = types.PartSetHeader{Total: 3, Hash: randBytes(g.rng, 32)}
		}
		msg = &cs.CommitStepMessage{Height: uint64(a.H), BlockPartsHeader: hdr, BlockParts: g.ba(a.Ba, size)}
		malformed = !wf(a.Ba)
	case "pol":
		ch = cs.DataChannel
		msg = &cs.ProposalPOLMessage{Height: uint64(a.H), ProposalPOLRound: a.PolR, ProposalPOL: g.ba(a.Ba, 4)}
		malformed = !wf(a.Ba)
	default:
		panic("not a message: " + a.T)
	}
	return ch, ser.MustEncodeToBytesWithType(msg), malformed
}

func isGossipStep(t string) bool { return strings.HasPrefix(t, "g-") }

func gossipChild(c *core.Ctx, j job) {
	w := bufio.NewWriter(os.Stdout)
	defer w.Flush()
	res := &jobResult{Class: j.Class, ByEff: map[string]int{}, Latent: map[string]int{}, ByOwn: map[string]int{}}
	finish := func() {
		rj, _ := json.Marshal(res)
		fmt.Fprintf(w, "RESULT %s\nDONE\n", rj)
		w.Flush()
	}
	data, err := ioutil.ReadFile(j.Edges)
	if err != nil {
		res.Infra = err.Error()
		finish()
		return
	}
	var all []gScenario
	if err := json.Unmarshal(data, &all); err != nil {
		res.Infra = "scenario file: " + err.Error()
		finish()
		return
	}
	node := strings.TrimPrefix(j.Class, "gossip/")
	b, err := buildClass(gossipNodeClass[node], false)
	if err != nil {
		res.Infra = err.Error()
		finish()
		return
	}
	for k := j.From; k < len(all); k++ {
		sc := all[k]
		if sc.Node != node {
			continue
		}
		rng := rand.New(rand.NewSource(c.Seed*104729 + int64(k)))
		g := &gInst{b: b, rng: rng}
		sj, _ := json.Marshal(map[string]interface{}{"k": k, "node": node, "lead": sc.Lead, "steps": actsOf(sc)})
		fmt.Fprintf(w, "AT %s\n", sj)
		w.Flush()
		b.connectGossipPeer() // every behaviour starts from a fresh PeerState
		conform := true
		deliver := func(st gStep) {
			prs := b.prs()
			ch, bz, malformed := g.make(st.A, prs.Height)
			stops := b.sw.nStopped()
			rf := b.conR.VerifReceive(ch, b.peer, bz)
			res.Deliveries++
			if rf != nil || b.sw.nStopped() > stops {
				res.ReactorDrop++
				b.connectGossipPeer() // stopped by the node: the attacker connects again (PeerState starts over)
			} else if malformed {
				conform = false // the code as it is keeps the malformed array; the repaired model does not
			}
			if conform && sc.Lead == "" {
				now := b.prs()
				wantR := st.To.R
				if wantR == sFAR {
					wantR = now.Round // any untracked round
				}
				if int(now.Height) != st.To.H || (now.Round != wantR) {
					if len(res.Drift) < 10 {
						res.Drift = append(res.Drift, fmt.Sprintf("gossip %s behaviour %d: after %+v the PeerRoundState is at %d/%d, the model says %d/%d", node, k, st.A, now.Height, now.Round, st.To.H, st.To.R))
					}
					conform = false
				}
			}
		}
		for i := 0; i < len(sc.Steps); i++ {
			st := sc.Steps[i]
			if !isGossipStep(st.A.T) {
				deliver(st)
				continue
			}
			if st.A.T == "g-data" && st.Pend == "part" && i+1 < len(sc.Steps) && !isGossipStep(sc.Steps[i+1].A.T) {
				// the model interleaves the next message between the part being sent and SetHasProposalBlockPart:
				// deliver it from inside the peer's Send, where gossipDataRoutine is exactly there
				next := sc.Steps[i+1]
				fired := make(chan struct{})
				b.peer.arm(func() { deliver(next); close(fired) })
				select {
				case <-fired:
					i++
				case <-time.After(150 * time.Millisecond):
					b.peer.arm(nil) // no part was sent (nothing the peer lacks): deliver normally
					select {
					case <-fired:
						i++
					default:
					}
				}
				b.gossipRounds(3, 300*time.Millisecond)
				continue
			}
			b.gossipRounds(4, 300*time.Millisecond)
		}
		if !b.gossipRounds(9, 5*time.Second) {
			res.Drift = append(res.Drift, fmt.Sprintf("the gossip routines of %s stopped iterating after behaviour %d: %s", node, k, sj))
		}
		res.Edges++
		if sc.Lead != "" {
			// the as-is model predicts the death of the process here; it survived
			res.Latent["model lead not reproduced: "+sc.Lead]++
		}
		if res.Sample == nil && sc.Lead == "" {
			res.Sample = map[string]interface{}{"gossip_node_class": node, "behaviour": actsOf(sc)}
		}
	}
	atomic.StoreInt32(&b.peer.running, 0)
	if b.wal != nil {
		b.wal.close(nil)
	}
	finish()
}

func actsOf(sc gScenario) []gAct {
	var out []gAct
	for _, s := range sc.Steps {
		out = append(out, s.A)
	}
	return out
}
