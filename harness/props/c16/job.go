package c16

// One child process per state class: replays every exported edge of the class, then the
// byte-level inputs, then checks that the cluster still commits the next height.

import (
	"bufio"
	"encoding/json"
	"fmt"
	"io/ioutil"
	"math/rand"
	"os"
	"sort"
	"strings"

	"verifh/core"
)

type job struct {
	Kind     string `json:"kind"` // "class" | "gossip" | "alloc"
	Class    string `json:"class"`
	Edges    string `json:"edges"` // file with the class's edge lines
	Variants int    `json:"variants"`
	NBytes   int    `json:"nbytes"`
	Idx      int    `json:"idx"`
	From     int    `json:"from"` // gossip: first scenario to run (a restarted child continues after a crash)
	Follow   int    `json:"follow"` // class: own steps of the node after this many deliveries that changed nothing
	WalDir   string `json:"walDir"` // where the targets' write-ahead logs live (removed by the parent)
}

func loadEdges(path, class string) ([]*edge, error) {
	b, err := ioutil.ReadFile(path)
	if err != nil {
		return nil, err
	}
	var out []*edge
	for _, l := range strings.Split(strings.TrimSpace(string(b)), "\n") {
		if l == "" {
			continue
		}
		var raw struct {
			From json.RawMessage `json:"from"`
			Act  json.RawMessage `json:"act"`
			To   json.RawMessage `json:"to"`
			Run  bool            `json:"run"`
			Cf   classFacts      `json:"cf"`
		}
		if err := json.Unmarshal([]byte(l), &raw); err != nil {
			return nil, fmt.Errorf("edge line: %v", err)
		}
		e := &edge{Run: raw.Run, Cf: raw.Cf}
		if err := json.Unmarshal(raw.From, &e.From); err != nil {
			return nil, err
		}
		if e.From.Cls != class {
			continue
		}
		json.Unmarshal(raw.To, &e.To)
		if err := json.Unmarshal(raw.Act, &e.Act); err != nil {
			return nil, err
		}
		var am struct {
			M json.RawMessage `json:"m"`
		}
		json.Unmarshal(raw.Act, &am)
		e.M = am.M
		out = append(out, e)
	}
	return out, nil
}

func claimKey(c []interface{}) string {
	if len(c) == 0 {
		return ""
	}
	b, _ := json.Marshal(c)
	return string(b)
}

// group is the set of exported deliveries that start from one model state (the class state itself, or the
// class state after the peer used one or two catch-up allocations / made a majority claim).
type group struct {
	from  projState
	edges []*edge
	prep  func() error // brings a freshly built class into the state
}

// farAlloc is a vote no validator signed for a round far beyond the ones the node tracks: it is rejected, the
// entry HeightVoteSet.AddVote created for its round stays (and costs the peer one of its two catch-up rounds).
func allocMsg(h, r int) absMsg {
	return absMsg{T: "vote", Ch: "vote", H: h, R: r, Typ: 1, Who: 3, VIdx: "who", VAddr: "who", Size: 4, Bid: "block", Sig: "bad", Sz: "small"}
}

// prefix makes the attacker use q catch-up allocations: the rounds of cat, the rest far away.
func (rn *runner) prefix(q int, cat []int) error {
	rounds := append([]int{}, cat...)
	for len(rounds) < q {
		rounds = append(rounds, sFAR)
	}
	for i, r := range rounds {
		cm, err := rn.in.make(allocMsg(wantFacts[rn.class].H2(), r))
		if err != nil {
			return err
		}
		rn.ensureMode("none")
		rn.probe = cm.rounds
		o := rn.wire(cm)
		if o.smFail != nil || !o.changed {
			return fmt.Errorf("class %s: allocating prefix message %d (round %d) did not allocate (fail=%v changed=%v)", rn.class, i, r, o.smFail, o.changed)
		}
	}
	return nil
}

// settle is called after every replayed edge: a follow-up of own steps and a fresh class after a delivery that
// changed the node, and after every rn.follow deliveries that did not.
func (rn *runner) settle(g *group, e *edge, changed bool, cm cause) error {
	switch {
	case changed && !rn.suspect && e != nil && e.To.Changed != "recover":
		strict := e.To.Changed == "no" && !rn.unmodelled
		if !strict && int(rn.b.rs().Height) != wantFacts[rn.class].H2() {
			rn.res.FollowBlocked++ // the accepted message decided the height: the consensus algorithm's business
		} else if err := rn.followUp(e.To, strict, cm); err != nil {
			return err
		}
	case changed:
	case rn.follow > 0 && rn.nSince >= rn.follow:
		if err := rn.followUp(g.from, true, cause{Batch: rn.nSince, Last: rn.lastMsgs}); err != nil {
			return err
		}
	default:
		return nil
	}
	if err := rn.rebuild(); err != nil {
		return err
	}
	if g != nil && g.prep != nil {
		return g.prep()
	}
	return nil
}

func classChild(c *core.Ctx, j job) {
	w := bufio.NewWriter(os.Stdout)
	defer w.Flush()
	res := &jobResult{Class: j.Class, ByEff: map[string]int{}, Latent: map[string]int{}, ByOwn: map[string]int{}}
	finish := func() {
		rj, _ := json.Marshal(res)
		fmt.Fprintf(w, "RESULT %s\nDONE\n", rj)
		w.Flush()
	}
	all, err := loadEdges(j.Edges, j.Class)
	if err != nil {
		res.Infra = err.Error()
		finish()
		return
	}
	edges, own := splitEdges(all)
	rng := rand.New(rand.NewSource(c.Seed*7919 + int64(j.Idx)))
	rn := &runner{class: j.Class, rng: rng, res: res, w: w, variants: j.Variants, seenKey: map[string]bool{}, own: own, follow: j.Follow}
	if err := rn.rebuild(); err != nil {
		res.Infra = err.Error()
		finish()
		return
	}
	defer rn.closeWAL()
	// the specification's own record of the class must describe the node the harness built
	if len(edges) > 0 {
		if got, want := rn.b.facts(), edges[0].Cf; !cfMatch(got, want) {
			res.Infra = fmt.Sprintf("class %s: the specification's class record %+v does not describe the node built (%+v)", j.Class, want, got)
			finish()
			return
		}
	}
	// group the edges by the model state they start from
	base := &group{}
	byRes := map[string]*group{}
	var resKeys []string
	claims := map[string][]*edge{}
	for _, e := range edges {
		ck := claimKey(e.From.Claim)
		switch {
		case ck != "":
			claims[ck] = append(claims[ck], e)
		case e.From.Q == 0:
			base.from = e.From
			base.edges = append(base.edges, e)
		default:
			k := e.From.residueKey()
			g := byRes[k]
			if g == nil {
				from := e.From
				g = &group{from: from, prep: func() error { return rn.prefix(from.Q, from.Cat) }}
				byRes[k] = g
				resKeys = append(resKeys, k)
			}
			g.edges = append(g.edges, e)
		}
	}
	if len(base.edges) == 0 {
		res.Infra = "the model exported no delivery from the class state of " + j.Class
		finish()
		return
	}
	rn.classOwn = base.from.Own
	if h, r, hvr, _ := rn.ownView(); h != rn.classOwn.H || r != rn.classOwn.R || hvr != rn.classOwn.Hvr {
		res.Infra = fmt.Sprintf("class %s: the model's own = %+v does not describe the node built (h=%d r=%d HeightVoteSet.round=%d)", j.Class, rn.classOwn, h, r, hvr)
		finish()
		return
	}
	sort.Strings(resKeys)
	rng.Shuffle(len(base.edges), func(a, b int) { base.edges[a], base.edges[b] = base.edges[b], base.edges[a] })
	fail := func(err error) bool {
		if err != nil {
			res.Infra = err.Error()
			finish()
			return true
		}
		return false
	}
	run := func(g *group, e *edge, k int) (bool, error) {
		res.Edges++
		changed := false
		nv := rn.variants
		if sizeOf(e.Act.M.Sz) > 0 && nv > 2 {
			nv = 2 // (a message at the size limit costs a mebibyte on every path: two instantiations of the other fields)
		}
		for v := 0; v < nv; v++ {
			ch, cm, err := rn.replayEdge(e, k+v)
			if err != nil {
				return false, err
			}
			if ch {
				changed = true
			}
			if err := rn.settle(g, e, ch, cm); err != nil {
				return changed, err
			}
		}
		return changed, nil
	}
	// (A) and (B): every edge from the class state itself
	var claimEdges []*edge
	for k, e := range base.edges {
		if _, err := run(base, e, k); fail(err) {
			return
		}
		if e.Act.Eff == "claim" {
			claimEdges = append(claimEdges, e)
		}
		if res.Sample == nil && e.Act.Eff == "none" && e.Act.M.T == "vote" && !e.Act.M.Nilc {
			res.Sample = map[string]interface{}{"class": j.Class, "abstract": e.M, "expected": "stutter (eff none)", "concrete": rn.in.note}
		}
	}
	// (C) after one / two catch-up allocations by this peer (which rounds they created entries for matters to the
	// node's own steps): the quota, votes for the created entries
	for _, gk := range resKeys {
		g := byRes[gk]
		if fail(rn.settle(nil, nil, true, cause{})) { // a fresh class
			return
		}
		if fail(g.prep()) {
			return
		}
		nAff := 0
		for k, e := range g.edges {
			if changing[e.Act.Eff] {
				nAff++
				if nAff > c.Pick(4, 12)*rn.variants { // each needs a rebuild and the prefix again
					continue
				}
			}
			if _, err := run(g, e, k); fail(err) {
				return
			}
		}
		// the node's own steps from this state, whatever was delivered since
		if !rn.suspect {
			if fail(rn.followUp(g.from, true, cause{Batch: rn.nSince, Last: rn.lastMsgs})) {
				return
			}
		}
	}
	// (C') majority claims: after a claim, the peer's further claims about the same vote set
	nc := 0
	for _, ce := range claimEdges {
		ck := claimKey(ce.To.Claim)
		set := claims[ck]
		if len(set) == 0 || nc >= 6*rn.variants {
			continue
		}
		nc++
		if fail(rn.rebuild()) {
			return
		}
		cm, err := rn.in.make(ce.Act.M)
		if fail(err) {
			return
		}
		rn.ensureMode("none")
		rn.probe = nil
		if o := rn.wire(cm); !o.changed {
			rn.drift("%s: claim %s was not recorded", j.Class, string(ce.M))
			continue
		}
		cg := &group{from: ce.To, prep: func() error {
			claim, err := rn.in.make(ce.Act.M) // (a rebuilt class has new keys and blocks)
			if err != nil {
				return err
			}
			rn.ensureMode("none")
			rn.probe = nil
			if o := rn.wire(claim); !o.changed {
				return fmt.Errorf("class %s: claim %s was not recorded when delivered again", j.Class, string(ce.M))
			}
			return nil
		}}
		for k, e := range set {
			// the same claim must repeat the same block: instantiate "block" deterministically, others are fresh
			if _, err := run(cg, e, k); fail(err) {
				return
			}
		}
		if !rn.suspect {
			if fail(rn.followUp(ce.To, true, cause{Edge: ce, Concrete: cm.desc, Hex: hexOf(cm.bytes)})) {
				return
			}
		}
	}
	// (D) byte-level inputs
	if fail(rn.rebuild()) {
		return
	}
	if j.NBytes > 0 {
		if fail(rn.bytesPhase(base, j.NBytes)) {
			return
		}
	}
	// (E) the node's own steps once more, then the whole cluster commits the next height
	if !rn.suspect {
		if fail(rn.followUp(base.from, true, cause{Batch: rn.nSince, Last: rn.lastMsgs})) {
			return
		}
	}
	if rn.b.tfail() != nil { // (reported above)
		rn.closeWAL()
		finish()
		return
	}
	to, err := rn.liveness()
	res.LiveTo = to
	if err != nil {
		if strings.HasPrefix(err.Error(), "TARGET:") {
			rn.addHit(hit{Key: "liveness/" + j.Class, Kind: "liveness", Class: j.Class, Path: "final run", Detail: err.Error()})
		} else {
			res.Infra = err.Error()
		}
	}
	rn.closeWAL()
	finish()
}

// splitEdges separates the deliveries from the node's own steps (indexed by the state they start from).
func splitEdges(all []*edge) (deliver []*edge, own map[string][]*edge) {
	own = map[string][]*edge{}
	for _, e := range all {
		if e.Act.Op == "deliver" {
			deliver = append(deliver, e)
		} else {
			own[e.From.key()] = append(own[e.From.key()], e)
		}
	}
	return
}

// classFacts is the class record of the specification as exported with every edge.
type classFacts struct {
	H       int  `json:"h"`
	R       int  `json:"r"`
	Step    int  `json:"step"`
	Lc      bool `json:"lc"`
	Prop    bool `json:"prop"`
	Exp     bool `json:"exp"`
	NHave   int  `json:"nhave"`
	Blk     bool `json:"blk"`
	Stalled bool `json:"stalled"`
}

func cfMatch(got facts, want classFacts) bool {
	if int(got.H) != want.H || got.R != want.R || got.Step != want.Step || got.LastCommit != want.Lc || got.Proposal != want.Prop ||
		got.Expecting != want.Exp || got.Block != want.Blk || got.Stalled != want.Stalled {
		return false
	}
	if want.Exp && want.NHave < sNP { // an incomplete set: exactly that many parts; a complete one: all of them
		return got.Have == want.NHave
	}
	return !want.Exp || got.Block || got.Have > 0
}
