package c16

// One child process per state class: replays every exported edge of the class, then the
// byte-level inputs, then checks that the cluster still commits the next height.

import (
	"bufio"
	"encoding/json"
	"fmt"
	"io/ioutil"
	"math/rand"
	"os"
	"strings"

	"verifh/core"
)

type job struct {
	Kind     string `json:"kind"` // "class" | "gossip" | "alloc"
	Class    string `json:"class"`
	Edges    string `json:"edges"` // file with the class's edge lines
	Variants int    `json:"variants"`
	NBytes   int    `json:"nbytes"`
	Idx      int    `json:"idx"`
	From     int    `json:"from"` // gossip: first scenario to run (a restarted child continues after a crash)
}

func loadEdges(path, class string) ([]*edge, error) {
	b, err := ioutil.ReadFile(path)
	if err != nil {
		return nil, err
	}
	var out []*edge
	for _, l := range strings.Split(strings.TrimSpace(string(b)), "\n") {
		if l == "" {
			continue
		}
		var raw struct {
			From json.RawMessage `json:"from"`
			Act  json.RawMessage `json:"act"`
			To   json.RawMessage `json:"to"`
			Run  bool            `json:"run"`
			Cf   classFacts      `json:"cf"`
		}
		if err := json.Unmarshal([]byte(l), &raw); err != nil {
			return nil, fmt.Errorf("edge line: %v", err)
		}
		e := &edge{Run: raw.Run, Cf: raw.Cf}
		if err := json.Unmarshal(raw.From, &e.From); err != nil {
			return nil, err
		}
		if e.From.Cls != class {
			continue
		}
		json.Unmarshal(raw.To, &e.To)
		if err := json.Unmarshal(raw.Act, &e.Act); err != nil {
			return nil, err
		}
		var am struct {
			M json.RawMessage `json:"m"`
		}
		json.Unmarshal(raw.Act, &am)
		e.M = am.M
		out = append(out, e)
	}
	return out, nil
}

func claimKey(c []interface{}) string {
	if len(c) == 0 {
		return ""
	}
	b, _ := json.Marshal(c)
	return string(b)
}

func classChild(c *core.Ctx, j job) {
	w := bufio.NewWriter(os.Stdout)
	defer w.Flush()
	res := &jobResult{Class: j.Class, ByEff: map[string]int{}, Latent: map[string]int{}}
	finish := func() {
		rj, _ := json.Marshal(res)
		fmt.Fprintf(w, "RESULT %s\nDONE\n", rj)
		w.Flush()
	}
	edges, err := loadEdges(j.Edges, j.Class)
	if err != nil {
		res.Infra = err.Error()
		finish()
		return
	}
	rng := rand.New(rand.NewSource(c.Seed*7919 + int64(j.Idx)))
	rn := &runner{class: j.Class, rng: rng, res: res, w: w, variants: j.Variants, seenKey: map[string]bool{}}
	if err := rn.rebuild(); err != nil {
		res.Infra = err.Error()
		finish()
		return
	}
	// the specification's own record of the class must describe the node the harness built
	if len(edges) > 0 {
		if got, want := rn.b.facts(), edges[0].Cf; !cfMatch(got, want) {
			res.Infra = fmt.Sprintf("class %s: the specification's class record %+v does not describe the node built (%+v)", j.Class, want, got)
			finish()
			return
		}
	}
	// group the edges by the model state they start from
	var base, q1, q2 []*edge
	claims := map[string][]*edge{}
	for _, e := range edges {
		ck := claimKey(e.From.Claim)
		switch {
		case ck != "":
			claims[ck] = append(claims[ck], e)
		case e.From.Q == 0:
			base = append(base, e)
		case e.From.Q == 1:
			q1 = append(q1, e)
		default:
			q2 = append(q2, e)
		}
	}
	rng.Shuffle(len(base), func(a, b int) { base[a], base[b] = base[b], base[a] })
	fail := func(err error) bool {
		if err != nil {
			res.Infra = err.Error()
			finish()
			return true
		}
		return false
	}
	run := func(e *edge, k int) (bool, error) {
		res.Edges++
		changed := false
		for v := 0; v < rn.variants; v++ {
			ch, err := rn.replayEdge(e, k+v)
			if err != nil {
				return false, err
			}
			if ch {
				changed = true
				if err := rn.rebuild(); err != nil {
					return true, err
				}
			}
		}
		return changed, nil
	}
	// (A) and (B): every edge from the class state itself; a rebuild follows every state change
	var allocEdges []*edge
	var claimEdges []*edge
	for k, e := range base {
		if _, err := run(e, k); fail(err) {
			return
		}
		if r := e.Act.M.R; e.Act.Eff == "alloc" && e.Act.M.Sig == "bad" && (r == sNEG || r == sFAR || r == sMAXI) { // symbolic rounds are fresh ones
			allocEdges = append(allocEdges, e)
		}
		if e.Act.Eff == "claim" {
			claimEdges = append(claimEdges, e)
		}
		if res.Sample == nil && e.Act.Eff == "none" && e.Act.M.T == "vote" && !e.Act.M.Nilc {
			res.Sample = map[string]interface{}{"class": j.Class, "abstract": e.M, "expected": "stutter (eff none)", "concrete": rn.in.note}
		}
	}
	// (C) the bounded catch-up allocation: after one / two allocations by this peer
	prefix := func(n int) error {
		if len(allocEdges) < 1 {
			return fmt.Errorf("class %s has no allocating edge to build q=%d from", j.Class, n)
		}
		for i := 0; i < n; i++ {
			e := allocEdges[rng.Intn(len(allocEdges))]
			cm, err := rn.in.make(e.Act.M)
			if err != nil {
				return err
			}
			rn.ensureMode("none")
			rn.probe = cm.rounds
			o := rn.wire(cm)
			if o.smFail != nil || !o.changed {
				return fmt.Errorf("class %s: allocating prefix message %d did not allocate (fail=%v changed=%v): %s", j.Class, i, o.smFail, o.changed, string(e.M))
			}
		}
		return nil
	}
	for qi, set := range [][]*edge{q1, q2} {
		if len(set) == 0 {
			continue
		}
		if fail(rn.rebuild()) {
			return
		}
		if fail(prefix(qi + 1)) {
			return
		}
		nAff := 0
		for k, e := range set {
			if changing[e.Act.Eff] {
				nAff++
				if nAff > 12*rn.variants { // each needs a rebuild and the prefix again
					continue
				}
			}
			ch, err := run(e, k)
			if fail(err) {
				return
			}
			if ch {
				if fail(prefix(qi + 1)) {
					return
				}
			}
		}
	}
	// (C') majority claims: after a claim, the peer's further claims about the same vote set
	nc := 0
	for _, ce := range claimEdges {
		ck := claimKey(ce.To.Claim)
		set := claims[ck]
		if len(set) == 0 || nc >= 6*rn.variants {
			continue
		}
		nc++
		if fail(rn.rebuild()) {
			return
		}
		cm, err := rn.in.make(ce.Act.M)
		if fail(err) {
			return
		}
		rn.ensureMode("none")
		rn.probe = nil
		if o := rn.wire(cm); !o.changed {
			rn.drift("%s: claim %s was not recorded", j.Class, string(ce.M))
			continue
		}
		for k, e := range set {
			// the same claim must repeat the same block: instantiate "block" deterministically, others are fresh
			if _, err := run(e, k); fail(err) {
				return
			}
		}
	}
	// (D) byte-level inputs
	if j.NBytes > 0 {
		if fail(rn.rebuild()) {
			return
		}
		if fail(rn.bytesPhase(base, j.NBytes)) {
			return
		}
	}
	// (E) the cluster still commits
	if rn.b.wal != nil {
		res.WALEntries += rn.b.wal.entries
		res.WALTooBig += rn.b.wal.tooBig
		if rn.b.wal.maxBytes > res.WALMaxBytes {
			res.WALMaxBytes = rn.b.wal.maxBytes
		}
	}
	to, err := rn.liveness()
	res.LiveTo = to
	if err != nil {
		if strings.HasPrefix(err.Error(), "TARGET:") {
			rn.addHit(hit{Key: "liveness/" + j.Class, Kind: "liveness", Class: j.Class, Path: "final run", Detail: err.Error()})
		} else {
			res.Infra = err.Error()
		}
	}
	finish()
}

// classFacts is the class record of the specification as exported with every edge.
type classFacts struct {
	H       int  `json:"h"`
	R       int  `json:"r"`
	Step    int  `json:"step"`
	Lc      bool `json:"lc"`
	Prop    bool `json:"prop"`
	Exp     bool `json:"exp"`
	NHave   int  `json:"nhave"`
	Blk     bool `json:"blk"`
	Stalled bool `json:"stalled"`
}

func cfMatch(got facts, want classFacts) bool {
	if int(got.H) != want.H || got.R != want.R || got.Step != want.Step || got.LastCommit != want.Lc || got.Proposal != want.Prop ||
		got.Expecting != want.Exp || got.Block != want.Blk || got.Stalled != want.Stalled {
		return false
	}
	if want.Exp && want.NHave < sNP { // an incomplete set: exactly that many parts; a complete one: all of them
		return got.Have == want.NHave
	}
	return !want.Exp || got.Block || got.Have > 0
}
