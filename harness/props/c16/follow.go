package c16

// The node's OWN steps after the peer's input (PeerInput.tla: Start, Advance, Skip, Commit).
//
// The harm of an input may show only later: what a message leaves behind (a vote-set entry for a
// round the node does not track yet, a used-up catch-up quota, a majority claim, an accepted
// proposal, a WAL record) meets the node's own next steps - a round change by timeouts, a round
// skip, the commit, the first round of the next height. After every state-changing delivery and
// after every batch of deliveries that left the RoundState alone, the REAL target is driven through
// one of the model's own-step paths: the timeouts it scheduled itself are fired, the other three
// validators' votes are signed with their real keys (only votes the target does not hold yet, so the
// target never sees an equivocation), the block the other validators committed is handed over.
// pi_prop: no failure of the consensus routine in any of these steps, the height gets committed, the
// next height's first round starts. pi_shape (drift): height, round, HeightVoteSet.Round() and the
// catch-up entries in reach equal the model's `own` / `cat` after every step.

import (
	"fmt"
	"sort"
	"strings"

	cs "github.com/lianxiangcloud/linkchain/consensus"
	cstypes "github.com/lianxiangcloud/linkchain/consensus/types"
	"github.com/lianxiangcloud/linkchain/types"
)

// plans are the round changes a follow-up makes before the commit (the model's MaxOwn = 2).
var plans = [][]string{{"advance"}, {"skip"}, {"advance", "advance"}, {}, {"advance", "skip"}, {"skip", "advance"}, {"skip", "skip"}}

// stepOut is what one own step did to the real node.
type stepOut struct {
	fail  interface{} // the consensus routine failed (a panic inside handleMsg / handleTimeout)
	na    bool        // the step does not apply to the node's present state
	stuck string      // nothing failed, but the node did not get where the step leads
}

func (b *built) tfail() interface{} { return b.node().Failure }

// pop lets the target handle its own queued messages (its proposal, parts and votes).
func (b *built) pop() {
	for b.tfail() == nil {
		if _, ok := b.cl.PopInternal(b.target); !ok {
			return
		}
	}
}

// tfire fires the target's pending timeout for its current height and round and the given step.
func (b *built) tfire(step cstypes.RoundStepType) (found bool) {
	n := b.node()
	rs := n.CS.GetRoundState()
	for k := len(n.Pend) - 1; k >= 0; k-- {
		t := n.Pend[k]
		if t.Height == rs.Height && t.Round == rs.Round && t.Step == step {
			b.cl.Fire(b.target, k)
			b.pop()
			return true
		}
	}
	return false
}

func (b *built) tgive(m cs.ConsensusMessage, from int) {
	b.cl.Deliver(b.target, m, from)
	b.pop()
}

// holds: the target has validator i's vote of that round and type.
func (b *built) holds(round int, typ byte, i int) bool {
	votes := b.rs().Votes
	if votes == nil {
		return false
	}
	vs := votes.Prevotes(round)
	if typ == types.VoteTypePrecommit {
		vs = votes.Precommits(round)
	}
	return vs != nil && vs.GetByAddress(b.cl.PVs[i].GetAddress()) != nil
}

// giveVotes signs, for every other validator whose vote of (round, typ) the target does not hold,
// a vote for id and delivers it, until `until` holds. It reports whether a vote could be given.
func (b *built) giveVotes(round int, typ byte, id types.BlockID, until func() bool) bool {
	gave := false
	for _, i := range b.others {
		if b.tfail() != nil || until() {
			break
		}
		if b.holds(round, typ, i) {
			continue
		}
		rs := b.rs()
		b.tgive(&cs.VoteMessage{Vote: b.cl.MakeVote(i, rs.Validators, rs.Height, round, typ, id)}, i)
		gave = true
	}
	return gave
}

// ownStart: the NewHeight timeout -> enterNewRound(h, 0) -> enterPropose.
func (b *built) ownStart() (o stepOut) {
	rs := b.rs()
	if rs.Step != cstypes.RoundStepNewHeight {
		o.na = true
		return
	}
	if !b.tfire(cstypes.RoundStepNewHeight) {
		o.stuck = "the node has not scheduled a NewHeight timeout"
		return
	}
	if o.fail = b.tfail(); o.fail != nil {
		return
	}
	if now := b.rs(); now.Height != rs.Height || now.Round != 0 || now.Step < cstypes.RoundStepPropose {
		o.stuck = "after the NewHeight timeout the node is at " + b.state().VerifString()
	}
	return
}

// ownAdvance: by its own timeouts and the other validators' nil votes the node leaves its round
// for the next one (enterNewRound(h, r+1)).
func (b *built) ownAdvance() (o stepOut) {
	rs := b.rs()
	H, R := rs.Height, rs.Round
	if rs.Step < cstypes.RoundStepPropose || rs.Step > cstypes.RoundStepPrecommitWait {
		o.na = true
		return
	}
	moved := func() bool { now := b.rs(); return now.Height != H || now.Round != R }
	nilID := types.BlockID{}
	for it := 0; it < 16; it++ {
		if o.fail = b.tfail(); o.fail != nil {
			return
		}
		now := b.rs()
		if now.Height != H {
			o.stuck = fmt.Sprintf("the node left height %d while changing rounds (%s)", H, b.state().VerifString())
			return
		}
		if now.Round != R {
			if now.Round != R+1 {
				o.stuck = fmt.Sprintf("the node went from round %d to round %d", R, now.Round)
			}
			return
		}
		step := now.Step
		ok := true
		switch step {
		case cstypes.RoundStepPropose, cstypes.RoundStepPrevoteWait, cstypes.RoundStepPrecommitWait:
			ok = b.tfire(step)
		case cstypes.RoundStepPrevote:
			ok = b.giveVotes(R, types.VoteTypePrevote, nilID, func() bool { return moved() || b.rs().Step != cstypes.RoundStepPrevote })
		case cstypes.RoundStepPrecommit:
			ok = b.giveVotes(R, types.VoteTypePrecommit, nilID, func() bool { return moved() || b.rs().Step != cstypes.RoundStepPrecommit })
		default:
			ok = false
		}
		if !ok && b.tfail() == nil {
			o.stuck = fmt.Sprintf("nothing moves the node on from %s (pending timeouts %v)", b.state().VerifString(), b.node().Pend)
			return
		}
	}
	if o.fail = b.tfail(); o.fail == nil && !moved() {
		o.stuck = "the node did not leave " + b.state().VerifString()
	}
	return
}

// ownSkip: the other validators are two rounds ahead; their nil prevotes of round r+2 arrive (the
// first one creates the vote sets of that round as a catch-up round of the peer that relays it) and
// take the node there: addVote -> enterNewRound(h, r+2).
func (b *built) ownSkip() (o stepOut) {
	rs := b.rs()
	H, R := rs.Height, rs.Round
	if rs.Step < cstypes.RoundStepPropose || rs.Step > cstypes.RoundStepPrecommitWait {
		o.na = true
		return
	}
	b.giveVotes(R+2, types.VoteTypePrevote, types.BlockID{}, func() bool { now := b.rs(); return now.Height != H || now.Round != R })
	if o.fail = b.tfail(); o.fail != nil {
		return
	}
	if now := b.rs(); now.Height != H || now.Round != R+2 {
		o.stuck = fmt.Sprintf("after +2/3 prevotes of round %d the node is at %s", R+2, b.state().VerifString())
	}
	return
}

// othersReach lets the other validators decide height h among themselves (they have, except in the
// class that ends a nil round with all four validators).
func (b *built) othersReach(h uint64) error {
	done := func() bool {
		for _, i := range b.others {
			if b.cl.Nodes[i].App.Height() < h {
				return false
			}
		}
		return true
	}
	for it := 0; it < 6 && !done(); it++ {
		if err := b.settleOthers(); err != nil {
			return err
		}
		if done() {
			break
		}
		for _, i := range b.others { // nothing in flight: their latest timeouts
			n := b.cl.Nodes[i]
			if k := len(n.Pend) - 1; k >= 0 {
				if e := b.cl.Fire(i, k); e.Fail != "" {
					return fmt.Errorf("node %d failed on a timeout: %s", i, e.Fail)
				}
			}
		}
	}
	if !done() {
		return fmt.Errorf("the other validators did not decide height %d among themselves", h)
	}
	return nil
}

// ownCommit: the block the other validators decided for the target's height is decided by the target
// as well: their precommits for it in the target's round, then the parts it lacks.
func (b *built) ownCommit() (o stepOut, err error) {
	rs := b.rs()
	H := rs.Height
	if rs.Step == cstypes.RoundStepNewHeight {
		o.na = true
		return
	}
	if err = b.othersReach(H); err != nil {
		return
	}
	src := b.cl.Nodes[b.others[0]].Mock
	sc, ps := src.Commits[H], src.Parts[H]
	if sc == nil || ps == nil {
		return o, fmt.Errorf("the other validators hold no commit / parts of height %d", H)
	}
	decided := func() bool { return b.node().App.Height() >= H }
	inCommit := func() bool { return decided() || b.rs().Step == cstypes.RoundStepCommit }
	R := rs.Round
	for try := 0; ; try++ {
		R = b.rs().Round
		if b.rs().Step == cstypes.RoundStepCommit {
			R = b.rs().CommitRound
		}
		b.giveVotes(R, types.VoteTypePrecommit, sc.BlockID, inCommit)
		if o.fail = b.tfail(); o.fail != nil {
			return
		}
		if inCommit() {
			break
		}
		// the votes the node holds of this round (an accepted vote for something else among them) leave no +2/3 for
		// the block: the validators decide it one round later
		if a := b.ownAdvance(); try >= 2 || a.fail != nil || a.na || a.stuck != "" {
			if o.fail = a.fail; o.fail == nil {
				o.stuck = fmt.Sprintf("+2/3 precommits for the decided block in round %d leave the node at %s", R, b.state().VerifString())
			}
			return
		}
	}
	for k := 0; k < ps.Total() && !decided() && b.tfail() == nil; k++ {
		if have := b.rs().ProposalBlockParts; have != nil && have.HasHeader(ps.Header()) && have.GetPart(k) != nil {
			continue
		}
		b.tgive(&cs.BlockPartMessage{Height: H, Round: R, Part: ps.GetPart(k)}, b.others[0])
	}
	if o.fail = b.tfail(); o.fail != nil {
		return
	}
	if now := b.rs(); !decided() || now.Height != H+1 || now.Step != cstypes.RoundStepNewHeight {
		o.stuck = fmt.Sprintf("with +2/3 precommits and every part of the decided block the node is at %s, application height %d", b.state().VerifString(), b.node().App.Height())
	}
	return
}

// ownView is the part of the real node the model's `own` / `cat` describe.
func (rn *runner) ownView() (h, r, hvr int, cat []int) {
	rs := rn.b.rs()
	h, r = int(rs.Height), rs.Round
	cat = []int{}
	if rs.Votes == nil {
		return
	}
	hvr = rs.Votes.Round()
	if int(rs.Height) == wantFacts[rn.class].H2() { // entries of the class's height only (the next height has a fresh HeightVoteSet)
		for rr := hvr + 1; rr <= wantFacts[rn.class].R+2*maxOwn+1; rr++ {
			if rs.Votes.Prevotes(rr) != nil {
				cat = append(cat, rr)
			}
		}
	}
	return
}

const maxOwn = 2

// H2 is the class's height as an int.
func (f facts) H2() int { return int(f.H) }

// cause describes the peer input a follow-up follows.
type cause struct {
	Edge     *edge  // the state-changing delivery (nil: a batch of deliveries that changed nothing)
	Concrete string // its instantiation
	Hex      string
	Batch    int      // deliveries since the class was (re)built
	Last     []string // the last few abstract messages of the batch
}

// followUp drives the real target from the model state ms through own steps. strict: the model state
// describes the node exactly (the input left at most residue behind): every step applies and the
// projection is compared; otherwise (the input was accepted and the consensus algorithm went on)
// the steps that apply are made and only failures count. It returns whether the node is used up
// (always: the caller rebuilds the class).
func (rn *runner) followUp(ms projState, strict bool, why cause) error {
	b := rn.b
	if b.tfail() != nil {
		return nil // already failed (reported by the delivery)
	}
	defer rn.timed("own-steps")()
	plan := plans[rn.fuCount%len(plans)]
	rn.fuCount++
	seq := []string{}
	if b.rs().Step == cstypes.RoundStepNewHeight {
		seq = append(seq, "start")
	}
	seq = append(seq, plan...)
	seq = append(seq, "commit", "start")
	rn.res.FollowUps++
	if strict {
		rn.res.FollowStrict++
	}
	cur := ms
	known := true // cur describes the node
	var done []string
	for _, op := range seq {
		var me *edge
		if known {
			for _, e := range rn.own[cur.key()] {
				if e.Act.Op == op {
					me = e
				}
			}
		}
		if strict && me == nil {
			continue // the model does not enable the step here (a node waiting for the decided block does not change rounds)
		}
		var o stepOut
		var err error
		switch op {
		case "start":
			o = b.ownStart()
		case "advance":
			o = b.ownAdvance()
		case "skip":
			o = b.ownSkip()
		case "commit":
			o, err = b.ownCommit()
		}
		if err != nil {
			return err
		}
		if o.na {
			if strict {
				rn.drift("%s: the model enables the own step %q in %s; the node is at %s", rn.class, op, cur.key(), b.state().VerifString())
				known = false
			}
			continue
		}
		done = append(done, op)
		rn.res.OwnSteps++
		rn.res.ByOwn[op]++
		if me != nil && me.Act.Over {
			rn.res.GuardOver++
		}
		if o.fail != nil {
			rn.followHit("halt-later", op, panicClass(o.fail), fmt.Sprint(o.fail), ms, strict, why, done, plan)
			return nil
		}
		if o.stuck != "" {
			if strict {
				rn.followHit("stall", op, "", o.stuck, ms, strict, why, done, plan)
			} else {
				// after an input the node accepted (it needs a validator's signature) the consensus algorithm went on;
				// why the generic driver cannot take it further is not judged here
				rn.res.FollowBlocked++
				rn.res.Latent[fmt.Sprintf("own step %s after an accepted (validator-signed) input did not get through: %.90s", op, firstLine(o.stuck))]++
			}
			return nil
		}
		if me == nil {
			known = false
			continue
		}
		if me.Act.Res != "ok" || !me.Run {
			rn.drift("%s: the model says the own step %q fails (%s) in %s; the node made it", rn.class, op, me.Act.Site, cur.key())
		}
		cur = me.To
		if strict {
			h, r, hvr, cat := rn.ownView()
			want := append([]int{}, cur.Cat...)
			sort.Ints(want)
			if h != cur.Own.H || r != cur.Own.R || hvr != cur.Own.Hvr || fmt.Sprint(cat) != fmt.Sprint(want) {
				rn.drift("%s: after own steps %v from %s the model has h=%d r=%d HeightVoteSet.round=%d catch-up entries %v; the node has h=%d r=%d round=%d entries %v",
					rn.class, done, ms.key(), cur.Own.H, cur.Own.R, cur.Own.Hvr, want, h, r, hvr, cat)
				known = false
			} else {
				rn.res.OwnCompared++
			}
		}
	}
	return nil
}

// followHit records a failure (or a stall) of the node in one of its own steps after the peer's input,
// and finds out whether the same steps fail without that input.
func (rn *runner) followHit(kind, op, what, detail string, ms projState, strict bool, why cause, done, plan []string) {
	key := kind + "/" + op
	if what != "" {
		key += "/" + what
	}
	h := hit{Key: key, Kind: kind, Class: rn.class, Path: "own steps " + strings.Join(done, ",") + " after the peer's input", Detail: detail}
	if why.Edge != nil {
		h.Msg = why.Edge.M
		h.Concrete, h.Hex = why.Concrete, why.Hex
		sg := why.Edge.Act.M.Sig
		h.Signed = sg == "who" || sg == "proposer" || sg == "other"
		h.NDev = devCount(why.Edge)
		h.Model = fmt.Sprintf("the model (the code as read) says: delivery %s, own steps ok; model state %s", why.Edge.Act.Eff, ms.key())
	} else {
		h.Concrete = fmt.Sprintf("%d deliveries that left the RoundState unchanged since the class was built; the last ones: %s", why.Batch, strings.Join(why.Last, " ; "))
		h.Model = "the model (the code as read) says: own steps ok; model state " + ms.key()
	}
	if len(h.Detail) > 600 {
		h.Detail = h.Detail[:600]
	}
	// the same own steps on a fresh node of the class that received nothing from the attacker
	ck := op + "|" + strings.Join(plan, ",")
	if alone, ok := rn.controls[ck]; ok {
		h.Detail += fmt.Sprintf(" || the same own steps WITHOUT any input from the attacker: %s", map[bool]string{true: "fail as well (honest traffic alone triggers it)", false: "succeed"}[alone])
	} else if !rn.inControl {
		rn.inControl = true
		save, saveRes := rn.b, rn.res
		scratch := &jobResult{Class: rn.class, ByEff: map[string]int{}, Latent: map[string]int{}, ByOwn: map[string]int{}}
		rn.res = scratch
		rn.b = nil
		if err := rn.rebuildPlain(); err == nil {
			rn.fuCount-- // the same plan
			base := projState{Cls: rn.class, Changed: "no", Own: rn.classOwn}
			rn.followUp(base, false, cause{})
			alone := len(scratch.Hits) > 0
			if rn.controls == nil {
				rn.controls = map[string]bool{}
			}
			rn.controls[ck] = alone
			h.Detail += fmt.Sprintf(" || the same own steps WITHOUT any input from the attacker: %s", map[bool]string{true: "fail as well (honest traffic alone triggers it)", false: "succeed"}[alone])
			rn.closeWAL()
		}
		rn.b, rn.res = save, saveRes
		rn.inControl = false
	}
	rn.addHit(h)
}
