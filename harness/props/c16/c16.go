// Package c16: no message from a single peer can halt a node's consensus.
//
// Model: spec/PeerInput/PeerInput.tla - the state classes of a node, the boundary
// lattice of every consensus message type, the code path of a message transcribed with
// its partial operations (operational side) and the predicate MayAffect (declarative
// side); TLC checks AlwaysRunning and InvalidIsStutter and exports every explored
// (state class, message) pair with the expected outcome.
// Binding: every exported pair is instantiated with concrete boundary values (real
// signatures where the class says so), encoded as the wire does and pushed through the
// real ConsensusReactor.Receive -> peerMsgQueue -> handleMsg of a node that a 4-validator
// cluster was driven into the state class (and also handed to handleMsg directly);
// pi_prop = no failure value from the state-machine side, RoundState projection unchanged
// where the specification says stutter, the cluster still commits the next height.
// The target writes its real file WAL (consensus.NewWAL); message size is a lattice dimension
// (the reactor's limit, one byte less, one byte more); after the peer's input the target is
// driven through the model's own steps (round changes by timeouts, round skips, the commit, the
// next height's first round - follow.go) with the invariant still "always running".
package c16

import (
	"encoding/json"
	"fmt"
	"io/ioutil"
	"os"
	"path/filepath"
	"sort"
	"strings"
	"sync"
	"time"

	"verifh/core"
	"verifh/tlc"
)

func init() { core.Register("C16", run) }

func run(c *core.Ctx) {
	if c.Child != "" {
		var j job
		if err := json.Unmarshal([]byte(c.Child), &j); err != nil {
			fmt.Fprintln(os.Stderr, "bad job:", err)
			os.Exit(3)
		}
		if j.WalDir != "" {
			walDirRoot = j.WalDir
		}
		switch j.Kind {
		case "class":
			classChild(c, j)
		case "gossip":
			gossipChild(c, j)
		case "alloc":
			allocChild(c, j)
		case "control":
			controlChild(c, j)
		}
		return
	}
	o := c.Out()
	o.Level = "model_checking"
	o.Rule = "behaviour = one exported (state class, model state, message) pair of PeerInput instantiated with concrete boundary values (sizes: the reactor's limit -1 / 0 / +1 byte) and delivered to a real node in that state class (real file WAL) through ConsensusReactor.Receive + peerMsgQueue (peer bookkeeping untouched / announced) and directly to handleMsg, followed - after every state-changing delivery and every batch of deliveries that changed nothing - by one of the model's own-step paths of the node (Start / Advance / Skip up to two round changes, Commit, Start of the next height) on the real target; non-trivial = the message is decodable and deviates from the valid base message in at least one field, or changes the RoundState; distinct = distinct (class, model state, abstract message)"
	o.Assumptions = []string{
		"a panic inside ConsensusReactor.Receive only costs the peer its connection (MConnection._recover), as the property allows; it is counted, not reported",
		"allocating an empty vote set for a catch-up round (HeightVoteSet.AddVote, at most two per peer ID, before the vote is validated) counts as an effect the message may legitimately have; the bound of two is checked",
		"a failure of handleMsg that only a direct call can trigger (nil Proposal / Vote / Part, which Receive dereferences first) is recorded as latent, not as a violation",
		"memory exhaustion is judged in a child process whose address space is limited to 8 GiB (a node with that much memory)",
		"4 validators of equal power, blocks of >= 3 parts (BlockPartSizeBytes = 192), mock application",
		"the node's own steps after the peer's input are driven by the timeouts the node scheduled itself and by votes of the other three validators signed with their real keys (only votes the target does not hold yet: no equivocation is shown to it); own steps after an input that put the node into recover mode are not followed",
		"a WAL record the WAL decoder would refuse to read back (a peer message within 79 bytes of the reactor's limit) is counted, not reported: what a restart makes of it belongs to the crash-recovery properties",
	}
	o.Trusted = []string{"TLC", "hook H1 (VerifDeliver / VerifPopPeer / VerifReceive execute the bodies of receiveRoutine's select cases and Receive under recover)", "package cluster (synchronous driver)", "the Go instantiation of the lattice values"}

	cfg, gcfg := "PeerInput.cfg", "PeerGossip.cfg"
	if c.Thorough() {
		cfg, gcfg = "PeerInputBig.cfg", "PeerGossipBig.cfg"
	}
	// the five model-checking runs are independent: run them side by side
	var res, asis, whatif, gasis, grep, gsim *tlc.Result
	var twg sync.WaitGroup
	tl := func(dst **tlc.Result, o tlc.Options) {
		twg.Add(1)
		go func() {
			defer twg.Done()
			o.SpecDir = c.SpecDir("PeerInput")
			*dst = c.TLC(o)
		}()
	}
	tl(&res, tlc.Options{Module: "PeerInput", Config: cfg, Workers: 1, Timeout: c.MinutesT(3, 15)})
	// the code as it is: TLC must find a halting input (a lead; the verdict comes from the real code below)
	tl(&asis, tlc.Options{Module: "PeerInput", Config: "PeerInput_asis.cfg", Workers: 1, Timeout: c.MinutesT(3, 10)})
	// what if SetRound did not skip existing entries / the WAL encoder had the decoder's bound: TLC must reach both sites
	tl(&whatif, tlc.Options{Module: "PeerInput", Config: "PeerInput_whatif.cfg", Workers: 1, Timeout: c.MinutesT(3, 10)})
	tl(&gasis, tlc.Options{Module: "PeerGossip", Config: "PeerGossip_asis.cfg", Workers: 4, Timeout: c.MinutesT(3, 10)})
	tl(&grep, tlc.Options{Module: "PeerGossip", Config: gcfg, Workers: 4, Timeout: c.MinutesT(3, 15)})
	tl(&gsim, tlc.Options{Module: "PeerGossip", Config: "PeerGossip_sim.cfg", Workers: 1, Simulate: fmt.Sprintf("num=%d", c.Pick(80, 4000)), Depth: 15, Seed: c.Seed, Timeout: c.MinutesT(3, 10)})
	twg.Wait()
	if res == nil || asis == nil || whatif == nil || gasis == nil || grep == nil || gsim == nil {
		return
	}
	if res.Violated != "" || !res.Finished {
		c.Infra("PeerInput (repaired model): %s\n%s", res.Describe(), res.Tail)
		return
	}
	if grep.Violated != "" || !grep.Finished {
		c.Infra("PeerGossip (repaired model): %s\n%s", grep.Describe(), grep.Tail)
		return
	}
	o.Exhaustive = true
	c.SetExtra("model_of_the_pinned_snapshot", fmt.Sprintf("PeerInput with all Fix* = FALSE (the code of snapshot d9527b5): %s", asis.Describe()))
	if asis.Violated == "" {
		c.Infra("the as-is model (all Fix* = FALSE) does not violate AlwaysRunning: the specification lost its teeth")
		return
	}
	hazards := map[string]int{}
	for _, l := range whatif.Lines {
		var h struct {
			Hazard string `json:"hazard"`
		}
		if json.Unmarshal([]byte(l), &h) == nil && h.Hazard != "" {
			hazards[h.Hazard]++
		}
	}
	c.SetExtra("what_if_model_sites_of_failure", hazards)
	if !whatif.Finished || whatif.Violated != "" || hazards["enterNewRound/HeightVoteSet.SetRound"] == 0 || hazards["baseWAL.Write/WALEncoder.Encode"] == 0 {
		c.Infra("the what-if model (SetRound without its guard, WAL encoder with the decoder's bound) does not reach both sites of failure (%v; %s): the own steps / the size dimension lost their teeth", hazards, whatif.Describe())
		return
	}
	scen, nLeads, err := gossipScenarios(gasis.Lines, gsim.Lines)
	if err != nil {
		c.Infra("gossip scenarios: %v", err)
		return
	}
	if nLeads == 0 {
		c.Infra("the as-is gossip model (Fix* = FALSE) reaches no site of death: the specification lost its teeth")
		return
	}
	c.SetExtra("gossip_model_leads", nLeads)
	c.SetExtra("gossip_simulated_behaviours", len(scen)-nLeads)

	// split the edges by class
	base, err := ioutil.TempDir("", "vc16")
	if err != nil {
		c.Infra("tempdir: %v", err)
		return
	}
	defer os.RemoveAll(base)
	walBase, err := ioutil.TempDir(walRoot(), "vc16wal")
	if err != nil {
		c.Infra("tempdir: %v", err)
		return
	}
	defer os.RemoveAll(walBase)
	byClass := map[string][]string{}
	for _, l := range res.Lines {
		var e struct {
			From struct {
				Cls string `json:"cls"`
			} `json:"from"`
		}
		if json.Unmarshal([]byte(l), &e) != nil || e.From.Cls == "" {
			continue
		}
		byClass[e.From.Cls] = append(byClass[e.From.Cls], l)
	}
	c.SetExtra("model_edges", len(res.Lines))
	var jobs []job
	for i, cn := range classNames {
		ls := byClass[cn]
		if len(ls) == 0 {
			c.Infra("the model exported no edge for class %s", cn)
			return
		}
		f := filepath.Join(base, cn+".ndjson")
		if err := ioutil.WriteFile(f, []byte(strings.Join(ls, "\n")), 0644); err != nil {
			c.Infra("write edges: %v", err)
			return
		}
		jobs = append(jobs, job{Kind: "class", Class: cn, Edges: f, Variants: c.Pick(1, 5), NBytes: c.Pick(700, 20000), Idx: i, Follow: c.Pick(64, 32)})
	}
	sf := filepath.Join(base, "gossip.json")
	sb, _ := json.Marshal(scen)
	if err := ioutil.WriteFile(sf, sb, 0644); err != nil {
		c.Infra("write scenarios: %v", err)
		return
	}
	for gi, gn := range gossipNodes {
		jobs = append(jobs, job{Kind: "gossip", Class: "gossip/" + gn, Idx: 50 + gi, Edges: sf, NBytes: len(scen)})
	}
	for ai := range allocScenarios {
		jobs = append(jobs, job{Kind: "alloc", Class: fmt.Sprintf("alloc/%d", ai), Idx: 101 + ai, From: ai})
	}

	jobs = append(jobs, job{Kind: "control", Class: "h1-propose", Edges: filepath.Join(base, "h1-propose.ndjson"), Idx: 200})
	if only := os.Getenv("C16_ONLY"); only != "" { // development: run one kind of job
		var sel []job
		for _, j := range jobs {
			if strings.HasPrefix(j.Class, only) || j.Kind == only {
				sel = append(sel, j)
			}
		}
		jobs = sel
	}
	for i := range jobs {
		jobs[i].WalDir = walBase
	}
	agg := newAggregate()
	var wg sync.WaitGroup
	var mu sync.Mutex
	sem := make(chan struct{}, 14)
	for _, j := range jobs {
		wg.Add(1)
		go func(j job) {
			defer wg.Done()
			sem <- struct{}{}
			defer func() { <-sem }()
			if j.Kind == "gossip" {
				runGossipJob(c, j, agg, &mu)
				return
			}
			if j.Kind == "control" {
				arg, _ := json.Marshal(j)
				results, _, crash := c.RunChild(string(arg), c.MinutesT(3, 5))
				var cr controlResult
				if len(results) > 0 {
					json.Unmarshal([]byte(results[0]), &cr)
				}
				c.SetExtra("negative_controls", map[string]int{"falsified_stutter_labels_rejected_of_2": cr.StutterOracle, "falsified_accept_labels_rejected_of_1": cr.Conformance, "falsified_own_step_labels_rejected_of_2": cr.OwnOracle})
				if crash != "" || cr.Infra != "" || cr.StutterOracle != 2 || cr.Conformance != 1 || cr.OwnOracle != 2 {
					c.Infra("vacuous binding: the negative controls were not all rejected (%+v, %s)", cr, crash)
				}
				return
			}
			arg, _ := json.Marshal(j)
			t0 := time.Now()
			results, at, crash := c.RunChild(string(arg), c.MinutesT(4, 25))
			mu.Lock()
			defer mu.Unlock()
			agg.times[j.Class] = time.Since(t0).Seconds()
			for _, r := range results {
				var jr jobResult
				if err := json.Unmarshal([]byte(r), &jr); err != nil {
					c.Infra("job %s: bad result: %v", j.Class, err)
					continue
				}
				agg.add(c, &jr)
			}
			switch {
			case crash == "TIMEOUT":
				c.Infra("job %s timed out (last position: %.300s)", j.Class, at)
			case crash != "":
				agg.crash(c, j, at, crash)
			}
		}(j)
	}
	wg.Wait()
	agg.report(c)
}

// runGossipJob runs the scenarios of one class; a scenario that kills the child is recorded and
// the child is started again behind it.
func runGossipJob(c *core.Ctx, j job, agg *aggregate, mu *sync.Mutex) {
	end := j.NBytes
	for restarts := 0; j.From < end && restarts < 80; restarts++ {
		arg, _ := json.Marshal(j)
		results, at, crash := c.RunChild(string(arg), c.MinutesT(3, 20))
		mu.Lock()
		for _, r := range results {
			var jr jobResult
			if err := json.Unmarshal([]byte(r), &jr); err == nil {
				agg.add(c, &jr)
			}
		}
		if crash == "" {
			mu.Unlock()
			return
		}
		if crash == "TIMEOUT" {
			c.Infra("job %s timed out (last position: %.300s)", j.Class, at)
			mu.Unlock()
			return
		}
		agg.crash(c, j, at, crash)
		agg.gossipDeaths++
		mu.Unlock()
		var pos struct {
			K int `json:"k"`
		}
		if json.Unmarshal([]byte(at), &pos) != nil {
			c.Infra("job %s: cannot continue after a crash at %.200s", j.Class, at)
			return
		}
		j.From = pos.K + 1
	}
}

// ---- aggregation ----------------------------------------------------------------------

type aggregate struct {
	hits         map[string][]hit
	latent       map[string]int
	byEff        map[string]int
	byOwn        map[string]int
	secs         map[string]float64
	live         map[string]uint64
	classes      int
	tot          jobResult
	gossipDeaths int
	times        map[string]float64
}

func newAggregate() *aggregate {
	return &aggregate{hits: map[string][]hit{}, latent: map[string]int{}, byEff: map[string]int{}, byOwn: map[string]int{}, secs: map[string]float64{}, live: map[string]uint64{}, times: map[string]float64{}}
}

func (a *aggregate) add(c *core.Ctx, jr *jobResult) {
	if jr.Infra != "" {
		c.Infra("job %s: %s", jr.Class, jr.Infra)
	}
	for _, d := range jr.Drift {
		c.Drift("%s", d)
	}
	for _, h := range jr.Hits {
		a.hits[h.Key] = append(a.hits[h.Key], h)
	}
	for k, v := range jr.Latent {
		a.latent[k] += v
	}
	for k, v := range jr.ByEff {
		a.byEff[k] += v
	}
	if jr.LiveTo > 0 {
		a.live[jr.Class] = jr.LiveTo
	}
	t := &a.tot
	t.Edges += jr.Edges
	t.Deliveries += jr.Deliveries
	t.Forwarded += jr.Forwarded
	t.Stutters += jr.Stutters
	t.Affects += jr.Affects
	t.Rebuilds += jr.Rebuilds
	t.ReactorDrop += jr.ReactorDrop
	t.Bytes += jr.Bytes
	t.BytesDecode += jr.BytesDecode
	t.AsIsPanic += jr.AsIsPanic
	t.AsIsAgree += jr.AsIsAgree
	t.WALEntries += jr.WALEntries
	t.WALTooBig += jr.WALTooBig
	t.WALUnread += jr.WALUnread
	t.WALPredBig += jr.WALPredBig
	t.BigMsgs += jr.BigMsgs
	t.FollowUps += jr.FollowUps
	t.FollowStrict += jr.FollowStrict
	t.FollowBlocked += jr.FollowBlocked
	t.OwnSteps += jr.OwnSteps
	t.OwnCompared += jr.OwnCompared
	t.GuardOver += jr.GuardOver
	for k, v := range jr.ByOwn {
		a.byOwn[k] += v
	}
	for k, v := range jr.Secs {
		a.secs[k] += v
	}
	if jr.WALMaxBytes > t.WALMaxBytes {
		t.WALMaxBytes = jr.WALMaxBytes
	}
	if jr.Sample != nil {
		c.Sample(jr.Sample)
	}
	a.classes++
}

// crash: the child process died - an unrecoverable failure of the code under test when it
// happened inside the repository's code.
func (a *aggregate) crash(c *core.Ctx, j job, at, crash string) {
	if !strings.Contains(crash, "linkchain") && !strings.Contains(crash, "/repo/") {
		c.Infra("job %s died outside the code under test (at %.300s): %s", j.Class, at, crash)
		return
	}
	where := crashSite(crash)
	key := "process-death/" + j.Class + "/" + where
	if j.Kind == "gossip" || j.Kind == "alloc" {
		key = "process-death/" + where
	}
	model := ""
	if j.Kind == "alloc" {
		model = fmt.Sprintf("address space limited to %d GiB", allocLimit>>30)
		var sc allocScenario
		if json.Unmarshal([]byte(at), &sc) == nil && sc.Name != "" {
			at = sc.Name
			key += map[bool]string{true: "/byzantine-proposer", false: "/any-peer"}[sc.Signed]
		}
	}
	if j.Kind == "gossip" {
		var pos struct {
			Lead string `json:"lead"`
		}
		json.Unmarshal([]byte(at), &pos)
		model = "a simulated behaviour of the repaired model (the repaired code survives it)"
		if pos.Lead != "" {
			model = "as-is model: the process dies at " + pos.Lead
		}
	}
	a.hits[key] = append(a.hits[key], hit{Key: key, Kind: "process-death", Class: j.Class, Path: j.Kind, Concrete: at, Detail: crash, Model: model})
}

// crashSite names where the process died: for a gossip goroutine "<routine>/<what it called>",
// otherwise the panic and the first frame of the repository.
func crashSite(crash string) string {
	first := ""
	var frames []string // functions of the repository, innermost first
	for _, l := range strings.Split(crash, "\n") {
		l = strings.TrimSpace(l)
		if strings.HasPrefix(l, "panic:") || strings.HasPrefix(l, "fatal error:") {
			if first == "" {
				first = panicClass(l)
			}
		}
		if strings.HasPrefix(l, "goroutine ") && len(frames) > 0 {
			break // only the goroutine that failed
		}
		if i := strings.Index(l, "github.com/lianxiangcloud/linkchain/"); i == 0 && strings.Contains(l, "(") && !strings.Contains(l, ".go:") {
			fn := l[len("github.com/lianxiangcloud/linkchain/"):]
			fn = fn[:strings.LastIndex(fn, "(")]
			fn = strings.NewReplacer("(", "", ")", "", "*", "", "...", "").Replace(fn)
			if k := strings.LastIndex(fn, "/"); k >= 0 {
				fn = fn[k+1:]
			}
			if k := strings.Index(fn, "."); k >= 0 {
				fn = fn[k+1:] // drop the package name
			}
			frames = append(frames, fn)
		}
	}
	for i, f := range frames {
		base := f[strings.LastIndex(f, ".")+1:]
		if strings.HasPrefix(base, "gossip") || strings.HasPrefix(base, "queryMaj23") {
			if i > 0 {
				return base + "/" + frames[i-1]
			}
			return base
		}
	}
	if len(frames) > 0 {
		return first + "@" + frames[0]
	}
	return first
}

func (a *aggregate) report(c *core.Ctx) {
	o := c.Out()
	t := a.tot
	o.Traces += t.Edges
	o.Evaluations += t.Deliveries + t.Bytes + t.OwnSteps
	o.Distinct += t.Edges
	c.SetExtra("deliveries", t.Deliveries)
	c.SetExtra("reached_handleMsg_through_the_reactor", t.Forwarded)
	c.SetExtra("compared_as_stutter", t.Stutters)
	c.SetExtra("changed_the_round_state", t.Affects)
	c.SetExtra("class_rebuilds", t.Rebuilds)
	c.SetExtra("reactor_side_panics_or_peer_stops", t.ReactorDrop)
	c.SetExtra("byte_level_inputs", t.Bytes)
	c.SetExtra("byte_level_inputs_decodable", t.BytesDecode)
	c.SetExtra("by_model_effect", a.byEff)
	c.SetExtra("latent_state_machine_failures_masked_by_the_reactor", a.latent)
	c.SetExtra("snapshot_model_predicted_state_machine_failures", map[string]int{"predicted": t.AsIsPanic, "observed_on_this_tree": t.AsIsAgree})
	c.SetExtra("real_file_wal_of_the_target", map[string]int{"records_written_and_read_back": t.WALEntries, "largest_record_bytes": t.WALMaxBytes, "records_above_the_decoders_1MiB_limit": t.WALTooBig,
		"records_the_real_decoder_refused": t.WALUnread, "deliveries_the_model_says_exceed_the_limit": t.WALPredBig})
	c.SetExtra("deliveries_at_the_reactors_size_limit", t.BigMsgs)
	c.SetExtra("own_steps_after_peer_input", map[string]interface{}{"follow_ups": t.FollowUps, "from_exactly_modelled_states": t.FollowStrict, "given_up_without_verdict": t.FollowBlocked,
		"steps_on_the_real_node": t.OwnSteps, "by_step": a.byOwn, "projection_compared_after": t.OwnCompared, "steps_in_which_SetRound_ran_over_an_existing_entry": t.GuardOver})
	if t.WALEntries == 0 || t.BigMsgs == 0 || t.FollowUps == 0 || t.GuardOver == 0 {
		if os.Getenv("C16_ONLY") == "" {
			c.Infra("vacuous binding: WAL records %d, deliveries at the size limit %d, follow-ups %d, SetRound over an existing entry %d", t.WALEntries, t.BigMsgs, t.FollowUps, t.GuardOver)
		}
	}
	c.SetExtra("height_committed_after_the_barrage", a.live)
	c.SetExtra("job_wall_seconds", a.times)
	c.SetExtra("class_job_seconds_by_activity", a.secs)
	keys := make([]string, 0, len(a.hits))
	for k := range a.hits {
		keys = append(keys, k)
	}
	sort.Strings(keys)
	keys = minimalStateChanges(keys)
	for _, k := range keys {
		hs := a.hits[k]
		// representative: unsigned before signed, fewer deviations first
		sort.SliceStable(hs, func(i, j int) bool {
			if hs[i].Signed != hs[j].Signed {
				return !hs[i].Signed
			}
			return hs[i].NDev < hs[j].NDev
		})
		rep := hs[0]
		classes := map[string]bool{}
		anyPeer := false
		for _, h := range hs {
			classes[h.Class] = true
			if !h.Signed {
				anyPeer = true
			}
		}
		var cl []string
		for x := range classes {
			cl = append(cl, x)
		}
		sort.Strings(cl)
		who := "needs a validator's signature (Byzantine validator)"
		if anyPeer {
			who = "any peer (no valid signature needed)"
		}
		if rep.Kind == "liveness" || rep.Kind == "process-death" || (rep.Msg == nil && (rep.Kind == "halt-later" || rep.Kind == "stall")) {
			who = "see record"
		}
		desc := fmt.Sprintf("%s in state class(es) %s; sender: %s; %s", rep.Kind, strings.Join(cl, ","), who, firstLine(rep.Detail))
		c.Violate(k, desc, map[string]interface{}{"representative": rep, "state_classes": cl, "sender": who, "occurrences": len(hs)})
	}
}

func firstLine(s string) string {
	if i := strings.Index(s, "\n"); i >= 0 {
		s = s[:i]
	}
	if len(s) > 300 {
		s = s[:300]
	}
	return s
}

// minimalStateChanges keeps, among the "state-change/<type>/<f1+f2..>" keys, those whose set of
// deviating fields has no proper subset that is reported as well (one report per root cause).
func minimalStateChanges(keys []string) []string {
	sets := map[string]map[string]bool{}
	typ := map[string]string{}
	for _, k := range keys {
		p := strings.Split(k, "/")
		if len(p) == 3 && p[0] == "state-change" && p[1] != "bytes" {
			m := map[string]bool{}
			for _, f := range strings.Split(p[2], "+") {
				m[f] = true
			}
			sets[k], typ[k] = m, p[1]
		}
	}
	var out []string
	for _, k := range keys {
		drop := false
		if s, ok := sets[k]; ok {
			for k2, s2 := range sets {
				if k2 == k || typ[k2] != typ[k] || len(s2) >= len(s) {
					continue
				}
				sub := true
				for f := range s2 {
					if !s[f] {
						sub = false
					}
				}
				if sub {
					drop = true
				}
			}
		}
		if !drop {
			out = append(out, k)
		}
	}
	return out
}

// gossipScenarios assembles the behaviours the gossip phase replays: the shortest lead per (site of
// death, node class) of the as-is model, then the simulated behaviours of the repaired model.
func gossipScenarios(leadLines, walkLines []string) ([]gScenario, int, error) {
	type leadRec struct {
		Lead string  `json:"lead"`
		Node string  `json:"node"`
		Hist []gStep `json:"hist"`
	}
	best := map[string]leadRec{}
	for _, l := range leadLines {
		var r leadRec
		if json.Unmarshal([]byte(l), &r) != nil || r.Lead == "" {
			continue
		}
		k := r.Lead + "|" + r.Node
		if b, ok := best[k]; !ok || len(r.Hist) < len(b.Hist) {
			best[k] = r
		}
	}
	var keys []string
	for k := range best {
		keys = append(keys, k)
	}
	sort.Strings(keys)
	var out []gScenario
	for _, k := range keys {
		out = append(out, gScenario{Node: best[k].Node, Lead: best[k].Lead, Steps: best[k].Hist})
	}
	nLeads := len(out)
	seen := map[string]bool{}
	for _, l := range walkLines {
		var r struct {
			Walk []gStep `json:"walk"`
			Node string  `json:"node"`
		}
		if json.Unmarshal([]byte(l), &r) != nil || len(r.Walk) < 2 {
			continue
		}
		// the simulator evaluates the invariant on every candidate successor: keep one per prefix
		pre, _ := json.Marshal(r.Walk[:len(r.Walk)-1])
		key := r.Node + string(pre)
		if seen[key] {
			continue
		}
		seen[key] = true
		out = append(out, gScenario{Node: r.Node, Steps: r.Walk})
	}
	if len(out) == nLeads {
		return nil, 0, fmt.Errorf("the simulation exported no behaviour")
	}
	return out, nLeads, nil
}
