// Package c16: no message from a single peer can halt a node's consensus.
//
// Model: spec/PeerInput/PeerInput.tla - the state classes of a node, the boundary
// lattice of every consensus message type, the code path of a message transcribed with
// its partial operations (operational side) and the predicate MayAffect (declarative
// side); TLC checks AlwaysRunning and InvalidIsStutter and exports every explored
// (state class, message) pair with the expected outcome.
// Binding: every exported pair is instantiated with concrete boundary values (real
// signatures where the class says so), encoded as the wire does and pushed through the
// real ConsensusReactor.Receive -> peerMsgQueue -> handleMsg of a node that a 4-validator
// cluster was driven into the state class (and also handed to handleMsg directly);
// pi_prop = no failure value from the state-machine side, RoundState projection unchanged
// where the specification says stutter, the cluster still commits the next height.
package c16

import (
	"encoding/json"
	"fmt"
	"io/ioutil"
	"os"
	"path/filepath"
	"sort"
	"strings"
	"sync"

	"verifh/core"
	"verifh/tlc"
)

func init() { core.Register("C16", run) }

func run(c *core.Ctx) {
	if c.Child != "" {
		var j job
		if err := json.Unmarshal([]byte(c.Child), &j); err != nil {
			fmt.Fprintln(os.Stderr, "bad job:", err)
			os.Exit(3)
		}
		switch j.Kind {
		case "class":
			classChild(c, j)
		case "gossip":
			gossipChild(c, j)
		case "alloc":
			allocChild(c, j)
		}
		return
	}
	if os.Getenv("C16_DEBUG") == "classes" {
		for _, cn := range classNames {
			b, err := buildClass(cn, false)
			if err != nil {
				fmt.Println(cn, "ERR", err)
				continue
			}
			fmt.Printf("%-18s %+v match=%v proposerView=%d target=%d\n", cn, b.facts(), factsMatch(b.facts(), wantFacts[cn]), b.cl.ViewOf(b.node()).Proposer, b.target)
		}
		return
	}
	o := c.Out()
	o.Level = "model_checking"
	o.Rule = "behaviour = one exported (state class, model state, message) pair of PeerInput instantiated with concrete boundary values and delivered to a real node in that state class through ConsensusReactor.Receive + peerMsgQueue (peer bookkeeping untouched / announced) and directly to handleMsg; non-trivial = the message is decodable and deviates from the valid base message in at least one field, or changes the RoundState; distinct = distinct (class, model state, abstract message)"
	o.Assumptions = []string{
		"a panic inside ConsensusReactor.Receive only costs the peer its connection (MConnection._recover), as the property allows; it is counted, not reported",
		"allocating an empty vote set for a catch-up round (HeightVoteSet.AddVote, at most two per peer ID, before the vote is validated) counts as an effect the message may legitimately have; the bound of two is checked",
		"a failure of handleMsg that only a direct call can trigger (nil Proposal / Vote / Part, which Receive dereferences first) is recorded as latent, not as a violation",
		"memory exhaustion is judged in a child process whose address space is limited to 8 GiB (a node with that much memory)",
		"4 validators of equal power, blocks of >= 3 parts (BlockPartSizeBytes = 192), mock application",
	}
	o.Trusted = []string{"TLC", "hook H1 (VerifDeliver / VerifPopPeer / VerifReceive execute the bodies of receiveRoutine's select cases and Receive under recover)", "package cluster (synchronous driver)", "the Go instantiation of the lattice values"}

	cfg := "PeerInput.cfg"
	if c.Thorough() {
		cfg = "PeerInputBig.cfg"
	}
	res := c.TLC(tlc.Options{SpecDir: c.SpecDir("PeerInput"), Module: "PeerInput", Config: cfg, Workers: 1, Timeout: c.MinutesT(3, 15)})
	if res == nil {
		return
	}
	if res.Violated != "" || !res.Finished {
		c.Infra("PeerInput (repaired model): %s\n%s", res.Describe(), res.Tail)
		return
	}
	o.Exhaustive = true
	// the code as it is: TLC must find a halting input (a lead; the verdict comes from the real code below)
	asis := c.TLC(tlc.Options{SpecDir: c.SpecDir("PeerInput"), Module: "PeerInput", Config: "PeerInput_asis.cfg", Workers: 1, Timeout: c.MinutesT(3, 10)})
	if asis == nil {
		return
	}
	c.SetExtra("model_of_the_code_as_it_is", fmt.Sprintf("TLC: %s violated=%q", asis.Describe(), asis.Violated))
	if asis.Violated == "" {
		c.Infra("the as-is model (all Fix* = FALSE) does not violate AlwaysRunning: the specification lost its teeth")
		return
	}

	// split the edges by class
	base, err := ioutil.TempDir("", "vc16")
	if err != nil {
		c.Infra("tempdir: %v", err)
		return
	}
	defer os.RemoveAll(base)
	byClass := map[string][]string{}
	for _, l := range res.Lines {
		var e struct {
			From struct {
				Cls string `json:"cls"`
			} `json:"from"`
		}
		if json.Unmarshal([]byte(l), &e) != nil || e.From.Cls == "" {
			continue
		}
		byClass[e.From.Cls] = append(byClass[e.From.Cls], l)
	}
	c.SetExtra("model_edges", len(res.Lines))
	var jobs []job
	for i, cn := range classNames {
		ls := byClass[cn]
		if len(ls) == 0 {
			c.Infra("the model exported no edge for class %s", cn)
			return
		}
		f := filepath.Join(base, cn+".ndjson")
		if err := ioutil.WriteFile(f, []byte(strings.Join(ls, "\n")), 0644); err != nil {
			c.Infra("write edges: %v", err)
			return
		}
		jobs = append(jobs, job{Kind: "class", Class: cn, Edges: f, Variants: c.Pick(1, 3), NBytes: c.Pick(1500, 12000), Idx: i})
	}
	jobs = append(jobs, job{Kind: "gossip", Class: "gossip", Idx: 100, Variants: c.Pick(1, 3)})
	jobs = append(jobs, job{Kind: "alloc", Class: "alloc", Idx: 101})

	agg := newAggregate()
	var wg sync.WaitGroup
	var mu sync.Mutex
	sem := make(chan struct{}, 14)
	for _, j := range jobs {
		wg.Add(1)
		go func(j job) {
			defer wg.Done()
			sem <- struct{}{}
			defer func() { <-sem }()
			arg, _ := json.Marshal(j)
			results, at, crash := c.RunChild(string(arg), c.MinutesT(4, 25))
			mu.Lock()
			defer mu.Unlock()
			for _, r := range results {
				var jr jobResult
				if err := json.Unmarshal([]byte(r), &jr); err != nil {
					c.Infra("job %s: bad result: %v", j.Class, err)
					continue
				}
				agg.add(c, &jr)
			}
			switch {
			case crash == "TIMEOUT":
				c.Infra("job %s timed out (last position: %.300s)", j.Class, at)
			case crash != "":
				agg.crash(c, j, at, crash)
			}
		}(j)
	}
	wg.Wait()
	agg.report(c)
}

// ---- aggregation ----------------------------------------------------------------------

type aggregate struct {
	hits    map[string][]hit
	latent  map[string]int
	byEff   map[string]int
	live    map[string]uint64
	classes int
	tot     jobResult
}

func newAggregate() *aggregate {
	return &aggregate{hits: map[string][]hit{}, latent: map[string]int{}, byEff: map[string]int{}, live: map[string]uint64{}}
}

func (a *aggregate) add(c *core.Ctx, jr *jobResult) {
	if jr.Infra != "" {
		c.Infra("job %s: %s", jr.Class, jr.Infra)
	}
	for _, d := range jr.Drift {
		c.Drift("%s", d)
	}
	for _, h := range jr.Hits {
		a.hits[h.Key] = append(a.hits[h.Key], h)
	}
	for k, v := range jr.Latent {
		a.latent[k] += v
	}
	for k, v := range jr.ByEff {
		a.byEff[k] += v
	}
	a.live[jr.Class] = jr.LiveTo
	t := &a.tot
	t.Edges += jr.Edges
	t.Deliveries += jr.Deliveries
	t.Forwarded += jr.Forwarded
	t.Stutters += jr.Stutters
	t.Affects += jr.Affects
	t.Rebuilds += jr.Rebuilds
	t.ReactorDrop += jr.ReactorDrop
	t.Bytes += jr.Bytes
	t.BytesDecode += jr.BytesDecode
	t.AsIsPanic += jr.AsIsPanic
	t.AsIsAgree += jr.AsIsAgree
	if jr.Sample != nil {
		c.Sample(jr.Sample)
	}
	a.classes++
}

// crash: the child process died - an unrecoverable failure of the code under test when it
// happened inside the repository's code.
func (a *aggregate) crash(c *core.Ctx, j job, at, crash string) {
	if !strings.Contains(crash, "linkchain") && !strings.Contains(crash, "/repo/") {
		c.Infra("job %s died outside the code under test (at %.300s): %s", j.Class, at, crash)
		return
	}
	where := crashSite(crash)
	key := "process-death/" + j.Class + "/" + where
	if j.Kind == "gossip" || j.Kind == "alloc" {
		key = "process-death/" + where
	}
	a.hits[key] = append(a.hits[key], hit{Key: key, Kind: "process-death", Class: j.Class, Path: j.Kind, Concrete: at, Detail: crash})
}

// crashSite names the first frame of the repository in a crash dump.
func crashSite(crash string) string {
	first := ""
	for _, l := range strings.Split(crash, "\n") {
		l = strings.TrimSpace(l)
		if strings.HasPrefix(l, "panic:") || strings.HasPrefix(l, "fatal error:") {
			if first == "" {
				first = panicClass(l)
			}
		}
		if i := strings.Index(l, "github.com/lianxiangcloud/linkchain/"); i >= 0 && strings.Contains(l, "(") && !strings.Contains(l, ".go:") {
			fn := l[i+len("github.com/lianxiangcloud/linkchain/"):]
			if k := strings.Index(fn, "("); k > 0 && strings.Contains(fn[:k], ".") {
				fn = fn[:strings.LastIndex(fn, "(")]
			}
			fn = strings.NewReplacer("(", "", ")", "", "*", "").Replace(fn)
			return first + "@" + fn
		}
	}
	return first
}

func (a *aggregate) report(c *core.Ctx) {
	o := c.Out()
	t := a.tot
	o.Traces += t.Edges
	o.Evaluations += t.Deliveries + t.Bytes
	o.Distinct += t.Edges
	c.SetExtra("deliveries", t.Deliveries)
	c.SetExtra("reached_handleMsg_through_the_reactor", t.Forwarded)
	c.SetExtra("compared_as_stutter", t.Stutters)
	c.SetExtra("changed_the_round_state", t.Affects)
	c.SetExtra("class_rebuilds", t.Rebuilds)
	c.SetExtra("reactor_side_panics_or_peer_stops", t.ReactorDrop)
	c.SetExtra("byte_level_inputs", t.Bytes)
	c.SetExtra("byte_level_inputs_decodable", t.BytesDecode)
	c.SetExtra("by_model_effect", a.byEff)
	c.SetExtra("latent_state_machine_failures_masked_by_the_reactor", a.latent)
	c.SetExtra("as_is_model_predicted_panics", map[string]int{"predicted": t.AsIsPanic, "reproduced_on_the_code": t.AsIsAgree})
	c.SetExtra("height_committed_after_the_barrage", a.live)
	keys := make([]string, 0, len(a.hits))
	for k := range a.hits {
		keys = append(keys, k)
	}
	sort.Strings(keys)
	keys = minimalStateChanges(keys)
	for _, k := range keys {
		hs := a.hits[k]
		// representative: unsigned before signed, fewer deviations first
		sort.SliceStable(hs, func(i, j int) bool {
			if hs[i].Signed != hs[j].Signed {
				return !hs[i].Signed
			}
			return hs[i].NDev < hs[j].NDev
		})
		rep := hs[0]
		classes := map[string]bool{}
		anyPeer := false
		for _, h := range hs {
			classes[h.Class] = true
			if !h.Signed {
				anyPeer = true
			}
		}
		var cl []string
		for x := range classes {
			cl = append(cl, x)
		}
		sort.Strings(cl)
		who := "needs a validator's signature (Byzantine validator)"
		if anyPeer {
			who = "any peer (no valid signature needed)"
		}
		if rep.Kind == "liveness" || rep.Kind == "process-death" {
			who = "see record"
		}
		desc := fmt.Sprintf("%s in state class(es) %s; sender: %s; %s", rep.Kind, strings.Join(cl, ","), who, firstLine(rep.Detail))
		c.Violate(k, desc, map[string]interface{}{"representative": rep, "state_classes": cl, "sender": who, "occurrences": len(hs)})
	}
}

func firstLine(s string) string {
	if i := strings.Index(s, "\n"); i >= 0 {
		s = s[:i]
	}
	if len(s) > 300 {
		s = s[:300]
	}
	return s
}

// minimalStateChanges keeps, among the "state-change/<type>/<f1+f2..>" keys, those whose set of
// deviating fields has no proper subset that is reported as well (one report per root cause).
func minimalStateChanges(keys []string) []string {
	sets := map[string]map[string]bool{}
	typ := map[string]string{}
	for _, k := range keys {
		p := strings.Split(k, "/")
		if len(p) == 3 && p[0] == "state-change" && p[1] != "bytes" {
			m := map[string]bool{}
			for _, f := range strings.Split(p[2], "+") {
				m[f] = true
			}
			sets[k], typ[k] = m, p[1]
		}
	}
	var out []string
	for _, k := range keys {
		drop := false
		if s, ok := sets[k]; ok {
			for k2, s2 := range sets {
				if k2 == k || typ[k2] != typ[k] || len(s2) >= len(s) {
					continue
				}
				sub := true
				for f := range s2 {
					if !s[f] {
						sub = false
					}
				}
				if sub {
					drop = true
				}
			}
		}
		if !drop {
			out = append(out, k)
		}
	}
	return out
}
