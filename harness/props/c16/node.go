package c16

// The system under test: a 4-validator cluster of real consensus.ConsensusState
// instances (package cluster, hook H1) whose node 0..3 can be chosen as the TARGET.
// The target additionally runs the real ConsensusReactor (VerifStartSync) with one
// mock peer (the attacker) and a mock P2PManager, so that bytes are pushed through
// ConsensusReactor.Receive -> decodeMsg -> peerMsgQueue -> handleMsg.

import (
	"bytes"
	"encoding/binary"
	"fmt"
	"io/ioutil"
	"net"
	"os"
	"path/filepath"
	"sort"
	"strings"
	"sync"
	"sync/atomic"

	cfg "github.com/lianxiangcloud/linkchain/config"
	cs "github.com/lianxiangcloud/linkchain/consensus"
	cstypes "github.com/lianxiangcloud/linkchain/consensus/types"
	cmn "github.com/lianxiangcloud/linkchain/libs/common"
	"github.com/lianxiangcloud/linkchain/libs/crypto"
	dbm "github.com/lianxiangcloud/linkchain/libs/db"
	"github.com/lianxiangcloud/linkchain/libs/log"
	"github.com/lianxiangcloud/linkchain/libs/p2p"
	"github.com/lianxiangcloud/linkchain/types"

	"verifh/cluster"
)

// partSize is the genesis BlockPartSizeBytes: small, so every block has several parts.
const partSize = 192

// ---- mock peer ------------------------------------------------------------------

type sent struct {
	ch  byte
	msg []byte
}

type mockPeer struct {
	cmn.BaseService
	id      string
	mu      sync.Mutex
	kv      map[string]interface{}
	out     []sent
	running int32  // what IsRunning answers (the gossip routines poll it)
	polls   int64  // number of IsRunning calls (one per iteration of each gossip routine)
	onData  func() // called once from the next Send on the data channel (gossipDataRoutine sends a part or a proposal
	//                and only then updates the PeerState: the harness delivers a racing message exactly there)
}

func newMockPeer(id string) *mockPeer {
	p := &mockPeer{id: id, kv: map[string]interface{}{}}
	p.BaseService = *cmn.NewBaseService(nil, "mockPeer", p)
	return p
}

func (p *mockPeer) IsRunning() bool {
	atomic.AddInt64(&p.polls, 1)
	return atomic.LoadInt32(&p.running) == 1
}
func (p *mockPeer) ID() string                   { return p.id }
func (p *mockPeer) RemoteAddr() net.Addr         { return &net.TCPAddr{IP: net.IPv4(10, 0, 0, 9), Port: 1} }
func (p *mockPeer) NodeInfo() p2p.NodeInfo       { return p2p.NodeInfo{} }
func (p *mockPeer) IsOutbound() bool             { return false }
func (p *mockPeer) Status() p2p.ConnectionStatus { return p2p.ConnectionStatus{} }
func (p *mockPeer) Send(ch byte, b []byte) bool {
	p.mu.Lock()
	if len(p.out) < 4096 {
		p.out = append(p.out, sent{ch, b})
	}
	var hook func()
	if ch == cs.DataChannel && p.onData != nil {
		hook, p.onData = p.onData, nil
	}
	p.mu.Unlock()
	if hook != nil {
		hook()
	}
	return true
}
func (p *mockPeer) arm(f func()) {
	p.mu.Lock()
	p.onData = f
	p.mu.Unlock()
}
func (p *mockPeer) TrySend(ch byte, b []byte) bool { return p.Send(ch, b) }
func (p *mockPeer) Close() error                   { return nil }
func (p *mockPeer) Set(k string, v interface{}) {
	p.mu.Lock()
	p.kv[k] = v
	p.mu.Unlock()
}
func (p *mockPeer) Get(k string) interface{} {
	p.mu.Lock()
	defer p.mu.Unlock()
	return p.kv[k]
}
func (p *mockPeer) String() string { return "mockPeer{" + p.id + "}" }

// ---- mock switch ----------------------------------------------------------------

type mockPeerSet struct{ m *mockSwitch }

func (s mockPeerSet) HasID(id string) bool       { return s.GetByID(id) != nil }
func (s mockPeerSet) HasIP(ip string) bool       { return false }
func (s mockPeerSet) GetByIP(ip string) p2p.Peer { return nil }
func (s mockPeerSet) GetByID(id string) p2p.Peer {
	for _, p := range s.m.peers {
		if p.ID() == id {
			return p
		}
	}
	return nil
}
func (s mockPeerSet) List() []p2p.Peer { return append([]p2p.Peer{}, s.m.peers...) }
func (s mockPeerSet) Size() int        { return len(s.m.peers) }

type mockSwitch struct {
	cmn.BaseService
	mu      sync.Mutex
	peers   []p2p.Peer
	stopped []string // "peerID: reason" for every StopPeerForError
	bcast   int
}

func newMockSwitch() *mockSwitch {
	m := &mockSwitch{}
	m.BaseService = *cmn.NewBaseService(nil, "mockSwitch", m)
	return m
}
func (m *mockSwitch) GetByID(id string) p2p.Peer { return mockPeerSet{m}.GetByID(id) }
func (m *mockSwitch) StopPeerForError(peer p2p.Peer, reason interface{}) {
	m.mu.Lock()
	m.stopped = append(m.stopped, fmt.Sprintf("%s: %v", peer.ID(), reason))
	m.mu.Unlock()
}
func (m *mockSwitch) nStopped() int {
	m.mu.Lock()
	defer m.mu.Unlock()
	return len(m.stopped)
}
func (m *mockSwitch) Reactor(name string) p2p.Reactor                   { return nil }
func (m *mockSwitch) AddReactor(name string, r p2p.Reactor) p2p.Reactor { return r }
func (m *mockSwitch) Broadcast(chID byte, b []byte) chan bool {
	m.mu.Lock()
	m.bcast++
	m.mu.Unlock()
	ch := make(chan bool, 1)
	ch <- true
	return ch
}
func (m *mockSwitch) BroadcastE(chID byte, peerID string, b []byte) chan bool {
	return m.Broadcast(chID, b)
}
func (m *mockSwitch) Peers() p2p.IPeerSet                        { return mockPeerSet{m} }
func (m *mockSwitch) LocalNodeInfo() p2p.NodeInfo                { return p2p.NodeInfo{} }
func (m *mockSwitch) NumPeers() (outbound, inbound, dialing int) { return 0, len(m.peers), 0 }
func (m *mockSwitch) MarkBadNode(nodeInfo p2p.NodeInfo)          {}
func (m *mockSwitch) CloseAllConnection()                        {}

// ---- the cluster ------------------------------------------------------------------

// rig is a cluster plus the reactor side of its target node.
type rig struct {
	wal    *fileWAL
	cl     *cluster.Cluster
	target int
	conR   *cs.ConsensusReactor
	sw     *mockSwitch
	peer   *mockPeer
}

func (r *rig) node() *cluster.Node          { return r.cl.Nodes[r.target] }
func (r *rig) state() *cs.ConsensusState    { return r.node().CS }
func (r *rig) rs() *cstypes.RoundState      { return r.node().CS.GetRoundState() }
func (r *rig) peerState() *cs.PeerState     { return r.peer.Get(types.PeerStateKey).(*cs.PeerState) }
func (r *rig) prs() *cstypes.PeerRoundState { return r.peerState().GetRoundState() }
func (r *rig) status() cs.NewStatus         { return r.node().CS.VerifStatus() }

// newCluster builds the cluster the way cluster.New does, with a genesis whose block
// parts are small (several parts per block).
func newCluster(n int) (*cluster.Cluster, error) {
	c := &cluster.Cluster{ChainID: "verif-chain"}
	var vals []*types.Validator
	var pvs []types.PrivValidator
	for i := 0; i < n; i++ {
		v, pv := types.RandValidator(false, 10)
		vals = append(vals, v)
		pvs = append(pvs, pv)
	}
	c.ValSet = types.NewValidatorSet(vals)
	sort.Sort(types.PrivValidatorsByAddress(pvs))
	for i, pv := range pvs {
		pvs[i] = &cachedPV{PrivValidator: pv, pub: pv.GetPubKey(), addr: pv.GetAddress()}
	}
	c.PVs = pvs
	params := types.DefaultConsensusParams()
	params.BlockGossip.BlockPartSizeBytes = partSize
	c.Gen = &types.GenesisDoc{ChainID: c.ChainID, ConsensusParams: params}
	for _, v := range c.ValSet.Validators {
		c.Gen.Validators = append(c.Gen.Validators, types.GenesisValidator{PubKey: v.PubKey, Power: v.VotingPower})
	}
	for i := range c.PVs {
		nd := &cluster.Node{Idx: i, ID: fmt.Sprintf("n%d", i), PV: c.PVs[i]}
		c.Nodes = append(c.Nodes, nd)
		if err := bootNode(c, nd); err != nil {
			return nil, err
		}
	}
	return c, nil
}

// cachedPV answers GetAddress / GetPubKey from memory (MockPV derives the public key from the private key on
// every call - a scalar multiplication - and the synchronous driver asks for the address of every validator at
// every step). Signing is the wrapped validator's.
type cachedPV struct {
	types.PrivValidator
	pub  crypto.PubKey
	addr crypto.Address
}

func (p *cachedPV) GetAddress() crypto.Address { return p.addr }
func (p *cachedPV) GetPubKey() crypto.PubKey   { return p.pub }

func bootNode(c *cluster.Cluster, n *cluster.Node) error {
	n.StatusDB = dbm.NewMemDB()
	status, err := cs.CreateStatusFromGenesisDoc(n.StatusDB, c.Gen)
	if err != nil {
		return err
	}
	n.Mock = cluster.NewMockApp(&c.Counter)
	n.App = safeApp{n.Mock}
	conf := cfg.TestConsensusConfig()
	conf.SkipTimeoutCommit = false
	conf.PeerGossipSleepDuration = 1     // ms: the gossip routines iterate quickly in the gossip phase
	conf.PeerQueryMaj23SleepDuration = 2 // ms
	be := cs.NewBlockExecutor(n.StatusDB, log.NewNopLogger(), cs.MockEvidencePool{})
	st := cs.NewConsensusState(conf, status, be, n.App, cs.MockMempool{}, cs.MockEvidencePool{})
	st.SetLogger(log.NewNopLogger())
	eb := types.NewEventBus()
	eb.SetLogger(log.NewNopLogger())
	eb.Start()
	st.SetEventBus(eb)
	st.SetPrivValidator(n.PV)
	st.VerifInstall()
	n.CS = st
	rs := st.GetRoundState()
	n.Pend = []cs.VerifTimeout{{Duration: 0, Height: rs.Height, Round: 0, Step: cstypes.RoundStepNewHeight}}
	return nil
}

// safeApp makes the mock application's loaders answer like the real BlockStore: nil for
// what is not stored (the mock would index out of range / dereference nil instead).
type safeApp struct{ *cluster.MockApp }

func (a safeApp) LoadBlockPart(h uint64, i int) *types.Part {
	ps := a.Parts[h]
	if ps == nil || i < 0 || i >= ps.Total() {
		return nil
	}
	return ps.GetPart(i)
}
func (a safeApp) LoadBlockCommit(h uint64) *types.Commit {
	if b := a.Blocks[h+1]; b != nil {
		return b.LastCommit
	}
	return nil
}

// fileWAL is the write-ahead log of the target: the real baseWAL (consensus.NewWAL) on a file group of its
// own, started the way ConsensusState.OnStart starts it. receiveRoutine (and the hooks that execute its select
// cases) writes every peer message, every own message and every timeout to it BEFORE handling it, through the
// real WALEncoder; baseWAL.Write turns an encoder error into a panic inside the consensus routine.
type fileWAL struct {
	cs.WAL
	dir string
}

type walStats struct {
	entries    int // records the target wrote
	maxBytes   int // the longest record (without the 8 bytes of framing)
	tooBig     int // records above the decoder's limit of 1 MiB
	unreadable int // records the real WALDecoder refuses to read back
}

// walRoot prefers a memory file system (WriteSync calls fsync for every own message).
func walRoot() string {
	if st, err := os.Stat("/dev/shm"); err == nil && st.IsDir() {
		if d, err := ioutil.TempDir("/dev/shm", "vc16probe"); err == nil {
			os.Remove(d)
			return "/dev/shm"
		}
	}
	return ""
}

var walDirRoot = walRoot()

func newFileWAL() (*fileWAL, error) {
	dir, err := ioutil.TempDir(walDirRoot, "vc16wal")
	if err != nil {
		return nil, err
	}
	w, err := cs.NewWAL(filepath.Join(dir, "wal"))
	if err != nil {
		os.RemoveAll(dir)
		return nil, err
	}
	if err := w.Start(); err != nil {
		os.RemoveAll(dir)
		return nil, err
	}
	return &fileWAL{WAL: w, dir: dir}, nil
}

// close stops the log, reads every record back with the real WALDecoder (one record at a time, so that a
// refused record does not hide the ones behind it), adds the counts to st and removes the files.
func (w *fileWAL) close(st *walStats) {
	func() {
		defer func() { recover() }()
		w.WAL.Stop()
	}()
	defer os.RemoveAll(w.dir)
	if st == nil {
		return
	}
	names, _ := filepath.Glob(filepath.Join(w.dir, "wal*"))
	sort.Strings(names)
	for _, name := range names {
		bz, err := ioutil.ReadFile(name)
		if err != nil {
			continue
		}
		for len(bz) >= 8 {
			n := int(binary.BigEndian.Uint32(bz[4:8]))
			if n > len(bz)-8 {
				break // (a torn tail cannot happen here: the log was closed in order)
			}
			st.entries++
			if n > st.maxBytes {
				st.maxBytes = n
			}
			if n > 1024*1024 {
				st.tooBig++
			}
			if _, err := cs.NewWALDecoder(bytes.NewReader(bz[:8+n])).Decode(); err != nil {
				st.unreadable++
			}
			bz = bz[8+n:]
		}
	}
}

// attachReactor starts the real reactor on the target node and adds the attacker peer.
// With gossip == false the peer reports IsRunning() == false, so the three gossip
// routines AddPeer starts return at once and everything stays synchronous.
func (r *rig) attachReactor(gossip bool) error {
	w, err := newFileWAL()
	if err != nil {
		return fmt.Errorf("write-ahead log of the target: %v", err)
	}
	r.wal = w
	r.state().VerifSetWAL(w)
	r.sw = newMockSwitch()
	r.conR = cs.NewConsensusReactor(r.state(), false, r.sw)
	r.conR.SetLogger(log.NewNopLogger())
	if err := r.conR.VerifStartSync(); err != nil {
		return err
	}
	r.peer = newMockPeer("attacker")
	if gossip {
		atomic.StoreInt32(&r.peer.running, 1)
	}
	r.sw.peers = append(r.sw.peers, r.peer)
	r.conR.AddPeer(r.peer)
	if r.peer.Get(types.PeerStateKey) == nil {
		return fmt.Errorf("AddPeer did not install a PeerState")
	}
	return nil
}

// ---- projections ----------------------------------------------------------------

// deepView is a textual fingerprint of everything in the RoundState that a message
// could touch; it is compared (in addition to cluster.ViewOf) where the specification
// says the step is a stutter.
func (r *rig) deepView() string {
	rs := r.rs()
	var b strings.Builder
	fmt.Fprintf(&b, "H=%d R=%d S=%d start=%d commit=%d\n", rs.Height, rs.Round, rs.Step, rs.StartTime.UnixNano(), rs.CommitTime.UnixNano())
	if rs.Validators != nil {
		p := "-"
		if rs.Validators.GetProposer() != nil {
			p = fmt.Sprintf("%x", rs.Validators.GetProposer().Address)
		}
		fmt.Fprintf(&b, "vals=%x/%d proposer=%s\n", rs.Validators.Hash(), rs.Validators.Size(), p)
	}
	if rs.LastValidators != nil {
		fmt.Fprintf(&b, "lastvals=%x/%d\n", rs.LastValidators.Hash(), rs.LastValidators.Size())
	}
	fmt.Fprintf(&b, "proposal=%p", rs.Proposal)
	if rs.Proposal != nil {
		fmt.Fprintf(&b, " %d/%d pol=%d hdr=%v", rs.Proposal.Height, rs.Proposal.Round, rs.Proposal.POLRound, rs.Proposal.BlockPartsHeader)
	}
	b.WriteString("\n")
	blk := func(name string, x *types.Block, ps *types.PartSet) {
		fmt.Fprintf(&b, "%s=", name)
		if x != nil {
			fmt.Fprintf(&b, "%x", x.Hash().Bytes())
		} else {
			b.WriteString("nil")
		}
		if ps != nil {
			fmt.Fprintf(&b, " parts=%v count=%d bits=%v", ps.Header(), ps.Count(), ps.BitArray())
		} else {
			b.WriteString(" parts=nil")
		}
		b.WriteString("\n")
	}
	blk("pblock", rs.ProposalBlock, rs.ProposalBlockParts)
	blk("locked", rs.LockedBlock, rs.LockedBlockParts)
	blk("valid", rs.ValidBlock, rs.ValidBlockParts)
	fmt.Fprintf(&b, "LR=%d VR=%d CR=%d\n", rs.LockedRound, rs.ValidRound, rs.CommitRound)
	if rs.Votes != nil {
		ls := strings.Split(rs.Votes.String(), "\n")
		for i := range ls {
			ls[i] = strings.TrimSpace(ls[i])
		}
		// catch-up rounds are printed in map order: sort the vote-set blocks
		b.WriteString(sortBlocks(ls))
	}
	if rs.LastCommit != nil {
		fmt.Fprintf(&b, "lastcommit=%s\n", rs.LastCommit.String())
	} else {
		b.WriteString("lastcommit=nil\n")
	}
	fmt.Fprintf(&b, "appH=%d\n", r.node().App.Height())
	return b.String()
}

// sortBlocks sorts the "VoteSet{ ... }" blocks of a HeightVoteSet rendering.
func sortBlocks(ls []string) string {
	var head []string
	var blocks []string
	cur := ""
	for _, l := range ls {
		if l == "}" || l == "" { // the closing brace of the HeightVoteSet follows whichever block the map iteration put last
			continue
		}
		if strings.HasPrefix(l, "VoteSet{") {
			if cur != "" {
				blocks = append(blocks, cur)
			}
			cur = l
			continue
		}
		if cur == "" {
			head = append(head, l)
		} else {
			cur += "|" + l
		}
	}
	if cur != "" {
		blocks = append(blocks, cur)
	}
	sort.Strings(blocks)
	return strings.Join(head, "|") + "\n" + strings.Join(blocks, "\n") + "\n"
}

// prsView renders the attacker's PeerRoundState (reactor-side bookkeeping; pi_shape).
func (r *rig) prsView() string {
	p := r.prs()
	return fmt.Sprintf("%d/%d/%d prop=%v hdr=%v parts=%v pol=%d/%v pv=%v pc=%v lc=%d/%v cc=%d/%v",
		p.Height, p.Round, p.Step, p.Proposal, p.ProposalBlockPartsHeader, p.ProposalBlockParts, p.ProposalPOLRound, p.ProposalPOL,
		p.Prevotes, p.Precommits, p.LastCommitRound, p.LastCommit, p.CatchupCommitRound, p.CatchupCommit)
}
