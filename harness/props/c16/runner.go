package c16

// The replay of the exported (state class, message) pairs on the real reactor and state
// machine, and the oracle pi_prop.

import (
	"bufio"
	"encoding/hex"
	"encoding/json"
	"fmt"
	"math/rand"
	"regexp"
	"sort"
	"strings"
	"time"

	cs "github.com/lianxiangcloud/linkchain/consensus"
	"github.com/lianxiangcloud/linkchain/libs/p2p"
	"github.com/lianxiangcloud/linkchain/libs/ser"
)

// hit is one observation that contradicts the property (or a latent one).
type hit struct {
	Key      string          `json:"key"`
	Kind     string          `json:"kind"` // "halt" | "state-change" | "liveness" | "latent" | "halt-later" | "stall"
	Class    string          `json:"class"`
	Msg      json.RawMessage `json:"msg,omitempty"`
	Concrete string          `json:"concrete,omitempty"`
	Hex      string          `json:"hex,omitempty"`
	Path     string          `json:"path"`
	Signed   bool            `json:"signed"` // the message carries a validator's valid signature
	NDev     int             `json:"ndev"`
	Detail   string          `json:"detail"`
	Model    string          `json:"model,omitempty"` // what the as-is model predicted
}

type jobResult struct {
	Class       string         `json:"class"`
	Edges       int            `json:"edges"`      // distinct (state, message) pairs replayed
	Deliveries  int            `json:"deliveries"` // messages pushed through the reactor / handed to handleMsg
	Forwarded   int            `json:"forwarded"`  // reached handleMsg through peerMsgQueue
	Stutters    int            `json:"stutters"`   // deliveries compared as stutters
	Affects     int            `json:"affects"`    // deliveries that changed the RoundState
	Rebuilds    int            `json:"rebuilds"`
	ReactorDrop int            `json:"reactorDrop"` // Receive panicked or stopped the peer
	ByEff       map[string]int `json:"byEff"`
	Hits        []hit          `json:"hits"`
	Drift       []string       `json:"drift"`
	Latent      map[string]int `json:"latent"`
	Bytes       int            `json:"bytes"`        // byte-level inputs
	BytesDecode int            `json:"bytesDecoded"` // of which decodable
	AsIsPanic   int            `json:"asisPanic"`    // deliveries for which the as-is model predicts a panic
	AsIsAgree   int            `json:"asisAgree"`    // ... and the real state machine panicked
	LiveTo      uint64         `json:"liveTo"`       // height committed by every node after the barrage
	WALEntries  int            `json:"walEntries"`   // messages the target encoded for its write-ahead log
	WALMaxBytes int            `json:"walMaxBytes"`
	WALTooBig   int            `json:"walTooBig"` // entries above the WAL decoder's limit (> 1 MiB)
	WALUnread   int            `json:"walUnreadable"` // entries the real WALDecoder refused when the log was read back
	WALPredBig  int            `json:"walPredictedBig"` // deliveries that reached the WAL for which the model says the record is above the limit
	BigMsgs     int            `json:"bigMsgs"`         // deliveries of messages instantiated at the reactor's size limit (-1, 0, +1 byte)
	FollowUps   int            `json:"followUps"`       // own-step paths the target was driven through after peer input
	FollowStrict  int          `json:"followStrict"`    // ... from a model state that describes the node exactly (projection compared)
	FollowBlocked int          `json:"followBlocked"`   // ... given up without a verdict (the accepted input had taken the node elsewhere)
	OwnSteps    int            `json:"ownSteps"`        // own steps executed on the real node
	OwnCompared int            `json:"ownCompared"`     // ... after which height / round / tracked rounds / catch-up entries were compared with the model
	GuardOver   int            `json:"guardOver"`       // ... in which SetRound ran over an entry that existed already
	ByOwn       map[string]int `json:"byOwn"`
	Secs        map[string]float64 `json:"secs"` // wall seconds by activity (rebuild, follow-up, WAL read-back)
	Sample      interface{}    `json:"sample,omitempty"`
	Infra       string         `json:"infra,omitempty"`
}

type runner struct {
	class    string
	b        *built
	in       *inst
	rng      *rand.Rand
	res      *jobResult
	w        *bufio.Writer
	variants int
	seenKey  map[string]bool
	probe    []int // rounds whose vote sets' existence is part of the snapshot (String() of a HeightVoteSet hides negative catch-up rounds)

	own       map[string][]*edge // the model's own-step edges by the state they start from
	classOwn  ownState           // the model's `own` of the class state
	follow    int                // a follow-up after this many deliveries that changed nothing
	fuCount   int                // follow-ups made (selects the plan)
	nSince    int                // deliveries since the class was (re)built
	lastMsgs  []string           // the last few abstract messages delivered since
	suspect   bool               // the node failed or changed against the model since the rebuild: no follow-up
	unmodelled bool              // the node changed where the operational model says "none" (MayAffect over-approximates): the model state is not exact
	inControl bool
	controls  map[string]bool // outcome of the own steps of a plan on a node that received nothing from the attacker
	wst       walStats
}

type snap struct {
	view string
	deep string
}

func (rn *runner) snap() snap {
	v, _ := json.Marshal(rn.b.cl.ViewOf(rn.b.node()))
	d := rn.b.deepView()
	if votes := rn.b.rs().Votes; votes != nil {
		for _, r := range rn.probe {
			d += fmt.Sprintf("round %d tracked=%v\n", r, votes.Prevotes(r) != nil)
		}
	}
	return snap{string(v), d}
}

func (rn *runner) at(s string) {
	fmt.Fprintf(rn.w, "AT %s\n", s)
	rn.w.Flush()
}

// closeWAL stops the target's write-ahead log, reads it back and removes it.
func (rn *runner) timed(what string) func() {
	t0 := time.Now()
	return func() {
		if rn.res.Secs == nil {
			rn.res.Secs = map[string]float64{}
		}
		rn.res.Secs[what] += time.Since(t0).Seconds()
	}
}

func (rn *runner) closeWAL() {
	if rn.b == nil || rn.b.wal == nil {
		return
	}
	defer rn.timed("wal-read-back")()
	var st walStats
	rn.b.wal.close(&st)
	rn.b.wal = nil
	if rn.inControl {
		return
	}
	rn.res.WALEntries += st.entries
	rn.res.WALTooBig += st.tooBig
	rn.res.WALUnread += st.unreadable
	if st.maxBytes > rn.res.WALMaxBytes {
		rn.res.WALMaxBytes = st.maxBytes
	}
}

// rebuildPlain builds a fresh node of the class (nothing else of the runner changes).
func (rn *runner) rebuildPlain() error {
	defer rn.timed("build-class")()
	b, err := buildClass(rn.class, false)
	if err != nil {
		return err
	}
	if f := b.facts(); !factsMatch(f, wantFacts[rn.class]) {
		if b.wal != nil {
			b.wal.close(nil)
		}
		return fmt.Errorf("class %s: the node is in %+v, the specification's class is %+v", rn.class, f, wantFacts[rn.class])
	}
	rn.b = b
	return nil
}

func (rn *runner) rebuild() error {
	rn.closeWAL()
	if err := rn.rebuildPlain(); err != nil {
		return err
	}
	b := rn.b
	rn.nSince, rn.lastMsgs, rn.suspect, rn.unmodelled = 0, nil, false, false
	if rn.in == nil {
		rn.in = newInst(b, rn.rng)
	} else {
		rn.in.b = b
		rn.in.refresh()
	}
	rn.res.Rebuilds++
	return nil
}

// ---- peer bookkeeping modes -------------------------------------------------------

func (rn *runner) reconnect() {
	b := rn.b
	p := newMockPeer("attacker")
	b.sw.peers = []p2p.Peer{p}
	b.peer = p
	b.conR.AddPeer(p)
}

// ensureMode makes the attacker's PeerRoundState either untouched ("none": the reactor never
// touches the peer's bit arrays) or announced for the node's own height/round ("match").
func (rn *runner) ensureMode(mode string) {
	b := rn.b
	prs := b.prs()
	rs := b.rs()
	switch mode {
	case "none":
		if prs.Height != 0 || prs.Round != -1 {
			rn.reconnect()
		}
	case "match":
		if prs.Height != rs.Height || prs.Round != rs.Round {
			if prs.Height != 0 {
				rn.reconnect()
			}
			m := &cs.NewRoundStepMessage{Height: rs.Height, Round: rs.Round, Step: rs.Step, LastCommitRound: rs.LastCommit.Round()}
			b.conR.VerifReceive(cs.StateChannel, b.peer, ser.MustEncodeToBytesWithType(m))
		}
	}
}

func (rn *runner) collectPend() {
	n := rn.b.node()
	n.Pend = append(n.Pend, n.CS.VerifScheduled()...)
}

// ---- one delivery -------------------------------------------------------------------

type outcome struct {
	diff        string // first difference of the snapshots
	reactorFail interface{}
	stopped     bool
	popped      int
	smFail      interface{}
	changed     bool
	viewChanged bool
}

// wire pushes the bytes through ConsensusReactor.Receive and drains peerMsgQueue.
func (rn *runner) wire(cm concrete) outcome {
	b := rn.b
	pre := rn.snap()
	stops := b.sw.nStopped()
	var o outcome
	o.reactorFail = b.conR.VerifReceive(cm.ch, b.peer, cm.bytes)
	for {
		m, f := b.state().VerifPopPeer()
		if m == nil {
			break
		}
		o.popped++
		if f != nil && o.smFail == nil {
			o.smFail = f
		}
	}
	rn.collectPend()
	o.stopped = b.sw.nStopped() > stops
	post := rn.snap()
	o.changed = pre != post
	o.diff = firstDiff(pre, post)
	o.viewChanged = pre.view != post.view
	rn.res.Deliveries++
	rn.res.Forwarded += o.popped
	if o.reactorFail != nil || o.stopped {
		rn.res.ReactorDrop++
		rn.reconnect() // the switch would have dropped the peer; the attacker connects again
	}
	return o
}

// direct hands the decoded message to handleMsg.
func (rn *runner) direct(m cs.ConsensusMessage) outcome {
	pre := rn.snap()
	var o outcome
	o.smFail = rn.b.state().VerifDeliver(m, "attacker")
	o.popped = 1
	rn.collectPend()
	post := rn.snap()
	o.changed = pre != post
	o.diff = firstDiff(pre, post)
	o.viewChanged = pre.view != post.view
	rn.res.Deliveries++
	return o
}

// firstDiff names the first line in which two snapshots differ.
func firstDiff(a, b snap) string {
	if a == b {
		return ""
	}
	if a.deep == b.deep {
		return "projection (cluster.ViewOf): " + a.view + " -> " + b.view
	}
	la, lb := strings.Split(a.deep, "\n"), strings.Split(b.deep, "\n")
	for i := 0; i < len(la) || i < len(lb); i++ {
		x, y := "(none)", "(none)"
		if i < len(la) {
			x = la[i]
		}
		if i < len(lb) {
			y = lb[i]
		}
		if x != y {
			if len(x) > 300 {
				x = x[:300]
			}
			if len(y) > 300 {
				y = y[:300]
			}
			return fmt.Sprintf("%q -> %q", x, y)
		}
	}
	return "?"
}

var reNum = regexp.MustCompile(`-?\d+`)
var reHex = regexp.MustCompile(`0x[0-9a-fA-F]+`)

// panicClass normalises a panic value into a stable key fragment.
func panicClass(f interface{}) string {
	s := fmt.Sprint(f)
	if i := strings.Index(s, "\n"); i >= 0 {
		s = s[:i]
	}
	s = reHex.ReplaceAllString(s, "ADDR")
	s = reNum.ReplaceAllStringFunc(s, func(x string) string {
		if strings.HasPrefix(x, "-") {
			return "NEG"
		}
		return "N"
	})
	s = strings.TrimPrefix(s, "runtime error: ")
	s = strings.Map(func(r rune) rune {
		switch {
		case r >= 'a' && r <= 'z', r >= 'A' && r <= 'Z', r >= '0' && r <= '9':
			return r
		case r == ' ' || r == '-' || r == '_' || r == ':' || r == '[' || r == ']' || r == '(' || r == ')':
			return '-'
		}
		return -1
	}, s)
	for strings.Contains(s, "--") {
		s = strings.Replace(s, "--", "-", -1)
	}
	s = strings.Trim(s, "-")
	if len(s) > 70 {
		s = s[:70]
	}
	return s
}

func (rn *runner) addHit(h hit) {
	k := h.Key + "|" + h.Class + "|" + fmt.Sprint(h.Signed)
	if rn.seenKey[k] && len(rn.res.Hits) > 40 {
		return
	}
	rn.seenKey[k] = true
	if len(rn.res.Hits) < 400 {
		rn.res.Hits = append(rn.res.Hits, h)
	}
}

func (rn *runner) drift(f string, a ...interface{}) {
	if len(rn.res.Drift) < 20 {
		rn.res.Drift = append(rn.res.Drift, fmt.Sprintf(f, a...))
	}
}

func hexOf(b []byte) string {
	if len(b) > 600 {
		return hex.EncodeToString(b[:600]) + "..."
	}
	return hex.EncodeToString(b)
}

// changing effects of the operational model
var changing = map[string]bool{"proposal": true, "recover": true, "part": true, "vote": true, "lastcommit": true, "alloc": true, "alloc+vote": true, "claim": true}

// replayEdge instantiates the abstract message `variants` times and delivers every instance
// through the wire (both peer bookkeeping modes) and directly. It returns whether the real
// state changed (the caller then rebuilds the class).
func (rn *runner) replayEdge(e *edge, k int) (changedState bool, why cause, err error) {
	m := e.Act.M
	why.Edge = e
	rn.noteMsg(e)
	if m.T == "byzblock" {
		changedState, err = rn.replayByz(e)
		return
	}
	signed := m.Sig == "who" || m.Sig == "proposer" || m.Sig == "other"
	ndev := devCount(e)
	paths := []string{"wire/none", "wire/match", "direct"}
	// rotate the path that goes first (a state-changing message is only seen by the first one)
	rot := (k + int(rn.rng.Int31n(3))) % 3
	paths = append(paths[rot:], paths[:rot]...)
	cm, err := rn.in.make(m)
	if err != nil {
		return false, why, err
	}
	why.Concrete, why.Hex = cm.desc, hexOf(cm.bytes)
	rn.at(fmt.Sprintf("%s %s %s", rn.class, string(e.M), cm.desc))
	rn.probe = cm.rounds
	for pi, path := range paths {
		if pi > 0 && m.T == "proposal" && m.Total == sMAXI && signed {
			// every accepted instance allocates; one path is enough
			break
		}
		var o outcome
		onWire := strings.HasPrefix(path, "wire/")
		if !onWire && sizeOf(m.Sz) > reactorMaxMsgSize && !m.Nilc {
			continue // the model's message does not exist behind decodeMsg
		}
		if onWire {
			rn.ensureMode(strings.TrimPrefix(path, "wire/"))
			o = rn.wire(cm)
		} else {
			dm, derr := decode(cm.bytes)
			if derr != nil || dm == nil {
				rn.drift("%s: an instantiated message does not decode: %v (%s)", rn.class, derr, string(e.M))
				continue
			}
			o = rn.direct(dm)
		}
		rn.nSince++
		if cm.big {
			rn.res.BigMsgs++
		}
		if e.Act.WalBig && o.popped > 0 {
			rn.res.WALPredBig++
		}
		rn.res.ByEff[e.Act.Eff]++
		asis := e.Act.AsIs
		if !onWire {
			asis = e.Act.AsIsDirect
		}
		if asis == "panic" && (!onWire || o.popped > 0) {
			rn.res.AsIsPanic++
			if o.smFail != nil {
				rn.res.AsIsAgree++
			}
		}
		rec := hit{Class: rn.class, Msg: e.M, Concrete: cm.desc, Hex: hexOf(cm.bytes), Path: path, Signed: signed, NDev: ndev, Model: "as-is model: " + asis + ", repaired model: " + e.Act.Eff}
		if o.smFail != nil {
			rec.Detail = fmt.Sprint(o.smFail)
			if len(rec.Detail) > 400 {
				rec.Detail = rec.Detail[:400]
			}
			rn.suspect = true
			if onWire {
				rec.Kind, rec.Key = "halt", "halt/"+m.T+"/"+panicClass(o.smFail)
				rn.addHit(rec)
			} else if e.Act.Fwd == "no" {
				// the reactor never forwards this message: the state machine's failure is latent
				rn.res.Latent[m.T+"/"+panicClass(o.smFail)]++
			} else {
				rec.Kind, rec.Key = "halt", "halt/"+m.T+"/"+panicClass(o.smFail)
				rn.addHit(rec)
			}
			return true, why, nil // the node's state is suspect after a failure
		}
		checkStutter := onWire || onOwnChannel(m)
		if onWire && o.popped == 0 && e.Act.Fwd == "yes" && o.reactorFail == nil && !o.stopped {
			rn.drift("%s: the model says the reactor forwards %s; it did not", rn.class, string(e.M))
		}
		if onWire && o.popped > 0 && e.Act.Fwd == "no" {
			rn.drift("%s: the model says the reactor does not forward %s; it did", rn.class, string(e.M))
		}
		if o.changed {
			rn.res.Affects++
			if !e.Act.May && checkStutter {
				rec.Kind = "state-change"
				rec.Key = "state-change/" + m.T + "/" + devFields(e)
				rec.Detail = "the RoundState changed on a message the specification classifies as unable to affect the node: " + o.diff
				rn.addHit(rec)
				rn.suspect = true
			}
			if !changing[e.Act.Eff] {
				rn.unmodelled = true
			}
			return true, why, nil
		}
		if checkStutter {
			rn.res.Stutters++
		}
		if changing[e.Act.Eff] && ((onWire && (o.popped > 0 || m.T == "maj23")) || (!onWire && m.T != "maj23" && onOwnChannel(m))) {
			rn.drift("%s: the model says %q for %s (%s); the node's RoundState did not change", rn.class, e.Act.Eff, string(e.M), path)
		}
	}
	return false, why, nil
}

// noteMsg remembers the last few abstract messages delivered since the class was built.
func (rn *runner) noteMsg(e *edge) {
	rn.lastMsgs = append(rn.lastMsgs, string(e.M))
	if len(rn.lastMsgs) > 3 {
		rn.lastMsgs = rn.lastMsgs[len(rn.lastMsgs)-3:]
	}
}

func onOwnChannel(m absMsg) bool {
	switch m.T {
	case "nrs", "commitstep", "hasvote", "maj23", "heartbeat":
		return m.Ch == "state"
	case "proposal", "part", "pol":
		return m.Ch == "data"
	case "vote":
		return m.Ch == "vote"
	case "bits":
		return m.Ch == "bits"
	}
	return false
}

// ---- deviations (for keys) ------------------------------------------------------------

// devList lists the fields in which the message deviates from the nearest base message of its type.
func devList(e *edge) []string {
	var m map[string]interface{}
	json.Unmarshal(e.M, &m)
	w := wantFacts[e.From.Cls]
	cur := float64(w.H)
	r := float64(w.R)
	base := map[string]interface{}{"nilc": false, "h": cur, "r": r, "sz": "small"}
	var alts []map[string]interface{}
	switch m["t"] {
	case "vote":
		for k, v := range map[string]interface{}{"who": 3.0, "vidx": "who", "vaddr": "who", "size": 4.0, "bid": "block", "sig": "who", "ch": "vote"} {
			base[k] = v
		}
		pv := copyMap(base)
		pv["typ"] = 1.0
		pc := copyMap(base)
		pc["typ"] = 2.0
		st := copyMap(pc)
		st["h"], st["r"] = cur-1, 0.0
		alts = []map[string]interface{}{pv, pc}
		if w.Step == 1 {
			alts = append(alts, st)
		}
	case "proposal":
		for k, v := range map[string]interface{}{"ptype": "normal", "pol": -1.0, "total": 3.0, "hash": "ok", "polbid": "nil", "sig": "proposer", "ch": "data"} {
			base[k] = v
		}
		rc := copyMap(base)
		rc["ptype"], rc["r"] = "recover", r+1
		alts = []map[string]interface{}{base}
		if w.Stalled {
			alts = append(alts, rc)
		}
	case "part":
		for k, v := range map[string]interface{}{"bytes": "ok", "proof": "ok", "ch": "data"} {
			base[k] = v
		}
		base["idx"] = m["idx"]
		alts = []map[string]interface{}{base}
	default:
		return []string{"-"}
	}
	best := []string(nil)
	for _, a := range alts {
		var d []string
		for k, v := range a {
			if mv, ok := m[k]; ok && mv != v {
				d = append(d, k)
			}
		}
		sort.Strings(d)
		if best == nil || len(d) < len(best) {
			best = d
			if d == nil {
				best = []string{}
			}
		}
	}
	return best
}

func copyMap(m map[string]interface{}) map[string]interface{} {
	o := map[string]interface{}{}
	for k, v := range m {
		o[k] = v
	}
	return o
}

func devCount(e *edge) int { return len(devList(e)) }
func devFields(e *edge) string {
	d := devList(e)
	if len(d) == 0 {
		return "base"
	}
	return strings.Join(d, "+")
}

// ---- liveness after the barrage ----------------------------------------------------------

// liveness re-offers everything on the wire to everyone (what gossip does) and runs the
// cluster until every node has committed the next height.
func (rn *runner) liveness() (uint64, error) {
	cl := rn.b.cl
	var top uint64
	for _, n := range cl.Nodes {
		if h := n.App.Height(); h > top {
			top = h
		}
	}
	goal := top + 1
	done := func() bool {
		for _, n := range cl.Nodes {
			if n.App.Height() < goal {
				return false
			}
		}
		return true
	}
	for iter := 0; iter < 8 && !done(); iter++ {
		nw := len(cl.Wire)
		for k := 0; k < nw; k++ {
			w := cl.Wire[k]
			d := cl.Describe(w.Msg, w.From)
			for _, n := range cl.Nodes {
				if n.Idx == w.From || n.Failure != nil {
					continue
				}
				if h := n.CS.GetRoundState().Height; d.H != h && d.H+1 != h {
					continue
				}
				if e := cl.Deliver(n.Idx, w.Msg, w.From); e.Fail != "" {
					return top, fmt.Errorf("node %d failed on an honest message during the final run: %s", n.Idx, e.Fail)
				}
			}
		}
		cl.RunSync(done, 300)
	}
	if done() {
		return goal, nil
	}
	var st []string
	for _, n := range cl.Nodes {
		st = append(st, fmt.Sprintf("n%d:%s app=%d fail=%v", n.Idx, n.CS.VerifString(), n.App.Height(), n.Failure))
	}
	tgt := rn.b.node().App.Height() >= goal
	othersOK := true
	for _, i := range rn.b.others {
		if cl.Nodes[i].App.Height() < goal {
			othersOK = false
		}
	}
	if !tgt && othersOK {
		return top, fmt.Errorf("TARGET: the target did not commit height %d after the barrage although the other validators did: %s", goal, strings.Join(st, " "))
	}
	return top, fmt.Errorf("the cluster did not commit height %d: %s", goal, strings.Join(st, " "))
}
