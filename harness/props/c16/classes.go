package c16

// State classes of the specification (PeerInput.tla, constant Classes) and how the
// real cluster is brought into each of them with cluster.Deliver / PopInternal / Fire.
//
// The three validators other than the target (30 of 40 voting power) run the heights
// among themselves; the target lags and is fed exactly the prefix of their messages
// (plus harness-signed votes where a class needs a split) that puts it into the class.

import (
	"fmt"
	"time"

	cs "github.com/lianxiangcloud/linkchain/consensus"
	cstypes "github.com/lianxiangcloud/linkchain/consensus/types"
	"github.com/lianxiangcloud/linkchain/types"

	"verifh/cluster"
)

// classNames in the order of the specification.
var classNames = []string{
	"h1-newheight",     // height 1, step NewHeight, cs.LastCommit == nil
	"h1-propose",       // Propose, no proposal yet
	"h1-parts",         // proposal accepted, 1 of >= 3 parts received
	"h1-prevote",       // block complete, own prevote cast
	"h1-prevotewait",   // +2/3 prevotes without a majority
	"h1-precommit",     // polka seen, own precommit cast
	"h1-precommitwait", // +2/3 precommits without a majority
	"h1-commit",        // +2/3 precommits for a block the node does not have: Commit step, waiting for parts
	"h1-r1-propose",    // round 1 after a nil round, no proposal yet
	"h2-newheight",     // height 2, step NewHeight, LastCommit present
	"h2-propose",       // height 2, Propose, no proposal yet
	"h1-stalled",       // as h1-propose but the height has been running for 13 minutes (recover proposals are considered)
}

// facts is what the harness measures on the real node after building a class; it must
// equal the class record of the specification (the binding of the state classes).
type facts struct {
	H          uint64 `json:"h"`
	R          int    `json:"r"`
	Step       int    `json:"step"`
	LastCommit bool   `json:"lastCommit"`
	Proposal   bool   `json:"proposal"`
	Expecting  bool   `json:"expecting"` // ProposalBlockParts != nil
	Have       int    `json:"have"`      // parts present (0 when not expecting)
	Multi      bool   `json:"multi"`     // the expected part set has >= 3 parts
	Block      bool   `json:"block"`     // ProposalBlock != nil
	Stalled    bool   `json:"stalled"`
}

func (r *rig) facts() facts {
	rs := r.rs()
	f := facts{H: rs.Height, R: rs.Round, Step: int(rs.Step), LastCommit: rs.LastCommit != nil, Proposal: rs.Proposal != nil,
		Expecting: rs.ProposalBlockParts != nil, Block: rs.ProposalBlock != nil}
	if rs.ProposalBlockParts != nil {
		f.Have = rs.ProposalBlockParts.Count()
		f.Multi = rs.ProposalBlockParts.Total() >= 3
	}
	f.Stalled = time.Since(rs.StartTime) > 12*time.Minute
	return f
}

// built is a class instance: the rig plus the material messages are instantiated from.
type built struct {
	*rig
	class  string
	others []int         // validators other than the target: [proposer of the target's (h, r), the two others]
	given  []*types.Vote // harness-signed votes the target was given while the class was built
}

func (b *built) except(x ...int) []int {
	var out []int
	for _, i := range b.cl.Correct() {
		skip := false
		for _, y := range x {
			if y == i {
				skip = true
			}
		}
		if !skip {
			out = append(out, i)
		}
	}
	return out
}

func (b *built) fire(i int, step cstypes.RoundStepType) error {
	n := b.cl.Nodes[i]
	rs := n.CS.GetRoundState()
	for k := len(n.Pend) - 1; k >= 0; k-- {
		t := n.Pend[k]
		if t.Height == rs.Height && t.Round == rs.Round && t.Step == step {
			e := b.cl.Fire(i, k)
			if e.Fail != "" {
				return fmt.Errorf("node %d failed while firing %v: %s", i, step, e.Fail)
			}
			return nil
		}
	}
	return fmt.Errorf("node %d has no pending %v timeout at %d/%d (pending %v)", i, step, rs.Height, rs.Round, n.Pend)
}

// settleOthers pops the internal messages of the other validators and delivers them among
// those validators only, until quiet.
func (b *built) settleOthers() error {
	for moved := true; moved; {
		moved = false
		for _, i := range b.others {
			for {
				m, ok := b.cl.PopInternal(i)
				if !ok {
					break
				}
				moved = true
				if f := b.cl.Nodes[i].Failure; f != nil {
					return fmt.Errorf("node %d failed on its own message: %v", i, f)
				}
				for _, j := range b.others {
					if j != i {
						if e := b.cl.Deliver(j, m, i); e.Fail != "" {
							return fmt.Errorf("node %d failed on an honest message: %s", j, e.Fail)
						}
					}
				}
			}
		}
	}
	return nil
}

// othersCommit lets the other validators run height h to its commit.
func (b *built) othersCommit(h uint64) error {
	for _, i := range b.others {
		if err := b.fire(i, cstypes.RoundStepNewHeight); err != nil {
			return err
		}
	}
	if err := b.settleOthers(); err != nil {
		return err
	}
	for _, i := range b.others {
		if got := b.cl.Nodes[i].App.Height(); got != h {
			return fmt.Errorf("node %d is at application height %d after running height %d (state %s)", i, got, h, b.cl.Nodes[i].CS.VerifString())
		}
	}
	return nil
}

// popTarget handles the target's own queued messages (its votes); they go on the wire.
func (b *built) popTarget() error {
	for {
		_, ok := b.cl.PopInternal(b.target)
		if !ok {
			return nil
		}
		if f := b.node().Failure; f != nil {
			return fmt.Errorf("target failed on its own message: %v", f)
		}
	}
}

// feed delivers to the target, in wire order, the other validators' messages of height h
// that `want` selects.
func (b *built) feed(h uint64, want func(d cluster.MsgDesc) bool) error {
	n := len(b.cl.Wire)
	for k := 0; k < n; k++ {
		w := b.cl.Wire[k]
		if w.From == b.target {
			continue
		}
		d := b.cl.Describe(w.Msg, w.From)
		if d.H != h || !want(d) {
			continue
		}
		if e := b.cl.Deliver(b.target, w.Msg, w.From); e.Fail != "" {
			return fmt.Errorf("target failed on an honest message %+v: %s", d, e.Fail)
		}
		if err := b.popTarget(); err != nil {
			return err
		}
	}
	return nil
}

func (b *built) give(m cs.ConsensusMessage, from int) error {
	if e := b.cl.Deliver(b.target, m, from); e.Fail != "" {
		return fmt.Errorf("target failed on a class-building message: %s", e.Fail)
	}
	if vm, ok := m.(*cs.VoteMessage); ok {
		b.given = append(b.given, vm.Vote)
	}
	return b.popTarget()
}

// vote signs a vote of validator i for the target's current height/round.
func (b *built) vote(i int, typ byte, id types.BlockID) *types.Vote {
	rs := b.rs()
	return b.cl.MakeVote(i, rs.Validators, rs.Height, rs.Round, typ, id)
}

// wireBlockID is the BlockID the other validators voted for at height h.
func (b *built) wireBlockID(h uint64) types.BlockID {
	for _, w := range b.cl.Wire {
		if vm, ok := w.Msg.(*cs.VoteMessage); ok && vm.Vote.Height == h && !vm.Vote.BlockID.IsZero() {
			return vm.Vote.BlockID
		}
	}
	return types.BlockID{}
}

// buildClass constructs a fresh cluster in the given class. The target is a validator
// that does not propose in the rounds the classes pass through.
func buildClass(class string, gossip bool) (*built, error) {
	cl, err := newCluster(4)
	if err != nil {
		return nil, err
	}
	for _, n := range cl.Nodes {
		n.Mock.Recover = cl.ValSet.Copy().Validators // the recover white list: the genesis validators
	}
	b := &built{rig: &rig{cl: cl}, class: class}
	prop := func(h uint64, r int) int {
		vs := cl.Nodes[0].CS.GetRoundState().Validators.Copy()
		if k := int(h-1) + r; k > 0 {
			vs.IncrementAccum(k)
		}
		return cl.IndexOf(vs.GetProposer().Address)
	}
	p10, p11, p20, p30 := prop(1, 0), prop(1, 1), prop(2, 0), prop(3, 0)
	b.target = -1
	for i := range cl.Nodes {
		if i != p10 && i != p11 && i != p20 && (class != "h3-pruned" || i != p30) {
			b.target = i
			break
		}
	}
	if b.target < 0 {
		return nil, fmt.Errorf("no non-proposing validator (proposers %d %d %d)", p10, p11, p20)
	}
	h := uint64(1)
	final := p10 // proposer of the (height, round) the class ends in: abstract validator 1
	switch class {
	case "h2-newheight", "h2-propose":
		h, final = 2, p20
	case "h1-r1-propose":
		final = p11
	case "h3-pruned":
		h, final = 3, p30
	}
	b.others = []int{final}
	for _, i := range b.except(b.target, final) {
		b.others = append(b.others, i)
	}
	if class == "h1-r1-propose" { // [proposer of round 1, the fourth validator, proposer of round 0]
		b.others = append([]int{p11}, b.except(b.target, p11, p10)...)
		b.others = append(b.others, p10)
	}
	if err := b.attachReactor(gossip); err != nil {
		return nil, err
	}
	T := b.target
	X, Y, Z := b.others[0], b.others[1], b.others[2]
	if class == "h1-r1-propose" {
		if err := b.nilRound(p10); err != nil {
			return nil, err
		}
		if f := b.node().Failure; f != nil {
			return nil, fmt.Errorf("target failed while building %s: %v", class, f)
		}
		return b, nil
	}
	for k := uint64(1); k <= h; k++ {
		if err := b.othersCommit(k); err != nil {
			return nil, err
		}
	}
	for k := uint64(1); h == 3 && k <= 2; k++ { // (gossip phase only) the target commits heights 1 and 2
		if err := b.fire(T, cstypes.RoundStepNewHeight); err != nil {
			return nil, err
		}
		if err := b.feed(k, func(cluster.MsgDesc) bool { return true }); err != nil {
			return nil, err
		}
		if got := b.node().App.Height(); got != k {
			return nil, fmt.Errorf("target did not commit height %d (state %s)", k, b.state().VerifString())
		}
	}
	if h == 2 { // the target commits height 1 from the others' messages
		if err := b.fire(T, cstypes.RoundStepNewHeight); err != nil {
			return nil, err
		}
		// ... without the third validator's precommit, so that a late precommit of height 1 can still be new
		if err := b.feed(1, func(d cluster.MsgDesc) bool { return !(d.T == "pc" && d.From == Z) }); err != nil {
			return nil, err
		}
		if got := b.node().App.Height(); got != 1 {
			return nil, fmt.Errorf("target did not commit height 1 (state %s)", b.state().VerifString())
		}
	}
	id := b.wireBlockID(h)
	nilID := types.BlockID{}
	propAndParts := func(d cluster.MsgDesc) bool { return d.T == "prop" || d.T == "part" }
	switch class {
	case "h1-newheight", "h2-newheight":
		// as it is
	case "h1-propose", "h2-propose", "h1-stalled", "h3-pruned":
		if err := b.fire(T, cstypes.RoundStepNewHeight); err != nil {
			return nil, err
		}
		if class == "h3-pruned" {
			// what BlockStore.DeleteHistoricalData(keep_latest_blocks = 1) leaves of height 1: nothing
			m := b.node().Mock
			delete(m.Blocks, 1)
			delete(m.Parts, 1)
			delete(m.Commits, 1)
		}
		if class == "h1-stalled" {
			// thirteen minutes without a block: the state the recover path of setProposal looks at
			b.state().StartTime = time.Now().Add(-13 * time.Minute)
		}
	case "h1-parts":
		if err := b.fire(T, cstypes.RoundStepNewHeight); err != nil {
			return nil, err
		}
		if err := b.feed(h, func(d cluster.MsgDesc) bool { return d.T == "prop" || (d.T == "part" && d.Idx == 0) }); err != nil {
			return nil, err
		}
	case "h1-prevote", "h1-prevotewait", "h1-precommit", "h1-precommitwait":
		if err := b.fire(T, cstypes.RoundStepNewHeight); err != nil {
			return nil, err
		}
		if err := b.feed(h, propAndParts); err != nil {
			return nil, err
		}
		switch class {
		case "h1-prevotewait":
			if err := b.give(&cs.VoteMessage{Vote: b.vote(X, types.VoteTypePrevote, id)}, X); err != nil {
				return nil, err
			}
			if err := b.give(&cs.VoteMessage{Vote: b.vote(Y, types.VoteTypePrevote, nilID)}, Y); err != nil {
				return nil, err
			}
		case "h1-precommit", "h1-precommitwait":
			if err := b.feed(h, func(d cluster.MsgDesc) bool { return d.T == "pv" }); err != nil {
				return nil, err
			}
			if class == "h1-precommitwait" {
				if err := b.give(&cs.VoteMessage{Vote: b.vote(X, types.VoteTypePrecommit, id)}, X); err != nil {
					return nil, err
				}
				if err := b.give(&cs.VoteMessage{Vote: b.vote(Y, types.VoteTypePrecommit, nilID)}, Y); err != nil {
					return nil, err
				}
			}
		}
	case "h1-commit":
		if err := b.fire(T, cstypes.RoundStepNewHeight); err != nil {
			return nil, err
		}
		if err := b.feed(h, func(d cluster.MsgDesc) bool { return d.T == "pc" }); err != nil {
			return nil, err
		}
	default:
		return nil, fmt.Errorf("unknown class %s", class)
	}
	if f := b.node().Failure; f != nil {
		return nil, fmt.Errorf("target failed while building %s: %v", class, f)
	}
	return b, nil
}

// nilRound runs an honest nil round 0 at height 1 with all four validators: the proposer's
// proposal, parts and prevote are lost in the network, everybody else times out and votes nil;
// the round-1 proposer's proposal stays in its queue (it is slow).
func (b *built) nilRound(p10 int) error {
	all := b.cl.Correct()
	for _, i := range all {
		if err := b.fire(i, cstypes.RoundStepNewHeight); err != nil {
			return err
		}
	}
	for { // the proposer handles its own proposal, parts and prevote; nobody else gets them
		if _, ok := b.cl.PopInternal(p10); !ok {
			break
		}
	}
	round := func(typ string) error {
		var out []cluster.WireMsg
		for _, i := range all {
			for {
				m, ok := b.cl.PopInternal(i)
				if !ok {
					break
				}
				out = append(out, cluster.WireMsg{From: i, Msg: m})
			}
		}
		for _, w := range out {
			if d := b.cl.Describe(w.Msg, w.From); d.T != typ || d.B != "nil" {
				if w.From == p10 && d.T == typ {
					continue // cannot happen for prevotes (already popped); precommits of the proposer are nil too
				}
				return fmt.Errorf("nil round: unexpected message %+v from node %d", d, w.From)
			}
			for _, j := range all {
				if j != w.From {
					if e := b.cl.Deliver(j, w.Msg, w.From); e.Fail != "" {
						return fmt.Errorf("nil round: node %d failed: %s", j, e.Fail)
					}
				}
			}
		}
		return nil
	}
	for _, i := range all {
		if i != p10 {
			if err := b.fire(i, cstypes.RoundStepPropose); err != nil {
				return err
			}
		}
	}
	if err := round("pv"); err != nil {
		return err
	}
	return round("pc")
}

// wantFacts is the class table of the specification in harness terms (checked against the
// real node after every build, and against the spec's own class records in run()).
var wantFacts = map[string]facts{
	"h1-newheight":     {H: 1, R: 0, Step: int(cstypes.RoundStepNewHeight)},
	"h1-propose":       {H: 1, R: 0, Step: int(cstypes.RoundStepPropose)},
	"h1-parts":         {H: 1, R: 0, Step: int(cstypes.RoundStepPropose), Proposal: true, Expecting: true, Have: 1, Multi: true},
	"h1-prevote":       {H: 1, R: 0, Step: int(cstypes.RoundStepPrevote), Proposal: true, Expecting: true, Have: -1, Multi: true, Block: true},
	"h1-prevotewait":   {H: 1, R: 0, Step: int(cstypes.RoundStepPrevoteWait), Proposal: true, Expecting: true, Have: -1, Multi: true, Block: true},
	"h1-precommit":     {H: 1, R: 0, Step: int(cstypes.RoundStepPrecommit), Proposal: true, Expecting: true, Have: -1, Multi: true, Block: true},
	"h1-precommitwait": {H: 1, R: 0, Step: int(cstypes.RoundStepPrecommitWait), Proposal: true, Expecting: true, Have: -1, Multi: true, Block: true},
	"h1-commit":        {H: 1, R: 0, Step: int(cstypes.RoundStepCommit), Expecting: true, Have: 0, Multi: true},
	"h1-r1-propose":    {H: 1, R: 1, Step: int(cstypes.RoundStepPropose)},
	"h2-newheight":     {H: 2, R: 0, Step: int(cstypes.RoundStepNewHeight), LastCommit: true},
	"h2-propose":       {H: 2, R: 0, Step: int(cstypes.RoundStepPropose), LastCommit: true},
	"h1-stalled":       {H: 1, R: 0, Step: int(cstypes.RoundStepPropose), Stalled: true},
}

func factsMatch(got, want facts) bool {
	if want.Have == -1 { // complete
		want.Have = got.Have
		if !got.Block {
			return false
		}
	}
	return got == want
}
