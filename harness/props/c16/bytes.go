package c16

// Byte-level inputs: mutations of the wire encoding of lattice messages (truncation,
// bit flips, length / kind bytes of the RLP framing, type prefixes of other registered
// types, spliced chunks) and seeded random byte strings, on every channel.
// Oracle: the state machine never fails; an undecodable input leaves the RoundState
// unchanged (the reactor stops the peer).

import (
	"fmt"

	cs "github.com/lianxiangcloud/linkchain/consensus"
	"github.com/lianxiangcloud/linkchain/libs/ser"
)

// settleBytes: the node's own steps and a fresh class after a byte-level input that changed the node (a mutation
// may leave a message valid), and after every rn.follow inputs that did not.
func (rn *runner) settleBytes(g *group, changed bool) error {
	why := cause{Batch: rn.nSince, Last: rn.lastMsgs}
	switch {
	case changed && !rn.suspect:
		if int(rn.b.rs().Height) != wantFacts[rn.class].H2() {
			rn.res.FollowBlocked++
		} else if err := rn.followUp(g.from, false, why); err != nil {
			return err
		}
	case changed:
	case rn.follow > 0 && rn.nSince >= rn.follow:
		if err := rn.followUp(g.from, true, why); err != nil {
			return err
		}
	default:
		return nil
	}
	return rn.rebuild()
}

func (rn *runner) bytesPhase(g *group, n int) error {
	base := g.edges
	rng := rn.rng
	// seeds: the valid base message of every type plus a sample of lattice messages
	var seeds [][]byte
	var seedCh []byte
	var seedSigned []bool // the seed carries a validator's valid signature (a mutation may leave it valid)
	for _, e := range base {
		if e.Act.M.T == "byzblock" {
			continue
		}
		if devCount(e) == 0 || rng.Intn(40) == 0 {
			cm, err := rn.in.make(e.Act.M)
			if err != nil {
				return err
			}
			seeds = append(seeds, cm.bytes)
			seedCh = append(seedCh, cm.ch)
			sg := e.Act.M.Sig
			seedSigned = append(seedSigned, sg == "who" || sg == "proposer" || sg == "other")
		}
		if len(seeds) >= 120 {
			break
		}
	}
	if len(seeds) == 0 {
		return fmt.Errorf("no seed messages for the byte-level phase")
	}
	// type prefixes of other registered concrete types (WAL messages travel with the same codec)
	var prefixes [][]byte
	for _, v := range []interface{}{&cs.EndHeightMessage{Height: 1}, &cs.VoteMessage{}, &cs.ProposalMessage{}, &cs.BlockPartMessage{}, &cs.NewRoundStepMessage{},
		&cs.HasVoteMessage{}, &cs.VoteSetBitsMessage{}, &cs.VoteSetMaj23Message{}, &cs.CommitStepMessage{}, &cs.ProposalPOLMessage{}, &cs.ProposalHeartbeatMessage{}} {
		if bz, err := ser.EncodeToBytesWithType(v); err == nil && len(bz) >= 8 {
			prefixes = append(prefixes, bz[:8])
		}
	}
	chans := []byte{cs.StateChannel, cs.DataChannel, cs.VoteChannel, cs.VoteSetBitsChannel, 0x7f}
	special := []byte{0x00, 0x01, 0x7f, 0x80, 0x81, 0xb7, 0xb8, 0xbf, 0xc0, 0xc1, 0xf7, 0xf8, 0xff}
	for i := 0; i < n; i++ {
		var bz []byte
		ch := chans[rng.Intn(len(chans))]
		kind := rng.Intn(10)
		si := rng.Intn(len(seeds))
		src := seeds[si]
		if rng.Intn(4) != 0 {
			ch = seedCh[si]
		}
		switch kind {
		case 0: // random bytes
			bz = randBytes(rng, rng.Intn(300))
		case 1: // valid type prefix, random body
			p := prefixes[rng.Intn(len(prefixes))]
			bz = append(append([]byte{}, p[:4+rng.Intn(5)]...), randBytes(rng, rng.Intn(200))...)
		case 2: // truncation
			bz = append([]byte{}, src[:rng.Intn(len(src)+1)]...)
		case 3: // one byte replaced by a framing-relevant value
			bz = append([]byte{}, src...)
			if len(bz) > 0 {
				bz[rng.Intn(len(bz))] = special[rng.Intn(len(special))]
			}
		case 4: // bit flips
			bz = append([]byte{}, src...)
			for k := 0; k < 1+rng.Intn(3) && len(bz) > 0; k++ {
				bz[rng.Intn(len(bz))] ^= 1 << uint(rng.Intn(8))
			}
		case 5: // a chunk deleted
			bz = append([]byte{}, src...)
			if len(bz) > 2 {
				a := rng.Intn(len(bz) - 1)
				b := a + 1 + rng.Intn(len(bz)-a-1)
				bz = append(bz[:a], bz[b:]...)
			}
		case 6: // a chunk of another message spliced in
			o := seeds[rng.Intn(len(seeds))]
			a := rng.Intn(len(src) + 1)
			oa := rng.Intn(len(o) + 1)
			ob := oa + rng.Intn(len(o)-oa+1)
			bz = append(append(append([]byte{}, src[:a]...), o[oa:ob]...), src[a:]...)
		case 7: // another type's prefix on this body
			p := prefixes[rng.Intn(len(prefixes))]
			bz = append([]byte{}, src...)
			copy(bz, p)
		case 8: // trailing bytes
			bz = append(append([]byte{}, src...), randBytes(rng, 1+rng.Intn(20))...)
		default: // random byte overwritten
			bz = append([]byte{}, src...)
			if len(bz) > 0 {
				bz[rng.Intn(len(bz))] = byte(rng.Intn(256))
			}
		}
		rn.res.Bytes++
		rn.nSince++
		rn.lastMsgs = append(rn.lastMsgs, fmt.Sprintf("bytes ch=%#x %.120s", ch, hexOf(bz)))
		if len(rn.lastMsgs) > 3 {
			rn.lastMsgs = rn.lastMsgs[len(rn.lastMsgs)-3:]
		}
		rn.at(fmt.Sprintf("%s bytes ch=%#x %s", rn.class, ch, hexOf(bz)))
		dm, derr := decode(bz)
		rn.probe = nil
		if derr == nil && dm != nil {
			rn.res.BytesDecode++
			if vm, ok := dm.(*cs.VoteMessage); ok && vm.Vote != nil {
				rn.probe = []int{vm.Vote.Round}
			}
		}
		mode := []string{"none", "match"}[rng.Intn(2)]
		rn.ensureMode(mode)
		stops := rn.b.sw.nStopped()
		o := rn.wire(concrete{ch: ch, bytes: bz})
		rec := hit{Class: rn.class, Hex: hexOf(bz), Path: "bytes/wire/" + mode, Signed: kind >= 2 && seedSigned[si], Concrete: fmt.Sprintf("channel %#x, mutation kind %d, decodes: %v", ch, kind, derr == nil)}
		if o.smFail != nil {
			rec.Kind, rec.Key, rec.Detail = "halt", fmt.Sprintf("halt/%s/%s", typeName(dm), panicClass(o.smFail)), fmt.Sprint(o.smFail)
			rn.addHit(rec)
			if err := rn.rebuild(); err != nil {
				return err
			}
			continue
		}
		if derr != nil {
			if o.changed {
				rn.suspect = true
				rec.Kind, rec.Key, rec.Detail = "state-change", "state-change/bytes/undecodable", "an undecodable input changed the RoundState"
				rn.addHit(rec)
			}
			if rn.b.sw.nStopped() == stops && o.reactorFail == nil {
				rn.drift("%s: undecodable bytes on channel %#x did not stop the peer (%s)", rn.class, ch, hexOf(bz))
			}
		}
		if o.changed {
			if err := rn.settleBytes(g, true); err != nil {
				return err
			}
			continue
		}
		if derr == nil && dm != nil {
			if d := rn.direct(dm); d.smFail != nil {
				// reachable only if the reactor forwards it: it did not fail on the wire path above
				if o.popped > 0 {
					rec.Kind, rec.Key, rec.Detail, rec.Path = "halt", fmt.Sprintf("halt/%s/%s", typeName(dm), panicClass(d.smFail)), fmt.Sprint(d.smFail), "bytes/direct"
					rn.addHit(rec)
				} else {
					rn.res.Latent["bytes/"+panicClass(d.smFail)]++
				}
				if err := rn.rebuild(); err != nil {
					return err
				}
			} else if d.changed {
				if err := rn.settleBytes(g, true); err != nil {
					return err
				}
				continue
			}
		}
		if err := rn.settleBytes(g, false); err != nil {
			return err
		}
	}
	return nil
}

// typeName names a decoded message like the specification does.
func typeName(m cs.ConsensusMessage) string {
	switch m.(type) {
	case *cs.VoteMessage:
		return "vote"
	case *cs.ProposalMessage:
		return "proposal"
	case *cs.BlockPartMessage:
		return "part"
	case *cs.NewRoundStepMessage:
		return "nrs"
	case *cs.CommitStepMessage:
		return "commitstep"
	case *cs.HasVoteMessage:
		return "hasvote"
	case *cs.VoteSetMaj23Message:
		return "maj23"
	case *cs.VoteSetBitsMessage:
		return "bits"
	case *cs.ProposalPOLMessage:
		return "pol"
	case *cs.ProposalHeartbeatMessage:
		return "heartbeat"
	}
	return "bytes"
}
