package c16

// Negative controls: the binding must notice a corrupted expectation. Three edges of
// class h1-propose are replayed with a falsified label: a valid proposal and a valid
// vote declared "cannot affect the node" (the stutter oracle must object), and an
// invalid vote declared "accepted" (the conformance check must object). Two own-step labels
// are falsified as well: an Advance declared to lead to round r+2, and a Start of the next
// height declared to fail (the own-step conformance check must object to both).

import (
	"bufio"
	"encoding/json"
	"fmt"
	"math/rand"
	"os"

	"verifh/core"
)

type controlResult struct {
	StutterOracle int    `json:"stutterOracle"` // falsified may=FALSE labels the oracle rejected (want 2)
	Conformance   int    `json:"conformance"`   // falsified "accepted" labels the conformance check rejected (want 1)
	OwnOracle     int    `json:"ownOracle"`     // falsified own-step labels the follow-up rejected (want 2)
	Infra         string `json:"infra,omitempty"`
}

func controlChild(c *core.Ctx, j job) {
	w := bufio.NewWriter(os.Stdout)
	defer w.Flush()
	var out controlResult
	finish := func() {
		rj, _ := json.Marshal(out)
		fmt.Fprintf(w, "RESULT %s\nDONE\n", rj)
		w.Flush()
	}
	all, err := loadEdges(j.Edges, j.Class)
	if err != nil {
		out.Infra = err.Error()
		finish()
		return
	}
	edges, own := splitEdges(all)
	pick := func(ok func(e *edge) bool) *edge {
		for _, e := range edges {
			if e.From.Q == 0 && len(e.From.Claim) == 0 && ok(e) {
				cp := *e
				return &cp
			}
		}
		return nil
	}
	prop := pick(func(e *edge) bool {
		return e.Act.M.T == "proposal" && e.Act.Eff == "proposal" && e.Act.May && devCount(e) == 0
	})
	vote := pick(func(e *edge) bool { return e.Act.M.T == "vote" && e.Act.Eff == "vote" && e.Act.May && devCount(e) == 0 })
	bad := pick(func(e *edge) bool {
		return e.Act.M.T == "vote" && e.Act.Eff == "none" && !e.Act.May && e.Act.M.Sig == "bad" && devCount(e) == 1 && e.Act.Fwd == "yes"
	})
	if prop == nil || vote == nil || bad == nil {
		out.Infra = "control edges not found in the export"
		finish()
		return
	}
	prop.Act.May, vote.Act.May = false, false
	bad.Act.Eff = "vote"
	for i, e := range []*edge{prop, vote, bad} {
		res := &jobResult{Class: j.Class, ByEff: map[string]int{}, Latent: map[string]int{}, ByOwn: map[string]int{}}
		rn := &runner{class: j.Class, rng: rand.New(rand.NewSource(c.Seed + int64(i))), res: res, w: w, variants: 1, seenKey: map[string]bool{}}
		if err := rn.rebuild(); err != nil {
			out.Infra = err.Error()
			break
		}
		_, _, err := rn.replayEdge(e, 0)
		rn.closeWAL()
		if err != nil {
			out.Infra = err.Error()
			break
		}
		for _, h := range res.Hits {
			if h.Kind == "state-change" && i < 2 {
				out.StutterOracle++
				break
			}
		}
		if i == 2 && len(res.Drift) > 0 {
			out.Conformance++
		}
	}
	// own steps: falsify one label of the model's own-step graph at a time
	var from projState
	for _, e := range edges {
		if e.From.Q == 0 && len(e.From.Claim) == 0 {
			from = e.From
			break
		}
	}
	for i := 0; i < 2 && out.Infra == ""; i++ {
		fown := map[string][]*edge{}
		falsified := false
		for k, es := range own {
			for _, e := range es {
				cp := *e
				if i == 0 && !falsified && k == from.key() && e.Act.Op == "advance" {
					cp.To.Own.R++ // (the successor state is then unknown to the graph as well: the walk ends there)
					falsified = true
				}
				if i == 1 && e.Act.Op == "start" && e.From.Own.Committed {
					cp.Act.Res, cp.Run = "panic", false
					falsified = true
				}
				fown[k] = append(fown[k], &cp)
			}
		}
		if !falsified {
			out.Infra = "own-step control edges not found in the export"
			break
		}
		res := &jobResult{Class: j.Class, ByEff: map[string]int{}, Latent: map[string]int{}, ByOwn: map[string]int{}}
		rn := &runner{class: j.Class, rng: rand.New(rand.NewSource(c.Seed + 10 + int64(i))), res: res, w: w, variants: 1, seenKey: map[string]bool{}, own: fown}
		if err := rn.rebuild(); err != nil {
			out.Infra = err.Error()
			break
		}
		rn.classOwn = from.Own
		err := rn.followUp(from, true, cause{}) // plan 0: advance, commit, start
		rn.closeWAL()
		if err != nil {
			out.Infra = err.Error()
			break
		}
		if len(res.Drift) > 0 && len(res.Hits) == 0 {
			out.OwnOracle++
		}
	}
	finish()
}
