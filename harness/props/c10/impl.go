package c10

import (
	"bytes"
	"fmt"
	"math/rand"
	"sort"
	"sync"

	"github.com/lianxiangcloud/linkchain/libs/common"
	"github.com/lianxiangcloud/linkchain/libs/crypto"
	dbm "github.com/lianxiangcloud/linkchain/libs/db"
	"github.com/lianxiangcloud/linkchain/libs/trie"
)

// the root of the empty trie (Keccak256 of the encoding of the empty string)
var emptyRoot = common.HexToHash("56e81f171bcc55a6ff8345e692c0f86e5b48e01b996cadc001622fb5e363b421")

// trieAPI is what plain and secure tries share.
type trieAPI interface {
	TryGet(key []byte) ([]byte, error)
	TryUpdate(key, value []byte) error
	TryDelete(key []byte) error
	Hash() common.Hash
	NodeIterator(start []byte) trie.NodeIterator
	Prove(key []byte, fromLevel uint, proofDb dbm.Putter) error
}

// rootTable is the table content -> real root of one (trie kind, universe), shared by
// ALL behaviours, cache limits and observation modes of a run.
type rootTable struct {
	mu        sync.Mutex
	byContent map[string]common.Hash
	byRoot    map[common.Hash]string
	hits      int // times an already known content was reached again (by another history)
	// proofs (root, key, node set) that already went through the tampering battery: the
	// verifier's answer depends on nothing else, so a byte-identical proof is not redone
	tampered map[string]struct{}
}

// firstTime reports whether the proof identified by the parts has not been tampered
// with before (and marks it).
func (t *rootTable) firstTime(parts ...[]byte) bool {
	k := string(crypto.Keccak256(parts...))
	t.mu.Lock()
	defer t.mu.Unlock()
	if _, ok := t.tampered[k]; ok {
		return false
	}
	t.tampered[k] = struct{}{}
	return true
}

func newRootTable() *rootTable {
	return &rootTable{byContent: map[string]common.Hash{}, byRoot: map[common.Hash]string{}, tampered: map[string]struct{}{}}
}

// mismatch is a property-level disagreement between the real code and the specification.
type mismatch struct {
	class string // stable class, becomes part of the violation key
	text  string
}

func mm(class, format string, a ...interface{}) *mismatch {
	return &mismatch{class, fmt.Sprintf(format, a...)}
}

type stats struct {
	steps, gets, roots, proofs, tampers, crossRoot, iters, leafProofs, oldRoots, emptyProofRejected int
	proofLenDrift                                                                                   int
	driftExample                                                                                    string
	proofsSeenBefore                                                                                int
	// the copy and versions families
	copies, handleObs, references, dereferences, caps, restarts, versionsOpened, versionsFromDisk int
}

func (s *stats) add(o *stats) {
	s.steps += o.steps
	s.gets += o.gets
	s.roots += o.roots
	s.proofs += o.proofs
	s.tampers += o.tampers
	s.crossRoot += o.crossRoot
	s.iters += o.iters
	s.leafProofs += o.leafProofs
	s.oldRoots += o.oldRoots
	s.emptyProofRejected += o.emptyProofRejected
	s.proofLenDrift += o.proofLenDrift
	s.proofsSeenBefore += o.proofsSeenBefore
	s.copies += o.copies
	s.handleObs += o.handleObs
	s.references += o.references
	s.dereferences += o.dereferences
	s.caps += o.caps
	s.restarts += o.restarts
	s.versionsOpened += o.versionsOpened
	s.versionsFromDisk += o.versionsFromDisk
	if s.driftExample == "" {
		s.driftExample = o.driftExample
	}
}

// inst is one real trie under test together with its databases.
type inst struct {
	kind   string // "plain" | "secure"
	uni    *universe
	limit  uint16
	direct bool // observe through the object itself (perturbs its caches) instead of a copy
	// copyBatch: the disk's batches copy the keys and values they are given (what the LevelDB
	// backends do); otherwise they keep the slices until they are written (MemDB, Bolt, Badger;
	// dbm.SetDeleter: "CONTRACT: key, value readonly []byte")
	copyBatch bool
	tab       *rootTable
	rng       *rand.Rand
	st        stats
	disk      *dbm.MemDB
	tdb       *trie.Database
	pt        *trie.Trie
	sec       *trie.SecureTrie
	height    uint64
	step      int
	flushed   []common.Hash // roots written to disk
	pool      [][]byte      // proof nodes seen earlier (material for swap-in tampering)
	prevOK    bool
	prevRt    common.Hash
	prevC     []int
	pkeys     map[string][]byte // path key per key (the key itself, or its Keccak hash)
	history   []string          // abstract actions applied since reset (for records)
	notes     []*mismatch       // findings that do not end the behaviour (one per class)
}

// note records a property-level finding without abandoning the behaviour.
func (in *inst) note(m *mismatch) {
	for _, n := range in.notes {
		if n.class == m.class {
			return
		}
	}
	in.notes = append(in.notes, m)
}

// copyingDB is a MemDB whose batches copy what they are given.
type copyingDB struct{ *dbm.MemDB }

func (d copyingDB) NewBatch() dbm.Batch { return &copyingBatch{d.MemDB.NewBatch()} }

type copyingBatch struct{ dbm.Batch }

func (b *copyingBatch) Set(k, v []byte) {
	b.Batch.Set(append([]byte{}, k...), append([]byte{}, v...))
}
func (b *copyingBatch) Delete(k []byte) { b.Batch.Delete(append([]byte{}, k...)) }

// diskDB is the disk database as the trie.Database sees it.
func (in *inst) diskDB() dbm.DB {
	if in.copyBatch {
		return copyingDB{in.disk}
	}
	return in.disk
}

func (in *inst) reset() error {
	in.disk = dbm.NewMemDB()
	in.tdb = trie.NewDatabase(in.diskDB())
	in.height, in.step = 0, 0
	in.flushed, in.prevOK, in.history = nil, false, nil
	return in.open(common.EmptyHash, in.tdb)
}

func (in *inst) open(root common.Hash, db *trie.Database) error {
	if in.kind == "secure" {
		t, err := trie.NewSecure(root, db, in.limit)
		if err != nil {
			return err
		}
		in.sec = t
		return nil
	}
	t, err := trie.New(root, db)
	if err != nil {
		return err
	}
	t.SetCacheLimit(in.limit)
	in.pt = t
	return nil
}

func (in *inst) t() trieAPI {
	if in.kind == "secure" {
		return in.sec
	}
	return in.pt
}

// view returns the object observations go through: the trie itself, or a copy that
// shares its nodes (so that observing does not change what is cached in the original).
func (in *inst) view() trieAPI {
	if in.direct {
		return in.t()
	}
	if in.kind == "secure" {
		return in.sec.Copy()
	}
	cp := *in.pt
	return &cp
}

func (in *inst) commit() (common.Hash, error) {
	in.height++
	var onleaf trie.LeafCallback
	if in.height%3 == 0 {
		onleaf = func(leaf []byte, parent common.Hash) error { return nil }
	}
	if in.kind == "secure" {
		h := in.height
		if in.height%5 == 0 {
			h = ^uint64(0) - in.height // the height argument must not influence anything
		}
		return in.sec.Commit(onleaf, h)
	}
	return in.pt.Commit(onleaf)
}

// pathKey is the key under which the trie proper stores k.
func (in *inst) pathKey(k []byte) []byte {
	if in.kind != "secure" {
		return k
	}
	if in.pkeys == nil {
		in.pkeys = map[string][]byte{}
	}
	if h, ok := in.pkeys[string(k)]; ok {
		return h
	}
	h := crypto.Keccak256(k)
	in.pkeys[string(k)] = h
	return h
}

func (in *inst) want(content []int, i int) []byte {
	if content[i] == 0 {
		return nil
	}
	return in.uni.vals[content[i]-1]
}

func sameVal(got, want []byte) bool {
	if len(want) == 0 {
		return len(got) == 0
	}
	return bytes.Equal(got, want)
}

func contentKey(c []int) string { return fmt.Sprint(c) }

// referenceRoots builds the content from scratch on fresh tries without a database, in
// ascending, descending and insert-everything-then-delete order.
func (in *inst) referenceRoots(content []int) []common.Hash {
	var present, absent []int
	for i, v := range content {
		if v != 0 {
			present = append(present, i)
		} else {
			absent = append(absent, i)
		}
	}
	var out []common.Hash
	for variant := 0; variant < 3; variant++ {
		t := new(trie.Trie)
		idx := append([]int{}, present...)
		if variant == 1 {
			for a, b := 0, len(idx)-1; a < b; a, b = a+1, b-1 {
				idx[a], idx[b] = idx[b], idx[a]
			}
		}
		if variant == 2 {
			for _, i := range absent {
				t.Update(in.pathKey(in.uni.keys[i]), in.uni.vals[0])
			}
			t.Hash()
		}
		for _, i := range idx {
			t.Update(in.pathKey(in.uni.keys[i]), in.uni.vals[content[i]-1])
		}
		if variant == 2 {
			for _, i := range absent {
				t.Update(in.pathKey(in.uni.keys[i]), nil)
			}
		}
		out = append(out, t.Hash())
	}
	return out
}

// checkRoot enters (content, root) into the table: equal content must give equal roots
// for every history, different content different roots.
func (in *inst) checkRoot(content []int, root common.Hash, via string) *mismatch {
	in.st.roots++
	ck := contentKey(content)
	in.tab.mu.Lock()
	known, seen := in.tab.byContent[ck]
	other, clash := in.tab.byRoot[root]
	if !seen && !clash {
		in.tab.byContent[ck] = root
		in.tab.byRoot[root] = ck
	}
	if seen {
		in.tab.hits++
	}
	in.tab.mu.Unlock()
	if seen && known != root {
		return mm("root-not-canonical", "%s returned root %x for content %s, but another history with the same content gave %x", via, root, ck, known)
	}
	if !seen && clash && other != ck {
		return mm("root-collision", "%s returned root %x for content %s, which is also the root of the different content %s", via, root, ck, other)
	}
	if !seen {
		empty := true
		for _, v := range content {
			if v != 0 {
				empty = false
			}
		}
		if empty && root != emptyRoot {
			return mm("root-not-canonical", "%s of the empty trie returned %x, not the empty root", via, root)
		}
		for vi, r := range in.referenceRoots(content) {
			if r != root {
				return mm("root-not-canonical", "%s returned root %x for content %s, but building the same content from scratch (order variant %d) gives %x", via, root, ck, vi, r)
			}
		}
	}
	return nil
}

type proofNode struct {
	hash []byte
	blob []byte
}

func proofNodes(p *dbm.MemDB) []proofNode {
	var out []proofNode
	for _, k := range p.Keys() {
		v, _ := p.Load(k)
		out = append(out, proofNode{append([]byte{}, k...), append([]byte{}, v...)})
	}
	sort.Slice(out, func(i, j int) bool { return bytes.Compare(out[i].hash, out[j].hash) < 0 })
	return out
}

// nodeSet is the verifier's content-addressed proof node set (a trie.DatabaseReader).
type nodeSet map[string][]byte

func (s nodeSet) Load(key []byte) ([]byte, error) { return s[string(key)], nil }
func (s nodeSet) Exist(key []byte) (bool, error)  { _, ok := s[string(key)]; return ok, nil }

// proofDB builds the verifier's node set from a list of node blobs: every blob is
// stored under its own Keccak hash, as a verifier that received the blobs from an
// untrusted prover does.
func proofDB(blobs [][]byte) nodeSet {
	db := nodeSet{}
	for _, b := range blobs {
		db[string(crypto.Keccak256(b))] = b
	}
	return db
}

// checkProofs proves every key of the universe (present and absent) and every probe key
// against root, verifies the proof, and subjects it to every single-node tampering.
func (in *inst) checkProofs(t trieAPI, root common.Hash, content []int) *mismatch {
	nk := len(in.uni.keys)
	// every key of the universe, and (rotating) three of the never written probe keys
	idx := make([]int, 0, nk+3)
	for i := 0; i < nk; i++ {
		idx = append(idx, i)
	}
	for r := 0; r < 3 && r < len(in.uni.probes); r++ {
		idx = append(idx, nk+(in.step*3+r)%len(in.uni.probes))
	}
	for _, i := range idx {
		var key, truth []byte
		if i < nk {
			key, truth = in.uni.keys[i], in.want(content, i)
		} else {
			key = in.uni.probes[i-nk]
		}
		pk := in.pathKey(key)
		pdb := dbm.NewMemDB()
		if err := t.Prove(pk, 0, pdb); err != nil {
			return mm("proof-error", "Prove(%x) failed: %v", key, err)
		}
		in.st.proofs++
		val, _, err := trie.VerifyProof(root, pk, pdb)
		if root == emptyRoot {
			// the empty trie has no nodes: Prove emits nothing, and the (true) absence claim
			// should verify against the empty root
			if err == nil && len(val) != 0 {
				return mm("proof-wrong-value", "VerifyProof(emptyRoot, %x) returned value %x", key, val)
			}
			if err != nil {
				in.st.emptyProofRejected++
				if emptyTrieProofIsFinding {
					in.note(mm("empty-trie-absence-proof", "the trie is empty, Prove(%x) succeeds and emits %d nodes, but VerifyProof(emptyRoot, %x, proof) fails instead of confirming the absence: %v", key, pdb.Len(), key, err))
				}
			}
			continue
		}
		if err != nil {
			return mm("proof-valid-rejected", "VerifyProof(root %x, key %x) rejected the proof built by Prove for a %s key: %v", root, key, presence(truth), err)
		}
		if !sameVal(val, truth) {
			return mm("proof-wrong-value", "VerifyProof(root %x, key %x) returned %x, the content has %x (%s)", root, key, val, truth, presence(truth))
		}
		nodes := proofNodes(pdb)
		// the proof against the root of the previous (different) content: may only be
		// accepted with the previous content's value
		if in.prevOK && in.prevRt != root && in.prevRt != emptyRoot {
			in.st.crossRoot++
			var pt []byte
			if i < nk {
				pt = in.want(in.prevC, i)
			}
			if v, _, e := trie.VerifyProof(in.prevRt, pk, pdb); e == nil && !sameVal(v, pt) {
				return mm("proof-unsound", "a proof for key %x built under root %x verified against the other root %x with value %x, but that root commits to %x", key, root, in.prevRt, v, pt)
			}
		}
		id := [][]byte{root[:], pk}
		for _, n := range nodes {
			id = append(id, n.hash)
		}
		if !in.tab.firstTime(id...) {
			in.st.proofsSeenBefore++
			continue
		}
		for j := range nodes {
			try := func(what string, repl [][]byte) *mismatch {
				set := make(nodeSet, len(nodes)+1)
				for x, n := range nodes {
					if x != j {
						set[string(n.hash)] = n.blob
					}
				}
				for _, b := range repl {
					set[string(crypto.Keccak256(b))] = b
				}
				in.st.tampers++
				v, _, e := trie.VerifyProof(root, pk, set)
				if e == nil && !sameVal(v, truth) {
					return mm("proof-tamper-accepted", "key %x (%s, value %x): proof with node %d/%d %s verified with the different claim %x", key, presence(truth), truth, j, len(nodes), what, v)
				}
				return nil
			}
			if m := try("dropped", nil); m != nil {
				return m
			}
			b := nodes[j].blob
			pos := []int{(in.step + j) % 2, len(b) / 2, len(b) - 1 - (in.step+j)%2, in.rng.Intn(len(b))}
			for pi, p := range pos {
				if p < 0 || p >= len(b) {
					continue
				}
				mask := []byte{0x01, 0x80, 0xff, 0x10}[(pi+in.step)%4]
				fb := append([]byte{}, b...)
				fb[p] ^= mask
				if m := try(fmt.Sprintf("byte %d flipped by %#x", p, mask), [][]byte{fb}); m != nil {
					return m
				}
			}
			// truncated / extended node
			if m := try("truncated by one byte", [][]byte{b[:len(b)-1]}); m != nil {
				return m
			}
			for s := 0; s < 2 && len(in.pool) > 0; s++ {
				o := in.pool[in.rng.Intn(len(in.pool))]
				if bytes.Equal(o, b) {
					continue
				}
				if m := try("replaced by a node of another proof", [][]byte{o}); m != nil {
					return m
				}
			}
		}
		for _, n := range nodes {
			if len(in.pool) < 96 {
				in.pool = append(in.pool, n.blob)
			} else {
				in.pool[in.rng.Intn(len(in.pool))] = n.blob
			}
		}
	}
	return nil
}

func presence(truth []byte) string {
	if truth == nil {
		return "absent"
	}
	return "present"
}

type kvp struct{ k, v []byte }

// expectedStream is the content in the trie's enumeration order, from `start` on.
func (in *inst) expectedStream(content []int, start []byte) []kvp {
	var out []kvp
	for i, v := range content {
		if v == 0 {
			continue
		}
		pk := in.pathKey(in.uni.keys[i])
		if seekReaches(start, pk) {
			out = append(out, kvp{pk, in.uni.vals[v-1]})
		}
	}
	sort.Slice(out, func(a, b int) bool { return pathLess(out[a].k, out[b].k) })
	return out
}

func streamString(s []kvp) string {
	var b bytes.Buffer
	for _, e := range s {
		fmt.Fprintf(&b, "%x=%x ", e.k, e.v)
	}
	return b.String()
}

// checkIter compares the key/value stream of NewIterator(NodeIterator(start)) with the
// content; with leafProofs every leaf's iterator-built proof is verified as well.
func (in *inst) checkIter(t trieAPI, root common.Hash, content []int, start []byte, leafProofs bool) *mismatch {
	in.st.iters++
	want := in.expectedStream(content, start)
	it := trie.NewIterator(t.NodeIterator(start))
	var got []kvp
	for it.Next() {
		got = append(got, kvp{append([]byte{}, it.Key...), append([]byte{}, it.Value...)})
		if len(got) > len(want)+4 {
			break
		}
		if leafProofs {
			lp := it.Prove()
			if !in.tab.firstTime(append([][]byte{[]byte("leaf"), root[:], it.Key}, lp...)...) {
				continue
			}
			in.st.leafProofs++
			v, _, err := trie.VerifyProof(root, it.Key, proofDB(lp))
			if err != nil || !bytes.Equal(v, it.Value) {
				return mm("proof-valid-rejected", "the iterator's proof for leaf %x (value %x) verifies as (%x, %v) against root %x", it.Key, it.Value, v, err, root)
			}
		}
	}
	if it.Err != nil {
		return mm("iter-error", "iteration from %x failed: %v", start, it.Err)
	}
	ok := len(got) == len(want)
	for i := 0; ok && i < len(got); i++ {
		ok = bytes.Equal(got[i].k, want[i].k) && bytes.Equal(got[i].v, want[i].v)
	}
	if !ok {
		return mm("iter-stream", "iteration from %x enumerates [%s], the content in key order is [%s]", start, streamString(got), streamString(want))
	}
	return nil
}

// observe compares everything the property names with the content: lookups of every key
// and probe, the root, proofs (valid and tampered), the iterator stream.
func (in *inst) observe(content []int) *mismatch {
	t := in.view()
	for i, k := range in.uni.keys {
		in.st.gets++
		got, err := t.TryGet(k)
		if err != nil {
			return mm("get-error", "TryGet(%x) failed: %v", k, err)
		}
		if w := in.want(content, i); !sameVal(got, w) {
			return mm("get-value", "TryGet(%x) = %x, last written value is %x", k, got, w)
		}
	}
	for _, k := range in.uni.probes {
		in.st.gets++
		if got, err := t.TryGet(k); err != nil || len(got) != 0 {
			return mm("get-value", "TryGet(%x) of a never written key = %x, %v", k, got, err)
		}
	}
	root := t.Hash()
	if m := in.checkRoot(content, root, "Hash()"); m != nil {
		return m
	}
	if m := in.checkProofs(t, root, content); m != nil {
		return m
	}
	if m := in.checkIter(t, root, content, nil, true); m != nil {
		return m
	}
	// seeks: from one key of the universe and one probe per step (rotating)
	n := len(in.uni.keys)
	if m := in.checkIter(t, root, content, in.pathKey(in.uni.keys[in.step%n]), false); m != nil {
		return m
	}
	if np := len(in.uni.probes); np > 0 {
		if m := in.checkIter(t, root, content, in.pathKey(in.uni.probes[in.step%np]), false); m != nil {
			return m
		}
	}
	// hashing again through the object itself must not move the root
	if in.step%4 == 0 {
		if r2 := in.t().Hash(); r2 != root {
			return mm("root-not-canonical", "Hash() on the trie returned %x, on a copy sharing its nodes %x", r2, root)
		}
	}
	in.prevOK, in.prevRt, in.prevC = true, root, append([]int{}, content...)
	return nil
}

// checkOldRoot opens a root flushed earlier on a NEW Database over the same disk and
// compares what it commits to with the table.
func (in *inst) checkOldRoot() *mismatch {
	if len(in.flushed) == 0 {
		return nil
	}
	root := in.flushed[in.rng.Intn(len(in.flushed))]
	in.tab.mu.Lock()
	ck, ok := in.tab.byRoot[root]
	in.tab.mu.Unlock()
	if !ok {
		return nil
	}
	in.st.oldRoots++
	old := &inst{kind: in.kind, uni: in.uni, limit: in.limit, tab: in.tab, rng: in.rng, pkeys: in.pkeys, direct: true}
	if err := old.open(root, trie.NewDatabase(in.diskDB())); err != nil {
		return mm("reopen-error", "root %x was written to disk by Database.Commit but cannot be opened from the disk: %v", root, err)
	}
	var content []int
	fmt.Sscan(ck[1:len(ck)-1], scanInts(&content, len(in.uni.keys))...)
	t := old.t()
	for i, k := range in.uni.keys {
		got, err := t.TryGet(k)
		if err != nil || !sameVal(got, in.want(content, i)) {
			return mm("reopen-content", "old root %x reopened from disk: TryGet(%x) = %x, %v; the root commits to %x", root, k, got, err, in.want(content, i))
		}
	}
	if h := t.Hash(); h != root {
		return mm("reopen-content", "old root %x reopened from disk hashes to %x", root, h)
	}
	if m := old.checkIter(t, root, content, nil, false); m != nil {
		return m
	}
	in.st.iters += old.st.iters
	return nil
}

func scanInts(dst *[]int, n int) []interface{} {
	*dst = make([]int, n)
	out := make([]interface{}, n)
	for i := range out {
		out[i] = &(*dst)[i]
	}
	return out
}

// apply executes one action on the real trie. expGet / expProve / expIter carry the
// result the specification computed for query actions.
func (in *inst) apply(a *action, content []int) *mismatch {
	in.step++
	in.st.steps++
	t := in.t()
	var key []byte
	if a.K >= 1 && a.K <= len(in.uni.keys) {
		key = in.uni.keys[a.K-1]
	}
	switch a.Op {
	case "update":
		var v []byte
		if a.V > 0 {
			v = in.uni.vals[a.V-1]
		} else if in.step%2 == 0 {
			v = []byte{} // the empty value deletes, whether nil or empty
		}
		if err := t.TryUpdate(key, v); err != nil {
			return mm("update-error", "TryUpdate(%x, %x) failed: %v", key, v, err)
		}
	case "delete":
		if err := t.TryDelete(key); err != nil {
			return mm("update-error", "TryDelete(%x) failed: %v", key, err)
		}
	case "get":
		got, err := t.TryGet(key)
		if err != nil {
			return mm("get-error", "TryGet(%x) failed: %v", key, err)
		}
		var w []byte
		if a.resInt > 0 {
			w = in.uni.vals[a.resInt-1]
		}
		if !sameVal(got, w) {
			return mm("get-value", "TryGet(%x) = %x, the specification says %x", key, got, w)
		}
	case "hash":
		if m := in.checkRoot(content, t.Hash(), "Hash()"); m != nil {
			return m
		}
	case "commit":
		root, err := in.commit()
		if err != nil {
			return mm("commit-error", "Commit failed: %v", err)
		}
		if m := in.checkRoot(content, root, "Commit()"); m != nil {
			return m
		}
	case "flush":
		root := t.Hash()
		if err := in.tdb.Commit(root, false); err != nil {
			return mm("commit-error", "Database.Commit(%x) failed: %v", root, err)
		}
		in.flushed = append(in.flushed, root)
	case "reopen", "reopendisk":
		root := t.Hash()
		if m := in.checkRoot(content, root, "Hash()"); m != nil {
			return m
		}
		if a.Op == "reopendisk" {
			if m := in.checkOldRoot(); m != nil {
				return m
			}
			in.tdb = trie.NewDatabase(in.diskDB())
		}
		if err := in.open(root, in.tdb); err != nil {
			return mm("reopen-error", "opening the committed root %x (%s) failed: %v", root, a.Op, err)
		}
	case "prove":
		pk := in.pathKey(key)
		pdb := dbm.NewMemDB()
		if err := t.Prove(pk, 0, pdb); err != nil {
			return mm("proof-error", "Prove(%x) failed: %v", key, err)
		}
		root := t.Hash()
		val, _, err := trie.VerifyProof(root, pk, pdb)
		switch {
		case a.resInt < 0: // the specification (as coded): no proof exists for the empty trie
			if err == nil && len(val) != 0 {
				return mm("proof-wrong-value", "VerifyProof(emptyRoot, %x) returned value %x", key, val)
			}
		case err != nil:
			return mm("proof-valid-rejected", "VerifyProof(root %x, key %x) rejected the proof built by Prove: %v", root, key, err)
		default:
			var w []byte
			if a.resInt > 0 {
				w = in.uni.vals[a.resInt-1]
			}
			if !sameVal(val, w) {
				return mm("proof-wrong-value", "VerifyProof(root %x, key %x) returned %x, the specification says %x", root, key, val, w)
			}
			if in.uni.structural && in.kind == "plain" && a.N >= 0 && pdb.Len() != a.N {
				in.st.proofLenDrift++
				if in.st.driftExample == "" {
					in.st.driftExample = fmt.Sprintf("key %x content %v: %d proof nodes, specification %d", key, content, pdb.Len(), a.N)
				}
			}
		}
	case "iter":
		// the specification's enumeration (its own order), mapped to the concrete keys
		if in.kind == "secure" || (a.K > 0 && !in.uni.iso) {
			// hashed keys / keys assigned by rank: the specification's seek set does not carry
			// over; observe() checks seeks against the concrete keys
			return nil
		}
		in.st.iters++
		var start []byte
		if a.K > 0 {
			start = key
		}
		it := trie.NewIterator(t.NodeIterator(start))
		var got []kvp
		for it.Next() && len(got) <= len(a.resSeq)+4 {
			got = append(got, kvp{append([]byte{}, it.Key...), append([]byte{}, it.Value...)})
		}
		var want []kvp
		for _, ki := range a.resSeq {
			want = append(want, kvp{in.uni.keys[ki-1], in.uni.vals[content[ki-1]-1]})
		}
		ok := len(got) == len(want) && it.Err == nil
		for i := 0; ok && i < len(got); i++ {
			ok = bytes.Equal(got[i].k, want[i].k) && bytes.Equal(got[i].v, want[i].v)
		}
		if !ok {
			return mm("iter-stream", "iteration from %x enumerates [%s] (err %v), the specification says [%s]", start, streamString(got), it.Err, streamString(want))
		}
	}
	return nil
}
