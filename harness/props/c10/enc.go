package c10

import (
	"bytes"
	"fmt"
	"sort"
)

// A universe instantiates the abstract keys and values of a Trie model instance (or of
// a model-free random walk) with concrete byte strings.
type universe struct {
	name       string
	keys       [][]byte // entry i instantiates abstract key i+1
	probes     [][]byte // keys that are never written (absence must be provable for them)
	vals       [][]byte // entry v-1 instantiates abstract value v (all non-empty)
	structural bool     // nibble-for-nibble image of the model keys, value lengths = VLen
	iso        bool     // keys are a monotone nibble-wise image of the model keys (prefix relations preserved)
}

// hexT is keybytesToHex: two nibbles per byte plus the terminator 16.
func hexT(k []byte) []byte {
	out := make([]byte, 0, 2*len(k)+1)
	for _, b := range k {
		out = append(out, b>>4, b&15)
	}
	return append(out, 16)
}

// pathLess is the order in which the trie enumerates keys: the order of the nibble
// paths with terminator (bytewise order, except that a proper prefix comes after its
// extensions).
func pathLess(a, b []byte) bool { return bytes.Compare(hexT(a), hexT(b)) < 0 }

// seekReaches reports whether an iterator started at `start` must enumerate key k.
func seekReaches(start, k []byte) bool {
	if start == nil {
		return true
	}
	s := hexT(start)
	return bytes.Compare(hexT(k), s[:len(s)-1]) >= 0
}

func fill(n int, b byte) []byte { return bytes.Repeat([]byte{b}, n) }

// valueTable returns concrete values of the given byte lengths (distinct per index).
func valueTable(lens []int, salt byte) [][]byte {
	var out [][]byte
	for i, l := range lens {
		v := make([]byte, l)
		for j := range v {
			v[j] = byte(0x21 + (i*7+j*3+int(salt))%0x5e) // printable, < 0x80
		}
		v[0] = byte(0x31 + i) // distinct first byte; a 1-byte value stays below 0x80
		out = append(out, v)
	}
	return out
}

func nibbleKey(digits []int, nib []byte, prefix []byte) []byte {
	k := append([]byte{}, prefix...)
	for i := 0; i+1 < len(digits); i += 2 {
		k = append(k, nib[digits[i]]<<4|nib[digits[i+1]])
	}
	return k
}

// probesFor derives never-written keys around a key table: extensions, truncations,
// neighbours in the last byte, and unrelated keys.
func probesFor(keys [][]byte) [][]byte {
	in := map[string]bool{}
	for _, k := range keys {
		in[string(k)] = true
	}
	var out [][]byte
	add := func(p []byte) {
		if !in[string(p)] {
			in[string(p)] = true
			out = append(out, p)
		}
	}
	for _, k := range keys {
		add(append(append([]byte{}, k...), 0x00))
		add(append(append([]byte{}, k...), 0xff))
		if len(k) > 0 {
			add(append([]byte{}, k[:len(k)-1]...))
			n := append([]byte{}, k...)
			n[len(n)-1] ^= 0x01
			add(n)
			n = append([]byte{}, k...)
			n[len(n)-1] ^= 0x10
			add(n)
		}
	}
	add([]byte{0x9c, 0x4d})
	if len(out) > 14 {
		out = out[:14]
	}
	return out
}

// universesFor builds the instantiations of one model instance: several monotone
// digit->nibble maps (structure preserving), the same behind a 30-byte common prefix,
// 32-byte keys that share 31 or 30.5 bytes (assigned by rank in the model's key order,
// so the enumeration order is preserved), and different value sizes.
func universesFor(m *modelMeta) []*universe {
	nDigits := 0
	for _, k := range m.Keys {
		for _, d := range k {
			if d+1 > nDigits {
				nDigits = d + 1
			}
		}
	}
	nibMaps := [][]byte{{0x0, 0x1, 0x2}, {0x0, 0xf, 0xf}, {0x7, 0x8, 0x9}, {0xe, 0xf, 0xf}, {0x3, 0xa, 0xc}}
	if nDigits > 2 {
		nibMaps = [][]byte{{0x0, 0x1, 0x2}, {0x0, 0x8, 0xf}, {0x7, 0x8, 0x9}, {0xd, 0xe, 0xf}, {0x3, 0xa, 0xc}}
	}
	var us []*universe
	for i, nm := range nibMaps {
		u := &universe{name: fmt.Sprintf("nibbles-%x", nm[:nDigits]), structural: true, iso: true}
		for _, k := range m.Keys {
			u.keys = append(u.keys, nibbleKey(k, nm, nil))
		}
		u.vals = valueTable(m.VLen, byte(i))
		us = append(us, u)
	}
	// the same structure below a 30-byte shared prefix, long values (> 55 bytes: long SER strings)
	{
		u := &universe{name: "prefix30+nibbles", iso: true}
		p := fill(30, 0xab)
		for _, k := range m.Keys {
			u.keys = append(u.keys, nibbleKey(k, []byte{0x0, 0xf, 0xf}, p))
		}
		lens := make([]int, len(m.VLen))
		for i := range lens {
			lens[i] = 60 + 40*i
		}
		u.vals = valueTable(lens, 9)
		us = append(us, u)
	}
	// 32-byte keys sharing 31 bytes (or 30.5), tiny values incl. bytes >= 0x80
	{
		u := &universe{name: "32byte-shared31"}
		order := make([]int, len(m.Keys))
		for i := range order {
			order[i] = i
		}
		sort.Slice(order, func(a, b int) bool {
			return bytes.Compare(digitsT(m.Keys[order[a]]), digitsT(m.Keys[order[b]])) < 0
		})
		last := []byte{0x00, 0x01, 0x0f, 0x10, 0x1f, 0x80, 0xf0, 0xff}
		u.keys = make([][]byte, len(m.Keys))
		for rank, ki := range order {
			u.keys[ki] = append(fill(31, 0x5a), last[rank%len(last)])
		}
		for i := range m.VLen {
			u.vals = append(u.vals, []byte{byte(0x80 + 0x3f*i)})
		}
		us = append(us, u)
	}
	for _, u := range us {
		u.probes = probesFor(u.keys)
	}
	return us
}

func digitsT(d []int) []byte {
	out := make([]byte, 0, len(d)+1)
	for _, x := range d {
		out = append(out, byte(x))
	}
	return append(out, 16)
}

// bigUniverses are the key sets of the model-free random walks.
func bigUniverses() []*universe {
	var us []*universe
	// every byte string of length <= 2 over {00, 01, 10} plus 3-byte extensions: keys that
	// are prefixes of each other at every level, odd and even shared nibble prefixes
	{
		u := &universe{name: "prefix-closed-15"}
		al := []byte{0x00, 0x01, 0x10}
		u.keys = append(u.keys, []byte{})
		for _, a := range al {
			u.keys = append(u.keys, []byte{a})
			for _, b := range al {
				u.keys = append(u.keys, []byte{a, b})
			}
		}
		u.keys = append(u.keys, []byte{0, 0, 0}, []byte{0, 0, 1})
		u.vals = valueTable([]int{1, 5, 32, 100}, 3)
		us = append(us, u)
	}
	// 32-byte keys: 16 keys sharing 31 / 30.5 / 30 bytes
	{
		u := &universe{name: "32byte-16"}
		for _, b := range []byte{0x00, 0x01, 0x0f, 0x10, 0x11, 0x1f, 0xf0, 0xff} {
			u.keys = append(u.keys, append(fill(31, 0xc3), b))
		}
		for _, b := range [][2]byte{{0x00, 0x00}, {0x00, 0xff}, {0xc2, 0xff}, {0xc4, 0x00}, {0xc3, 0x02}, {0xd3, 0x00}, {0xff, 0xff}, {0xc3, 0xfe}} {
			u.keys = append(u.keys, append(fill(30, 0xc3), b[0], b[1]))
		}
		u.vals = valueTable([]int{1, 2, 33}, 5)
		us = append(us, u)
	}
	// text keys as in the package's own tests, plus prefixes
	{
		u := &universe{name: "words"}
		for _, s := range []string{"do", "dog", "doge", "dogglesworth", "horse", "ether", "bar", "barb", "bard", "bars", "foo", "food", "foos", "fab", "d", ""} {
			u.keys = append(u.keys, []byte(s))
		}
		u.vals = valueTable([]int{4, 9, 40}, 1)
		us = append(us, u)
	}
	for _, u := range us {
		u.probes = probesFor(u.keys)
	}
	return us
}

func hexList(ks [][]byte) (out []string) {
	for _, k := range ks {
		out = append(out, fmt.Sprintf("%x", k))
	}
	return
}
