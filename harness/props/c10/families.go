package c10

import (
	"encoding/json"
	"fmt"
	"math/rand"
	"runtime/debug"
	"sort"
	"strings"

	"github.com/lianxiangcloud/linkchain/libs/common"
	"github.com/lianxiangcloud/linkchain/libs/trie"

	"verifh/mbt"
)

// The two model families that go beyond one trie handle over one Database used through
// Commit / Flush / Reopen only:
//
//   copy      spec/Trie/TrieCopy.tla: two handles sharing their in-memory nodes
//             (SecureTrie.Copy / cpy := *trie); every call goes through one handle, every
//             live handle must keep reading ITS OWN content (handle independence)
//   versions  spec/Trie/TrieDb.tla: the reference counting node cache of trie.Database with
//             several committed versions alive at once (Reference / Dereference / Cap /
//             Database.Commit / restart); every version that is still referenced must open
//             and read its own content, from the cache and -- once flushed -- from disk
//
// Both are replayed by an executor that derives the expected contents from the abstract
// actions alone (it also serves the model-free walks and --replay); on behaviours exported
// by TLC the executor's expectation is compared with the model's state after every step.

// famAction is an action label of TrieCopy / TrieDb.
type famAction struct {
	Op string `json:"op"`
	H  int    `json:"h,omitempty"` // copy family: the handle the call goes through (copy: the destination)
	S  int    `json:"s,omitempty"` // copy: the source handle
	K  int    `json:"k,omitempty"`
	V  int    `json:"v,omitempty"`
	N  int    `json:"n,omitempty"` // cap: 1 = the oldest node, 0 = everything
	M  []int  `json:"m,omitempty"` // versions family: the map naming a version
	// copy: which real object plays which handle afterwards (decided by the executor at
	// random, recorded for --replay)
	Swap *bool `json:"swap,omitempty"`
}

func (a *famAction) String() string {
	b, _ := json.Marshal(a)
	return string(b)
}

// famState is what the replay needs of the models' projected states.
type famState struct {
	C   json.RawMessage `json:"c"` // copy: [2][]int, versions: []int
	Two bool            `json:"two"`
	Cmt bool            `json:"cmt"` // versions: the open trie has nothing uncommitted
	V   []struct {
		M []int `json:"m"`
		N int   `json:"n"`
	} `json:"v"`
	F [][]int `json:"f"` // the maps a user of the API may expect on disk

	c1 []int   // versions: decoded C
	c2 [][]int // copy: decoded C
}

func (st *famState) decode(family string) error {
	if family == "copy" {
		return json.Unmarshal(st.C, &st.c2)
	}
	return json.Unmarshal(st.C, &st.c1)
}

// famStep is one step of an exported behaviour: the action and the model's state after it.
type famStep struct {
	A  famAction `json:"a"`
	To famState  `json:"t"`
}

// steps turns an edge sequence into the steps the executor is given.
func (m *famModel) steps(seq []int) []famStep {
	out := make([]famStep, len(seq))
	for i, ei := range seq {
		e := m.g.Edges[ei]
		out[i] = famStep{A: m.acts[ei], To: m.states[e.To]}
	}
	return out
}

// famModel is one TLC instance of a family.
type famModel struct {
	family string // "copy" | "versions"
	name   string
	meta   modelMeta
	g      *mbt.Graph
	acts   []famAction
	states []famState
	tour   [][]int
}

func loadFamModel(family, name string, lines []string) (*famModel, error) {
	m := &famModel{family: family, name: name}
	var edges []string
	for _, l := range lines {
		if strings.HasPrefix(l, `{"meta"`) {
			var w struct {
				Meta modelMeta `json:"meta"`
			}
			if err := json.Unmarshal([]byte(l), &w); err != nil {
				return nil, fmt.Errorf("meta line: %v", err)
			}
			m.meta = w.Meta
			continue
		}
		edges = append(edges, l)
	}
	if len(m.meta.Keys) == 0 {
		return nil, fmt.Errorf("model %s exported no meta line", name)
	}
	// mbt.Load takes the first edge's source as the initial state (TLC may run several workers)
	found := false
	for i, l := range edges {
		var e struct {
			Act  famAction `json:"act"`
			From struct {
				Two bool `json:"two"`
				Cm  int  `json:"cm"`
				Cp  int  `json:"cp"`
				Rst int  `json:"rst"`
				Rs  json.RawMessage
				C   json.RawMessage
				V   []json.RawMessage
				F   []json.RawMessage
			} `json:"from"`
		}
		if json.Unmarshal([]byte(l), &e) != nil {
			continue
		}
		f := e.From
		if f.Two || f.Cm != 0 || f.Cp != 0 || f.Rst != 0 || len(f.V) != 0 || len(f.F) != 0 {
			continue
		}
		if strings.Trim(string(f.C), "[]0,") != "" || strings.Contains(string(f.Rs), "new") || strings.Contains(string(f.Rs), "hashed") ||
			strings.Contains(string(f.Rs), "clean") || strings.Contains(string(f.Rs), "unloaded") {
			continue
		}
		edges[0], edges[i] = edges[i], edges[0]
		found = true
		break
	}
	if !found {
		return nil, fmt.Errorf("model %s: no edge from the initial state", name)
	}
	g, err := mbt.Load(edges)
	if err != nil {
		return nil, err
	}
	m.g = g
	m.acts = make([]famAction, len(g.Edges))
	for i, e := range g.Edges {
		if err := json.Unmarshal(e.Act, &m.acts[i]); err != nil {
			return nil, fmt.Errorf("action %s: %v", e.Act, err)
		}
	}
	m.states = make([]famState, len(g.States))
	for i, s := range g.States {
		st := &m.states[i]
		if err := json.Unmarshal(s, st); err != nil {
			return nil, fmt.Errorf("state %s: %v", s, err)
		}
		if err = st.decode(family); err != nil {
			return nil, fmt.Errorf("state %s: %v", s, err)
		}
	}
	return m, nil
}

// ---- the executor -----------------------------------------------------------------

type version struct {
	root    common.Hash
	content []int
}

// famExec runs abstract actions of either family on real tries over one real
// trie.Database and keeps the expected contents.
type famExec struct {
	family string
	kind   string
	uni    *universe
	limit  uint16
	direct bool
	// the disk's batches copy keys and values (see inst.copyBatch)
	copyBatch bool
	tab       *rootTable
	rng       *rand.Rand
	st        stats
	history   []string
	notes     []*mismatch

	h       [2]*inst // the handles (versions family: h[0] only); they share disk, Database, table
	live    [2]bool
	content [2][]int
	vers    []version // versions family: live references, oldest first
	base    []int     // the map the open trie was opened from / last committed
	// the maps a user of the API may expect on disk (TrieDb.tla `flushed`): handed to
	// Database.Commit, or referenced at a Cap(0); a restart keeps the versions among them.
	// (Which maps a partial Cap completes on disk is not promised.)
	flushed map[string]bool
}

func (x *famExec) newInst() *inst {
	return &inst{kind: x.kind, uni: x.uni, limit: x.limit, direct: x.direct, copyBatch: x.copyBatch, tab: x.tab, rng: x.rng}
}

func (x *famExec) reset() error {
	x.history, x.vers, x.flushed = nil, nil, map[string]bool{}
	x.h[0], x.h[1] = x.newInst(), nil
	x.live = [2]bool{true, false}
	nk := len(x.uni.keys)
	x.content = [2][]int{make([]int, nk), make([]int, nk)}
	x.base = make([]int, nk)
	return x.h[0].reset()
}

func (x *famExec) fold() {
	for _, in := range x.h {
		if in != nil {
			x.st.add(&in.st)
			in.st = stats{}
			for _, n := range in.notes {
				x.note(n)
			}
			in.notes = nil
		}
	}
}

func (x *famExec) note(m *mismatch) {
	for _, n := range x.notes {
		if n.class == m.class {
			return
		}
	}
	x.notes = append(x.notes, m)
}

func prefixed(prefix string, m *mismatch, format string, a ...interface{}) *mismatch {
	if m == nil {
		return nil
	}
	return &mismatch{prefix + "/" + m.class, fmt.Sprintf(format, a...) + ": " + m.text}
}

// step executes one action and compares everything observable afterwards.
func (x *famExec) step(a *famAction) (mis *mismatch) {
	defer func() {
		if r := recover(); r != nil {
			mis = mm(map[string]string{"copy": "handle-copy", "versions": "versions"}[x.family]+"/panic", "the trie code panicked in %s: %v\n%s", a, r, trimStack(debug.Stack()))
		}
		x.fold()
	}()
	if a.Op == "copy" && a.Swap == nil {
		b := x.rng.Intn(2) == 0
		a.Swap = &b
	}
	x.history = append(x.history, a.String())
	if x.family == "copy" {
		return x.stepCopy(a)
	}
	return x.stepVersions(a)
}

// ---- copy family ----------------------------------------------------------------------

func (x *famExec) stepCopy(a *famAction) *mismatch {
	hi := a.H - 1
	if hi < 0 || hi > 1 {
		return mm("handle-copy/bad-action", "no handle in %s", a)
	}
	if a.Op == "copy" {
		si := a.S - 1
		src := x.h[si]
		dst := x.newInst()
		dst.disk, dst.tdb, dst.height, dst.step, dst.pkeys, dst.copyBatch = src.disk, src.tdb, src.height, src.step, src.pkeys, src.copyBatch
		if x.kind == "secure" {
			dst.sec = src.sec.Copy() // cpy := *t
		} else {
			cp := *src.pt // what SecureTrie.Copy does to the Trie it embeds
			dst.pt = &cp
		}
		x.h[hi], x.live[hi] = dst, true
		x.content[hi] = append([]int{}, x.content[si]...)
		x.st.copies++
		// the two handles are indistinguishable now: which real object plays which handle of the
		// behaviour is decided at random (the original is not always the one written first)
		if *a.Swap {
			x.h[0].pt, x.h[1].pt = x.h[1].pt, x.h[0].pt
			x.h[0].sec, x.h[1].sec = x.h[1].sec, x.h[0].sec
		}
	} else {
		in := x.h[hi]
		if in == nil || !x.live[hi] {
			return mm("handle-copy/bad-action", "handle %d does not exist in %s", a.H, a)
		}
		c := x.content[hi]
		b := &action{Op: a.Op, K: a.K, V: a.V}
		switch a.Op {
		case "update":
			c[a.K-1] = a.V
		case "delete":
			c[a.K-1] = 0
		case "get":
			b.resInt = c[a.K-1]
		}
		if m := in.apply(b, c); m != nil {
			return prefixed("handle-copy", m, "handle %d, call %s", a.H, a)
		}
		if a.Op == "commit" {
			// the root just committed, opened by a third trie on the same Database
			if m := x.checkVersion(in.t().Hash(), c, in.tdb, "the root handle "+fmt.Sprint(a.H)+" committed, opened on the same Database"); m != nil {
				return prefixed("handle-copy", m, "handle %d, call %s", a.H, a)
			}
		}
	}
	// every live handle reads its own content, whatever the other one did
	for k := 0; k < 2; k++ {
		if !x.live[k] {
			continue
		}
		x.st.handleObs++
		if m := x.h[k].observe(x.content[k]); m != nil {
			who := "the handle the call went through"
			if k != hi {
				who = "the OTHER handle"
			}
			if a.Op == "copy" {
				who = map[bool]string{true: "the new handle", false: "the handle that was copied"}[k == hi]
			}
			return prefixed("handle-copy", m, "after %s, %s (handle %d, content %v)", a, who, k+1, x.content[k])
		}
	}
	return nil
}

// checkVersion opens root on db with a trie of its own and compares everything the
// property names with content.
func (x *famExec) checkVersion(root common.Hash, content []int, db *trie.Database, what string) *mismatch {
	v := x.newInst()
	v.direct, v.pkeys = true, x.h[0].pkeys
	v.step = x.h[0].step
	defer func() { x.st.add(&v.st) }()
	if err := v.open(root, db); err != nil {
		return mm("open", "%s: root %x (content %v) cannot be opened: %v", what, root, content, err)
	}
	if m := v.observe(content); m != nil {
		return &mismatch{m.class, fmt.Sprintf("%s: root %x (content %v): %s", what, root, content, m.text)}
	}
	if h := v.t().Hash(); h != root {
		return mm("reopen-content", "%s: root %x (content %v) hashes to %x after being read", what, root, content, h)
	}
	return nil
}

// ---- versions family -------------------------------------------------------------------

func sameInts(a, b []int) bool {
	if len(a) != len(b) {
		return false
	}
	for i := range a {
		if a[i] != b[i] {
			return false
		}
	}
	return true
}

func isEmpty(c []int) bool {
	for _, v := range c {
		if v != 0 {
			return false
		}
	}
	return true
}

func (x *famExec) findVersion(m []int) int {
	for i, v := range x.vers {
		if sameInts(v.content, m) {
			return i
		}
	}
	return -1
}

// rootOf returns the root hash of the version / committed content named by m.
func (x *famExec) rootOf(m []int) (common.Hash, bool) {
	if i := x.findVersion(m); i >= 0 {
		return x.vers[i].root, true
	}
	if sameInts(m, x.content[0]) {
		return x.h[0].t().Hash(), true
	}
	return common.Hash{}, false
}

func (x *famExec) stepVersions(a *famAction) *mismatch {
	in := x.h[0]
	c := x.content[0]
	switch a.Op {
	case "update", "delete", "get", "hash":
		b := &action{Op: a.Op, K: a.K, V: a.V}
		switch a.Op {
		case "update":
			c[a.K-1] = a.V
		case "delete":
			c[a.K-1] = 0
		case "get":
			b.resInt = c[a.K-1]
		}
		if m := in.apply(b, c); m != nil {
			return prefixed("versions", m, "call %s", a)
		}
	case "commit": // Trie.Commit: into the Database cache, nothing to disk
		if m := in.apply(&action{Op: "commit"}, c); m != nil {
			return prefixed("versions", m, "call %s", a)
		}
		x.base = append([]int{}, c...)
	case "reference":
		root := in.t().Hash()
		in.tdb.Reference(root, common.Hash{})
		x.vers = append(x.vers, version{root: root, content: append([]int{}, c...)})
		x.st.references++
	case "dereference":
		i := x.findVersion(a.M)
		if i < 0 {
			return mm("versions/bad-action", "no live version %v for %s", a.M, a)
		}
		in.tdb.Dereference(x.vers[i].root)
		x.vers = append(x.vers[:i], x.vers[i+1:]...)
		x.st.dereferences++
	case "flush": // Database.Commit(root, false)
		root, ok := x.rootOf(a.M)
		if !ok {
			return mm("versions/bad-action", "no root for %v in %s", a.M, a)
		}
		if err := in.tdb.Commit(root, false); err != nil {
			return mm("versions/commit-error", "Database.Commit(%x) failed: %v", root, err)
		}
		x.flushed[contentKey(a.M)] = true
	case "cap":
		limit := common.StorageSize(0)
		if a.N == 1 { // exactly the oldest node of the flush-list
			size, _ := in.tdb.Size()
			limit = size - 1
		}
		if err := in.tdb.Cap(limit); err != nil {
			return mm("versions/commit-error", "Database.Cap(%v) failed: %v", limit, err)
		}
		x.st.caps++
		if a.N == 0 { // the whole cache went to disk
			for _, v := range x.vers {
				x.flushed[contentKey(v.content)] = true
			}
		}
	case "open":
		i := x.findVersion(a.M)
		if i < 0 {
			return mm("versions/bad-action", "no live version %v for %s", a.M, a)
		}
		if err := in.open(x.vers[i].root, in.tdb); err != nil {
			return mm("versions/open", "the referenced version %v (root %x) cannot be opened: %v", a.M, x.vers[i].root, err)
		}
		x.content[0] = append([]int{}, a.M...)
		x.base = append([]int{}, a.M...)
	case "restart": // the process ends: a new Database over the same disk, the handle starts empty
		in.tdb = trie.NewDatabase(in.diskDB())
		if err := in.open(common.EmptyHash, in.tdb); err != nil {
			return mm("versions/open", "cannot create an empty trie: %v", err)
		}
		x.content[0] = make([]int, len(c))
		x.base = make([]int, len(c))
		var keep []version
		for _, v := range x.vers {
			if x.flushed[contentKey(v.content)] || isEmpty(v.content) {
				keep = append(keep, v)
			}
		}
		x.vers = keep // what was only cached is given up
		x.st.restarts++
	default:
		return mm("versions/bad-action", "unknown action %s", a)
	}
	// the maps expected on disk, as far as they still matter (TrieDb.tla Keep)
	for k := range x.flushed {
		keep := k == contentKey(x.content[0]) || k == contentKey(x.base)
		for _, v := range x.vers {
			keep = keep || k == contentKey(v.content)
		}
		if !keep {
			delete(x.flushed, k)
		}
	}
	return x.observeVersions(a)
}

// observeVersions: the open trie reads its content; every version that is still
// referenced opens on the Database and reads its own content; every version known to be on
// disk does so on a Database created over the disk just now.
func (x *famExec) observeVersions(a *famAction) *mismatch {
	in := x.h[0]
	if m := in.observe(x.content[0]); m != nil {
		return prefixed("versions", m, "after %s, the open trie (content %v)", a, x.content[0])
	}
	seen := map[common.Hash]bool{}
	for _, v := range x.vers {
		if seen[v.root] {
			continue
		}
		seen[v.root] = true
		x.st.versionsOpened++
		if m := x.checkVersion(v.root, v.content, in.tdb, "a version that is still referenced"); m != nil {
			return prefixed("versions/referenced", m, "after %s (%d live references)", a, len(x.vers))
		}
		if x.flushed[contentKey(v.content)] {
			x.st.versionsFromDisk++
			if m := x.checkVersion(v.root, v.content, trie.NewDatabase(in.diskDB()), "a referenced version that was written to disk, on a new Database over the disk"); m != nil {
				return prefixed("versions/on-disk", m, "after %s", a)
			}
		}
	}
	return nil
}

// epilogue ends a behaviour with calls that bring latent damage to light (they are legal
// wherever the behaviour stopped; the expectations are the executor's own): copy family --
// every handle is committed and reopened from the Database; versions family -- the content
// of the open trie, if committed, becomes one more version, then Cap(0) writes the whole
// cache and every live version must open on a new Database over the disk.
func (x *famExec) epilogue(committed bool) *mismatch {
	var acts []*famAction
	if x.family == "copy" {
		for k := 0; k < 2; k++ {
			if x.live[k] {
				acts = append(acts, &famAction{Op: "commit", H: k + 1}, &famAction{Op: "reopen", H: k + 1})
			}
		}
	} else {
		if committed && !isEmpty(x.content[0]) {
			acts = append(acts, &famAction{Op: "reference"})
		}
		acts = append(acts, &famAction{Op: "cap", N: 0})
	}
	for _, a := range acts {
		if m := x.step(a); m != nil {
			return &mismatch{m.class, "in the epilogue of the behaviour: " + m.text}
		}
	}
	return nil
}

// agree compares the executor's expectation with the model's state (a disagreement is a
// defect of the harness or the specification, not of the code).
func (x *famExec) agree(st *famState) string {
	if x.family == "copy" {
		for k := 0; k < 2; k++ {
			if x.live[k] != (k == 0 || st.Two) {
				return fmt.Sprintf("handle %d live=%v, model two=%v", k+1, x.live[k], st.Two)
			}
			if x.live[k] && !sameInts(x.content[k], st.c2[k]) {
				return fmt.Sprintf("handle %d content %v, model %v", k+1, x.content[k], st.c2[k])
			}
		}
		return ""
	}
	if !sameInts(x.content[0], st.c1) {
		return fmt.Sprintf("content %v, model %v", x.content[0], st.c1)
	}
	var mine, theirs []string
	for _, v := range x.vers {
		mine = append(mine, fmt.Sprint(v.content))
	}
	for _, v := range st.V {
		for i := 0; i < v.N; i++ {
			theirs = append(theirs, fmt.Sprint(v.M))
		}
	}
	sort.Strings(mine)
	sort.Strings(theirs)
	if strings.Join(mine, ";") != strings.Join(theirs, ";") {
		return fmt.Sprintf("live versions %v, model %v", mine, theirs)
	}
	mine, theirs = nil, nil
	for k := range x.flushed {
		mine = append(mine, k)
	}
	for _, m := range st.F {
		theirs = append(theirs, contentKey(m))
	}
	sort.Strings(mine)
	sort.Strings(theirs)
	if strings.Join(mine, ";") != strings.Join(theirs, ";") {
		return fmt.Sprintf("maps expected on disk %v, model %v", mine, theirs)
	}
	return ""
}
