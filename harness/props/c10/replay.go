package c10

import (
	"encoding/hex"
	"encoding/json"
	"fmt"
	"io/ioutil"
	"math/rand"
	"runtime/debug"
	"strings"

	"verifh/core"
)

// replayFile re-executes the behaviour of a violation record (`--replay file`): the
// abstract actions are applied to a fresh trie of the recorded kind / universe / cache
// limit / observation mode with the same oracle; the content is recomputed from the
// update and delete actions.
func replayFile(c *core.Ctx) {
	b, err := ioutil.ReadFile(c.Replay)
	if err != nil {
		c.Infra("replay: %v", err)
		return
	}
	var f struct {
		Key    string `json:"key"`
		Record struct {
			Family  string   `json:"family"`
			CopyB   bool     `json:"disk_batches_copy"`
			Trie    string   `json:"trie"`
			Uni     string   `json:"universe"`
			Keys    []string `json:"keys_hex"`
			Vals    []string `json:"values_hex"`
			Limit   uint16   `json:"cache_limit"`
			Copy    bool     `json:"observe_through_copy"`
			Actions []string `json:"actions"`
		} `json:"record"`
	}
	if err := json.Unmarshal(b, &f); err != nil {
		c.Infra("replay: %v", err)
		return
	}
	r := f.Record
	if len(r.Keys) == 0 || len(r.Vals) == 0 {
		c.Infra("replay: %s holds no behaviour record (keys_hex / values_hex / actions); a replay run writes its own result under replays/, which can overwrite the file it was given", c.Replay)
		return
	}
	u := &universe{name: r.Uni, structural: strings.HasPrefix(r.Uni, "nibbles-"), iso: strings.HasPrefix(r.Uni, "nibbles-") || strings.HasPrefix(r.Uni, "prefix30")}
	for _, k := range r.Keys {
		kb, _ := hex.DecodeString(k)
		u.keys = append(u.keys, kb)
	}
	for _, v := range r.Vals {
		vb, _ := hex.DecodeString(v)
		u.vals = append(u.vals, vb)
	}
	u.probes = probesFor(u.keys)
	if r.Family == "copy" || r.Family == "versions" {
		// a behaviour of the copy / versions families: the executor derives the expectations
		// from the actions
		x := &famExec{family: r.Family, kind: r.Trie, uni: u, limit: r.Limit, direct: !r.Copy, copyBatch: r.CopyB,
			tab: newRootTable(), rng: rand.New(rand.NewSource(c.Seed))}
		done, mis := runActions(x, r.Actions)
		c.Out().Traces, c.Out().Evaluations = 1, done
		for _, n := range x.notes {
			c.Violate(n.class+"/"+r.Trie, fmt.Sprintf("replay of %s: %s", c.Replay, n.text), map[string]interface{}{"replay_of": f.Key, "mismatch": n.text})
		}
		if mis != nil {
			if strings.HasPrefix(f.Key, "versions/batch-key-aliasing/") && !r.CopyB {
				y := &famExec{family: r.Family, kind: r.Trie, uni: u, limit: r.Limit, direct: !r.Copy, copyBatch: true,
					tab: newRootTable(), rng: rand.New(rand.NewSource(c.Seed))}
				if _, m2 := runActions(y, r.Actions); m2 == nil {
					mis = mm("versions/batch-key-aliasing", "fails with disk batches that keep the slices they are given, not with batches that copy them: %s", mis.text)
				}
			}
			c.Violate(mis.class+"/"+r.Trie, fmt.Sprintf("replay of %s: after %d of %d actions: %s", c.Replay, done, len(r.Actions), mis.text),
				map[string]interface{}{"replay_of": f.Key, "mismatch": mis.text, "actions_executed": done})
			return
		}
		if len(x.notes) == 0 {
			fmt.Printf("replay of %s: %d actions executed, no mismatch\n", c.Replay, done)
		}
		return
	}
	in := &inst{kind: r.Trie, uni: u, limit: r.Limit, direct: !r.Copy, rng: rand.New(rand.NewSource(c.Seed)), tab: newRootTable()}
	var mis *mismatch
	done := 0
	func() {
		defer func() {
			if rec := recover(); rec != nil {
				mis = mm("panic", "the trie code panicked: %v\n%s", rec, trimStack(debug.Stack()))
			}
		}()
		if err := in.reset(); err != nil {
			mis = mm("reopen-error", "cannot create an empty trie: %v", err)
			return
		}
		content := make([]int, len(u.keys))
		if mis = in.observe(content); mis != nil { // the initial, empty trie
			return
		}
		for i, as := range r.Actions {
			var a action
			if err := json.Unmarshal([]byte(as), &a); err != nil {
				c.Infra("replay: action %q: %v", as, err)
				return
			}
			switch a.Op {
			case "update":
				content[a.K-1] = a.V
			case "delete":
				content[a.K-1] = 0
			case "get":
				a.resInt = content[a.K-1]
			case "prove":
				a.resInt = content[a.K-1]
				if len(a.Res) > 0 {
					json.Unmarshal(a.Res, &a.resInt)
				}
				a.N = -1
			case "iter":
				json.Unmarshal(a.Res, &a.resSeq)
			}
			done = i + 1
			if mis = in.apply(&a, content); mis != nil {
				return
			}
			if mis = in.observe(content); mis != nil {
				return
			}
		}
	}()
	c.Out().Traces, c.Out().Evaluations = 1, done
	for _, n := range in.notes {
		c.Violate(n.class+"/"+r.Trie, fmt.Sprintf("replay of %s: %s", c.Replay, n.text), map[string]interface{}{"replay_of": f.Key, "mismatch": n.text})
	}
	if mis == nil && len(in.notes) > 0 {
		return
	}
	if mis != nil {
		c.Violate(mis.class+"/"+r.Trie, fmt.Sprintf("replay of %s: after %d of %d actions: %s", c.Replay, done, len(r.Actions), mis.text),
			map[string]interface{}{"replay_of": f.Key, "mismatch": mis.text, "actions_executed": done})
		return
	}
	fmt.Printf("replay of %s: %d actions executed, no mismatch\n", c.Replay, done)
}
