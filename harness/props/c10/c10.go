// Package c10 checks property C10: the state trie root is a canonical commitment and
// its proofs are sound (libs/trie, plain Trie and SecureTrie).
//
// Model: spec/Trie/Trie.tla — the Merkle-Patricia trie at node level (insert/delete with
// normal form, nodeFlag hash/dirty/generation, hasher with embedding of small nodes,
// commit / unload / resolve, Prove / VerifyProof, iteration) next to the specification
// variable `content`. TLC checks exhaustively on bounded instances that the node tree is
// the unique trie of the content, that the root is a function of the content only, cache
// coherence, lookups, proof completeness/soundness incl. single-node tampering, and the
// enumeration order; every explored transition is exported.
//
// Binding: a transition tour over the exported graph plus seeded random walks is
// replayed on real trie.Trie / trie.SecureTrie objects over a real trie.Database on a
// MemDB (several cache limits, intermediate commits, flushes, reopen from the Database
// and from disk) for several concrete instantiations of the abstract keys and values.
// After EVERY step pi_prop is compared: TryGet of every key and of never written probe
// keys, the root against a table content -> root shared by all behaviours of the run
// (and against the same content built from scratch in three orders), Prove/VerifyProof
// of every key incl. absent ones, every single-node tampering of every proof (drop,
// byte flips, truncation, swap-in), the proof against the previous root, the iterator
// stream (full and seeked) and the iterator's own leaf proofs. Model-free seeded random
// walks over larger key universes use the same oracle with a Go map as reference.
//
// Two further model families use the same oracle on every live handle / version after
// every step (families.go, famrun.go):
//   - spec/Trie/TrieCopy.tla: two handles that share their in-memory nodes
//     (SecureTrie.Copy, cpy := *trie) taken in any state; each handle must keep reading its
//     own content whatever is done through the other one, also after Commit + reopen;
//   - spec/Trie/TrieDb.tla: the reference counting node cache of trie.Database with several
//     committed versions alive at once (Reference / Dereference / Cap / Database.Commit /
//     restart), including two versions with the same root; every version that is still
//     referenced must open and read its own content, from the cache and -- once it was
//     written -- from a new Database over the disk.
//
// Their replay jobs run in child processes (libs/ser serialises encoders of one process).
// For each family a configuration with a switch of the specification flipped (a write in
// place; a root counted once) must make TLC report the invariant violated.
package c10

import (
	"encoding/json"
	"fmt"
	"io/ioutil"
	"math/rand"
	"os"
	"runtime/debug"
	"sort"
	"strings"
	"sync"
	"time"

	"github.com/lianxiangcloud/linkchain/libs/common"
	"github.com/lianxiangcloud/linkchain/libs/crypto"

	"verifh/core"
	"verifh/mbt"
	"verifh/tlc"
)

func init() { core.Register("C10", run) }

// emptyTrieProofIsFinding: the property says an absence proof verifies against a root
// exactly when the key is absent from the content the root commits to. For the empty
// trie Prove succeeds (emitting no node) but VerifyProof(emptyRoot, ..) returns an error
// ("proof node 0 missing"): the true claim has no verifying proof. With this switch on,
// that is reported under the key empty-trie-absence-proof/<kind> (the behaviour goes on);
// with it off it is only counted (empty_trie_proofs_rejected).
const emptyTrieProofIsFinding = true

type modelMeta struct {
	Keys  [][]int `json:"keys"`
	VLen  []int   `json:"vlen"`
	Limit int     `json:"limit"`
}

type action struct {
	Op     string          `json:"op"`
	K      int             `json:"k"`
	V      int             `json:"v"`
	N      int             `json:"n"`
	Res    json.RawMessage `json:"res"`
	resInt int
	resSeq []int
}

type modelState struct {
	C  []int  `json:"c"`
	Sy string `json:"sy"`
	Rs string `json:"rs"`
}

// model is one TLC instance: its exported graph with the actions decoded once.
type model struct {
	name   string
	meta   modelMeta
	g      *mbt.Graph
	acts   []action
	states []modelState
	tour   [][]int // pieces (each from the initial state) that together cover every edge
}

func loadModel(name string, lines []string) (*model, error) {
	m := &model{name: name}
	var edges []string
	for _, l := range lines {
		if strings.HasPrefix(l, `{"meta"`) {
			var w struct {
				Meta modelMeta `json:"meta"`
			}
			if err := json.Unmarshal([]byte(l), &w); err != nil {
				return nil, fmt.Errorf("meta line: %v", err)
			}
			m.meta = w.Meta
			continue
		}
		edges = append(edges, l)
	}
	if len(m.meta.Keys) == 0 {
		return nil, fmt.Errorf("model %s exported no meta line", name)
	}
	// mbt.Load takes the first edge's source as the initial state
	init := `{"from":{"c":[` + strings.TrimSuffix(strings.Repeat("0,", len(m.meta.Keys)), ",") + `],"sy":"none","rs":"nil"}`
	for i, l := range edges {
		if strings.HasPrefix(l, init) {
			edges[0], edges[i] = edges[i], edges[0]
			break
		}
		if i > 1000 {
			return nil, fmt.Errorf("model %s: no edge from the initial state among the first lines", name)
		}
	}
	g, err := mbt.Load(edges)
	if err != nil {
		return nil, err
	}
	m.g = g
	m.acts = make([]action, len(g.Edges))
	for i, e := range g.Edges {
		a := &m.acts[i]
		if err := json.Unmarshal(e.Act, a); err != nil {
			return nil, fmt.Errorf("action %s: %v", e.Act, err)
		}
		switch a.Op {
		case "get", "prove":
			if err := json.Unmarshal(a.Res, &a.resInt); err != nil {
				return nil, fmt.Errorf("action %s: %v", e.Act, err)
			}
		case "iter":
			if err := json.Unmarshal(a.Res, &a.resSeq); err != nil {
				return nil, fmt.Errorf("action %s: %v", e.Act, err)
			}
		}
	}
	m.states = make([]modelState, len(g.States))
	for i, s := range g.States {
		if err := json.Unmarshal(s, &m.states[i]); err != nil {
			return nil, fmt.Errorf("state %s: %v", s, err)
		}
	}
	return m, nil
}

// job is one replay unit: one model graph (or a model-free walk), one universe, one
// trie kind, one cache limit, one observation mode.
type job struct {
	m      *model // nil: model-free random walk
	uni    *universe
	kind   string
	limit  uint16
	direct bool
	share  int // > 0: replay only every share-th piece of the tour (the jobs of a model cover it together)
	offset int
	walks  int
	steps  int // model-free: number of steps
	idx    int
}

type describer interface {
	describe() map[string]interface{}
}

type jobResult struct {
	st         stats
	behaviours int
	nontrivial int
	sample     interface{}
	viol       *core.Violation
	notes      []*core.Violation
	wall       float64
}

func (j *job) describe() map[string]interface{} {
	d := map[string]interface{}{"family": "one-handle", "trie": j.kind, "universe": j.uni.name, "keys_hex": hexList(j.uni.keys), "values_hex": hexList(j.uni.vals), "cache_limit": j.limit, "observe_through_copy": !j.direct}
	if j.m != nil {
		d["model"] = j.m.name
	}
	return d
}

// replay executes one behaviour (edge sequence) on a fresh instance; corrupt >= 0
// corrupts the expectation of that step (negative control).
func replay(in *inst, m *model, seq []int, corrupt int) (done int, mis *mismatch) {
	defer func() {
		if r := recover(); r != nil {
			mis = mm("panic", "the trie code panicked: %v\n%s", r, trimStack(debug.Stack()))
		}
	}()
	if err := in.reset(); err != nil {
		return 0, mm("reopen-error", "cannot create an empty trie: %v", err)
	}
	for pi, ei := range seq {
		a := m.acts[ei]
		st := m.states[m.g.Edges[ei].To]
		content := st.C
		if pi == corrupt {
			content = append([]int{}, st.C...)
			content[pi%len(content)] = (content[pi%len(content)] + 1) % (len(m.meta.VLen) + 1)
		}
		done = pi + 1
		in.history = append(in.history, mbt.Compact(m.g.Edges[ei].Act))
		if mis = in.apply(&a, content); mis != nil {
			return
		}
		if mis = in.observe(content); mis != nil {
			return
		}
	}
	return
}

func trimStack(b []byte) string {
	s := string(b)
	if i := strings.Index(s, "libs/trie"); i > 200 {
		s = s[i-200:]
	}
	if len(s) > 1500 {
		s = s[:1500]
	}
	return s
}

func runJob(c *core.Ctx, j *job, tabs *tables) (res *jobResult) {
	res = &jobResult{}
	rng := rand.New(rand.NewSource(c.Seed*7919 + int64(j.idx)))
	tabName := j.uni.name
	if j.m != nil {
		tabName = j.m.name + "/" + tabName
	}
	t0 := time.Now()
	defer func() { res.wall = time.Since(t0).Seconds() }()
	in := &inst{kind: j.kind, uni: j.uni, limit: j.limit, direct: j.direct, rng: rng, tab: tabs.get(j.kind, tabName)}
	defer func() {
		for _, n := range in.notes {
			rec := j.describe()
			rec["actions"] = []string{}
			rec["mismatch"] = n.text
			res.notes = append(res.notes, &core.Violation{Key: n.class + "/" + j.kind, Desc: fmt.Sprintf("%s trie: %s", j.kind, n.text), Record: rec})
		}
	}()
	fail := func(m *mismatch, trace []string) {
		key := m.class + "/" + j.kind
		rec := j.describe()
		rec["actions"] = trace
		rec["mismatch"] = m.text
		res.viol = &core.Violation{Key: key, Desc: fmt.Sprintf("%s trie, universe %s, cache limit %d: %s", j.kind, j.uni.name, j.limit, m.text), Record: rec}
	}
	if j.m == nil {
		trace, m := freeWalk(in, j.steps)
		res.behaviours, res.nontrivial = 1, 1
		if m != nil {
			fail(m, trace)
		} else if len(trace) > 12 {
			d := j.describe()
			d["behaviour_prefix"] = trace[:12]
			res.sample = d
		}
		res.st = in.st
		return res
	}
	var seqs [][]int
	for pi, piece := range j.m.tour {
		if j.share <= 1 || pi%j.share == j.offset%j.share {
			seqs = append(seqs, piece)
		}
	}
	seqs = append(seqs, j.m.g.Walks(j.walks, 40, rng)...)
	for _, seq := range seqs {
		done, m := replay(in, j.m, seq, -1)
		res.behaviours++
		for _, ei := range seq {
			if op := j.m.acts[ei].Op; op == "update" || op == "delete" {
				res.nontrivial++
				break
			}
		}
		if res.sample == nil && len(in.history) > 12 {
			d := j.describe()
			d["behaviour_prefix"] = append([]string{}, in.history[:12]...)
			res.sample = d
		}
		if m != nil {
			fail(m, append([]string{}, in.history[:done]...))
			break
		}
	}
	res.st = in.st
	return res
}

type tables struct {
	mu sync.Mutex
	m  map[string]*rootTable
}

func (t *tables) get(kind, uni string) *rootTable {
	t.mu.Lock()
	defer t.mu.Unlock()
	k := kind + "/" + uni
	if t.m[k] == nil {
		t.m[k] = newRootTable()
	}
	return t.m[k]
}

// negativeControl shows that the binding is not vacuous: a behaviour whose expected
// content is corrupted at one step, a table holding a wrong root, and a proof checked
// against a wrong claim must all be reported by the same oracle code.
func negativeControl(c *core.Ctx, m *model) {
	rng := rand.New(rand.NewSource(c.Seed))
	uni := universesFor(&m.meta)[0]
	var seq []int
	for _, w := range m.g.Walks(400, 30, rng) {
		n := 0
		for _, ei := range w {
			if m.acts[ei].Op == "update" && m.acts[ei].V > 0 {
				n++
			}
		}
		present := 0
		for _, v := range m.states[m.g.Edges[w[len(w)-1]].To].C {
			if v != 0 {
				present++
			}
		}
		if n >= 4 && present >= 2 {
			seq = w
			break
		}
	}
	if seq == nil {
		c.Infra("negative control: no suitable behaviour found")
		return
	}
	for _, kind := range []string{"plain", "secure"} {
		in := &inst{kind: kind, uni: uni, limit: 1, rng: rng, tab: newRootTable()}
		if _, mis := replay(in, m, seq, -1); mis != nil {
			return // the real run reports it
		}
		// (a) corrupted expected content at one step
		at := len(seq) / 2
		in = &inst{kind: kind, uni: uni, limit: 1, rng: rng, tab: newRootTable()}
		done, mis := replay(in, m, seq, at)
		if mis == nil || done != at+1 {
			c.Infra("vacuous binding: a behaviour with a corrupted expected content at step %d was accepted (%s trie; stopped at %d, %v)", at, kind, done, mis)
		}
		// (b) a wrong root in the table
		tab := newRootTable()
		last := m.states[m.g.Edges[seq[len(seq)-1]].To].C
		tab.byContent[contentKey(last)] = common.BytesToHash(crypto.Keccak256([]byte("not the root")))
		in = &inst{kind: kind, uni: uni, limit: 1, rng: rng, tab: tab}
		if _, mis := replay(in, m, seq, -1); mis == nil || !strings.HasPrefix(mis.class, "root-") {
			c.Infra("vacuous binding: a wrong root in the content->root table was not noticed (%s trie, %v)", kind, mis)
		}
		// (c) a proof checked against a wrong claim (the value of another key / presence flipped)
		in = &inst{kind: kind, uni: uni, limit: 1, rng: rng, tab: newRootTable()}
		replay(in, m, seq, -1)
		wrong := append([]int{}, last...)
		wrong[0] = (wrong[0] + 1) % (len(m.meta.VLen) + 1)
		if mis := in.checkProofs(in.t(), in.t().Hash(), wrong); mis == nil || !strings.HasPrefix(mis.class, "proof-") {
			c.Infra("vacuous binding: a proof was accepted for a wrong claim (%s trie, %v)", kind, mis)
		}
		// (d) an iterator stream checked against a content with one value changed
		w2 := append([]int{}, last...)
		for i, v := range w2 {
			if v != 0 {
				w2[i] = v%len(m.meta.VLen) + 1
				break
			}
		}
		if mis := in.checkIter(in.t(), in.t().Hash(), w2, nil, false); mis == nil {
			c.Infra("vacuous binding: an iterator stream was accepted for a content with a changed value (%s trie)", kind)
		}
	}
	c.SetExtra("negative_controls", "corrupted expected content, wrong table root, wrong proof claim, changed iterator value: all rejected (plain and secure)")
}

func run(c *core.Ctx) {
	o := c.Out()
	o.Level = "model_checking"
	o.Rule = "behaviour = path through a TLC-exported graph of Trie / TrieCopy / TrieDb (transition tour + seeded walks) or a model-free seeded walk, replayed on one (trie kind, key/value universe, cache limit, observation mode[, disk batch flavour]); non-trivial = contains at least one update or delete (Trie), a handle copy (TrieCopy), a Reference (TrieDb); distinct = distinct (job, edge sequence)"
	o.Assumptions = []string{
		"key order of the iterator = order of the nibble paths with terminator (bytewise order; a key that is a proper prefix of other keys is enumerated after them, as libs/trie/iterator_test.go fixes it)",
		"the verifier's proof node set is content addressed (every received node is stored under its own Keccak hash); VerifyProof itself does not re-hash",
		"Keccak-256 collision freedom is trusted (the specification uses the collapsed node itself as its hash)",
		"handle copies: a plain Trie is copied the way SecureTrie.Copy copies the Trie it embeds (cpy := *t)",
		"database versions: a version is dereferenced only while no open trie is based on it (the discipline of geth's blockchain.go); external references from account leaves to storage tries (Reference(child, parent) with a non-zero parent) are not exercised",
	}
	if strings.HasPrefix(c.Child, "fam:") {
		famChild(c)
		return
	}
	if c.Replay != "" {
		replayFile(c)
		return
	}
	o.Trusted = []string{"TLC", "Go reference of the enumeration order (cross-checked against the specification's Iterate results on plain tries)", "libs/db MemDB", "Keccak-256"}

	// ---- job runner; the model-free walks start at once and overlap with TLC ----
	var (
		jobs    []describer
		results []*jobResult
		jmu     sync.Mutex
		jwg     sync.WaitGroup
	)
	tourInfo := map[string]map[string]int{}
	limits := []uint16{0, 1, 2, 120}
	tabs := &tables{m: map[string]*rootTable{}}
	sem := make(chan struct{}, 14)
	start := func(d describer, setIdx func(int), runIt func() *jobResult) {
		jmu.Lock()
		idx := len(jobs)
		setIdx(idx)
		jobs = append(jobs, d)
		results = append(results, nil)
		jmu.Unlock()
		jwg.Add(1)
		go func() {
			defer jwg.Done()
			sem <- struct{}{}
			defer func() { <-sem }()
			r := runIt()
			if os.Getenv("VERIF_C10_VERBOSE") != "" {
				dd := d.describe()
				fmt.Fprintf(os.Stderr, "[%6.1fs] job %d %v/%v/%v/%v done: %d steps in %.1fs\n", time.Since(c.Start).Seconds(), idx, dd["family"], dd["model"], dd["universe"], dd["trie"], r.st.steps, r.wall)
			}
			jmu.Lock()
			results[idx] = r
			jmu.Unlock()
		}()
	}
	launch := func(j *job) {
		start(j, func(i int) { j.idx = i }, func() *jobResult { return runJob(c, j, tabs) })
	}
	// the jobs of the copy / versions families run in processes of their own
	famDir, err := ioutil.TempDir("", "c10fam")
	if err != nil {
		c.Infra("scratch directory: %v", err)
		return
	}
	defer os.RemoveAll(famDir)
	csem := make(chan struct{}, 8)
	launchFam := func(j *famJob) {
		start(j, func(i int) { j.Idx = i }, func() *jobResult {
			<-sem // a child process does not take part in this process's lock
			defer func() { sem <- struct{}{} }()
			csem <- struct{}{}
			defer func() { <-csem }()
			return runFamChild(c, j, famDir)
		})
	}
	part := os.Getenv("VERIF_C10_PART") // development aid: "model" or "free" runs only that half
	for ui, u := range bigUniverses() {
		for ki, kind := range []string{"plain", "secure"} {
			for r := 0; r < c.Pick(2, 4) && part != "model"; r++ {
				launch(&job{uni: u, kind: kind, limit: limits[(ui+ki+r)%len(limits)], direct: r%2 == 0, steps: c.Pick(600, 6000)})
			}
		}
	}

	// model-free walks of the two families (handle copies, database versions) on the same universes
	for ui := range bigUniverses() {
		for ki, kind := range []string{"plain", "secure"} {
			for fi, fam := range []string{"copy", "versions"} {
				if part == "model" {
					continue
				}
				launchFam(&famJob{Family: fam, Uni: ui, Kind: kind, Limit: limits[(ui+ki+fi+1)%len(limits)], Direct: (ui+ki+fi)%3 == 0, CopyBatch: (ui+ki)%2 == 1, Steps: c.Pick(400, 4000)})
			}
		}
	}

	type spec struct {
		module, cfg string
		workers     int
		family      string // "": Trie.tla (one handle); "copy": TrieCopy.tla; "versions": TrieDb.tla
		// expect != "": a configuration in which the named switch of the specification is flipped
		// (a mutant of the MODEL): TLC must report the named invariant as violated, otherwise the
		// model could not have noticed the corresponding class of defects
		expect string
	}
	specs := []spec{{"MC_TrieQuick", "MC_TrieQuick.cfg", 1, "", ""}, {"MC_TrieQuickB", "MC_TrieQuickB.cfg", 1, "", ""},
		{"MC_TrieDb", "MC_TrieDbDisk.cfg", 1, "versions", ""}, {"MC_TrieDb", "MC_TrieDb.cfg", 1, "versions", ""},
		{"MC_TrieDbC", "MC_TrieDbC.cfg", 1, "versions", ""},
		{"MC_TrieCopy", "MC_TrieCopy.cfg", 1, "copy", ""}, {"MC_TrieCopyB", "MC_TrieCopyB.cfg", 1, "copy", ""},
		{"MC_TrieCopy", "MC_TrieCopy_inplace_insert.cfg", 1, "copy", "Canonical"},
		{"MC_TrieCopy", "MC_TrieCopy_inplace_delete.cfg", 1, "copy", "Canonical"},
		{"MC_TrieDb", "MC_TrieDb_rootonce.cfg", 1, "versions", "VersionsOpenable"}}
	if c.Thorough() {
		// the big instances are on the critical path: several TLC workers (every PrintT line is
		// written atomically; loadModel puts an edge that leaves the initial state first)
		specs = append(specs, spec{"MC_TrieBig", "MC_TrieBig.cfg", 4, "", ""}, spec{"MC_TrieBigB", "MC_TrieBigB.cfg", 2, "", ""},
			spec{"MC_TrieCopy", "MC_TrieCopyBig.cfg", 4, "copy", ""}, spec{"MC_TrieDb", "MC_TrieDbBig.cfg", 4, "versions", ""},
			spec{"MC_TrieDb", "MC_TrieDbBigB.cfg", 4, "versions", ""}, spec{"MC_TrieDbC", "MC_TrieDbCBig.cfg", 4, "versions", ""})
	}
	// schedule creates the replay jobs of one model as soon as its TLC run is through, so
	// that replay overlaps with the longer TLC runs
	schedule := func(mi int, m *model) {
		m.tour = m.g.Tour(c.Pick(1200, 3000), rand.New(rand.NewSource(c.Seed+int64(mi))))
		unis := universesFor(&m.meta)
		var mj []*job
		for ui, u := range unis {
			for ki, kind := range []string{"plain", "secure"} {
				if kind == "secure" && !c.Thorough() && ui%2 == 1 && ui < 5 {
					continue // hashed keys: the nibble map hardly matters; value sizes and key lengths do
				}
				mj = append(mj, &job{m: m, uni: u, kind: kind, limit: limits[(ui+ki+mi)%len(limits)], direct: (ui+ki)%2 == 1, walks: c.Pick(12, 150)})
			}
		}
		// quick: the jobs of a model share the tour (every edge is replayed on at least 2
		// different instantiations); thorough: every job replays the whole tour of the
		// small models and half of the big ones (every edge on at least 2)
		for k, j := range mj {
			if part == "free" {
				break
			}
			if !c.Thorough() {
				j.share, j.offset = len(mj)/2, k
			} else if len(m.g.Edges) > 30000 {
				j.share, j.offset = len(mj)/2, k
			}
			launch(j)
		}
	}
	// the replay jobs of a copy / versions model: the jobs share the tour. Every edge is
	// replayed on at least 2 instantiations (a plain and a secure trie); the quick tier replays
	// the disk instance of the versions family once per edge (plain and secure alternate).
	scheduleFam := func(mi int, m *famModel) {
		m.tour = m.g.Tour(c.Pick(1200, 3000), rand.New(rand.NewSource(c.Seed+int64(mi))))
		pick := []int{0, 3, 5, 6}
		if c.Thorough() {
			pick = []int{0, 1, 2, 3, 4, 5, 6}
		}
		var mj []*famJob
		for n, ui := range pick {
			for ki, kind := range []string{"plain", "secure"} {
				mj = append(mj, &famJob{Family: m.family, Model: m.name, Meta: m.meta, Uni: ui, Kind: kind, Limit: limits[(ui+ki+mi)%len(limits)],
					Direct: (n+ki)%3 == 2, CopyBatch: (n+ki)%2 == 1})
			}
		}
		if part == "free" {
			return
		}
		share := len(mj) / 2
		once := !c.Thorough() && len(m.tour) > 4000
		if once {
			share = len(mj)
		}
		if c.Thorough() && len(m.g.Edges) <= 30000 {
			share = 1
		}
		total := 0
		for k, j := range mj {
			// job k replays the pieces of its residue: a plain and a secure job per residue
			offset := k/2 + k%2*(len(mj)/4)
			if once {
				offset = k
			}
			rng := rand.New(rand.NewSource(c.Seed*31 + int64(k)))
			for pi, piece := range m.tour {
				if share <= 1 || pi%share == offset%share {
					j.Beh = append(j.Beh, m.steps(piece))
					total += len(piece)
				}
			}
			for _, w := range m.g.Walks(c.Pick(10, 120), 40, rng) {
				j.Beh = append(j.Beh, m.steps(w))
			}
			launchFam(j)
		}
		jmu.Lock()
		tourInfo[m.name] = map[string]int{"pieces": len(m.tour), "steps_replayed_over_all_jobs": total, "jobs": len(mj)}
		jmu.Unlock()
	}
	models := make([]*model, len(specs))
	famModels := make([]*famModel, len(specs))
	var wg sync.WaitGroup
	var sensitivity []string
	// the model-sensitivity runs are short and off the critical path: one after the other
	// (fewer JVMs at a time)
	var sensTurn sync.Mutex
	for i, s := range specs {
		if part == "free" && s.expect != "" {
			continue
		}
		wg.Add(1)
		go func(i int, s spec) {
			defer wg.Done()
			if s.expect != "" {
				sensTurn.Lock()
				defer sensTurn.Unlock()
			}
			res := c.TLC(tlc.Options{SpecDir: c.SpecDir("Trie"), Module: s.module, Config: s.cfg, Workers: s.workers, Timeout: c.MinutesT(10, 22)})
			if res == nil {
				return
			}
			if s.expect != "" {
				if res.Violated != s.expect {
					c.Infra("vacuous model: %s with %s (a switch of the specification flipped) must violate %s, TLC reports %q\n%s", s.module, s.cfg, s.expect, res.Violated, res.Tail)
				}
				jmu.Lock()
				sensitivity = append(sensitivity, fmt.Sprintf("%s: TLC reports %s violated after %d states", s.cfg, res.Violated, res.Distinct))
				jmu.Unlock()
				return
			}
			if res.Violated != "" || !res.Finished || res.TimedOut {
				c.Infra("Trie model %s: %s\n%s", s.module, res.Describe(), res.Tail)
				return
			}
			if s.family != "" {
				m, err := loadFamModel(s.family, strings.TrimSuffix(s.cfg, ".cfg"), res.Lines)
				if err != nil {
					c.Infra("Trie model %s: %v", s.module, err)
					return
				}
				famModels[i] = m
				if os.Getenv("VERIF_C10_VERBOSE") != "" {
					fmt.Fprintf(os.Stderr, "[%6.1fs] %s: %s\n", time.Since(c.Start).Seconds(), s.module, res.Describe())
				}
				if !strings.Contains(s.cfg, "Big") {
					famNegativeControl(c, m)
				}
				scheduleFam(i, m)
				return
			}
			m, err := loadModel(s.module, res.Lines)
			if err != nil {
				c.Infra("Trie model %s: %v", s.module, err)
				return
			}
			models[i] = m
			if os.Getenv("VERIF_C10_VERBOSE") != "" {
				fmt.Fprintf(os.Stderr, "[%6.1fs] %s: %s\n", time.Since(c.Start).Seconds(), s.module, res.Describe())
			}
			if i == 0 {
				negativeControl(c, m)
			}
			schedule(i, m)
		}(i, s)
	}
	wg.Wait()
	jwg.Wait()
	o.Exhaustive = true
	modelInfo := map[string]interface{}{}
	for i, m := range famModels {
		if specs[i].family == "" || specs[i].expect != "" {
			continue
		}
		if m == nil {
			o.Exhaustive = false
			continue
		}
		modelInfo[m.name] = map[string]interface{}{"family": m.family, "keys": m.meta.Keys, "value_lengths": m.meta.VLen, "cache_limit": m.meta.Limit,
			"projected_states": len(m.g.States), "projected_edges": len(m.g.Edges), "edges_by_action": m.g.ActionKinds("op"), "tour": tourInfo[m.name]}
	}
	sort.Strings(sensitivity)
	c.SetExtra("model_sensitivity", sensitivity)
	for i, m := range models {
		if specs[i].family != "" {
			continue
		}
		if m == nil {
			o.Exhaustive = false
			continue
		}
		modelInfo[m.name] = map[string]interface{}{"keys": m.meta.Keys, "value_lengths": m.meta.VLen, "cache_limit": m.meta.Limit,
			"projected_states": len(m.g.States), "projected_edges": len(m.g.Edges), "edges_by_action": m.g.ActionKinds("op")}
	}
	c.SetExtra("models", modelInfo)
	var total stats
	for _, r := range results {
		total.add(&r.st)
		o.Traces += r.behaviours
		o.Distinct += r.nontrivial
		if r.viol != nil {
			c.Violate(r.viol.Key, r.viol.Desc, r.viol.Record)
		}
		for _, n := range r.notes {
			c.Violate(n.Key, n.Desc, n.Record)
		}
	}
	type jw struct {
		name string
		wall float64
		n    int
	}
	var slow []jw
	for i, r := range results {
		dd := jobs[i].describe()
		slow = append(slow, jw{fmt.Sprintf("%v/%v/%v", dd["family"], dd["universe"], dd["trie"]), r.wall, r.st.steps})
	}
	sort.Slice(slow, func(a, b int) bool { return slow[a].wall > slow[b].wall })
	if len(slow) > 3 {
		slow = slow[:3]
	}
	var slowS []string
	for _, x := range slow {
		slowS = append(slowS, fmt.Sprintf("%s: %.1fs for %d steps", x.name, x.wall, x.n))
	}
	c.SetExtra("slowest_jobs", slowS)
	for _, i := range []int{0, len(results) / 2, len(results) - 1} {
		if results[i].sample != nil {
			c.Sample(results[i].sample)
		}
	}
	o.Evaluations = total.steps
	contents, revisits := 0, 0
	var tabNames []string
	for k, t := range tabs.m {
		contents += len(t.byContent)
		revisits += t.hits
		tabNames = append(tabNames, fmt.Sprintf("%s:%d", k, len(t.byContent)))
	}
	sort.Strings(tabNames)
	c.SetExtra("jobs", len(jobs))
	c.SetExtra("oracle_counts", map[string]int{"steps": total.steps, "lookups": total.gets, "roots_compared": total.roots, "proofs_verified": total.proofs,
		"tampered_proofs_checked": total.tampers, "proofs_against_other_root": total.crossRoot, "iterations": total.iters,
		"iterator_leaf_proofs": total.leafProofs, "old_roots_reopened_from_disk": total.oldRoots,
		"empty_trie_proofs_rejected": total.emptyProofRejected, "proofs_identical_to_an_already_tampered_one": total.proofsSeenBefore,
		"handle_copies": total.copies, "observations_of_a_handle_next_to_another": total.handleObs,
		"references": total.references, "dereferences": total.dereferences, "caps": total.caps, "restarts": total.restarts,
		"referenced_versions_opened": total.versionsOpened, "referenced_versions_opened_from_disk": total.versionsFromDisk})
	c.SetExtra("root_table", map[string]interface{}{"distinct_contents": contents, "contents_reached_again_by_another_history": revisits, "per_table": tabNames})
	if total.proofLenDrift > 0 {
		c.Drift("proof length differs from the specification's on %d prove steps of structural universes (embedding rule), e.g. %s", total.proofLenDrift, total.driftExample)
	}
}
