package c10

import (
	"fmt"
	"runtime/debug"
)

// freeWalk is a model-free seeded random walk over a larger key universe: the reference
// is a plain Go map (content), the oracle is the same observe() as for model behaviours.
func freeWalk(in *inst, steps int) (trace []string, mis *mismatch) {
	defer func() {
		if r := recover(); r != nil {
			mis = mm("panic", "the trie code panicked: %v\n%s", r, trimStack(debug.Stack()))
		}
	}()
	if err := in.reset(); err != nil {
		return nil, mm("reopen-error", "cannot create an empty trie: %v", err)
	}
	nk, nv := len(in.uni.keys), len(in.uni.vals)
	content := make([]int, nk)
	synced := "none" // as in the specification: where the current root can be resolved
	rng := in.rng
	// phases with different insert/delete bias so that the trie grows and shrinks
	for s := 0; s < steps; s++ {
		grow := (s/150)%3 != 2
		a := &action{}
		r := rng.Intn(100)
		switch {
		case r < 42:
			a.Op, a.K = "update", 1+rng.Intn(nk)
			a.V = 1 + rng.Intn(nv)
			if !grow && rng.Intn(3) > 0 {
				a.V = 0
			}
		case r < 58:
			a.Op, a.K = "delete", 1+rng.Intn(nk)
			if grow && rng.Intn(2) == 0 {
				a.Op, a.V = "update", 1+rng.Intn(nv)
			}
		case r < 63:
			a.Op, a.K = "get", 1+rng.Intn(nk)
		case r < 70:
			a.Op = "hash"
		case r < 82:
			a.Op = "commit"
		case r < 88:
			a.Op = "flush"
		case r < 95:
			a.Op = "reopen"
		default:
			a.Op = "reopendisk"
		}
		// make the step legal the way the specification's guards do
		var pre []string
		switch a.Op {
		case "flush":
			if synced == "none" {
				pre = []string{"commit"}
			}
			if synced == "disk" {
				a.Op = "hash"
			}
		case "reopen":
			if synced == "none" {
				pre = []string{"commit"}
			}
		case "reopendisk":
			if synced == "none" {
				pre = []string{"commit", "flush"}
			} else if synced == "mem" {
				pre = []string{"flush"}
			}
		}
		for _, op := range append(pre, "") {
			b := a
			if op != "" {
				b = &action{Op: op}
			}
			switch b.Op {
			case "update":
				if content[b.K-1] != b.V {
					synced = "none"
				}
				content[b.K-1] = b.V
			case "delete":
				if content[b.K-1] != 0 {
					synced = "none"
				}
				content[b.K-1] = 0
			case "get":
				b.resInt = content[b.K-1]
			case "commit":
				if synced == "none" {
					synced = "mem"
				}
			case "flush":
				synced = "disk"
			}
			trace = append(trace, fmt.Sprintf(`{"op":%q,"k":%d,"v":%d}`, b.Op, b.K, b.V))
			if mis = in.apply(b, content); mis != nil {
				return
			}
			if mis = in.observe(content); mis != nil {
				return
			}
		}
	}
	return trace, nil
}
