package c10

import (
	"bufio"
	"encoding/json"
	"fmt"
	"io/ioutil"
	"math/rand"
	"os"
	"path/filepath"
	"strings"
	"time"

	"verifh/core"
)

// famJob is one replay unit of the copy / versions families. It is executed in a process of
// its own (core.RunChild): libs/ser takes one global lock per encoded interface value, so
// replay jobs inside one process hardly run in parallel.
type famJob struct {
	Family string    `json:"family"`
	Model  string    `json:"model,omitempty"` // "": model-free random walk
	Meta   modelMeta `json:"meta"`
	Uni    int       `json:"uni"` // index into universesFor(Meta) / bigUniverses()
	Kind   string    `json:"kind"`
	Limit  uint16    `json:"limit"`
	Direct bool      `json:"direct"`
	// CopyBatch: the batches of the disk database copy keys and values (LevelDB-like);
	// otherwise they keep the slices they are given (MemDB as it is; Bolt and Badger do the same)
	CopyBatch bool        `json:"copy_batch"`
	Beh       [][]famStep `json:"beh,omitempty"`
	Steps     int         `json:"steps,omitempty"` // model-free: number of steps
	Idx       int         `json:"idx"`

	uni *universe
}

func (j *famJob) universe() *universe {
	if j.uni == nil {
		if j.Model == "" {
			j.uni = bigUniverses()[j.Uni]
		} else {
			j.uni = universesFor(&j.Meta)[j.Uni]
		}
	}
	return j.uni
}

func (j *famJob) describe() map[string]interface{} {
	u := j.universe()
	d := map[string]interface{}{"family": j.Family, "trie": j.Kind, "universe": u.name, "keys_hex": hexList(u.keys), "values_hex": hexList(u.vals),
		"cache_limit": j.Limit, "observe_through_copy": !j.Direct, "disk_batches_copy": j.CopyBatch}
	if j.Model != "" {
		d["model"] = j.Model
	}
	return d
}

func (j *famJob) exec(tabs *tables, seed int64) *famExec {
	u := j.universe()
	tabName := j.Family + "/" + u.name
	if j.Model != "" {
		tabName = j.Model + "/" + u.name
	}
	return &famExec{family: j.Family, kind: j.Kind, uni: u, limit: j.Limit, direct: j.Direct, copyBatch: j.CopyBatch,
		tab: tabs.get(j.Kind, tabName), rng: rand.New(rand.NewSource(seed*7919 + 100003*int64(j.Idx+1)))}
}

// replayFam executes one exported behaviour on a fresh executor state. corrupt >= 0:
// the expectation is corrupted at that step (negative control).
func replayFam(x *famExec, nvals int, steps []famStep, corrupt int) (done int, mis *mismatch, infra string) {
	if err := x.reset(); err != nil {
		return 0, mm("reopen-error", "cannot create an empty trie: %v", err), ""
	}
	for pi := range steps {
		s := &steps[pi]
		a := s.A
		if pi == corrupt {
			// the executor is told a wrong expectation for the step: one value of the content of
			// the handle NOT written / of the oldest version is changed beforehand
			if x.family == "copy" {
				k := 1
				if a.H == 2 || !x.live[1] {
					k = 0
				}
				x.content[k][pi%len(x.content[k])] = (x.content[k][pi%len(x.content[k])] + 1) % (nvals + 1)
			} else if len(x.vers) > 0 {
				c := append([]int{}, x.vers[0].content...)
				c[pi%len(c)] = (c[pi%len(c)] + 1) % (nvals + 1)
				x.vers[0].content = c
			}
		}
		done = pi + 1
		if mis = x.step(&a); mis != nil {
			return
		}
		if corrupt < 0 {
			if d := x.agree(&s.To); d != "" {
				return done, nil, fmt.Sprintf("step %d %s: the executor's expectation and the model's state differ: %s", pi, a.String(), d)
			}
		}
	}
	if corrupt < 0 && len(steps) > 0 {
		mis = x.epilogue(steps[len(steps)-1].To.Cmt)
		done = len(x.history)
	}
	return
}

// runActions executes a recorded action list from scratch (differential replay, --replay).
func runActions(x *famExec, actions []string) (done int, mis *mismatch) {
	if err := x.reset(); err != nil {
		return 0, mm("reopen-error", "cannot create an empty trie: %v", err)
	}
	for i, as := range actions {
		var a famAction
		if err := json.Unmarshal([]byte(as), &a); err != nil {
			return i, mm("bad-action", "action %q: %v", as, err)
		}
		done = i + 1
		if mis = x.step(&a); mis != nil {
			return
		}
	}
	return
}

// freeFam is a model-free seeded random walk of a family over a larger key universe; the
// executor's own bookkeeping is the reference.
func freeFam(x *famExec, steps int) (mis *mismatch) {
	if err := x.reset(); err != nil {
		return mm("reopen-error", "cannot create an empty trie: %v", err)
	}
	nk, nv := len(x.uni.keys), len(x.uni.vals)
	rng := x.rng
	synced := [2]bool{true, true} // the handle's current root was committed (the empty trie needs no commit)
	do := func(a *famAction) bool {
		mis = x.step(a)
		return mis == nil
	}
	write := func(h int, grow bool) *famAction {
		a := &famAction{Op: "update", H: h + 1, K: 1 + rng.Intn(nk), V: 1 + rng.Intn(nv)}
		if !grow && rng.Intn(3) > 0 {
			a.V = 0
		}
		if rng.Intn(6) == 0 {
			a.Op, a.V = "delete", 0
		}
		return a
	}
	for s := 0; s < steps && mis == nil; s++ {
		grow := (s/120)%3 != 2
		r := rng.Intn(100)
		if x.family == "copy" {
			h := 0
			if x.live[1] && rng.Intn(2) == 0 {
				h = 1
			}
			switch {
			case r < 50:
				a := write(h, grow)
				synced[h] = false
				do(a)
			case r < 56:
				do(&famAction{Op: "get", H: h + 1, K: 1 + rng.Intn(nk)})
			case r < 64:
				do(&famAction{Op: "hash", H: h + 1})
			case r < 76:
				synced[h] = true
				do(&famAction{Op: "commit", H: h + 1})
			case r < 82:
				if !synced[h] {
					synced[h] = true
					if !do(&famAction{Op: "commit", H: h + 1}) {
						return
					}
				}
				do(&famAction{Op: "reopen", H: h + 1})
			default:
				synced[1-h] = synced[h]
				do(&famAction{Op: "copy", H: 2 - h, S: h + 1})
			}
			continue
		}
		// versions
		commit := func() bool {
			synced[0] = true
			return do(&famAction{Op: "commit"})
		}
		pick := func() []int { return append([]int{}, x.vers[rng.Intn(len(x.vers))].content...) }
		switch {
		case r < 42:
			synced[0] = false
			a := write(0, grow)
			a.H = 0
			do(a)
		case r < 50:
			commit()
		case r < 66: // a new version (sometimes of the unchanged content, sometimes changed and changed back)
			if len(x.vers) >= 4 {
				continue
			}
			if rng.Intn(4) == 0 && !isEmpty(x.content[0]) {
				for i, v := range x.content[0] {
					if v != 0 {
						if !do(&famAction{Op: "update", K: i + 1, V: v%nv + 1}) || !do(&famAction{Op: "update", K: i + 1, V: v}) {
							return
						}
						break
					}
				}
			}
			if !commit() {
				return
			}
			do(&famAction{Op: "reference"})
		case r < 78:
			if len(x.vers) == 0 {
				continue
			}
			m := pick()
			n := 0
			for _, v := range x.vers {
				if sameInts(v.content, m) {
					n++
				}
			}
			if sameInts(m, x.base) && n < 2 {
				continue // no open trie is based on a version that is given up
			}
			do(&famAction{Op: "dereference", M: m})
		case r < 84:
			if len(x.vers) > 0 && rng.Intn(3) > 0 {
				do(&famAction{Op: "flush", M: pick()})
			} else if synced[0] && !isEmpty(x.content[0]) {
				do(&famAction{Op: "flush", M: append([]int{}, x.content[0]...)})
			}
		case r < 90:
			do(&famAction{Op: "cap", N: 1})
		case r < 92:
			do(&famAction{Op: "cap", N: 0})
		case r < 98:
			if len(x.vers) == 0 {
				continue
			}
			m := pick()
			synced[0] = true
			do(&famAction{Op: "open", M: m})
		default:
			synced[0] = true
			do(&famAction{Op: "restart"})
		}
	}
	if mis == nil {
		mis = x.epilogue(synced[0])
	}
	return
}

// famOut is what a child process reports about its job.
type famOut struct {
	Stats        map[string]int    `json:"stats"`
	DriftExample string            `json:"drift_example,omitempty"`
	Behaviours   int               `json:"behaviours"`
	Nontrivial   int               `json:"nontrivial"`
	StepsOfTour  int               `json:"steps_of_tour"`
	Sample       interface{}       `json:"sample,omitempty"`
	Viol         *core.Violation   `json:"viol,omitempty"`
	Notes        []*core.Violation `json:"notes,omitempty"`
	Infra        string            `json:"infra,omitempty"`
	Wall         float64           `json:"wall"`
}

func (s *stats) toMap() map[string]int {
	return map[string]int{"steps": s.steps, "gets": s.gets, "roots": s.roots, "proofs": s.proofs, "tampers": s.tampers, "crossRoot": s.crossRoot,
		"iters": s.iters, "leafProofs": s.leafProofs, "oldRoots": s.oldRoots, "emptyProofRejected": s.emptyProofRejected, "proofLenDrift": s.proofLenDrift,
		"proofsSeenBefore": s.proofsSeenBefore, "copies": s.copies, "handleObs": s.handleObs, "references": s.references, "dereferences": s.dereferences,
		"caps": s.caps, "restarts": s.restarts, "versionsOpened": s.versionsOpened, "versionsFromDisk": s.versionsFromDisk}
}

func statsFromMap(m map[string]int, example string) stats {
	return stats{steps: m["steps"], gets: m["gets"], roots: m["roots"], proofs: m["proofs"], tampers: m["tampers"], crossRoot: m["crossRoot"],
		iters: m["iters"], leafProofs: m["leafProofs"], oldRoots: m["oldRoots"], emptyProofRejected: m["emptyProofRejected"], proofLenDrift: m["proofLenDrift"],
		proofsSeenBefore: m["proofsSeenBefore"], copies: m["copies"], handleObs: m["handleObs"], references: m["references"], dereferences: m["dereferences"],
		caps: m["caps"], restarts: m["restarts"], versionsOpened: m["versionsOpened"], versionsFromDisk: m["versionsFromDisk"], driftExample: example}
}

// batchAliasing: a violation seen on a disk whose batches keep the key and value slices
// they are given is re-executed on a disk whose batches copy them. If it does not show
// there, it is reported under ONE key: the Database hands a batch slices of memory it
// overwrites before the batch is written.
func batchAliasing(j *famJob, x *famExec, seed int64, m *mismatch, trace []string) *mismatch {
	if j.CopyBatch || j.Family != "versions" {
		return m
	}
	j2 := *j
	j2.CopyBatch = true
	y := j2.exec(&tables{m: map[string]*rootTable{}}, seed)
	if _, m2 := runActions(y, trace); m2 != nil {
		return m // not a matter of the batches
	}
	return mm("versions/batch-key-aliasing", "with a disk database whose batches keep the slices they are given until they are written (libs/db MemDB, Bolt, Badger; "+
		"dbm.SetDeleter: \"CONTRACT: key, value readonly []byte\") the behaviour fails, with batches that copy them (LevelDB) it does not: %s", m.text)
}

// runFamJob executes a job in this process.
func runFamJob(seed int64, j *famJob) (out *famOut) {
	out = &famOut{}
	t0 := time.Now()
	tabs := &tables{m: map[string]*rootTable{}}
	x := j.exec(tabs, seed)
	var acc stats
	fail := func(m *mismatch, trace []string) {
		rec := j.describe()
		rec["actions"] = trace
		rec["mismatch"] = m.text
		out.Viol = &core.Violation{Key: m.class + "/" + j.Kind, Desc: fmt.Sprintf("%s trie, universe %s, cache limit %d: %s", j.Kind, j.universe().name, j.Limit, m.text), Record: rec}
	}
	defer func() {
		acc.add(&x.st)
		out.Stats, out.DriftExample = acc.toMap(), acc.driftExample
		for _, n := range x.notes {
			rec := j.describe()
			rec["actions"] = []string{}
			rec["mismatch"] = n.text
			out.Notes = append(out.Notes, &core.Violation{Key: n.class + "/" + j.Kind, Desc: fmt.Sprintf("%s trie: %s", j.Kind, n.text), Record: rec})
		}
		out.Wall = time.Since(t0).Seconds()
	}()
	// a violation that is a matter of the disk's batches is recorded; the job goes on with
	// batches that copy, so that everything else is still compared
	aliasing := func(m *mismatch) bool {
		m2 := batchAliasing(j, x, seed, m, append([]string{}, x.history...))
		if m2 == m {
			return false
		}
		rec := j.describe()
		rec["actions"] = append([]string{}, x.history...)
		rec["mismatch"] = m2.text
		out.Notes = append(out.Notes, &core.Violation{Key: m2.class + "/" + j.Kind, Desc: fmt.Sprintf("%s trie, universe %s: %s", j.Kind, j.universe().name, m2.text), Record: rec})
		acc.add(&x.st)
		j.CopyBatch = true
		notes := x.notes
		x = j.exec(tabs, seed)
		x.notes = notes
		return true
	}
	if j.Model == "" {
		left := j.Steps
		for left > 0 {
			m := freeFam(x, left)
			out.Behaviours, out.Nontrivial = out.Behaviours+1, out.Nontrivial+1
			if out.Sample == nil && len(x.history) > 12 {
				d := j.describe()
				d["behaviour_prefix"] = append([]string{}, x.history[:12]...)
				out.Sample = d
			}
			left -= len(x.history)
			if m == nil {
				break
			}
			if !aliasing(m) {
				fail(m, append([]string{}, x.history...))
				break
			}
		}
		return out
	}
	for bi := 0; bi < len(j.Beh); bi++ {
		steps := j.Beh[bi]
		done, m, infra := replayFam(x, len(j.Meta.VLen), steps, -1)
		out.Behaviours++
		for _, s := range steps {
			if s.A.Op == "copy" || s.A.Op == "reference" {
				out.Nontrivial++
				break
			}
		}
		if out.Sample == nil && len(x.history) > 12 {
			d := j.describe()
			d["behaviour_prefix"] = append([]string{}, x.history[:12]...)
			out.Sample = d
		}
		if infra != "" {
			out.Infra = fmt.Sprintf("model %s, behaviour %v: %s", j.Model, x.history, infra)
			break
		}
		if m != nil {
			if aliasing(m) {
				bi-- // once more, on a disk whose batches copy
				continue
			}
			fail(m, append([]string{}, x.history[:done]...))
			break
		}
	}
	return out
}

// famChild is the entry point of a child process: c.Child = "fam:<job file>".
func famChild(c *core.Ctx) {
	b, err := ioutil.ReadFile(strings.TrimPrefix(c.Child, "fam:"))
	if err != nil {
		fmt.Fprintln(os.Stderr, "job file:", err)
		os.Exit(3)
	}
	var j famJob
	if err := json.Unmarshal(b, &j); err != nil {
		fmt.Fprintln(os.Stderr, "job file:", err)
		os.Exit(3)
	}
	for bi := range j.Beh {
		for si := range j.Beh[bi] {
			if err := j.Beh[bi][si].To.decode(j.Family); err != nil {
				fmt.Fprintln(os.Stderr, "job file:", err)
				os.Exit(3)
			}
		}
	}
	out := runFamJob(c.Seed, &j)
	w := bufio.NewWriter(os.Stdout)
	ob, _ := json.Marshal(out)
	fmt.Fprintf(w, "RESULT %s\nDONE\n", ob)
	w.Flush()
}

// runFamChild writes the job file, runs the child process and turns its report into a
// jobResult.
func runFamChild(c *core.Ctx, j *famJob, dir string) *jobResult {
	res := &jobResult{}
	t0 := time.Now()
	defer func() { res.wall = time.Since(t0).Seconds() }()
	b, err := json.Marshal(j)
	if err != nil {
		c.Infra("family job %d: %v", j.Idx, err)
		return res
	}
	path := filepath.Join(dir, fmt.Sprintf("job%d.json", j.Idx))
	if err := ioutil.WriteFile(path, b, 0600); err != nil {
		c.Infra("family job %d: %v", j.Idx, err)
		return res
	}
	defer os.Remove(path)
	j.Beh = nil // (the child has them now)
	results, _, crash := c.RunChild("fam:"+path, c.MinutesT(4, 25))
	if crash != "" {
		c.Infra("family job %v: %s", j.describe(), crash)
		return res
	}
	if len(results) != 1 {
		c.Infra("family job %v: %d result lines", j.describe(), len(results))
		return res
	}
	var out famOut
	if err := json.Unmarshal([]byte(results[0]), &out); err != nil {
		c.Infra("family job %v: %v", j.describe(), err)
		return res
	}
	if out.Infra != "" {
		c.Infra("%s", out.Infra)
	}
	res.st = statsFromMap(out.Stats, out.DriftExample)
	res.behaviours, res.nontrivial, res.sample, res.viol, res.notes = out.Behaviours, out.Nontrivial, out.Sample, out.Viol, out.Notes
	return res
}

// famNegativeControl: the binding of a family is not vacuous. A behaviour in which the
// expectation for the handle NOT written / for a referenced version is off by one value at
// one step must be rejected at exactly that step.
func famNegativeControl(c *core.Ctx, m *famModel) {
	rng := rand.New(rand.NewSource(c.Seed))
	var seq []int
	at := -1
	for _, w := range m.g.Walks(600, 30, rng) {
		for i, ei := range w {
			st := &m.states[m.g.Edges[ei].From]
			a := &m.acts[ei]
			if m.family == "copy" && st.Two && (a.Op == "update" || a.Op == "hash" || a.Op == "commit") && i > 3 {
				seq, at = w[:i+1], i
				break
			}
			if m.family == "versions" && len(st.V) > 0 && i > 3 && (a.Op == "update" || a.Op == "commit" || a.Op == "reference") && !isEmpty(st.V[0].M) {
				seq, at = w[:i+1], i
				break
			}
		}
		if seq != nil {
			break
		}
	}
	if seq == nil {
		c.Infra("negative control (%s): no suitable behaviour found", m.family)
		return
	}
	steps := m.steps(seq)
	for _, kind := range []string{"plain", "secure"} {
		j := &famJob{Family: m.family, Model: m.name, Meta: m.meta, Uni: 0, Kind: kind, Limit: 1, CopyBatch: true}
		x := j.exec(&tables{m: map[string]*rootTable{}}, c.Seed)
		if _, mis, infra := replayFam(x, len(m.meta.VLen), steps, -1); mis != nil || infra != "" {
			return // the real run reports it
		}
		x = j.exec(&tables{m: map[string]*rootTable{}}, c.Seed)
		done, mis, _ := replayFam(x, len(m.meta.VLen), steps, at)
		if mis == nil || done != at+1 {
			c.Infra("vacuous binding (%s family): a behaviour with a corrupted expectation at step %d was accepted (%s trie; stopped at %d, %v)", m.family, at, kind, done, mis)
			return
		}
	}
	c.SetExtra("negative_control_"+m.family, fmt.Sprintf("a behaviour of %d steps with one value of %s changed at the last step: rejected at that step (plain and secure)",
		len(seq), map[string]string{"copy": "the expected content of the handle that is not written", "versions": "the expected content of a referenced version"}[m.family]))
}
