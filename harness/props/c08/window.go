package c08

// The admission window on the REAL stack.
//
// TxAuth.tla splits mempool.AddTx into its two linearisation points (AdmitPut: cache.Put
// with BasicChecked=false, before the basic check; AdmitVerdict: flag set / entry removed)
// and lets BlockVerify run at any time, in particular between the two. This file replays
// the part of the exported graph that a node can execute - content changes (Mutate,
// MutateSig, Sign), AdmitPut, AdmitVerdict, BlockVerify - on the real application:
//
//	mempool.NewMempool + LinkApplication built by harness/appx from the public APIs;
//	the mempool's App is a thin wrapper around the real application that can hold the
//	basic check (CheckTx(tx, BasicCheck)) of ONE chosen transaction hash at a gate -
//	either before the real check starts or after it has run but before its verdict is
//	returned to AddTx - so that AddTx sits exactly between its two linearisation points;
//	BlockVerify = the real LinkApplication.CheckBlock on a freshly decoded block that
//	carries the wire copy of the current transaction (header completed by the real
//	PreRunBlock, every block with its own hash so that no process result is reused).
//
// pi_prop: accept/reject of block processing (CheckBlock) and of admission (AddTx) against
// the model's `accept` / `ok`. Families: Transaction, TokenTransaction, account->confidential
// deposit (account signature; a cache hit re-derives the sender from the pooled object),
// confidential spend (ring signature; a hit skips CheckBasic), MultiSignAccountTx (validator
// signature; a hit skips VerifySign). Every family runs in its own child process.

import (
	"bufio"
	"crypto/ecdsa"
	"encoding/json"
	"fmt"
	"io/ioutil"
	"math/big"
	"math/rand"
	"os"
	"path/filepath"
	"sort"
	"strings"
	"sync"
	"time"

	"github.com/lianxiangcloud/linkchain/libs/common"
	lkt "github.com/lianxiangcloud/linkchain/libs/cryptonote/types"
	"github.com/lianxiangcloud/linkchain/libs/ser"
	"github.com/lianxiangcloud/linkchain/types"

	"verifh/appx"
	"verifh/core"
	"verifh/mbt"
)

// ---- job / result ------------------------------------------------------------------

type winJob struct {
	Window  bool     `json:"window"`
	Family  string   `json:"family"`
	Edges   string   `json:"edges"`
	NFields int      `json:"nfields"`
	Max     int      `json:"max"`    // upper bound on behaviours replayed (0: the whole tour)
	Walks   int      `json:"walks"`  // additional seeded random walks
	Only    []int    `json:"only"`   // replay of a recorded violation: this edge sequence only
	Gate    string   `json:"gate"`   // ... with this gate position
	Fields  []string `json:"fields"` // ... and these concrete fields standing for the abstract ones
}

type winResult struct {
	Family                        string
	Kind                          string
	Behaviours, Steps, Nontrivial int
	Edges, EdgesCovered           int
	BlockChecks                   map[string][2]int // cache state -> {accepted, rejected}
	Admitted, Refused             int
	GateBefore, GateAfter         int
	CacheProbes, Settled, Boots   int
	ControlCaught                 bool
	ControlKeys                   []string
	Findings                      []finding
	Drift                         []string
	Sample                        interface{}
	Err                           string
	Secs                          float64
}

func (r *winResult) add(f finding) {
	for i, o := range r.Findings {
		if o.Key == f.Key {
			if traceLen(f) < traceLen(o) {
				r.Findings[i] = f
			}
			return
		}
	}
	r.Findings = append(r.Findings, f)
}

// ---- the gate ---------------------------------------------------------------------

// gateApp is the mempool's view of the application (mempool.App). Everything is handed to
// the real LinkApplication; the basic check of one armed transaction hash waits at a gate.
type gateApp struct {
	inner interface {
		GetNonce(common.Address) uint64
		GetBalance(common.Address) *big.Int
		CheckTx(types.Tx, bool) error
	}
	mu       sync.Mutex
	armed    map[common.Hash]*gate
	sabotage bool // negative control only: the basic check approves everything
}

type gate struct {
	after   bool // hold after the real check has run (verdict computed, not yet returned)
	entered chan struct{}
	release chan struct{}
}

func (g *gateApp) GetNonce(a common.Address) uint64     { return g.inner.GetNonce(a) }
func (g *gateApp) GetBalance(a common.Address) *big.Int { return g.inner.GetBalance(a) }
func (g *gateApp) CheckTx(tx types.Tx, basic bool) error {
	if !basic {
		return g.inner.CheckTx(tx, basic)
	}
	g.mu.Lock()
	gt := g.armed[tx.Hash()]
	delete(g.armed, tx.Hash())
	g.mu.Unlock()
	if gt == nil {
		return g.inner.CheckTx(tx, true)
	}
	if gt.after {
		err := g.inner.CheckTx(tx, true)
		if g.sabotage {
			err = nil
		}
		gt.entered <- struct{}{}
		<-gt.release
		return err
	}
	gt.entered <- struct{}{}
	<-gt.release
	if g.sabotage {
		return nil
	}
	return g.inner.CheckTx(tx, true)
}

func (g *gateApp) arm(h common.Hash, after bool) *gate {
	gt := &gate{after: after, entered: make(chan struct{}), release: make(chan struct{})}
	g.mu.Lock()
	g.armed[h] = gt
	g.mu.Unlock()
	return gt
}

const gateWatchdog = 60 * time.Second // a dead driver is infrastructure, never an ordering device

// ---- content of a family ----------------------------------------------------------------

// winContent produces the current transaction of a behaviour (what travels the network).
type winContent interface {
	begin(run int) error                    // the owner's original, correctly authorised transaction
	apply(a *mAct, to *mState) error        // mutate / mutsig / sign
	current() (types.Tx, []byte, error)     // a freshly decoded object of the current bytes
	describe() map[string]interface{}       // concrete instantiation for records
	admitted(tx types.Tx)                   // the mempool accepted this transaction
	finish(w *winWorld, r *winResult) error // after the behaviour (settling, bookkeeping)
}

type winFamily struct {
	letter   string
	kindName string
	mode     string // what a cache hit means in block verification
	sigs     map[string]bool
	signK    map[string]bool
	signP    map[string]bool
}

var winFamilies = map[string]*winFamily{
	"T":  {letter: "T", kindName: "Transaction", mode: "rederive", sigs: secpClasses, signK: bothKeys, signP: bothParams},
	"K":  {letter: "K", kindName: "TokenTransaction", mode: "rederive", sigs: secpClasses, signK: bothKeys, signP: bothParams},
	"UA": {letter: "UA", kindName: "UTXOTransaction(account input)", mode: "rederive", sigs: secpClasses, signK: bothKeys, signP: bothParams},
	"UR": {letter: "UR", kindName: "UTXOTransaction(confidential spend)", mode: "trust", sigs: map[string]bool{"r0": true, "s0": true, "flipv": true}, signK: ownerOnly, signP: thisChain},
	"M":  {letter: "M", kindName: "MultiSignAccountTx", mode: "trust", sigs: map[string]bool{"r0": true, "s0": true, "rN": true, "sN": true, "highS": true, "flipv": true}, signK: ownerOnly, signP: thisChain},
}

var (
	// "strip" (V := 27/28) is the known finding legacy-v-unbound-chain-param: the code accepts it, the designed model does not
	secpClasses = map[string]bool{"r0": true, "s0": true, "rN": true, "sN": true, "highS": true, "flipv": true, "vout": true, "reparam": true}
	bothKeys    = map[string]bool{"k1": true, "k2": true}
	ownerOnly   = map[string]bool{"k1": true}
	bothParams  = map[string]bool{"p0": true, "p1": true}
	thisChain   = map[string]bool{"p0": true}
)

func (f *winFamily) keep(a *mAct) bool {
	switch a.Op {
	case "mutate", "admitput", "admitverdict":
		return true
	case "mutsig":
		return f.sigs[a.C]
	case "sign":
		return f.signK[a.K] && f.signP[a.P]
	case "blockverify":
		return !a.Hit || a.M == f.mode
	}
	return false
}

// ---- the world of one child ---------------------------------------------------------------

type winWorld struct {
	fam    *winFamily
	env    *appx.Env
	gate   *gateApp
	rng    *rand.Rand
	seed   int64
	dir    string
	blkSeq uint64
	nf     int
	fields []string // replay of a recorded violation: the concrete fields to use
}

const (
	winAcctBase  = 700000 // appx.NewAccount seeds of the per-behaviour accounts
	winMaxHeight = 1200   // families that commit blocks start a fresh chain here (types.DefaultCoefficient().VotePeriod = 1321)
)

var winToken = common.BigToAddress(big.NewInt(0x70c1))

func (w *winWorld) acct(run int, which int) *appx.Account {
	return appx.NewAccount(int64(winAcctBase + 2*run + which))
}

func bootWindow(fam *winFamily, runs int, seed int64, rng *rand.Rand) (*winWorld, error) {
	dir, err := ioutil.TempDir("", "vc08w")
	if err != nil {
		return nil, err
	}
	w := &winWorld{fam: fam, rng: rng, seed: seed, dir: dir}
	var allocs []appx.Alloc
	switch fam.letter {
	case "T", "K", "UA":
		for i := 0; i < runs; i++ {
			for j := 0; j < 2; j++ {
				al := appx.Alloc{Addr: w.acct(i, j).Addr, Balance: appx.LKC(1000)}
				if fam.letter == "K" {
					al.Tokens = map[common.Address]*big.Int{winToken: appx.LKC(50)}
				}
				allocs = append(allocs, al)
			}
		}
	case "UR":
		allocs = append(allocs, appx.Alloc{Addr: appx.NewAccount(winAcctBase - 1).Addr, Balance: appx.LKC(100000000)})
	}
	allocs = append(allocs, appx.Alloc{Addr: appx.NewAccount(winAcctBase - 2).Addr, Balance: appx.LKC(10)})
	dbs := appx.NewMemDBs(filepath.Join(dir, "db"))
	isTrie := seed%2 == 0
	if err := appx.InitGenesis(dbs, isTrie, allocs); err != nil {
		return nil, fmt.Errorf("genesis: %v", err)
	}
	mc := appx.MempoolConfig()
	mc.Size = 100000
	mc.SpecSize = 100000
	mc.UTXOSize = 100000
	e, err := appx.Boot(dbs, isTrie, mc)
	if err != nil {
		return nil, fmt.Errorf("boot: %v", err)
	}
	w.env = e
	w.gate = &gateApp{inner: e.App, armed: map[common.Hash]*gate{}}
	e.MP.SetApp(w.gate)
	return w, nil
}

func (w *winWorld) close() {
	if w.env != nil {
		w.env.Stop()
	}
	os.RemoveAll(w.dir)
}

// checkBlock is BlockVerify: the wire copy of the transaction in a block of its own, header
// completed the way a proposer does, received (decoded afresh) and checked by the application.
func (w *winWorld) checkBlock(tx types.Tx) (accepted bool, prerun string, err error) {
	h := w.env.App.Height() + 1
	blk := w.env.MakeBlock(h, types.Txs{tx})
	w.blkSeq++
	blk.Header.Time += w.blkSeq                      // its own hash: LinkApplication keeps one process result per block hash
	blk.Header.ParentHash = w.env.App.Block().Hash() // (the application's current block: its hash moves when CommitBlock sets the bloom after saving)
	func() {
		defer func() {
			if x := recover(); x != nil {
				prerun = fmt.Sprint(x) // the proposer cannot execute it: the header stays incomplete
			}
		}()
		w.env.App.PreRunBlock(blk)
	}()
	rb, _, err := appx.Redecode(blk)
	if err != nil {
		return false, prerun, fmt.Errorf("block does not survive the wire: %v", err)
	}
	func() {
		defer func() {
			if x := recover(); x != nil {
				err = fmt.Errorf("CheckBlock panics: %v", x)
			}
		}()
		accepted = w.env.App.CheckBlock(rb)
	}()
	return accepted, prerun, err
}

// ---- families built on the object-level runner (secp256k1 / validator signatures) ----------

type runnerContent struct {
	w        *winWorld
	r        *runner
	stats    jobStats
	harmless []int // concrete field indexes that may change without making the content state-invalid
	prepare  func(c *runnerContent, run int) error
	madeUp   bool
	didAdmit bool
}

func (c *runnerContent) begin(run int) error {
	c.didAdmit = false
	if err := c.prepare(c, run); err != nil {
		return err
	}
	if c.w.nf > len(c.harmless) {
		return fmt.Errorf("harness: %d abstract fields but only %d concrete fields of %s can change without making the content unexecutable", c.w.nf, len(c.harmless), c.w.fam.kindName)
	}
	r := c.r
	r.fmap = make([]int, c.w.nf)
	r.forceAlt = map[int]int{}
	for i := range r.fmap {
		r.fmap[i] = c.harmless[(run+i)%len(c.harmless)]
		if i < len(c.w.fields) {
			for fi, n := range r.k.Fields() {
				if n == c.w.fields[i] {
					r.fmap[i] = fi
				}
			}
		}
		r.forceAlt[r.fmap[i]] = 1
	}
	names := []string{}
	for _, f := range r.fmap {
		names = append(names, r.k.Fields()[f])
	}
	r.inst = map[string]interface{}{"abstract_fields": names, "p0": r.p["p0"].String(), "p1": r.p["p1"].String(),
		"k1": r.env.addrs["k1"].Hex(), "k2": r.env.addrs["k2"].Hex()}
	return r.start()
}

func (c *runnerContent) apply(a *mAct, to *mState) error {
	r := c.r
	switch a.Op {
	case "mutate":
		cf := r.fmap[a.F-1]
		if r.val[cf] != 0 {
			r.val[cf] = 0
		} else {
			r.val[cf] = r.forceAlt[cf]
		}
		return r.decodeWire()
	case "mutsig":
		r.sg = r.concretize(to.Sig)
		if km, isM := r.k.(*kindM); isM && to.Sig.Rec == "flip" && c.madeUp {
			// "the wrong key": a signature made by a key that is not the validator's, labelled with the validator's address
			mi := km.content(r.val)
			t := types.NewMultiSignAccountTx(&mi, nil)
			if err := t.Sign(types.NewMockPV()); err != nil {
				return err
			}
			r.sg = vrs{Addr: r.ts.Addr, Raw: t.Signatures[0].Signature}.clone()
		}
		return r.decodeWire()
	case "sign":
		return r.signInPlace(a.K, a.P)
	}
	return fmt.Errorf("not a content step: %s", a.Op)
}

func (c *runnerContent) current() (types.Tx, []byte, error) {
	b, err := c.r.k.Encode(c.r.obj)
	if err != nil {
		return nil, nil, err
	}
	o, err := c.r.k.Decode(b)
	if err != nil {
		return nil, nil, err
	}
	return o.(types.Tx), b, nil
}

func (c *runnerContent) describe() map[string]interface{} {
	return map[string]interface{}{"instantiation": c.r.inst, "field_values": c.r.valString(), "signature_on_wire": c.r.sg.String()}
}
func (c *runnerContent) admitted(types.Tx) { c.didAdmit = true }
func (c *runnerContent) finish(w *winWorld, res *winResult) error {
	if _, isM := c.r.k.(*kindM); !isM || !c.didAdmit {
		return nil
	}
	// the multi-sign nonce is one global account: commit what was admitted so that the next
	// behaviour starts from a mempool and a check state that agree with the chain again
	if _, err := settle(w); err != nil {
		return err
	}
	res.Settled++
	return nil
}

func settle(w *winWorld) (b *types.Block, err error) {
	defer func() {
		if x := recover(); x != nil {
			err = fmt.Errorf("committing the admitted transaction: %v", x)
		}
	}()
	return w.env.ProposeCheckCommit(1000)
}

func newRunnerContent(w *winWorld) (*runnerContent, error) {
	c := &runnerContent{w: w}
	ops := otherParams()
	p1 := ops[int(w.seed)%len(ops)]
	c.r = &runner{rng: w.rng, stats: &c.stats, p: map[string]*big.Int{"p0": types.SignParam, "p1": p1}}
	envFor := func(run int) *kindEnv {
		a1, a2 := w.acct(run, 0), w.acct(run, 1)
		e := &kindEnv{keys: map[string]*ecdsa.PrivateKey{"k1": a1.Key, "k2": a2.Key}, addrs: map[string]common.Address{"k1": a1.Addr, "k2": a2.Addr},
			pvs: map[string]*types.MockPV{}, cen: &stubCensor{}}
		return e
	}
	switch w.fam.letter {
	case "T":
		amount := new(big.Int).Add(appx.LKC(2), big.NewInt(5))
		if appx.TransferGas(amount) != appx.TransferGas(new(big.Int).Add(amount, big.NewInt(1))) {
			return nil, fmt.Errorf("harness: the alternative value needs another gas limit")
		}
		k := &kindT{}
		c.harmless = []int{3, 4, 5} // to, value, input
		c.prepare = func(c *runnerContent, run int) error {
			to := common.BigToAddress(big.NewInt(int64(0xb20000 + run)))
			k.base = txWire{AccountNonce: 0, Price: big.NewInt(types.ParGasPrice), GasLimit: appx.TransferGas(amount), Recipient: &to, Amount: amount, Payload: []byte{}}
			c.r.k, c.r.env = k, envFor(run)
			return nil
		}
	case "K":
		k := &kindK{}
		c.harmless = []int{4, 5, 6} // to, value, input
		c.prepare = func(c *runnerContent, run int) error {
			to := common.BigToAddress(big.NewInt(int64(0xc30000 + run)))
			k.base = tokWire{TokenAddress: winToken, AccountNonce: 0, Price: big.NewInt(types.ParGasPrice), GasLimit: uint64(types.MinGasLimit), Recipient: &to,
				Amount: big.NewInt(5e17), Payload: []byte{}}
			c.r.k, c.r.env = k, envFor(run)
			return nil
		}
	case "UA":
		k := &kindU{}
		dest := appx.NewWallet()
		c.harmless = []int{7, 13, 10, 6, 11} // out.remark, extra, r_key, out.amount, add_keys
		c.prepare = func(c *runnerContent, run int) error {
			e := envFor(run)
			if k.baseWire == nil || run%16 == 0 { // a new deposit (new transaction key) now and then
				amount := appx.LKC(3)
				fee := appx.DepositFee(amount)
				tx, _, err := types.NewAinTokenTransaction(&types.AccountSourceEntry{From: e.addrs["k1"], Nonce: 0, Amount: new(big.Int).Add(amount, fee)},
					[]types.DestEntry{&types.UTXODestEntry{Addr: dest.Acc.Addr, Amount: amount}}, common.EmptyAddress, fee, nil)
				if err != nil {
					return err
				}
				b, err := ser.EncodeToBytes(tx)
				if err != nil {
					return err
				}
				k.baseWire = b
			}
			k.attacker = e.addrs["k2"]
			c.r.k, c.r.env = k, e
			return nil
		}
	case "M":
		pv := types.NewMockPV()
		val := types.NewValidator(pv.GetPubKey(), common.BigToAddress(big.NewInt(0x7a1)), 10)
		w.env.App.SetLastChangedVals(0, []*types.Validator{val})
		k := &kindM{}
		c.harmless = []int{1, 2, 3, 4, 5} // everything but the nonce
		c.prepare = func(c *runnerContent, run int) error {
			e := envFor(run)
			e.pvs["k1"] = pv
			e.cen.vals = []*types.Validator{val}
			nonce := w.env.App.GetLatestStateDB().GetNonce(types.MultiSignNonceAddr)
			k.base = types.MultiSignMainInfo{AccountNonce: nonce, SupportTxType: types.TxContractCreateType,
				SignersInfo: types.SignersInfo{MinSignerPower: 20, Signers: []*types.SignerEntry{{Power: 10, Addr: e.addrs["k1"]}, {Power: 10, Addr: common.BigToAddress(big.NewInt(int64(77 + run)))}}}}
			c.r.k, c.r.env = k, e
			c.madeUp = run%2 == 0
			return nil
		}
	default:
		return nil, fmt.Errorf("no runner content for family %s", w.fam.letter)
	}
	return c, nil
}

// ---- the confidential spend ----------------------------------------------------------------

type urContent struct {
	w      *winWorld
	funder *appx.Account
	nonce  uint64
	wallet *appx.Wallet
	coins  []*appx.Coin
	sinkNo int

	coin     *appx.Coin
	alt      []bool // per abstract field: differs from the original
	signed   []byte // the spend as authorised
	signedAt []bool
	auths    map[string][]byte // the model's signature is a function of (key, content): one authorisation per content and behaviour
	sig      mSig
	ring     int
	inst     map[string]interface{}
}

var urFields = []string{"aout_to", "extra", "aout_amount"}

// the other value of aout_amount: a multiple of the commitment rate and of the gas price (the fee is what is left)
var urAmountStep = appx.Fee(1000)

func (c *urContent) mint() error {
	const n = 8
	var dests []*appx.Wallet
	var amounts []*big.Int
	total := new(big.Int)
	for i := 0; i < n; i++ {
		dests = append(dests, c.wallet)
		amounts = append(amounts, appx.LKC(100))
		total.Add(total, appx.LKC(100))
	}
	dep, coins, err := c.funder.Deposit(c.nonce, dests, amounts, appx.DepositFee(total))
	if err != nil {
		return fmt.Errorf("coin deposit: %v", err)
	}
	if err := c.w.env.MP.AddTx("", dep); err != nil {
		return fmt.Errorf("coin deposit refused: %v", err)
	}
	// the block holds exactly the deposit (spends admitted by earlier behaviours stay in the pool)
	blk := c.w.env.MakeBlock(c.w.env.App.Height()+1, types.Txs{dep})
	blk.Header.ParentHash = c.w.env.App.Block().Hash()
	if err := func() (err error) {
		defer func() {
			if x := recover(); x != nil {
				err = fmt.Errorf("coin block: %v", x)
			}
		}()
		c.w.env.App.PreRunBlock(blk)
		if !c.w.env.App.CheckBlock(blk) {
			return fmt.Errorf("coin block rejected")
		}
		return c.w.env.Commit(blk)
	}(); err != nil {
		return err
	}
	c.nonce++
	for _, co := range coins {
		if !c.w.env.Locate(co) {
			return fmt.Errorf("coin not found in the output store")
		}
	}
	c.coins = append(c.coins, coins...)
	return nil
}

func (c *urContent) begin(run int) error {
	if len(c.coins) == 0 {
		if err := c.mint(); err != nil {
			return err
		}
	}
	c.coin, c.coins = c.coins[0], c.coins[1:]
	c.alt = make([]bool, c.w.nf)
	c.sig = mSig{Key: "k1", R: "ok", S: "ok", Rec: "ok"}
	c.ring = 1
	if run%3 == 2 {
		c.ring = 3 // MLSAG path, when the store has decoys
	}
	c.sinkNo = run
	c.inst = map[string]interface{}{"abstract_fields": urFields[:c.w.nf], "coin_global_index": c.coin.Global}
	c.auths = map[string][]byte{}
	return c.authorise()
}

// authorise builds the spend of the coin over the CURRENT content with the owner's keys.
func (c *urContent) authorise() error {
	if b, ok := c.auths[fmt.Sprint(c.alt)]; ok {
		c.signed, c.signedAt = b, append([]bool{}, c.alt...)
		return nil
	}
	to := common.BigToAddress(big.NewInt(int64(0xd40000 + c.sinkNo)))
	var extra []byte
	fee := appx.Fee(c.w.env.SpendFeeGas(c.coin.Amount) + 100000)
	out := new(big.Int).Sub(c.coin.Amount, fee)
	for i, on := range c.alt {
		if !on {
			continue
		}
		switch urFields[i] {
		case "aout_to":
			to = flipAddr(to, 7)
		case "extra":
			extra = []byte{0x01}
		case "aout_amount":
			out = new(big.Int).Add(out, urAmountStep)
		}
	}
	var decoys []types.UTXORingEntry
	if c.ring > 1 {
		decoys = c.w.env.Decoys(c.coin, c.ring-1)
	}
	ring := append([]types.UTXORingEntry{}, decoys...)
	ring = append(ring, types.UTXORingEntry{Index: c.coin.Global, OTAddr: c.coin.OTAddr, Commit: c.coin.Commit})
	sort.Slice(ring, func(i, j int) bool { return ring[i].Index < ring[j].Index })
	real := 0
	for i, r := range ring {
		if r.Index == c.coin.Global {
			real = i
		}
	}
	src := []*types.UTXOSourceEntry{{Ring: ring, RingIndex: uint64(real), RKey: c.coin.RKey, OutIndex: c.coin.OutIndex, Amount: c.coin.Amount, Mask: c.coin.Mask}}
	dests := []types.DestEntry{&types.AccountDestEntry{To: to, Amount: out}}
	tx, ins, mkeys, _, err := types.NewUinTokenTransaction(c.coin.Owner.Acc, c.coin.Owner.KeyIndex, src, dests, c.coin.Token, common.EmptyAddress, nil, extra)
	if err != nil {
		return fmt.Errorf("NewUinTokenTransaction: %v", err)
	}
	if err := types.UInTransWithRctSig(tx, src, ins, dests, mkeys); err != nil {
		return fmt.Errorf("UInTransWithRctSig: %v", err)
	}
	b, err := ser.EncodeToBytes(tx)
	if err != nil {
		return err
	}
	c.signed, c.signedAt = b, append([]bool{}, c.alt...)
	c.auths[fmt.Sprint(c.alt)] = b
	c.inst["ring_size"] = len(ring)
	return nil
}

func (c *urContent) apply(a *mAct, to *mState) error {
	switch a.Op {
	case "mutate":
		c.alt[a.F-1] = !c.alt[a.F-1]
	case "mutsig":
		c.sig = to.Sig
	case "sign":
		c.sig = to.Sig
		return c.authorise()
	}
	return nil
}

func (c *urContent) current() (types.Tx, []byte, error) {
	t := new(types.UTXOTransaction)
	if err := ser.DecodeBytes(c.signed, t); err != nil {
		return nil, nil, err
	}
	var ao *types.AccountOutput
	for _, o := range t.Outputs {
		if x, ok := o.(*types.AccountOutput); ok {
			ao = x
		}
	}
	if ao == nil {
		return nil, nil, fmt.Errorf("the spend has no account output")
	}
	for i := range c.alt {
		if c.alt[i] == c.signedAt[i] {
			continue
		}
		switch urFields[i] { // changed on the wire after the authorisation was made (toggles are involutions)
		case "aout_to":
			ao.To = flipAddr(ao.To, 7)
		case "extra":
			if len(t.Extra) > 0 {
				t.Extra = nil
			} else {
				t.Extra = []byte{0x01}
			}
		case "aout_amount":
			if c.alt[i] {
				ao.Amount = new(big.Int).Add(ao.Amount, urAmountStep)
			} else {
				ao.Amount = new(big.Int).Sub(ao.Amount, urAmountStep)
			}
		}
	}
	// the ring signature's numbers
	var rr, cc *lkt.Key
	switch { // ring size 1: a plain ring signature (Ss); larger rings: MLSAG (MGs; Ss then carries an unused placeholder)
	case len(t.RCTSig.P.MGs) > 0 && len(t.RCTSig.P.MGs[0].Ss) > 0 && len(t.RCTSig.P.MGs[0].Ss[0]) > 0:
		rr, cc = &t.RCTSig.P.MGs[0].Ss[0][0], &t.RCTSig.P.MGs[0].Cc
	case len(t.RCTSig.P.Ss) > 0:
		rr, cc = (*lkt.Key)(&t.RCTSig.P.Ss[0].R), (*lkt.Key)(&t.RCTSig.P.Ss[0].C)
	default:
		return nil, nil, fmt.Errorf("the spend carries no ring signature")
	}
	if c.sig.R == "zero" {
		*rr = lkt.Key{}
	}
	if c.sig.S == "zero" {
		*cc = lkt.Key{}
	}
	if c.sig.Rec == "flip" {
		rr[0] ^= 1
	}
	b, err := ser.EncodeToBytes(t)
	if err != nil {
		return nil, nil, err
	}
	f := new(types.UTXOTransaction)
	if err := ser.DecodeBytes(b, f); err != nil {
		return nil, nil, err
	}
	return f, b, nil
}

func (c *urContent) describe() map[string]interface{} {
	return map[string]interface{}{"instantiation": c.inst, "changed_fields": c.alt, "ring_signature_class": c.sig}
}
func (c *urContent) admitted(types.Tx)                  {}
func (c *urContent) finish(*winWorld, *winResult) error { return nil }

// ---- one behaviour ----------------------------------------------------------------------

type pendingAdd struct {
	gt   *gate
	done chan error
	hash common.Hash
}

type winRunner struct {
	w     *winWorld
	c     winContent
	res   *winResult
	trace []string
	pend  *pendingAdd
	after bool // gate position of this run
	// cache state of the current bytes as the harness knows it (for keys / statistics only)
	seen map[common.Hash]string
}

func (wr *winRunner) record(extra map[string]interface{}) map[string]interface{} {
	rec := map[string]interface{}{"kind": wr.w.fam.kindName, "family": wr.w.fam.letter, "window": true, "behaviour": append([]string{}, wr.trace...),
		"gate_position": map[bool]string{false: "before", true: "after"}[wr.after],
		"gate":          map[bool]string{false: "before the basic check", true: "after the basic check, before its verdict is applied"}[wr.after]}
	for k, v := range wr.c.describe() {
		rec[k] = v
	}
	for k, v := range extra {
		rec[k] = v
	}
	return rec
}

func (wr *winRunner) release() (error, error) {
	p := wr.pend
	wr.pend = nil
	close(p.gt.release)
	select {
	case err := <-p.done:
		return err, nil
	case <-time.After(gateWatchdog):
		return nil, fmt.Errorf("AddTx did not return after the gate was opened")
	}
}

func (wr *winRunner) run(g *mbt.Graph, seq []int, seqOf func(int) (json.RawMessage, json.RawMessage)) (steps int, changed bool, err error) {
	wr.trace, wr.pend, wr.seen = nil, nil, map[common.Hash]string{}
	defer func() {
		if wr.pend != nil { // never leave an AddTx hanging
			if aerr, derr := wr.release(); aerr == nil && derr == nil {
				wr.c.admitted(nil)
			}
		}
	}()
	for _, ei := range seq {
		ra, rt := seqOf(ei)
		var a mAct
		to := new(mState)
		if err := json.Unmarshal(ra, &a); err != nil {
			return steps, changed, err
		}
		if err := json.Unmarshal(rt, to); err != nil {
			return steps, changed, err
		}
		wr.trace = append(wr.trace, mbt.Compact(ra))
		steps++
		switch a.Op {
		case "mutate", "mutsig", "sign":
			changed = true
			if err := wr.c.apply(&a, to); err != nil {
				return steps, changed, fmt.Errorf("%s: %v", mbt.Compact(ra), err)
			}
		case "admitput":
			changed = true
			tx, _, err := wr.c.current()
			if err != nil {
				return steps, changed, err
			}
			h := tx.Hash()
			p := &pendingAdd{gt: wr.w.gate.arm(h, wr.after), done: make(chan error, 1), hash: h}
			go func() { p.done <- wr.w.env.MP.AddTx("peer", tx) }()
			select {
			case <-p.gt.entered:
			case e := <-p.done:
				return steps, changed, fmt.Errorf("AddTx returned before the basic check (%v): the harness's transaction did not reach the window", e)
			case <-time.After(gateWatchdog):
				return steps, changed, fmt.Errorf("AddTx never reached the basic check")
			}
			wr.pend = p
			wr.seen[h] = "inflight"
			if wr.after {
				wr.res.GateAfter++
			} else {
				wr.res.GateBefore++
			}
		case "admitverdict":
			if wr.pend == nil {
				return steps, changed, fmt.Errorf("admitverdict without a pending AddTx")
			}
			h := wr.pend.hash
			aerr, derr := wr.release()
			if derr != nil {
				return steps, changed, derr
			}
			ok := aerr == nil
			if ok {
				wr.res.Admitted++
				wr.seen[h] = "checked"
				wr.c.admitted(nil)
			} else {
				wr.res.Refused++
				wr.seen[h] = "removed"
			}
			if ok != a.Ok {
				if ok {
					wr.res.add(finding{"window/admitted-unverified/" + wr.w.fam.kindName,
						fmt.Sprintf("%s: mempool.AddTx admits a transaction whose authorisation does not verify", wr.w.fam.kindName), wr.record(map[string]interface{}{"pooled_signature": to.Pool.Sig})})
				} else {
					wr.res.add(finding{"window/valid-not-admitted/" + wr.w.fam.kindName,
						fmt.Sprintf("%s: mempool.AddTx refuses a correctly authorised, executable transaction: %v", wr.w.fam.kindName, aerr), wr.record(nil)})
				}
				return steps, changed, nil
			}
		case "blockverify":
			tx, _, err := wr.c.current()
			if err != nil {
				return steps, changed, err
			}
			h := tx.Hash()
			cs := wr.seen[h]
			if cs == "" {
				cs = "absent"
			}
			// the lookup block verification is about to do (not part of the property statement: drift only)
			wr.res.CacheProbes++
			if got := wr.w.env.MP.GetTxFromCache(h) != nil; got != a.Hit && len(wr.res.Drift) < 5 {
				wr.res.Drift = append(wr.res.Drift, fmt.Sprintf("%s: GetTxFromCache serves=%v for a transaction whose cache state is %q, the model says %v (behaviour %v)", wr.w.fam.kindName, got, cs, a.Hit, wr.trace))
			}
			got, prerun, err := wr.w.checkBlock(tx)
			if err != nil {
				return steps, changed, err
			}
			n := wr.res.BlockChecks[cs]
			if got {
				n[0]++
			} else {
				n[1]++
			}
			wr.res.BlockChecks[cs] = n
			if got != a.Accept {
				extra := map[string]interface{}{"cache_state_of_this_hash": cs, "model_accepts": a.Accept, "real_code_accepts": got, "model_signature": to.Sig, "proposer_side_prerun": prerun}
				if got {
					wr.res.add(finding{"window/block-accepts-unverified/" + wr.w.fam.kindName + "/" + cs,
						fmt.Sprintf("%s: LinkApplication.CheckBlock accepts a block whose transaction's authorisation does not verify (mempool cache entry of the same hash: %s)", wr.w.fam.kindName, cs), wr.record(extra)})
				} else {
					wr.res.add(finding{"window/block-rejects-verified/" + wr.w.fam.kindName + "/" + cs,
						fmt.Sprintf("%s: LinkApplication.CheckBlock rejects a block whose only transaction is correctly authorised and executable (mempool cache entry of the same hash: %s)", wr.w.fam.kindName, cs), wr.record(extra)})
				}
				return steps, changed, nil
			}
		default:
			return steps, changed, fmt.Errorf("unexpected action %s", a.Op)
		}
	}
	return steps, changed, nil
}

// inWindowCheck: does the behaviour verify a block while an admission is in flight?
func inWindowCheck(g *mbt.Graph, seq []int) bool {
	open := false
	for _, ei := range seq {
		var a mAct
		json.Unmarshal(g.Edges[ei].Act, &a)
		switch a.Op {
		case "admitput":
			open = true
		case "admitverdict":
			open = false
		case "blockverify":
			if open {
				return true
			}
		}
	}
	return false
}

// reachableEdges counts the edges of the family's subgraph that can be reached from the initial state
func reachableEdges(g *mbt.Graph) int {
	seen := map[int]bool{0: true}
	queue := []int{0}
	n := 0
	for len(queue) > 0 {
		s := queue[0]
		queue = queue[1:]
		for _, ei := range g.Out[s] {
			n++
			if t := g.Edges[ei].To; !seen[t] {
				seen[t] = true
				queue = append(queue, t)
			}
		}
	}
	return n
}

// ---- child ---------------------------------------------------------------------------------

type winPlan struct {
	seq   []int
	after bool
}

func windowChild(c *core.Ctx, j *winJob) {
	out := bufio.NewWriter(os.Stdout)
	defer out.Flush()
	res := &winResult{Family: j.Family, BlockChecks: map[string][2]int{}}
	t0 := time.Now()
	finish := func() {
		res.Secs = time.Since(t0).Seconds()
		b, _ := json.Marshal(res)
		fmt.Fprintf(out, "RESULT %s\nDONE\n", b)
	}
	fam := winFamilies[j.Family]
	if fam == nil {
		res.Err = "unknown family " + j.Family
		finish()
		return
	}
	res.Kind = fam.kindName
	b, err := ioutil.ReadFile(j.Edges)
	if err != nil {
		res.Err = err.Error()
		finish()
		return
	}
	full, err := mbt.Load(strings.Split(strings.TrimSpace(string(b)), "\n"))
	if err != nil {
		res.Err = err.Error()
		finish()
		return
	}
	g := subgraph(full, fam.keep)
	res.Edges = reachableEdges(g)
	rng := rand.New(rand.NewSource(c.Seed*104729 + int64(len(j.Family))))
	var plans []winPlan
	if j.Only != nil {
		plans = []winPlan{{seq: j.Only, after: j.Gate == "after"}}
	} else {
		tours := g.Tour(0, rng)
		if j.Max > 0 && len(tours) > j.Max {
			// keep the behaviours that look into the window, fill up with a seeded sample of the rest
			var win, rest [][]int
			for _, s := range tours {
				if inWindowCheck(g, s) {
					win = append(win, s)
				} else {
					rest = append(rest, s)
				}
			}
			rng.Shuffle(len(rest), func(a, b int) { rest[a], rest[b] = rest[b], rest[a] })
			tours = win
			for _, s := range rest {
				if len(tours) >= j.Max {
					break
				}
				tours = append(tours, s)
			}
		}
		tours = append(tours, g.Walks(j.Walks, 9, rng)...)
		for _, s := range tours {
			if inWindowCheck(g, s) { // both ends of the window
				plans = append(plans, winPlan{s, false}, winPlan{s, true})
			} else {
				plans = append(plans, winPlan{s, rng.Intn(2) == 1})
			}
		}
	}
	var (
		w       *winWorld
		content winContent
		wr      *winRunner
	)
	defer func() {
		if w != nil {
			w.close()
		}
	}()
	boot := func() error {
		if w != nil {
			w.close()
			w = nil
		}
		nw, err := bootWindow(fam, len(plans)+2, c.Seed, rng)
		if err != nil {
			return err
		}
		w = nw
		w.nf, w.fields = j.NFields, j.Fields
		if fam.letter == "UR" {
			content = &urContent{w: w, funder: appx.NewAccount(winAcctBase - 1), wallet: appx.NewWallet()}
		} else if content, err = newRunnerContent(w); err != nil {
			return err
		}
		wr = &winRunner{w: w, c: content, res: res}
		res.Boots++
		return nil
	}
	if err := boot(); err != nil {
		res.Err = err.Error()
		finish()
		return
	}
	seqOf := func(ei int) (json.RawMessage, json.RawMessage) { return g.Edges[ei].Act, g.Edges[ei].ToSt }
	covered := map[int]bool{}
	for i, p := range plans {
		fmt.Fprintf(out, "AT window/%s behaviour %d of %d\n", fam.letter, i, len(plans))
		out.Flush()
		if w.env.App.Height() >= winMaxHeight { // stay below the first election height (the application would ask its connection manager)
			if err := boot(); err != nil {
				res.Err = "starting a fresh chain: " + err.Error()
				break
			}
		}
		if err := content.begin(i); err != nil {
			res.Err = fmt.Sprintf("building the original transaction: %v", err)
			break
		}
		wr.after = p.after
		steps, changed, err := wr.run(g, p.seq, seqOf)
		res.Behaviours++
		res.Steps += steps
		if changed {
			res.Nontrivial++
		}
		for _, ei := range p.seq {
			covered[ei] = true
		}
		if err != nil {
			res.Err = fmt.Sprintf("%v (behaviour %v)", err, wr.trace)
			break
		}
		if err := content.finish(w, res); err != nil {
			res.Err = fmt.Sprintf("%v (after behaviour %v)", err, wr.trace)
			break
		}
		if res.Sample == nil && changed && inWindowCheck(g, p.seq) {
			res.Sample = wr.record(nil)
		}
	}
	res.EdgesCovered = len(covered)
	// negative control of this binding: with a basic check that approves everything (sabotaged in the
	// harness's wrapper, not in the code) the forged transaction must be seen to pass block verification
	if res.Err == "" && j.Only == nil {
		if err := windowControl(wr, g, len(plans)); err != nil {
			res.Err = "negative control: " + err.Error()
		}
	}
	finish()
}

// windowControl: two negative controls of this binding; their findings go to ControlKeys only.
//  1. a correct behaviour [AdmitPut, BlockVerify, AdmitVerdict, BlockVerify] replayed against
//     INVERTED expectations must be reported (the comparison is live);
//  2. kinds for which a cache hit replaces verification: [wrong-key signature, AdmitPut, AdmitVerdict]
//     with the wrapper's basic check approving everything (sabotage in the harness's wrapper, not in
//     the code): the real mempool then flags the forged entry as checked, the replay must report the
//     admission, and the real CheckBlock must be seen to accept the forged transaction through the
//     cache (the path by which the cache can vouch is really exercised).
func windowControl(wr *winRunner, g *mbt.Graph, run int) error {
	path := func(preds ...func(a *mAct) bool) []int {
		var seq []int
		cur := 0
		for _, pred := range preds {
			next := -1
			for _, ei := range g.Out[cur] {
				var a mAct
				json.Unmarshal(g.Edges[ei].Act, &a)
				if pred(&a) {
					next = ei
					break
				}
			}
			if next < 0 {
				return nil
			}
			seq = append(seq, next)
			cur = g.Edges[next].To
		}
		return seq
	}
	op := func(o string) func(a *mAct) bool { return func(a *mAct) bool { return a.Op == o } }
	saved := *wr.res
	wr.res.BlockChecks = map[string][2]int{}
	defer func() {
		keys := wr.res.ControlKeys
		caught := wr.res.ControlCaught
		*wr.res = saved
		wr.res.ControlKeys, wr.res.ControlCaught = keys, caught
	}()
	var keys []string
	// 1. inverted expectations
	seq := path(op("admitput"), op("blockverify"), op("admitverdict"), op("blockverify"))
	if seq == nil {
		return fmt.Errorf("the control behaviour is not in the graph")
	}
	if err := wr.c.begin(run); err != nil {
		return err
	}
	wr.res.Findings = nil
	wr.after = false
	inverted := func(ei int) (json.RawMessage, json.RawMessage) {
		var m map[string]interface{}
		json.Unmarshal(g.Edges[ei].Act, &m)
		for _, k := range []string{"accept", "ok"} {
			if v, ok := m[k].(bool); ok {
				m[k] = !v
			}
		}
		b, _ := json.Marshal(m)
		return b, g.Edges[ei].ToSt
	}
	if _, _, err := wr.run(g, seq, inverted); err != nil {
		return err
	}
	first := len(wr.res.Findings) > 0
	for _, f := range wr.res.Findings {
		keys = append(keys, "inverted expectation: "+f.Key)
	}
	if err := wr.c.finish(wr.w, wr.res); err != nil {
		return err
	}
	second := true
	if wr.w.fam.mode == "trust" {
		second = false
		seq := path(func(a *mAct) bool { return a.Op == "mutsig" && a.C == "flipv" }, op("admitput"), op("admitverdict"))
		if seq == nil {
			return fmt.Errorf("the sabotage control behaviour is not in the graph")
		}
		if err := wr.c.begin(run + 1); err != nil {
			return err
		}
		wr.res.Findings = nil
		wr.w.gate.sabotage = true
		wr.after = true // the real check runs (and fails); only its verdict is replaced
		defer func() { wr.w.gate.sabotage = false }()
		seqOf := func(ei int) (json.RawMessage, json.RawMessage) { return g.Edges[ei].Act, g.Edges[ei].ToSt }
		if _, _, err := wr.run(g, seq, seqOf); err != nil {
			return err
		}
		admitted := false
		for _, f := range wr.res.Findings {
			keys = append(keys, "approving basic check: "+f.Key)
			admitted = admitted || strings.HasPrefix(f.Key, "window/admitted-unverified/")
		}
		tx, _, err := wr.c.current()
		if err != nil {
			return err
		}
		got, _, err := wr.w.checkBlock(tx)
		if err != nil {
			return err
		}
		if got {
			keys = append(keys, "approving basic check: window/block-accepts-unverified/"+wr.w.fam.kindName+"/checked")
		}
		second = admitted && got
	}
	wr.res.ControlKeys, wr.res.ControlCaught = keys, first && second
	return nil
}

// ---- parent --------------------------------------------------------------------------------

func runWindow(c *core.Ctx, lines []string, nFields int) {
	base, err := ioutil.TempDir("", "vc08wp")
	if err != nil {
		c.Infra("tempdir: %v", err)
		return
	}
	defer os.RemoveAll(base)
	ef := filepath.Join(base, "edges.ndjson")
	if err := ioutil.WriteFile(ef, []byte(strings.Join(lines, "\n")), 0644); err != nil {
		c.Infra("write edges: %v", err)
		return
	}
	fams := []string{"T", "K", "UA", "UR", "M"}
	results := make([]*winResult, len(fams))
	var wg sync.WaitGroup
	t0 := time.Now()
	for i, f := range fams {
		wg.Add(1)
		go func(i int, f string) {
			defer wg.Done()
			arg, _ := json.Marshal(winJob{Window: true, Family: f, Edges: ef, NFields: nFields, Max: c.Pick(winQuickMax[f], 0), Walks: c.Pick(20, 400)})
			rs, at, crash := c.RunChild(string(arg), c.MinutesT(3, 20))
			if crash != "" {
				c.Infra("admission window (%s): the child %s at %s: %s", f, map[bool]string{true: "timed out", false: "died"}[crash == "TIMEOUT"], at, crash)
				return
			}
			for _, s := range rs {
				var r winResult
				if json.Unmarshal([]byte(s), &r) == nil {
					results[i] = &r
				}
			}
			if results[i] == nil {
				c.Infra("admission window (%s): the child reported nothing", f)
			}
		}(i, f)
	}
	wg.Wait()
	c.SetExtra("window_replay_wall_s", time.Since(t0).Seconds())
	o := c.Out()
	per := map[string]interface{}{}
	for _, r := range results {
		if r == nil {
			continue
		}
		if r.Err != "" {
			c.Infra("admission window (%s): %s", r.Family, r.Err)
		}
		c.AddTraces(r.Behaviours)
		c.AddEvals(r.Steps)
		o.Distinct += r.Nontrivial
		for _, f := range r.Findings {
			c.Violate(f.Key, f.Desc, f.Record)
		}
		for _, d := range r.Drift {
			c.Drift("%s", d)
		}
		if r.Sample != nil {
			c.Sample(r.Sample)
		}
		per[r.Kind] = map[string]interface{}{"behaviours": r.Behaviours, "steps": r.Steps, "subgraph_edges": r.Edges, "subgraph_edges_replayed": r.EdgesCovered,
			"checkblock_by_cache_state_accepted_rejected": r.BlockChecks, "addtx_admitted": r.Admitted, "addtx_refused": r.Refused,
			"gate_before_basic_check": r.GateBefore, "gate_after_basic_check": r.GateAfter, "cache_lookups_compared": r.CacheProbes, "blocks_committed_to_settle": r.Settled, "chains_booted": r.Boots,
			"negative_control_keys": r.ControlKeys, "seconds": r.Secs}
		if r.Err == "" {
			in, chk := r.BlockChecks["inflight"], r.BlockChecks["checked"]
			if in[0] == 0 || in[1] == 0 || chk[0] == 0 || r.Admitted == 0 || r.Refused == 0 {
				c.Infra("vacuous binding (admission window, %s): blocks in flight accepted/rejected %v, against a checked entry %v, admitted %d, refused %d", r.Family, in, chk, r.Admitted, r.Refused)
			}
			if !r.ControlCaught {
				c.Infra("vacuous binding (admission window, %s): with a basic check that approves everything the replay reported %v", r.Family, r.ControlKeys)
			}
		}
	}
	c.SetExtra("admission_window_per_kind", per)
}

// quick tier: upper bound on tour behaviours per family (0: the whole tour; every behaviour that verifies a
// block inside the window is always kept)
var winQuickMax = map[string]int{"T": 0, "K": 400, "UA": 400, "UR": 0, "M": 0}

// replayWindow re-executes the behaviour of a recorded admission-window violation: same family, same
// concrete fields, same gate position (fresh keys and accounts).
func replayWindow(c *core.Ctx, lines []string, family, gatePos string, fields, behaviour []string) {
	fam := winFamilies[family]
	if fam == nil {
		c.Infra("replay: unknown family %q", family)
		return
	}
	full, err := mbt.Load(lines)
	if err != nil {
		c.Infra("replay: %v", err)
		return
	}
	g := subgraph(full, fam.keep)
	seq := []int{}
	cur := 0
	for _, as := range behaviour {
		found := -1
		for _, ei := range g.Out[cur] {
			if mbt.Compact(g.Edges[ei].Act) == as {
				found = ei
				break
			}
		}
		if found < 0 {
			c.Infra("replay: action %s is not enabled in the model state reached", as)
			return
		}
		seq = append(seq, found)
		cur = g.Edges[found].To
	}
	base, err := ioutil.TempDir("", "vc08wr")
	if err != nil {
		c.Infra("tempdir: %v", err)
		return
	}
	defer os.RemoveAll(base)
	ef := filepath.Join(base, "edges.ndjson")
	if err := ioutil.WriteFile(ef, []byte(strings.Join(lines, "\n")), 0644); err != nil {
		c.Infra("write edges: %v", err)
		return
	}
	arg, _ := json.Marshal(winJob{Window: true, Family: family, Edges: ef, NFields: len(fields), Only: seq, Gate: gatePos, Fields: fields})
	rs, at, crash := c.RunChild(string(arg), c.MinutesT(3, 10))
	if crash != "" {
		c.Infra("replay (admission window): the child ended at %s: %s", at, crash)
		return
	}
	for _, s := range rs {
		var r winResult
		if json.Unmarshal([]byte(s), &r) != nil {
			continue
		}
		if r.Err != "" {
			c.Infra("replay (admission window): %s", r.Err)
		}
		c.Out().Traces, c.Out().Evaluations = r.Behaviours, r.Steps
		for _, f := range r.Findings {
			c.Violate(f.Key, f.Desc, f.Record)
		}
	}
}
