package c08

// Adapters that put the five account-authenticated transaction kinds behind one
// interface: build the wire bytes of "the original content with some fields replaced
// and this signature", decode them into a fresh real object, sign in place through
// the kind's own API, ask the real code for the sender / acceptance.

import (
	"crypto/ecdsa"
	"errors"
	"fmt"
	"math"
	"math/big"

	cfg "github.com/lianxiangcloud/linkchain/config"
	"github.com/lianxiangcloud/linkchain/libs/common"
	"github.com/lianxiangcloud/linkchain/libs/crypto"
	lkt "github.com/lianxiangcloud/linkchain/libs/cryptonote/types"
	"github.com/lianxiangcloud/linkchain/libs/ser"
	"github.com/lianxiangcloud/linkchain/types"
)

type vrs struct {
	V, R, S *big.Int
	Addr    []byte // MultiSignAccountTx only: the validator address of the one ValidatorSign
	Raw     []byte // MultiSignAccountTx only: its signature bytes (type prefix + 64 bytes R||S)
}

func (s vrs) clone() vrs {
	c := func(x *big.Int) *big.Int {
		if x == nil {
			return new(big.Int)
		}
		return new(big.Int).Set(x)
	}
	return vrs{V: c(s.V), R: c(s.R), S: c(s.S), Addr: append([]byte{}, s.Addr...), Raw: append([]byte{}, s.Raw...)}
}
func (s vrs) String() string {
	if len(s.Raw) > 0 {
		return fmt.Sprintf("validator=%x signature=%x", s.Addr, s.Raw)
	}
	return fmt.Sprintf("V=%s R=%x S=%x", s.V, s.R, s.S)
}

func rlpHash(x interface{}) (h common.Hash) {
	b, err := ser.EncodeToBytes(x)
	if err != nil {
		panic(err)
	}
	return crypto.Keccak256Hash(b)
}

func signer(p *big.Int) types.STDSigner { return types.NewSTDEIP155Signer(p) }

type txKind interface {
	Name() string
	Fields() []string
	NAlts(f int) int
	Wire(val []int, sg vrs) ([]byte, error)
	Decode(wire []byte) (interface{}, error)
	Encode(obj interface{}) ([]byte, error)
	SigOf(obj interface{}) vrs
	RefFields(val []int) ([]interface{}, error) // the reference list of signed fields (the signing specification)
	Sign(obj interface{}, p *big.Int, key *ecdsa.PrivateKey, variant int) (interface{}, string, error)
	Sender(obj interface{}, p *big.Int, variant int) (common.Address, error)
	ParamQuery() bool // the sender can be asked for under a parameter other than the global one
	HasPool() bool    // StoreFrom exists (mempool-cache path of verifyTxsOnProcess)
	Hash(obj interface{}) common.Hash
	CheckBasic(obj interface{}, cen types.TxCensor) error
	StoreFrom(obj interface{}, a common.Address)
	// MayAccept: given the model's sender class under this chain, may CheckBasic accept this content?
	MayAccept(val []int, who string, sg mSig, env *kindEnv) bool
}

// kindEnv is what all kinds of one job share.
type kindEnv struct {
	keys  map[string]*ecdsa.PrivateKey // k1, k2
	addrs map[string]common.Address
	pvs   map[string]*types.MockPV // validator keys standing for k1, k2 (MultiSignAccountTx)
	cen   *stubCensor
}

func (e *kindEnv) classOf(a common.Address, err error) string {
	if err != nil {
		return "err"
	}
	for k, ka := range e.addrs {
		if ka == a {
			return k
		}
	}
	return "other"
}

// mayAcceptRecovered: kinds whose sender is whatever address the signature recovers to accept
// a signature of an unknown key as "a different sender"; they must refuse malformed values
// and a V that belongs to another chain parameter.
func mayAcceptRecovered(who string, sg mSig) bool {
	if sg.mustReject() {
		return false
	}
	if who == "err" && sg.Enc == "eip" {
		return false
	}
	return true
}

func flipAddr(a common.Address, i int) common.Address { a[i%20] ^= 1 << uint(i%8); return a }

// ---------------------------------------------------------------- Transaction

type txWire struct {
	AccountNonce uint64
	Price        *big.Int
	GasLimit     uint64
	Recipient    *common.Address `rlp:"nil"`
	Amount       *big.Int
	Payload      []byte
	V, R, S      *big.Int
}

type kindT struct{ base txWire }

func newKindT(e *kindEnv, seed int64) *kindT {
	to := common.BigToAddress(big.NewInt(0xb2000 + seed))
	tx := types.NewTransaction(uint64(3+seed%5), to, big.NewInt(1e18), 0, nil, nil)
	b, _ := ser.EncodeToBytes(tx)
	k := &kindT{}
	if err := ser.DecodeBytes(b, &k.base); err != nil {
		panic(err)
	}
	return k
}

func (k *kindT) Name() string { return "Transaction" }
func (k *kindT) Fields() []string {
	return []string{"nonce", "gasPrice", "gas", "to", "value", "input"}
}
func (k *kindT) NAlts(f int) int { return 3 }

func bigAlt(orig *big.Int, j int) *big.Int {
	switch j {
	case 1:
		return new(big.Int).Add(orig, big.NewInt(1))
	case 2:
		if orig.Sign() == 0 {
			return big.NewInt(2)
		}
		return new(big.Int)
	default:
		return new(big.Int).Sub(new(big.Int).Lsh(big.NewInt(1), 255), big.NewInt(19)) // 2^255-19
	}
}
func u64Alt(orig uint64, j int) uint64 {
	switch j {
	case 1:
		return orig + 1
	case 2:
		if orig == 0 {
			return 2
		}
		return 0
	default:
		return math.MaxUint64
	}
}
func addrAlt(orig *common.Address, j int) *common.Address {
	switch j {
	case 1:
		a := flipAddr(*orig, 19)
		return &a
	case 2:
		return nil // contract creation
	default:
		a := common.Address{}
		if *orig == a {
			a[0] = 1
		}
		return &a
	}
}
func bytesAlt(orig []byte, j int) []byte {
	switch j {
	case 1:
		return append(append([]byte{}, orig...), 0x00)
	case 2:
		return append(append([]byte{}, orig...), 0x7f) // single byte < 0x80 encodes as itself
	default:
		return append(append([]byte{}, orig...), 0x80, 0xff, 0x00)
	}
}

func (k *kindT) content(val []int) txWire {
	w := k.base
	if j := val[0]; j != 0 {
		w.AccountNonce = u64Alt(w.AccountNonce, j)
	}
	if j := val[1]; j != 0 {
		w.Price = bigAlt(w.Price, j)
	}
	if j := val[2]; j != 0 {
		w.GasLimit = u64Alt(w.GasLimit, j)
	}
	if j := val[3]; j != 0 {
		w.Recipient = addrAlt(w.Recipient, j)
	}
	if j := val[4]; j != 0 {
		w.Amount = bigAlt(w.Amount, j)
	}
	if j := val[5]; j != 0 {
		w.Payload = bytesAlt(w.Payload, j)
	}
	return w
}
func (k *kindT) Wire(val []int, sg vrs) ([]byte, error) {
	w := k.content(val)
	w.V, w.R, w.S = sg.V, sg.R, sg.S
	return ser.EncodeToBytes(&w)
}
func (k *kindT) Decode(wire []byte) (interface{}, error) {
	tx := new(types.Transaction)
	if err := ser.DecodeBytes(wire, tx); err != nil {
		return nil, err
	}
	return tx, nil
}
func (k *kindT) Encode(obj interface{}) ([]byte, error) {
	return ser.EncodeToBytes(obj.(*types.Transaction))
}
func (k *kindT) SigOf(obj interface{}) vrs {
	v, r, s := obj.(*types.Transaction).RawSignatureValues()
	return vrs{V: v, R: r, S: s}.clone()
}
func (k *kindT) RefFields(val []int) ([]interface{}, error) {
	w := k.content(val)
	return []interface{}{w.AccountNonce, w.Price, w.GasLimit, w.Recipient, w.Amount, w.Payload}, nil
}
func (k *kindT) Sign(obj interface{}, p *big.Int, key *ecdsa.PrivateKey, variant int) (interface{}, string, error) {
	tx := obj.(*types.Transaction)
	if variant%2 == 1 && p.Cmp(types.SignParam) == 0 {
		h := tx.SignHash()
		sig, err := crypto.Sign(h[:], key)
		if err != nil {
			return nil, "", err
		}
		tx2, err := tx.WithSignature(signer(p), sig)
		return tx2, "WithSignature", err
	}
	return tx, "Sign", tx.Sign(signer(p), key)
}
func (k *kindT) Sender(obj interface{}, p *big.Int, variant int) (common.Address, error) {
	tx := obj.(*types.Transaction)
	if variant%2 == 1 && p.Cmp(types.SignParam) == 0 {
		return tx.From()
	}
	return tx.Sender(signer(p))
}
func (k *kindT) ParamQuery() bool                 { return true }
func (k *kindT) HasPool() bool                    { return true }
func (k *kindT) Hash(obj interface{}) common.Hash { return obj.(*types.Transaction).Hash() }
func (k *kindT) CheckBasic(obj interface{}, cen types.TxCensor) error {
	return obj.(*types.Transaction).CheckBasic(cen)
}
func (k *kindT) StoreFrom(obj interface{}, a common.Address) { obj.(*types.Transaction).StoreFrom(a) }
func (k *kindT) MayAccept(val []int, who string, sg mSig, e *kindEnv) bool {
	return mayAcceptRecovered(who, sg)
}

// ---------------------------------------------------------------- TokenTransaction

type sigWire struct{ V, R, S *big.Int }
type tokWire struct {
	TokenAddress common.Address `rlp:"nil"`
	AccountNonce uint64
	Price        *big.Int
	GasLimit     uint64
	Recipient    *common.Address `rlp:"nil"`
	Amount       *big.Int
	Payload      []byte
	Signdata     sigWire
}

type kindK struct{ base tokWire }

func newKindK(e *kindEnv, seed int64) *kindK {
	to := common.BigToAddress(big.NewInt(0xc3000 + seed))
	token := common.BigToAddress(big.NewInt(0x70c0 + seed%3)) // seed%3 == ... never zero: a real token
	tx := types.NewTokenTransaction(token, uint64(1+seed%7), to, big.NewInt(5e17), uint64(types.MinGasLimit), nil, nil)
	b, _ := ser.EncodeToBytes(tx)
	k := &kindK{}
	if err := ser.DecodeBytes(b, &k.base); err != nil {
		panic(err)
	}
	return k
}
func (k *kindK) Name() string { return "TokenTransaction" }
func (k *kindK) Fields() []string {
	return []string{"tokenAddress", "nonce", "gasPrice", "gas", "to", "value", "input"}
}
func (k *kindK) NAlts(f int) int { return 3 }
func (k *kindK) content(val []int) tokWire {
	w := k.base
	if j := val[0]; j != 0 {
		switch j {
		case 1:
			w.TokenAddress = flipAddr(w.TokenAddress, 0)
		case 2:
			w.TokenAddress = common.Address{} // the native coin
		default:
			w.TokenAddress = flipAddr(w.TokenAddress, 159)
		}
	}
	if j := val[1]; j != 0 {
		w.AccountNonce = u64Alt(w.AccountNonce, j)
	}
	if j := val[2]; j != 0 {
		w.Price = bigAlt(w.Price, j)
	}
	if j := val[3]; j != 0 {
		w.GasLimit = u64Alt(w.GasLimit, j)
	}
	if j := val[4]; j != 0 {
		w.Recipient = addrAlt(w.Recipient, j)
	}
	if j := val[5]; j != 0 {
		w.Amount = bigAlt(w.Amount, j)
	}
	if j := val[6]; j != 0 {
		w.Payload = bytesAlt(w.Payload, j)
	}
	return w
}
func (k *kindK) Wire(val []int, sg vrs) ([]byte, error) {
	w := k.content(val)
	w.Signdata = sigWire{sg.V, sg.R, sg.S}
	return ser.EncodeToBytes(&w)
}
func (k *kindK) Decode(wire []byte) (interface{}, error) {
	tx := new(types.TokenTransaction)
	if err := ser.DecodeBytes(wire, tx); err != nil {
		return nil, err
	}
	return tx, nil
}
func (k *kindK) Encode(obj interface{}) ([]byte, error) {
	return ser.EncodeToBytes(obj.(*types.TokenTransaction))
}
func (k *kindK) SigOf(obj interface{}) vrs {
	v, r, s := obj.(*types.TokenTransaction).RawSignatureValues()
	return vrs{V: v, R: r, S: s}.clone()
}
func (k *kindK) RefFields(val []int) ([]interface{}, error) {
	w := k.content(val)
	return []interface{}{w.TokenAddress, w.AccountNonce, w.Price, w.GasLimit, w.Recipient, w.Amount, w.Payload}, nil
}
func (k *kindK) Sign(obj interface{}, p *big.Int, key *ecdsa.PrivateKey, variant int) (interface{}, string, error) {
	tx := obj.(*types.TokenTransaction)
	return tx, "Sign", tx.Sign(signer(p), key)
}
func (k *kindK) Sender(obj interface{}, p *big.Int, variant int) (common.Address, error) {
	tx := obj.(*types.TokenTransaction)
	if variant%2 == 1 && p.Cmp(types.SignParam) == 0 {
		return tx.From()
	}
	return tx.Sender(signer(p))
}
func (k *kindK) ParamQuery() bool                 { return true }
func (k *kindK) HasPool() bool                    { return true }
func (k *kindK) Hash(obj interface{}) common.Hash { return obj.(*types.TokenTransaction).Hash() }
func (k *kindK) CheckBasic(obj interface{}, cen types.TxCensor) error {
	return obj.(*types.TokenTransaction).CheckBasic(cen)
}
func (k *kindK) StoreFrom(obj interface{}, a common.Address) {
	obj.(*types.TokenTransaction).StoreFrom(a)
}
func (k *kindK) MayAccept(val []int, who string, sg mSig, e *kindEnv) bool {
	return mayAcceptRecovered(who, sg)
}

// ---------------------------------------------------------------- UTXOTransaction (account input)

type kindU struct {
	baseWire []byte
	attacker common.Address
}

func newKindU(e *kindEnv, seed int64, dest lkt.AccountAddress) (*kindU, error) {
	amount := big.NewInt(3e18)
	gas := types.CalNewAmountGas(amount, types.EverLiankeFee)
	fee := new(big.Int).Mul(new(big.Int).SetUint64(gas), big.NewInt(types.ParGasPrice))
	tx, _, err := types.NewAinTokenTransaction(&types.AccountSourceEntry{From: e.addrs["k1"], Nonce: uint64(seed % 4), Amount: new(big.Int).Add(amount, fee)},
		[]types.DestEntry{&types.UTXODestEntry{Addr: dest, Amount: amount}}, common.EmptyAddress, nil, nil)
	if err != nil {
		return nil, err
	}
	b, err := ser.EncodeToBytes(tx)
	if err != nil {
		return nil, err
	}
	return &kindU{baseWire: b, attacker: e.addrs["k2"]}, nil
}
func (k *kindU) Name() string { return "UTXOTransaction" }
func (k *kindU) Fields() []string {
	return []string{"in.nonce", "in.amount", "in.cf", "in.commit", "inputs(len)", "out.otaddr", "out.amount", "out.remark",
		"outputs(len)", "token_id", "r_key", "add_keys", "fee", "extra"}
}
func (k *kindU) NAlts(f int) int { return 3 }

func (k *kindU) content(val []int) (*types.UTXOTransaction, error) {
	t := new(types.UTXOTransaction)
	if err := ser.DecodeBytes(k.baseWire, t); err != nil {
		return nil, err
	}
	in := t.Inputs[0].(*types.AccountInput)
	out := t.Outputs[0].(*types.UTXOOutput)
	if j := val[0]; j != 0 {
		in.Nonce = u64Alt(in.Nonce, j)
	}
	if j := val[1]; j != 0 {
		switch j {
		case 1:
			in.Amount = new(big.Int).Add(in.Amount, big.NewInt(types.UTXO_COMMITMENT_CHANGE_RATE))
		case 2:
			in.Amount = new(big.Int).Add(in.Amount, big.NewInt(1))
		default:
			in.Amount = new(big.Int).Lsh(in.Amount, 8)
		}
	}
	if j := val[2]; j != 0 {
		in.CF[(j*7)%32] ^= byte(1 << uint(j))
	}
	if j := val[3]; j != 0 {
		in.Commit[(j*11)%32] ^= byte(0x80 >> uint(j))
	}
	if j := val[4]; j != 0 {
		switch j {
		case 1:
			t.Inputs = append(t.Inputs, &types.AccountInput{Nonce: in.Nonce + 1, Amount: big.NewInt(types.UTXO_COMMITMENT_CHANGE_RATE)})
		case 2:
			t.Inputs = append([]types.Input{&types.UTXOInput{KeyOffset: []uint64{0}}}, t.Inputs...)
		default:
			t.Inputs = append(t.Inputs, &types.MineInput{Height: 1})
		}
	}
	if j := val[5]; j != 0 {
		out.OTAddr[(j*5)%32] ^= byte(1 << uint(j))
	}
	if j := val[6]; j != 0 {
		out.Amount = bigAlt(out.Amount, j)
	}
	if j := val[7]; j != 0 {
		out.Remark[(j*3)%32] ^= byte(1 << uint(j))
	}
	if j := val[8]; j != 0 {
		switch j {
		case 1:
			t.Outputs = append(t.Outputs, &types.AccountOutput{To: k.attacker, Amount: big.NewInt(1e18)})
		case 2:
			t.Outputs = append(t.Outputs, &types.UTXOOutput{OTAddr: out.OTAddr, Amount: new(big.Int), Remark: out.Remark})
		default:
			t.Outputs = append([]types.Output{&types.AccountOutput{To: k.attacker, Amount: new(big.Int)}}, t.Outputs...)
		}
	}
	if j := val[9]; j != 0 {
		t.TokenID = flipAddr(t.TokenID, j*53)
	}
	if j := val[10]; j != 0 {
		t.RKey[(j*13)%32] ^= byte(1 << uint(j))
	}
	if j := val[11]; j != 0 {
		switch j {
		case 1:
			if len(t.AddKeys) > 0 {
				t.AddKeys[0][7] ^= 4
			} else {
				t.AddKeys = []lkt.PublicKey{{1}}
			}
		case 2:
			t.AddKeys = append(t.AddKeys, lkt.PublicKey{2})
		default:
			if len(t.AddKeys) > 0 {
				t.AddKeys = t.AddKeys[:len(t.AddKeys)-1]
			} else {
				t.AddKeys = []lkt.PublicKey{{3}, {4}}
			}
		}
	}
	if j := val[12]; j != 0 {
		switch j {
		case 1:
			t.Fee = new(big.Int).Add(t.Fee, big.NewInt(types.ParGasPrice))
		case 2:
			t.Fee = new(big.Int).Add(t.Fee, big.NewInt(1))
		default:
			t.Fee = new(big.Int)
		}
	}
	if j := val[13]; j != 0 {
		t.Extra = bytesAlt(t.Extra, j)
	}
	return t, nil
}
func (k *kindU) Wire(val []int, sg vrs) ([]byte, error) {
	t, err := k.content(val)
	if err != nil {
		return nil, err
	}
	t.Sigs.V, t.Sigs.R, t.Sigs.S = sg.V, sg.R, sg.S
	return ser.EncodeToBytes(t)
}
func (k *kindU) Decode(wire []byte) (interface{}, error) {
	t := new(types.UTXOTransaction)
	if err := ser.DecodeBytes(wire, t); err != nil {
		return nil, err
	}
	return t, nil
}
func (k *kindU) Encode(obj interface{}) ([]byte, error) {
	return ser.EncodeToBytes(obj.(*types.UTXOTransaction))
}
func (k *kindU) SigOf(obj interface{}) vrs {
	t := obj.(*types.UTXOTransaction)
	return vrs{V: t.Sigs.V, R: t.Sigs.R, S: t.Sigs.S}.clone()
}
func (k *kindU) RefFields(val []int) ([]interface{}, error) {
	t, err := k.content(val)
	if err != nil {
		return nil, err
	}
	return []interface{}{t.Inputs, t.Outputs, t.TokenID, t.RKey, t.AddKeys, t.Fee, t.Extra}, nil
}
func (k *kindU) Sign(obj interface{}, p *big.Int, key *ecdsa.PrivateKey, variant int) (interface{}, string, error) {
	t := obj.(*types.UTXOTransaction)
	return t, "Sign", t.Sign(signer(p), key)
}
func (k *kindU) Sender(obj interface{}, p *big.Int, variant int) (common.Address, error) {
	t := obj.(*types.UTXOTransaction)
	if variant%2 == 1 && p.Cmp(types.SignParam) == 0 {
		return t.From()
	}
	return t.Sender(signer(p))
}
func (k *kindU) ParamQuery() bool                 { return true }
func (k *kindU) HasPool() bool                    { return true }
func (k *kindU) Hash(obj interface{}) common.Hash { return obj.(*types.UTXOTransaction).Hash() }
func (k *kindU) CheckBasic(obj interface{}, cen types.TxCensor) error {
	return obj.(*types.UTXOTransaction).CheckBasic(cen)
}
func (k *kindU) StoreFrom(obj interface{}, a common.Address) {
	obj.(*types.UTXOTransaction).StoreFrom(a)
}
func (k *kindU) MayAccept(val []int, who string, sg mSig, e *kindEnv) bool {
	return mayAcceptRecovered(who, sg)
}

// ---------------------------------------------------------------- ContractUpgradeTx

type cutWire struct {
	Main       types.ContractUpgradeMainInfo
	Signatures []*sigWire
}

type kindC struct{ base types.ContractUpgradeMainInfo }

func newKindC(e *kindEnv, seed int64) *kindC {
	return &kindC{base: types.ContractUpgradeMainInfo{FromAddr: e.addrs["k1"], Recipient: cfg.ContractCandidatesAddr,
		AccountNonce: uint64(seed % 9), Payload: []byte{0x00, 0x61, 0x73, 0x6d, 0x01, byte(seed)}}}
}
func (k *kindC) Name() string     { return "ContractUpgradeTx" }
func (k *kindC) Fields() []string { return []string{"from", "contract", "nonce", "input"} }
func (k *kindC) NAlts(f int) int  { return 3 }
func (k *kindC) content(val []int, e *kindEnv) types.ContractUpgradeMainInfo {
	m := k.base
	m.Payload = append([]byte{}, m.Payload...)
	if j := val[0]; j != 0 {
		switch j {
		case 1:
			m.FromAddr = flipAddr(m.FromAddr, 3)
		case 2:
			m.FromAddr = common.Address{}
		default:
			m.FromAddr = flipAddr(m.FromAddr, 100)
		}
	}
	if j := val[1]; j != 0 {
		switch j {
		case 1:
			m.Recipient = cfg.ContractValidatorsAddr // another upgradable inner contract
		case 2:
			m.Recipient = cfg.ContractFoundationAddr
		default:
			m.Recipient = flipAddr(m.Recipient, 9)
		}
	}
	if j := val[2]; j != 0 {
		m.AccountNonce = u64Alt(m.AccountNonce, j)
	}
	if j := val[3]; j != 0 {
		m.Payload = bytesAlt(m.Payload, j)
	}
	return m
}
func (k *kindC) Wire(val []int, sg vrs) ([]byte, error) {
	w := cutWire{Main: k.content(val, nil), Signatures: []*sigWire{{sg.V, sg.R, sg.S}}}
	return ser.EncodeToBytes(&w)
}
func (k *kindC) Decode(wire []byte) (interface{}, error) {
	t := new(types.ContractUpgradeTx)
	if err := ser.DecodeBytes(wire, t); err != nil {
		return nil, err
	}
	return t, nil
}
func (k *kindC) Encode(obj interface{}) ([]byte, error) {
	return ser.EncodeToBytes(obj.(*types.ContractUpgradeTx))
}
func (k *kindC) SigOf(obj interface{}) vrs {
	t := obj.(*types.ContractUpgradeTx)
	if len(t.Signatures) == 0 || t.Signatures[len(t.Signatures)-1] == nil {
		return vrs{}.clone()
	}
	s := t.Signatures[len(t.Signatures)-1]
	return vrs{V: s.V, R: s.R, S: s.S}.clone()
}
func (k *kindC) RefFields(val []int) ([]interface{}, error) {
	return []interface{}{k.content(val, nil)}, nil
}

// Sign replaces the single signature: a transaction with the same main info and no
// signature is built through the repo's constructor and signed with the kind's own Sign.
func (k *kindC) Sign(obj interface{}, p *big.Int, key *ecdsa.PrivateKey, variant int) (interface{}, string, error) {
	t := obj.(*types.ContractUpgradeTx)
	mi := t.ContractUpgradeMainInfo
	if variant%2 == 1 && p.Cmp(types.SignParam) == 0 {
		sb, err := types.SignContractUpgradeTx(key, &mi)
		if err != nil {
			return nil, "", err
		}
		n := types.UpgradeContractTx(&mi, [][]byte{sb})
		if n == nil {
			return nil, "", errors.New("UpgradeContractTx returned nil")
		}
		return n, "SignContractUpgradeTx+UpgradeContractTx", nil
	}
	n := types.UpgradeContractTx(&mi, nil)
	if n == nil {
		return nil, "", errors.New("UpgradeContractTx returned nil")
	}
	return n, "UpgradeContractTx+Sign", n.Sign(signer(p), key)
}
func (k *kindC) Sender(obj interface{}, p *big.Int, variant int) (common.Address, error) {
	t := obj.(*types.ContractUpgradeTx)
	as, err := t.Senders()
	if err != nil {
		return common.Address{}, err
	}
	if len(as) != 1 {
		return common.Address{}, fmt.Errorf("%d senders", len(as))
	}
	return as[0], nil
}
func (k *kindC) ParamQuery() bool                 { return false }
func (k *kindC) HasPool() bool                    { return false }
func (k *kindC) Hash(obj interface{}) common.Hash { return obj.(*types.ContractUpgradeTx).Hash() }
func (k *kindC) CheckBasic(obj interface{}, cen types.TxCensor) error {
	return obj.(*types.ContractUpgradeTx).CheckBasic(cen)
}
func (k *kindC) StoreFrom(obj interface{}, a common.Address) {}

// accepted only when the recovered signer is the declared sender (FromAddr) and a registered signer
func (k *kindC) MayAccept(val []int, who string, sg mSig, e *kindEnv) bool {
	a, ok := e.addrs[who]
	return ok && k.content(val, e).FromAddr == a
}

// ---------------------------------------------------------------- MultiSignAccountTx

type kindM struct{ base types.MultiSignMainInfo }

func newKindM(e *kindEnv, seed int64) *kindM {
	return &kindM{base: types.MultiSignMainInfo{AccountNonce: uint64(seed % 5), SupportTxType: types.TxContractCreateType,
		SignersInfo: types.SignersInfo{MinSignerPower: 20, Signers: []*types.SignerEntry{{Power: 10, Addr: e.addrs["k1"]}, {Power: 10, Addr: common.BigToAddress(big.NewInt(77 + seed))}}}}}
}
func (k *kindM) Name() string { return "MultiSignAccountTx" }
func (k *kindM) Fields() []string {
	return []string{"nonce", "txTypes", "minSignerPower", "signers.power", "signers.addr", "signers(len)"}
}
func (k *kindM) NAlts(f int) int { return 3 }
func (k *kindM) content(val []int) types.MultiSignMainInfo {
	m := k.base
	m.Signers = nil
	for _, s := range k.base.Signers {
		c := *s
		m.Signers = append(m.Signers, &c)
	}
	if j := val[0]; j != 0 {
		m.AccountNonce = u64Alt(m.AccountNonce, j)
	}
	if j := val[1]; j != 0 {
		m.SupportTxType = []types.SupportType{types.TxUpdateValidatorsType, 2, 255}[j-1]
	}
	if j := val[2]; j != 0 {
		m.MinSignerPower = []int32{1, 0, math.MaxInt32}[j-1]
	}
	if j := val[3]; j != 0 {
		for _, sg := range m.Signers {
			sg.Power = []int32{sg.Power + 1, 0, math.MaxInt32}[j-1]
		}
	}
	if j := val[4]; j != 0 {
		for i, sg := range m.Signers {
			sg.Addr = flipAddr(sg.Addr, j*31+i)
		}
	}
	if j := val[5]; j != 0 { // never shorter, so that the other alternatives stay visible
		switch j {
		case 1:
			m.Signers = append(m.Signers, &types.SignerEntry{Power: 100, Addr: common.BigToAddress(big.NewInt(0xbad))})
		case 2:
			c := *m.Signers[0]
			m.Signers = append(m.Signers, &c)
		default:
			m.Signers = append([]*types.SignerEntry{{Power: 1, Addr: common.Address{}}}, m.Signers...)
		}
	}
	return m
}

// the "signature" of this kind is one ValidatorSign, carried in vrs.Addr / vrs.Raw
func (k *kindM) Wire(val []int, sg vrs) ([]byte, error) {
	mi := k.content(val)
	var sigs []types.ValidatorSign
	if len(sg.Raw) > 0 {
		sigs = []types.ValidatorSign{{Addr: append([]byte{}, sg.Addr...), Signature: append([]byte{}, sg.Raw...)}}
	}
	return ser.EncodeToBytes(types.NewMultiSignAccountTx(&mi, sigs))
}
func (k *kindM) Decode(wire []byte) (interface{}, error) {
	t := new(types.MultiSignAccountTx)
	if err := ser.DecodeBytes(wire, t); err != nil {
		return nil, err
	}
	return t, nil
}
func (k *kindM) Encode(obj interface{}) ([]byte, error) {
	return ser.EncodeToBytes(obj.(*types.MultiSignAccountTx))
}
func (k *kindM) SigOf(obj interface{}) vrs {
	t := obj.(*types.MultiSignAccountTx)
	if len(t.Signatures) == 0 {
		return vrs{}.clone()
	}
	s := t.Signatures[len(t.Signatures)-1]
	return vrs{Addr: s.Addr, Raw: s.Signature}.clone()
}
func (k *kindM) RefFields(val []int) ([]interface{}, error) { return nil, errors.New("n/a") }
func (k *kindM) Sign(obj interface{}, p *big.Int, key *ecdsa.PrivateKey, variant int) (interface{}, string, error) {
	return nil, "", errors.New("use signPV")
}
func (k *kindM) signPV(obj interface{}, pv *types.MockPV) (interface{}, error) {
	t := obj.(*types.MultiSignAccountTx)
	mi := t.MultiSignMainInfo
	n := types.NewMultiSignAccountTx(&mi, nil)
	return n, n.Sign(pv)
}
func (k *kindM) Sender(obj interface{}, p *big.Int, variant int) (common.Address, error) {
	return common.Address{}, errors.New("n/a")
}
func (k *kindM) ParamQuery() bool                 { return false }
func (k *kindM) HasPool() bool                    { return false }
func (k *kindM) Hash(obj interface{}) common.Hash { return obj.(*types.MultiSignAccountTx).Hash() }
func (k *kindM) CheckBasic(obj interface{}, cen types.TxCensor) error {
	return obj.(*types.MultiSignAccountTx).CheckBasic(cen)
}
func (k *kindM) StoreFrom(obj interface{}, a common.Address) {}
func (k *kindM) MayAccept(val []int, who string, sg mSig, e *kindEnv) bool {
	return who == "k1" // only the validator holding > 2/3 of the power
}
