package c08

// Confidential half: replay of ConfAuth behaviours on real deposits (account ->
// confidential, types.NewAinTokenTransaction) and ring-size-1 spends
// (types.NewUinTokenTransaction + types.UInTransWithRctSig) over the libxcrypto stand-in.
// Runs in a child process: a stand-in symbol that is not implemented aborts the process.

import (
	"bufio"
	"bytes"
	"encoding/json"
	"fmt"
	"io/ioutil"
	"math/big"
	"math/rand"
	"os"
	"path/filepath"
	"strings"
	"time"

	"github.com/lianxiangcloud/linkchain/libs/common"
	"github.com/lianxiangcloud/linkchain/libs/cryptonote/ringct"
	lkt "github.com/lianxiangcloud/linkchain/libs/cryptonote/types"
	"github.com/lianxiangcloud/linkchain/libs/cryptonote/xcrypto"
	"github.com/lianxiangcloud/linkchain/libs/ser"
	"github.com/lianxiangcloud/linkchain/types"

	"verifh/core"
	"verifh/mbt"
	"verifh/tlc"
)

type confJob struct {
	Edges string `json:"edges"`
	Walks int    `json:"walks"`
}

type cAct struct {
	Op    string          `json:"op"`
	D0    string          `json:"d0"`
	D1    string          `json:"d1"`
	W     string          `json:"w"`
	I     int             `json:"i"`
	C     string          `json:"c"`
	Built bool            `json:"built"`
	Ok    bool            `json:"ok"`
	Rec   map[string]bool `json:"rec"`
	Amt   map[string]bool `json:"amt"`
	Dec   map[string]bool `json:"dec"`
}

type cState struct {
	Dest    map[string]string `json:"dest"`
	Rkey    bool              `json:"rkey"`
	By      string            `json:"by"`
	Idx     int               `json:"idx"`
	Changed []string          `json:"changed"`
	N       int               `json:"n"`
	Ok      bool              `json:"ok"`
}

type confResult struct {
	Behaviours, Steps, Nontrivial int
	Scans, Recognised, Decoded    int
	SpendsBuilt, SpendsRefused    int
	Forged                        int
	Accepted, Rejected            int
	PrefixHashChecks              int
	EcdhUnboundInDeposit          string
	Findings                      []finding
	Sample                        interface{}
	Err                           string
}

func (r *confResult) add(f finding) {
	for _, o := range r.Findings {
		if o.Key == f.Key {
			return
		}
	}
	r.Findings = append(r.Findings, f)
}

type deposit struct {
	wire    []byte
	amounts [2]*big.Int
	outs    []*types.UTXOOutputData
	rkey    lkt.PublicKey
	masks   [2]lkt.Key        // as decoded by the destination wallet
	spends  map[string][]byte // built spends by "wallet/output/forged"
}

type confRunner struct {
	rng     *rand.Rand
	env     *kindEnv
	wallets map[string]*lkt.AccountKey
	names   []string
	deps    map[string]*deposit
	res     *confResult

	dep      *deposit
	depTx    *types.UTXOTransaction // as on the wire (R possibly replaced)
	rkeyOrig bool
	spend    []byte // wire of the spend as built
	changed  map[string]bool
	origPref lkt.Key
	trace    []string
}

var utxoRate = big.NewInt(types.UTXO_COMMITMENT_CHANGE_RATE)

func (r *confRunner) makeDeposit(d0, d1 string) (*deposit, error) {
	key := d0 + "/" + d1
	if d, ok := r.deps[key]; ok {
		return d, nil
	}
	a0 := new(big.Int).Mul(big.NewInt(int64(3+r.rng.Intn(90))), big.NewInt(1e17))
	a1 := new(big.Int).Mul(big.NewInt(int64(2+r.rng.Intn(5))), big.NewInt(1e18))
	fee := new(big.Int).Mul(big.NewInt(int64(types.CalNewAmountGas(new(big.Int).Add(a0, a1), types.EverLiankeFee))), big.NewInt(types.ParGasPrice))
	total := new(big.Int).Add(new(big.Int).Add(a0, a1), fee)
	tx, _, err := types.NewAinTokenTransaction(&types.AccountSourceEntry{From: r.env.addrs["k1"], Nonce: 0, Amount: total},
		[]types.DestEntry{&types.UTXODestEntry{Addr: r.wallets[d0].Addr, Amount: a0}, &types.UTXODestEntry{Addr: r.wallets[d1].Addr, Amount: a1}},
		common.EmptyAddress, nil, nil)
	if err != nil {
		return nil, fmt.Errorf("NewAinTokenTransaction: %v", err)
	}
	if err := tx.Sign(types.GlobalSTDSigner, r.env.keys["k1"]); err != nil {
		return nil, err
	}
	w, err := ser.EncodeToBytes(tx)
	if err != nil {
		return nil, err
	}
	chk := new(types.UTXOTransaction)
	if err := ser.DecodeBytes(w, chk); err != nil {
		return nil, err
	}
	if err := chk.CheckBasic(r.env.cen); err != nil {
		return nil, fmt.Errorf("the honest deposit is refused by CheckBasic: %v", err)
	}
	d := &deposit{wire: w, amounts: [2]*big.Int{a0, a1}, outs: chk.GetOutputData(1), rkey: tx.RKey, spends: map[string][]byte{}}
	if len(d.outs) != 2 {
		return nil, fmt.Errorf("deposit has %d confidential outputs", len(d.outs))
	}
	for i, dn := range []string{d0, d1} {
		rec, ok, _, mask := r.scanOutput(chk, r.wallets[dn], i, d.amounts[i])
		if !rec || !ok {
			return nil, fmt.Errorf("the destination %s does not recognise/decode output %d of the honest deposit", dn, i)
		}
		d.masks[i] = mask
	}
	r.deps[key] = d
	return d, nil
}

func keyIndexOf(acc *lkt.AccountKey) map[lkt.PublicKey]uint64 {
	return map[lkt.PublicKey]uint64{acc.Addr.SpendPublicKey: 0}
}

// scanOutput is the wallet's scan of one output (wallet/wallet/linkaccount.go processNewTransaction)
// done with the repo's own functions. recognised: ownership test; amountOK: the decoded amount is the
// paid one and re-commits to the output commitment. forced: decoding attempted without the ownership test.
func (r *confRunner) scanOutput(tx *types.UTXOTransaction, acc *lkt.AccountKey, i int, paid *big.Int) (recognised, amountOK, forcedOK bool, mask lkt.Key) {
	out, ok := tx.Outputs[i].(*types.UTXOOutput)
	if !ok {
		return
	}
	var ders []lkt.KeyDerivation
	if d, err := xcrypto.GenerateKeyDerivation(tx.RKey, acc.ViewSKey); err == nil {
		ders = append(ders, d)
	}
	for _, ak := range tx.AddKeys {
		if d, err := xcrypto.GenerateKeyDerivation(ak, acc.ViewSKey); err == nil {
			ders = append(ders, d)
		}
	}
	decode := func(d lkt.KeyDerivation) (bool, lkt.Key) {
		scalar, err := xcrypto.DerivationToScalar(d, i)
		if err != nil {
			return false, lkt.Key{}
		}
		ecdh := &lkt.EcdhTuple{Mask: tx.RCTSig.EcdhInfo[i].Mask, Amount: tx.RCTSig.EcdhInfo[i].Amount}
		if !xcrypto.EcdhDecode(ecdh, lkt.Key(scalar), false) {
			return false, lkt.Key{}
		}
		_, commits, _, err := ringct.ProveRangeBulletproof([]lkt.Key{ecdh.Amount}, lkt.KeyV{lkt.Key(scalar)})
		if err != nil || len(commits) != 1 {
			return false, lkt.Key{}
		}
		c8, _ := ringct.Scalarmult8(commits[0])
		if !bytes.Equal(c8[:], tx.RCTSig.OutPk[i].Mask[:]) {
			return false, lkt.Key{}
		}
		amt := new(big.Int).Mul(types.Hash2BigInt(ecdh.Amount), utxoRate)
		return amt.Cmp(paid) == 0, ecdh.Mask
	}
	if len(ders) > 0 {
		real, _, err := types.IsOutputBelongToAccount(acc, keyIndexOf(acc), out.OTAddr, ders, uint64(i))
		if err == nil {
			recognised = true
			amountOK, mask = decode(real)
		}
		forcedOK, _ = decode(ders[0])
	}
	return
}

func (r *confRunner) record(extra map[string]interface{}) map[string]interface{} {
	m := map[string]interface{}{"behaviour": append([]string{}, r.trace...)}
	for k, v := range extra {
		m[k] = v
	}
	return m
}

func (r *confRunner) buildSpend(w string, i int, forge bool) (built bool, err error) {
	acc := r.wallets[w]
	dep := r.dep
	// what the spender knows about the output: the owner decodes amount and mask; a forger is given
	// the true ones (the payer knows them) — only the destination's secret keys are withheld
	ck := fmt.Sprintf("%s/%d/%v", w, i, forge)
	if wb, ok := dep.spends[ck]; ok && r.rng.Intn(4) != 0 { // mostly reuse a spend built earlier for the same case
		if wb == nil {
			return false, nil
		}
		return true, r.adopt(wb)
	}
	mask := dep.masks[i]
	src := []*types.UTXOSourceEntry{{Ring: []types.UTXORingEntry{{Index: uint64(i), OTAddr: dep.outs[i].OTAddr, Commit: dep.outs[i].Commit}},
		RingIndex: 0, RKey: dep.rkey, OutIndex: uint64(i), Amount: dep.amounts[i], Mask: mask}}
	fee := new(big.Int).Mul(big.NewInt(500000), big.NewInt(types.ParGasPrice))
	rest := new(big.Int).Sub(dep.amounts[i], fee)
	toAcct := new(big.Int).Mul(big.NewInt(1), big.NewInt(1e17))
	toConf := new(big.Int).Sub(rest, toAcct)
	next := r.names[(indexOf(r.names, w)+1)%len(r.names)]
	dests := []types.DestEntry{&types.UTXODestEntry{Addr: r.wallets[next].Addr, Amount: toConf}, &types.AccountDestEntry{To: r.env.addrs["k2"], Amount: toAcct}}
	ki := keyIndexOf(acc)
	if forge {
		der, err := xcrypto.GenerateKeyDerivation(dep.rkey, acc.ViewSKey)
		if err != nil {
			return false, err
		}
		p, err := xcrypto.DeriveSubaddressPublicKey(lkt.PublicKey(dep.outs[i].OTAddr), der, i)
		if err != nil {
			return false, err
		}
		ki[p] = 0 // the ownership test is told that the mis-derived key is one of the wallet's
	}
	tx, ins, mkeys, _, err := types.NewUinTokenTransaction(acc, ki, src, dests, common.EmptyAddress, common.EmptyAddress, nil, nil)
	if err != nil {
		if err == types.ErrOutputNotBelongToAccount {
			dep.spends[ck] = nil
			return false, nil
		}
		return false, fmt.Errorf("NewUinTokenTransaction: %v", err)
	}
	if err := types.UInTransWithRctSig(tx, src, ins, dests, mkeys); err != nil {
		return false, fmt.Errorf("UInTransWithRctSig: %v", err)
	}
	wbytes, err := ser.EncodeToBytes(tx)
	if err != nil {
		return false, err
	}
	dep.spends[ck] = wbytes
	return true, r.adopt(wbytes)
}

func (r *confRunner) adopt(wbytes []byte) error {
	r.spend = wbytes
	r.changed = map[string]bool{}
	orig := new(types.UTXOTransaction)
	if err := ser.DecodeBytes(wbytes, orig); err != nil {
		return err
	}
	r.origPref = orig.PrefixHash()
	return nil
}

func indexOf(xs []string, x string) int {
	for i, y := range xs {
		if y == x {
			return i
		}
	}
	return 0
}

// inPrefix: components the property statement names as covered by the authorisation message
var inPrefix = map[string]bool{"keyimage": true, "keyoffset": true, "out_otaddr": true, "out_remark": true, "token": true, "rkey": true,
	"addkeys": true, "fee": true, "extra": true, "sig_v": true, "sig_r": true, "sig_s": true, "aout_to": true, "aout_amount": true, "aout_commit": true}

// current returns the spend with all currently changed components applied, decoded afresh.
func (r *confRunner) current() (*types.UTXOTransaction, error) {
	t := new(types.UTXOTransaction)
	if err := ser.DecodeBytes(r.spend, t); err != nil {
		return nil, err
	}
	in := t.Inputs[0].(*types.UTXOInput)
	uo := t.Outputs[0].(*types.UTXOOutput)
	ao := t.Outputs[1].(*types.AccountOutput)
	for c, on := range r.changed {
		if !on {
			continue
		}
		switch c {
		case "keyimage":
			other, _ := xcrypto.GenerateKeyImage(lkt.PublicKey(uo.OTAddr), r.wallets[r.names[0]].SpendSKey) // another valid point of the group
			in.KeyImage = lkt.Key(other)
		case "keyoffset":
			in.KeyOffset[0] = 1 - in.KeyOffset[0]
		case "out_otaddr":
			uo.OTAddr = lkt.Key(r.wallets[r.names[2]].Addr.SpendPublicKey) // redirect to a key the attacker holds
		case "out_remark":
			uo.Remark[3] ^= 0x10
		case "token":
			t.TokenID = common.BigToAddress(big.NewInt(0x70c1))
		case "rkey":
			t.RKey = r.wallets[r.names[1]].Addr.ViewPublicKey
		case "addkeys":
			if len(t.AddKeys) > 0 {
				t.AddKeys[0] = r.wallets[r.names[1]].Addr.SpendPublicKey
			} else {
				t.AddKeys = []lkt.PublicKey{r.wallets[r.names[1]].Addr.SpendPublicKey}
			}
		case "fee":
			t.Fee = new(big.Int).Sub(t.Fee, big.NewInt(types.ParGasPrice))
		case "extra":
			t.Extra = append(t.Extra, 0x01)
		case "sig_v":
			t.Sigs.V = big.NewInt(27)
		case "sig_r":
			t.Sigs.R = big.NewInt(1)
		case "sig_s":
			t.Sigs.S = big.NewInt(1)
		case "pseudo_out":
			t.RCTSig.P.PseudoOuts[0], _ = ringct.AddKeys(t.RCTSig.P.PseudoOuts[0], ringct.H) // claims one unit more
		case "outpk":
			t.RCTSig.OutPk[0].Mask, _ = ringct.AddKeys(t.RCTSig.OutPk[0].Mask, ringct.H)
		case "ecdh_mask":
			t.RCTSig.EcdhInfo[0].Mask[0] ^= 1
		case "ecdh_amount":
			t.RCTSig.EcdhInfo[0].Amount[0] ^= 1
		case "bp_r":
			bp := &t.RCTSig.P.Bulletproofs[0]
			bp.R[len(bp.R)-1][0] ^= 1
		case "ring_sig":
			t.RCTSig.P.Ss[0].R[0] ^= 1
		case "aout_to":
			ao.To = flipAddr(ao.To, 7)
		case "aout_amount":
			ao.Amount = new(big.Int).Add(ao.Amount, utxoRate)
		case "aout_commit":
			ao.Commit, _ = ringct.AddKeys(ao.Commit, ringct.H)
		default:
			return nil, fmt.Errorf("unknown component %s", c)
		}
	}
	w, err := ser.EncodeToBytes(t)
	if err != nil {
		return nil, err
	}
	f := new(types.UTXOTransaction)
	if err := ser.DecodeBytes(w, f); err != nil {
		return nil, err
	}
	return f, nil
}

func (r *confRunner) checkSpend(st *cState, a *cAct) error {
	t, err := r.current()
	if err != nil {
		return err
	}
	var cerr error
	func() {
		defer func() {
			if x := recover(); x != nil {
				cerr = fmt.Errorf("panic: %v", x)
			}
		}()
		cerr = t.CheckBasic(r.env.cen)
	}()
	accepted := cerr == nil
	if accepted {
		r.res.Accepted++
	} else {
		r.res.Rejected++
	}
	var ch []string
	for c, on := range r.changed {
		if on {
			ch = append(ch, c)
		}
	}
	if accepted && !st.Ok {
		key := "spend-accepted/changed:" + strings.Join(sorted(ch), "+")
		if len(ch) == 0 {
			key = "spend-accepted/non-owner"
		}
		r.res.add(finding{key, fmt.Sprintf("CheckBasic accepts a ring-size-1 spend built by %s of output %d (destination %s) with changed components %v", st.By, st.Idx, st.Dest[fmt.Sprintf("d%d", st.Idx)], sorted(ch)),
			r.record(map[string]interface{}{"changed": sorted(ch), "by": st.By})})
	}
	if !accepted && st.Ok {
		r.res.add(finding{"owner-spend-refused", fmt.Sprintf("CheckBasic refuses the unchanged spend of the destination wallet: %v", cerr), r.record(nil)})
	}
	// the authorisation message itself
	for _, c := range ch {
		if inPrefix[c] {
			r.res.PrefixHashChecks++
			if t.PrefixHash() == r.origPref {
				r.res.add(finding{"prefixhash-unbound/" + c, fmt.Sprintf("changing %s leaves UTXOTransaction.PrefixHash (the message of the spend authorisation) unchanged", c), r.record(nil)})
			}
		}
	}
	return nil
}

func sorted(xs []string) []string {
	o := append([]string{}, xs...)
	for i := range o {
		for j := i + 1; j < len(o); j++ {
			if o[j] < o[i] {
				o[i], o[j] = o[j], o[i]
			}
		}
	}
	return o
}

func (r *confRunner) run(g *mbt.Graph, seq []int) (steps int, changed bool, err error) {
	r.dep, r.depTx, r.spend, r.changed, r.trace = nil, nil, nil, nil, nil
	r.rkeyOrig = true
	for _, ei := range seq {
		e := g.Edges[ei]
		var a cAct
		var st cState
		if err := json.Unmarshal(e.Act, &a); err != nil {
			return steps, changed, err
		}
		if err := json.Unmarshal(e.ToSt, &st); err != nil {
			return steps, changed, err
		}
		r.trace = append(r.trace, mbt.Compact(e.Act))
		steps++
		switch a.Op {
		case "pay":
			d, err := r.makeDeposit(a.D0, a.D1)
			if err != nil {
				return steps, changed, err
			}
			r.dep = d
			r.env.cen.outs = map[common.Address][]*types.UTXOOutputData{common.EmptyAddress: d.outs}
		case "replace_rkey":
			r.rkeyOrig = !r.rkeyOrig
			changed = true
		case "scan":
			tx := new(types.UTXOTransaction)
			if err := ser.DecodeBytes(r.dep.wire, tx); err != nil {
				return steps, changed, err
			}
			if !r.rkeyOrig {
				tx.RKey = r.wallets[r.names[r.rng.Intn(3)]].Addr.ViewPublicKey // some other valid key
			}
			for i := 0; i < 2; i++ {
				rec, amt, forced, _ := r.scanOutput(tx, r.wallets[a.W], i, r.dep.amounts[i])
				r.res.Scans++
				if rec {
					r.res.Recognised++
				}
				if amt {
					r.res.Decoded++
				}
				is := fmt.Sprint(i)
				dest := st.Dest["d"+is]
				if rec != a.Rec[is] {
					key := "output-not-recognised-by-destination"
					if rec {
						key = "output-recognised-by-non-destination"
					}
					r.res.add(finding{key, fmt.Sprintf("wallet %s scanning output %d (destination %s, transaction key intact: %v): recognised=%v, the specification says %v", a.W, i, dest, r.rkeyOrig, rec, a.Rec[is]), r.record(nil)})
				}
				if amt != a.Amt[is] || forced != a.Dec[is] {
					key := "amount-not-decoded-by-destination"
					if (amt && !a.Amt[is]) || (forced && !a.Dec[is]) {
						key = "amount-decoded-by-non-destination"
					}
					r.res.add(finding{key, fmt.Sprintf("wallet %s decoding output %d (destination %s): after ownership test %v (spec %v), forced %v (spec %v)", a.W, i, dest, amt, a.Amt[is], forced, a.Dec[is]), r.record(nil)})
				}
			}
		case "spend", "forge":
			built, err := r.buildSpend(a.W, a.I, a.Op == "forge")
			if err != nil {
				return steps, changed, err
			}
			changed = true
			if a.Op == "spend" {
				if built {
					r.res.SpendsBuilt++
				} else {
					r.res.SpendsRefused++
				}
				if built != a.Built {
					key := "spend-not-built-for-destination"
					if built {
						key = "spend-built-by-non-destination"
					}
					r.res.add(finding{key, fmt.Sprintf("NewUinTokenTransaction by wallet %s for output %d (destination %s): built=%v, the specification says %v", a.W, a.I, st.Dest[fmt.Sprintf("d%d", a.I)], built, a.Built), r.record(nil)})
					return steps, changed, nil
				}
			} else {
				r.res.Forged++
				if !built {
					return steps, changed, fmt.Errorf("forged spend could not be built")
				}
			}
			if built {
				if err := r.checkSpend(&st, &a); err != nil {
					return steps, changed, err
				}
			}
		case "change":
			r.changed[a.C] = !r.changed[a.C]
			changed = true
			if err := r.checkSpend(&st, &a); err != nil {
				return steps, changed, err
			}
		case "verify":
			if err := r.checkSpend(&st, &a); err != nil {
				return steps, changed, err
			}
		}
	}
	return steps, changed, nil
}

// ecdhProbe: is the encrypted amount of an account->confidential deposit bound by anything?
// (Not a signed field; reported as an observation, not as a violation.)
func (r *confRunner) ecdhProbe() string {
	d, err := r.makeDeposit(r.names[0], r.names[1])
	if err != nil {
		return "n/a: " + err.Error()
	}
	t := new(types.UTXOTransaction)
	ser.DecodeBytes(d.wire, t)
	h0 := t.Hash()
	f0, _ := t.From()
	t2 := new(types.UTXOTransaction)
	ser.DecodeBytes(d.wire, t2)
	t2.RCTSig.EcdhInfo[0].Amount[0] ^= 1
	w, _ := ser.EncodeToBytes(t2)
	t3 := new(types.UTXOTransaction)
	ser.DecodeBytes(w, t3)
	err = t3.CheckBasic(r.env.cen)
	f3, _ := t3.From()
	rec, amt, _, _ := r.scanOutput(t3, r.wallets[r.names[0]], 0, d.amounts[0])
	return fmt.Sprintf("deposit with RCTSig.EcdhInfo[0].Amount changed in transit: CheckBasic=%v, same sender=%v, hash changed=%v, destination recognises=%v decodes=%v", err, f0 == f3, h0 != t3.Hash(), rec, amt)
}

func confChild(c *core.Ctx) {
	var j confJob
	w := bufio.NewWriter(os.Stdout)
	defer w.Flush()
	res := &confResult{}
	finish := func() {
		b, _ := json.Marshal(res)
		fmt.Fprintf(w, "RESULT %s\nDONE\n", b)
	}
	if err := json.Unmarshal([]byte(c.Child), &j); err != nil {
		res.Err = "bad job: " + err.Error()
		finish()
		return
	}
	b, err := ioutil.ReadFile(j.Edges)
	if err != nil {
		res.Err = err.Error()
		finish()
		return
	}
	g, err := mbt.Load(strings.Split(strings.TrimSpace(string(b)), "\n"))
	if err != nil {
		res.Err = err.Error()
		finish()
		return
	}
	types.RegisterUTXORateGetter(types.NewUTXOChangeRateGetter(func(common.Address) (int64, error) { return types.UTXO_COMMITMENT_CHANGE_RATE, nil }))
	rng := rand.New(rand.NewSource(c.Seed))
	r := &confRunner{rng: rng, env: newEnv(rng), wallets: map[string]*lkt.AccountKey{}, names: []string{"w1", "w2", "w3"}, deps: map[string]*deposit{}, res: res}
	for _, n := range r.names {
		r.wallets[n] = newWallet()
	}
	seqs := append(g.Tour(0, rng), g.Walks(j.Walks, 8, rng)...)
	for _, seq := range seqs {
		fmt.Fprintf(w, "AT behaviour %d\n", res.Behaviours)
		w.Flush()
		steps, changed, err := r.run(g, seq)
		res.Behaviours++
		res.Steps += steps
		if changed {
			res.Nontrivial++
		}
		if err != nil {
			res.Err = fmt.Sprintf("%v (behaviour %v)", err, r.trace)
			break
		}
		if res.Sample == nil && changed && steps >= 3 {
			res.Sample = map[string]interface{}{"half": "confidential", "behaviour": append([]string{}, r.trace...)}
		}
	}
	if res.Err == "" {
		res.EcdhUnboundInDeposit = r.ecdhProbe()
	}
	finish()
}

func runConf(c *core.Ctx) {
	cfgName := "ConfAuth.cfg"
	if c.Thorough() {
		cfgName = "ConfAuthBig.cfg"
	}
	res := c.TLC(tlc.Options{SpecDir: c.SpecDir("TxAuth"), Module: "ConfAuth", Config: cfgName, Workers: 1, Timeout: c.MinutesT(3, 15)})
	if res == nil {
		return
	}
	if res.Violated != "" || !res.Finished {
		c.Infra("ConfAuth model: %s\n%s", res.Describe(), res.Tail)
		return
	}
	base, err := ioutil.TempDir("", "vc08")
	if err != nil {
		c.Infra("tempdir: %v", err)
		return
	}
	defer os.RemoveAll(base)
	ef := filepath.Join(base, "edges.ndjson")
	if err := ioutil.WriteFile(ef, []byte(strings.Join(res.Lines, "\n")), 0644); err != nil {
		c.Infra("write edges: %v", err)
		return
	}
	g, err := mbt.Load(res.Lines)
	if err != nil {
		c.Infra("ConfAuth edge load: %v", err)
		return
	}
	c.SetExtra("confauth_states", len(g.States))
	c.SetExtra("confauth_edges", len(g.Edges))
	c.SetExtra("confauth_edges_by_action", g.ActionKinds("op"))
	arg, _ := json.Marshal(confJob{Edges: ef, Walks: c.Pick(100, 2000)})
	tChild := time.Now()
	results, at, crash := c.RunChild(string(arg), c.MinutesT(3, 20))
	c.SetExtra("confidential_replay_wall_s", time.Since(tChild).Seconds())
	if crash != "" {
		c.Infra("confidential half: the child %s at %s: %s", map[bool]string{true: "timed out", false: "died"}[crash == "TIMEOUT"], at, crash)
		return
	}
	o := c.Out()
	for _, rs := range results {
		var cr confResult
		if json.Unmarshal([]byte(rs), &cr) != nil {
			continue
		}
		if cr.Err != "" {
			c.Infra("confidential half: %s", cr.Err)
		}
		o.Traces += cr.Behaviours
		o.Evaluations += cr.Steps
		o.Distinct += cr.Nontrivial
		for _, f := range cr.Findings {
			c.Violate(f.Key, f.Desc, f.Record)
		}
		if cr.Sample != nil {
			c.Sample(cr.Sample)
		}
		c.SetExtra("confidential_half", map[string]interface{}{"behaviours": cr.Behaviours, "steps": cr.Steps, "wallet_scans_of_one_output": cr.Scans, "recognised": cr.Recognised, "amount_decoded": cr.Decoded,
			"spends_built": cr.SpendsBuilt, "spends_refused_by_ownership_test": cr.SpendsRefused, "forged_spends": cr.Forged, "checkbasic_accepted": cr.Accepted, "checkbasic_rejected": cr.Rejected,
			"prefix_hash_comparisons": cr.PrefixHashChecks, "observation_ecdh_in_deposit": cr.EcdhUnboundInDeposit})
		if cr.Err == "" && (cr.Accepted == 0 || cr.Rejected == 0 || cr.Recognised == 0 || cr.SpendsBuilt == 0 || cr.Forged == 0) {
			c.Infra("vacuous binding (confidential half): %+v", cr)
		}
	}
}
