package c08

// C08 — only the key holder can move funds; signatures bind every transaction field.
//
// Model: spec/TxAuth/TxAuth.tla (sender authentication of the account-based kinds; TLC:
// exhaustive bounded instance "as designed", every transition exported; two "as coded"
// instances in which TLC shows which invariant each known deviation of the code breaks)
// and spec/TxAuth/ConfAuth.tla (who recognises / decodes / spends a confidential output,
// what a ring-size-1 spend authorisation is bound to).
//
// Binding: a transition tour over each exported graph plus seeded random walks is
// replayed on real objects — types.Transaction, TokenTransaction, ContractUpgradeTx,
// MultiSignAccountTx and UTXOTransaction with an account input — with real secp256k1 /
// ed25519 keys; every abstract field is mapped in turn onto every concrete signed field
// of the kind, alternatives are boundary values, malformed signature classes are
// instantiated with several concrete values (0, N, N+r, 2^256-1, N-s, recovery ids,
// V of another chain, V in {27,28}). After every step a freshly decoded twin of the
// object is asked for its sender under both chain parameters, for its hash and for
// CheckBasic, and the object itself (with whatever it memoised) is asked wherever the
// model asks; all answers are compared with the model state.
//
// The admission window (window.go): the model splits mempool.AddTx into its two
// linearisation points (AdmitPut: cache.Put, unchecked; AdmitVerdict: flag set or entry
// removed) with BlockVerify enabled in between. That part of the graph is replayed on the
// REAL mempool and the REAL LinkApplication (harness/appx): AddTx of the transaction is
// held at a gate inside the mempool's App (before / after the real basic check) while
// LinkApplication.CheckBlock verifies a freshly decoded block with the wire copy of the
// same transaction; accept/reject of the block and of the admission are compared with
// the model for Transaction, TokenTransaction, account->confidential deposits,
// confidential spends (ring signature, rings of 1 and 3) and MultiSignAccountTx.

import (
	"crypto/ecdsa"
	"encoding/json"
	"fmt"
	"io/ioutil"
	"math/big"
	"math/rand"
	"sort"
	"strings"
	"sync"
	"time"

	"github.com/lianxiangcloud/linkchain/libs/common"
	"github.com/lianxiangcloud/linkchain/libs/crypto"
	lkt "github.com/lianxiangcloud/linkchain/libs/cryptonote/types"
	"github.com/lianxiangcloud/linkchain/libs/cryptonote/xcrypto"
	"github.com/lianxiangcloud/linkchain/types"

	"verifh/core"
	"verifh/mbt"
	"verifh/tlc"
)

func init() { core.Register("C08", runC08) }

type acctJob struct {
	forceFmap []int
	forceP1   *big.Int
	forceAlt  map[int]int
	kind      string
	inst      int // rotation of the field map
	of        int // number of rotations of this kind: tours are dealt out among them
	extra     int // additional sampled behaviours that change a field
	seed      int64
	stats     jobStats
	err       string
	secs      float64
	half      bool // quick tier: replay every second behaviour of the share
}

func newEnv(rng *rand.Rand) *kindEnv {
	e := &kindEnv{keys: map[string]*ecdsa.PrivateKey{}, addrs: map[string]common.Address{}, pvs: map[string]*types.MockPV{}}
	for _, k := range []string{"k1", "k2"} {
		key, a := newKeys(rng)
		e.keys[k], e.addrs[k] = key, a
		e.pvs[k] = types.NewMockPV()
	}
	e.cen = &stubCensor{
		signers: &types.SignersInfo{MinSignerPower: 1, Signers: []*types.SignerEntry{{Power: 1, Addr: e.addrs["k1"]}, {Power: 1, Addr: e.addrs["k2"]}}},
		vals:    []*types.Validator{types.NewValidator(e.pvs["k1"].GetPubKey(), e.addrs["k1"], 10)},
	}
	return e
}

func newWallet() *lkt.AccountKey {
	vs, vp := xcrypto.SkpkGen()
	ss, sp := xcrypto.SkpkGen()
	return &lkt.AccountKey{Addr: lkt.AccountAddress{ViewPublicKey: lkt.PublicKey(vp), SpendPublicKey: lkt.PublicKey(sp)},
		SpendSKey: lkt.SecretKey(ss), ViewSKey: lkt.SecretKey(vs)}
}

func makeKind(name string, e *kindEnv, seed int64) (txKind, error) {
	switch name {
	case "T":
		return newKindT(e, seed), nil
	case "K":
		return newKindK(e, seed), nil
	case "U":
		return newKindU(e, seed, newWallet().Addr)
	case "C":
		return newKindC(e, seed), nil
	case "M":
		return newKindM(e, seed), nil
	}
	return nil, fmt.Errorf("unknown kind %s", name)
}

// otherParams: concrete values standing for "another chain"
func otherParams() []*big.Int {
	p0 := types.SignParam
	return []*big.Int{
		new(big.Int).Add(p0, big.NewInt(1)), // the test network next to the public one
		big.NewInt(1),
		new(big.Int).Add(new(big.Int).Lsh(big.NewInt(1), 62), big.NewInt(3)), // V no longer fits 64 bits
		new(big.Int).Add(new(big.Int).Lsh(big.NewInt(1), 70), big.NewInt(1)),
	}
}

// subgraph keeps the edges a kind can execute (edge indexes are renumbered).
func subgraph(g *mbt.Graph, keep func(a *mAct) bool) *mbt.Graph {
	return subgraphFrom(g, func(_ int, a *mAct) bool { return keep(a) })
}

func subgraphFrom(g *mbt.Graph, keep func(from int, a *mAct) bool) *mbt.Graph {
	sg := &mbt.Graph{States: g.States, Out: make([][]int, len(g.States))}
	for _, e := range g.Edges {
		var a mAct
		if json.Unmarshal(e.Act, &a) != nil || !keep(e.From, &a) {
			continue
		}
		sg.Edges = append(sg.Edges, e)
		sg.Out[e.From] = append(sg.Out[e.From], len(sg.Edges)-1)
	}
	return sg
}

// objectLevel is the subgraph one kind replays on transaction OBJECTS. On that level the mempool cache
// matters to BlockVerify only, so two families of edges are left to the replay on the real stack
// (window.go), where they are a different thing: block verification against an EMPTY cache (on the
// object level the same call as Query) and the content steps / queries taken while an admission is in
// flight (on the object level the same calls as from the state without the pending entry; every state
// with a checked entry stays reachable through AdmitPut . AdmitVerdict . changes).
func objectLevel(g *mbt.Graph, kind string) *mbt.Graph {
	noPool := make([]bool, len(g.States))
	inFlight := make([]bool, len(g.States))
	for i, raw := range g.States {
		var st mState
		if json.Unmarshal(raw, &st) != nil {
			continue
		}
		noPool[i] = st.Pool.Sig.Key == "none"
		inFlight[i] = !noPool[i] && !st.Pool.Chk
	}
	keep := keepFor(kind)
	return subgraphFrom(g, func(from int, a *mAct) bool {
		if a.Op == "blockverify" && noPool[from] {
			return false
		}
		if inFlight[from] && a.Op != "admitverdict" && a.Op != "blockverify" {
			return false
		}
		return keep(a)
	})
}

func keepFor(kind string) func(a *mAct) bool {
	switch kind {
	case "M": // validator signatures: no chain parameter, no recovery, no StoreFrom
		return func(a *mAct) bool {
			switch a.Op {
			case "mutate", "query", "redecode", "admitput", "admitverdict":
				return true
			case "blockverify": // a cache hit means "VerifySign skipped"
				return !a.Hit || a.M == "trust"
			case "sign":
				return a.P == "p0"
			case "mutsig":
				return a.C == "r0" || a.C == "s0" || a.C == "rN" || a.C == "sN" || a.C == "highS" || a.C == "flipv"
			}
			return false
		}
	case "C": // no StoreFrom; block verification always runs CheckBasic
		return func(a *mAct) bool {
			return a.Op != "admitput" && a.Op != "admitverdict" && a.Op != "blockverify" && a.Op != "libvalidate"
		}
	}
	// Transaction, TokenTransaction, account input: a cache hit means "sender taken from the pooled object"
	return func(a *mAct) bool {
		if a.Op == "blockverify" && a.Hit && a.M != "rederive" {
			return false
		}
		return a.Op != "libvalidate"
	}
}

func hasMutate(g *mbt.Graph, seq []int) bool {
	for _, ei := range seq {
		var a mAct
		json.Unmarshal(g.Edges[ei].Act, &a)
		if a.Op == "mutate" {
			return true
		}
	}
	return false
}

func runAcctJob(j *acctJob, g *mbt.Graph, nFields int, tours, walks [][]int) {
	t0 := time.Now()
	defer func() { j.secs = time.Since(t0).Seconds() }()
	defer func() {
		if x := recover(); x != nil {
			j.err = fmt.Sprintf("panic in the replay driver: %v", x)
		}
	}()
	rng := rand.New(rand.NewSource(j.seed))
	env := newEnv(rng)
	k, err := makeKind(j.kind, env, j.seed)
	if err != nil {
		j.err = "building the base transaction: " + err.Error()
		return
	}
	n := len(k.Fields())
	fmap := make([]int, nFields)
	for i := range fmap {
		fmap[i] = (j.inst + i) % n
	}
	ops := otherParams()
	p1 := ops[(j.inst+int(j.seed))%len(ops)]
	if j.forceFmap != nil {
		fmap, p1 = j.forceFmap, j.forceP1
	}
	names := []string{}
	for _, f := range fmap {
		names = append(names, k.Fields()[f])
	}
	r := &runner{k: k, env: env, rng: rng, fmap: fmap, stats: &j.stats, forceAlt: j.forceAlt,
		p:    map[string]*big.Int{"p0": types.SignParam, "p1": p1},
		inst: map[string]interface{}{"abstract_fields": names, "p0": types.SignParam.String(), "p1": p1.String(), "k1": env.addrs["k1"].Hex(), "k2": env.addrs["k2"].Hex()}}
	// every behaviour of the tour is replayed on this kind by exactly one field rotation;
	// on top, each rotation replays a seeded sample of the behaviours that change a field
	var seqs [][]int
	var withMutate []int
	for t, seq := range tours {
		if t%j.of == j.inst {
			if j.half && (t/j.of)%2 != int(j.seed&1) {
				continue // quick tier: kinds sharing sign.go with Transaction replay every second behaviour of their share
			}
			seqs = append(seqs, seq)
		} else if hasMutate(g, seq) {
			withMutate = append(withMutate, t)
		}
	}
	for w, seq := range walks {
		if w%j.of == j.inst {
			seqs = append(seqs, seq)
		}
	}
	rng.Shuffle(len(withMutate), func(a, b int) { withMutate[a], withMutate[b] = withMutate[b], withMutate[a] })
	for i := 0; i < len(withMutate) && i < j.extra; i++ {
		seqs = append(seqs, tours[withMutate[i]])
	}
	for _, seq := range seqs {
		steps, changed, err := r.runBehaviour(g, seq)
		j.stats.Behaviours++
		j.stats.Steps += steps
		if changed {
			j.stats.Nontrivial++
		}
		if err != nil {
			j.err = fmt.Sprintf("%s: %v (behaviour %v)", k.Name(), err, r.trace)
			return
		}
		if j.stats.Sample == nil && steps >= 3 && changed {
			j.stats.Sample = map[string]interface{}{"kind": k.Name(), "instantiation": r.inst, "behaviour": append([]string{}, r.trace...)}
		}
	}
}

func runC08(c *core.Ctx) {
	if c.Child != "" {
		var wj winJob
		if json.Unmarshal([]byte(c.Child), &wj) == nil && wj.Window {
			windowChild(c, &wj)
			return
		}
		confChild(c)
		return
	}
	if c.Replay != "" {
		replayRecord(c)
		return
	}
	o := c.Out()
	o.Level = "model_checking"
	o.Rule = "behaviour = path through the TLC-exported graph of TxAuth (tour covering every edge + seeded walks) replayed on one (transaction kind, field map, second chain parameter), or a path through its node-executable part (content changes, AdmitPut, AdmitVerdict, BlockVerify) replayed on the real mempool + LinkApplication with one gate position, or a path of ConfAuth replayed on real deposits/spends; non-trivial = it contains a content-changing step (field or signature changed, re-signed, admitted to the pool / spend built or changed); distinct = distinct (kind, instantiation, edge sequence)"
	o.Assumptions = []string{
		"ECDSA / ed25519 / edwards25519 hardness: a signature is modelled as remembering what it was made over",
		"transaction objects are built by the constructors, by decoding or by the kind's own Sign/WithSignature; exported struct fields are not assigned after the first From()",
		"the confidential half runs over the Go/libsodium stand-in for libxcrypto (ring size 1 only; MLSAG and sub-addresses are not available)",
		"object level: CheckBasic is called with a stub TxCensor (no contracts, fixed multi-signer table and validator set, in-memory output store) and the mempool-cache pattern of verifyTxsOnProcess is emulated; the real mempool cache and the real block verification (LinkApplication.CheckBlock) are driven by the admission-window replay, where AddTx is held at two points of its window (before the basic check starts, after it has run) - points inside CheckBasic are not reachable without a hook",
		"admission window: ContractUpgradeTx is not replayed on the real stack (block verification always runs its CheckBasic, which includes VerifySign; it needs an installed multi-signer account)",
	}
	o.Trusted = []string{"TLC", "libsecp256k1 (as the reference for what a valid signature is)", "xmodel stand-in", "the harness's list of signed fields per kind (the signing specification)"}

	// ---- confidential half (child process: unimplemented stand-in symbols abort), concurrently ----
	var cwg sync.WaitGroup
	cwg.Add(1)
	go func() { defer cwg.Done(); runConf(c) }()
	defer cwg.Wait()

	// ---- TLC: as designed (exported), as coded (leads) --------------------------------
	cfgName := "TxAuth.cfg"
	nFields := 2
	if c.Thorough() {
		cfgName, nFields = "TxAuthBig.cfg", 3
	}
	res := c.TLC(tlc.Options{SpecDir: c.SpecDir("TxAuth"), Module: "TxAuth", Config: cfgName, Workers: 1, Timeout: c.MinutesT(4, 20)})
	if res == nil {
		return
	}
	if res.Violated != "" || !res.Finished {
		c.Infra("TxAuth model (as designed): %s\n%s", res.Describe(), res.Tail)
		return
	}
	o.Exhaustive = true
	g, err := mbt.Load(res.Lines)
	if err != nil {
		c.Infra("edge load: %v", err)
		return
	}
	c.SetExtra("txauth_states", len(g.States))
	c.SetExtra("txauth_edges", len(g.Edges))
	c.SetExtra("txauth_edges_by_action", g.ActionKinds("op"))
	// ---- the admission window on the real mempool + application (child processes), concurrently ----
	var wwg sync.WaitGroup
	wwg.Add(1)
	go func() { defer wwg.Done(); runWindow(c, res.Lines, nFields) }()
	defer wwg.Wait()

	leads := map[string]string{}
	var lmu sync.Mutex
	var lwg sync.WaitGroup
	for _, ac := range [][2]string{{"TxAuthAsCodedLegacy.cfg", "ExactFieldsAndChain"}, {"TxAuthAsCodedResign.cfg", "SenderIsSigner"},
		{"TxAuthWhatIfServeUnchecked.cfg", "BlockAcceptsOnlyVerified"}} {
		lwg.Add(1)
		go func(cfg, want string) {
			defer lwg.Done()
			r := c.TLC(tlc.Options{SpecDir: c.SpecDir("TxAuth"), Module: "TxAuth", Config: cfg, Workers: 1, Timeout: c.MinutesT(3, 10)})
			lmu.Lock()
			defer lmu.Unlock()
			if r == nil {
				return
			}
			leads[cfg] = r.Violated
			if !strings.Contains(r.Violated, want) { // (an action property is reported as a whole line)
				c.Infra("TxAuth %s: expected TLC to report %s violated for the modelled deviation, got %q (%s)", cfg, want, r.Violated, r.Describe())
			}
		}(ac[0], ac[1])
	}

	// ---- library level: ValidateSignatureValues over value classes ----------------------
	libRes := replayLib(c, g)

	// ---- account half: replay -----------------------------------------------------------
	kinds := []string{"T", "K", "U", "C", "M"}
	type plan struct {
		g            *mbt.Graph
		tours, walks [][]int
	}
	plans := map[string]*plan{}
	tourSizes := map[string]int{}
	for _, kn := range kinds {
		trng := rand.New(rand.NewSource(c.Seed))
		sg := objectLevel(g, kn)
		plans[kn] = &plan{g: sg, tours: sg.Tour(0, trng), walks: sg.Walks(c.Pick(100, 1500), 9, trng)}
		tourSizes[kn] = len(plans[kn].tours)
	}
	c.SetExtra("tour_behaviours_per_kind", tourSizes)
	c.SetExtra("random_walks_per_kind", c.Pick(100, 1500))
	tours := plans["T"].tours
	var jobs []*acctJob
	for _, kn := range kinds {
		env := newEnv(rand.New(rand.NewSource(1)))
		var n int
		if kn == "U" {
			n = len((&kindU{}).Fields())
		} else {
			k, _ := makeKind(kn, env, 0)
			n = len(k.Fields())
		}
		for i := 0; i < n; i++ {
			jobs = append(jobs, &acctJob{kind: kn, inst: i, of: n, extra: c.Pick(150, 2000), seed: c.Seed*7919 + int64(len(jobs)),
				half: !c.Thorough() && (kn == "K" || kn == "C")})
		}
	}
	tReplay := time.Now()
	var wg sync.WaitGroup
	sem := make(chan struct{}, 12)
	for _, j := range jobs {
		wg.Add(1)
		go func(j *acctJob) {
			defer wg.Done()
			sem <- struct{}{}
			defer func() { <-sem }()
			pl := plans[j.kind]
			runAcctJob(j, pl.g, nFields, pl.tours, pl.walks)
		}(j)
	}
	wg.Wait()
	c.SetExtra("account_replay_wall_s", time.Since(tReplay).Seconds())
	perKind := map[string]map[string]int{}
	var all jobStats // the shortest witness per key over all jobs
	for _, j := range jobs {
		if j.err != "" {
			c.Infra("account job %s/%d: %s", j.kind, j.inst, j.err)
		}
		s := &j.stats
		o.Traces += s.Behaviours
		o.Evaluations += s.Steps
		o.Distinct += s.Nontrivial
		pk := perKind[j.kind]
		if pk == nil {
			pk = map[string]int{}
			perKind[j.kind] = pk
		}
		pk["job_milliseconds"] += int(j.secs * 1000)
		pk["behaviours"] += s.Behaviours
		pk["steps"] += s.Steps
		pk["fresh_object_sender_comparisons"] += s.TwinChecks
		pk["memoising_object_sender_comparisons"] += s.ObjChecks
		pk["checkbasic_accepted"] += s.CheckBasicAccepted
		pk["checkbasic_rejected"] += s.CheckBasicRejected
		pk["behaviours_cut_at_inapplicable_action"] += s.Skipped
		pk["rejected_vs_other_address_shape_differences"] += s.ShapeDiffs
		if s.Sample != nil && j.inst == 0 {
			c.Sample(s.Sample)
		}
		for _, f := range s.Findings {
			all.add(f)
		}
	}
	for _, f := range all.Findings {
		c.Violate(f.Key, f.Desc, f.Record)
	}
	c.SetExtra("account_half_per_kind", perKind)
	for kn, pk := range perKind {
		if pk["checkbasic_accepted"] == 0 || pk["fresh_object_sender_comparisons"] == 0 {
			c.Infra("vacuous binding: kind %s never had a transaction accepted by CheckBasic / never compared a sender (%v)", kn, pk)
		}
	}
	c.SetExtra("library_value_class_checks", libRes)

	// ---- negative control of the binding: a corrupted expectation must be noticed ------
	if !bindingControl(c, plans["T"].g, nFields, tours) {
		c.Infra("vacuous binding: the replay accepted a behaviour whose expected sender was corrupted")
	}

	cwg.Wait()
	lwg.Wait()
	wwg.Wait()
	c.SetExtra("as_coded_models_violate", leads)
	c.SetExtra("bounds", map[string]interface{}{"config": cfgName, "abstract_fields": nFields, "kinds": kinds, "second_chain_parameters": fmtBigs(otherParams())})
	keys := []string{}
	for _, v := range o.Violations {
		keys = append(keys, v.Key)
	}
	sort.Strings(keys)
	c.SetExtra("violation_keys", keys)
}

func fmtBigs(bs []*big.Int) (out []string) {
	for _, b := range bs {
		out = append(out, b.String())
	}
	return
}

// bindingControl replays the first tours on the plain Transaction kind with every expected
// sender class of the model swapped (k1 <-> k2): the replay must report mismatches.
func bindingControl(c *core.Ctx, g *mbt.Graph, nFields int, tours [][]int) bool {
	cg := *g
	cg.States = make([]json.RawMessage, len(g.States))
	swap := func(raw json.RawMessage) json.RawMessage {
		var m map[string]interface{}
		if json.Unmarshal(raw, &m) != nil {
			return raw
		}
		if e, ok := m["exp"].(map[string]interface{}); ok {
			for p, w := range e {
				switch w {
				case "k1":
					e[p] = "k2"
				case "k2":
					e[p] = "k1"
				}
			}
		}
		b, _ := json.Marshal(m)
		return b
	}
	for i, s := range g.States {
		cg.States[i] = swap(s)
	}
	cg.Edges = make([]mbt.Edge, len(g.Edges))
	for i, e := range g.Edges {
		e.ToSt = cg.States[e.To]
		cg.Edges[i] = e
	}
	j := &acctJob{kind: "T", inst: 0, of: 1, seed: c.Seed}
	n := len(tours)
	if n > 3 {
		n = 3
	}
	runAcctJob(j, &cg, nFields, tours[:n], nil)
	c.SetExtra("negative_control", map[string]interface{}{"behaviours": j.stats.Behaviours, "mismatches_reported": len(j.stats.Findings)})
	return len(j.stats.Findings) > 0
}

// ---- library level ---------------------------------------------------------------------

func replayLib(c *core.Ctx, g *mbt.Graph) map[string]int {
	out := map[string]int{}
	rVals := map[string][]*big.Int{
		"zero": {new(big.Int)},
		"ok":   {big.NewInt(1), new(big.Int).Sub(secpN, big.NewInt(1)), secpHalfN},
		"geN":  {secpN, new(big.Int).Add(secpN, big.NewInt(1)), max256, two256},
	}
	sVals := map[string][]*big.Int{
		"zero": {new(big.Int)},
		"ok":   {big.NewInt(1), secpHalfN},
		"high": {new(big.Int).Add(secpHalfN, big.NewInt(1)), new(big.Int).Sub(secpN, big.NewInt(1))},
		"geN":  {secpN, new(big.Int).Add(secpN, big.NewInt(1)), max256, two256},
	}
	vVals := map[string][]byte{"0": {0}, "1": {1}, "ge2": {2, 3, 4, 27, 28, 29, 128, 255}}
	for _, e := range g.Edges {
		var a mAct
		json.Unmarshal(e.Act, &a)
		if a.Op != "libvalidate" {
			continue
		}
		want, _ := a.Res.(bool)
		for _, v := range vVals[a.V] {
			for _, r := range rVals[a.R] {
				for _, s := range sVals[a.S] {
					out["evaluations"]++
					got := crypto.ValidateSignatureValues(v, r, s, a.Hs)
					if got != want {
						c.Violate(fmt.Sprintf("validate-signature-values/v=%s,r=%s,s=%s,homestead=%v", a.V, a.R, a.S, a.Hs),
							fmt.Sprintf("crypto.ValidateSignatureValues(v=%d, r=%x, s=%x, homestead=%v) = %v, the specification says %v", v, r, s, a.Hs, got, want),
							map[string]interface{}{"action": mbt.Compact(e.Act), "v": v, "r": r.Text(16), "s": s.Text(16)})
					}
				}
			}
		}
		out["classes"]++
	}
	c.AddEvals(out["evaluations"])
	// recovery itself: a recovery id outside {0,1,2,3} must be an error, never a panic
	k, _ := newKeys(rand.New(rand.NewSource(c.Seed)))
	h := crypto.Keccak256([]byte("c08"))
	sig, _ := crypto.Sign(h, k)
	for _, v := range []byte{4, 5, 27, 28, 255} {
		bad := append([]byte{}, sig...)
		bad[64] = v
		func() {
			defer func() {
				if x := recover(); x != nil {
					c.Violate("ecrecover-panics", fmt.Sprintf("crypto.Ecrecover panics on recovery id %d: %v", v, x), map[string]interface{}{"v": v})
				}
			}()
			if pub, err := crypto.Ecrecover(h, bad); err == nil {
				c.Violate("ecrecover-accepts-recid", fmt.Sprintf("crypto.Ecrecover accepts recovery id %d", v), map[string]interface{}{"v": v, "pub": fmt.Sprintf("%x", pub)})
			}
			out["ecrecover_bad_recid"]++
		}()
	}
	return out
}

// replayRecord re-executes the behaviour of a recorded violation (check C08 --replay <file>):
// same kind, same field map, same second chain parameter, same alternatives; fresh keys.
func replayRecord(c *core.Ctx) {
	b, err := ioutil.ReadFile(c.Replay)
	if err != nil {
		c.Infra("replay: %v", err)
		return
	}
	var rf struct {
		Key    string `json:"key"`
		Tier   string `json:"tier"`
		Record struct {
			Window        bool           `json:"window"`
			Family        string         `json:"family"`
			GatePosition  string         `json:"gate_position"`
			Kind          string         `json:"kind"`
			Behaviour     []string       `json:"behaviour"`
			FieldValues   map[string]int `json:"field_values"`
			Instantiation struct {
				Fields []string `json:"abstract_fields"`
				P1     string   `json:"p1"`
			} `json:"instantiation"`
		} `json:"record"`
	}
	if err := json.Unmarshal(b, &rf); err != nil {
		c.Infra("replay: %v", err)
		return
	}
	if rf.Record.Kind == "" && !rf.Record.Window { // confidential half or library level: the whole half is run again
		if strings.HasPrefix(rf.Key, "validate-signature-values") || strings.HasPrefix(rf.Key, "ecrecover") {
			res := c.TLC(tlc.Options{SpecDir: c.SpecDir("TxAuth"), Module: "TxAuth", Config: "TxAuth.cfg", Workers: 1, Timeout: c.MinutesT(4, 20)})
			if res != nil {
				if g, err := mbt.Load(res.Lines); err == nil {
					replayLib(c, g)
				}
			}
			return
		}
		runConf(c)
		return
	}
	cfgName, nFields := "TxAuth.cfg", 2
	if len(rf.Record.Instantiation.Fields) == 3 {
		cfgName, nFields = "TxAuthBig.cfg", 3
	}
	res := c.TLC(tlc.Options{SpecDir: c.SpecDir("TxAuth"), Module: "TxAuth", Config: cfgName, Workers: 1, Timeout: c.MinutesT(4, 20)})
	if res == nil {
		return
	}
	if rf.Record.Window {
		replayWindow(c, res.Lines, rf.Record.Family, rf.Record.GatePosition, rf.Record.Instantiation.Fields, rf.Record.Behaviour)
		return
	}
	g, err := mbt.Load(res.Lines)
	if err != nil {
		c.Infra("replay: %v", err)
		return
	}
	letter := map[string]string{"Transaction": "T", "TokenTransaction": "K", "UTXOTransaction": "U", "ContractUpgradeTx": "C", "MultiSignAccountTx": "M"}[rf.Record.Kind]
	env := newEnv(rand.New(rand.NewSource(c.Seed)))
	var k txKind
	if letter == "U" {
		k = &kindU{}
	} else if k, err = makeKind(letter, env, 0); err != nil {
		c.Infra("replay: %v", err)
		return
	}
	idx := map[string]int{}
	for i, f := range k.Fields() {
		idx[f] = i
	}
	j := &acctJob{kind: letter, of: 1, seed: c.Seed, forceAlt: map[int]int{}}
	for _, f := range rf.Record.Instantiation.Fields {
		j.forceFmap = append(j.forceFmap, idx[f])
	}
	for f, a := range rf.Record.FieldValues {
		j.forceAlt[idx[f]] = a
	}
	j.forceP1, _ = new(big.Int).SetString(rf.Record.Instantiation.P1, 10)
	if j.forceP1 == nil || len(j.forceFmap) != nFields {
		c.Infra("replay: the record has no usable instantiation")
		return
	}
	// find the path: the action labels determine the edges from the initial state
	var seq []int
	cur := 0
	for _, as := range rf.Record.Behaviour {
		if strings.Contains(as, "final-query") {
			break
		}
		found := -1
		for _, ei := range g.Out[cur] {
			if mbt.Compact(g.Edges[ei].Act) == as {
				found = ei
				break
			}
		}
		if found < 0 {
			c.Infra("replay: action %s is not enabled in the model state reached", as)
			return
		}
		seq = append(seq, found)
		cur = g.Edges[found].To
	}
	runAcctJob(j, g, nFields, [][]int{seq}, nil)
	if j.err != "" {
		c.Infra("replay: %s", j.err)
	}
	c.Out().Traces, c.Out().Evaluations = j.stats.Behaviours, j.stats.Steps
	for _, f := range j.stats.Findings {
		c.Violate(f.Key, f.Desc, f.Record)
	}
}
