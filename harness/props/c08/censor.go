package c08

import (
	"fmt"
	"math/big"
	"sync"

	"github.com/lianxiangcloud/linkchain/libs/common"
	lkt "github.com/lianxiangcloud/linkchain/libs/cryptonote/types"
	"github.com/lianxiangcloud/linkchain/types"
)

// stubCensor is the environment CheckBasic needs: no contracts, a fixed multi-signer
// table, a fixed validator set and an in-memory confidential output store.
type stubCensor struct {
	mu      sync.Mutex
	signers *types.SignersInfo
	vals    []*types.Validator
	outs    map[common.Address][]*types.UTXOOutputData // per token, index = global sequence
}

type stubState struct{}

func (stubState) Exist(common.Address) bool                               { return true }
func (stubState) GetNonce(common.Address) uint64                          { return 0 }
func (stubState) SetNonce(common.Address, uint64)                         {}
func (stubState) GetBalance(common.Address) *big.Int                      { return new(big.Int) }
func (stubState) SubBalance(common.Address, *big.Int)                     {}
func (stubState) GetTokenBalance(common.Address, common.Address) *big.Int { return new(big.Int) }
func (stubState) SubTokenBalance(common.Address, common.Address, *big.Int) {
}
func (stubState) IsContract(common.Address) bool { return false }

type stubTxMgr struct{ c *stubCensor }

func (m stubTxMgr) GetMultiSignersInfo(types.SupportType) *types.SignersInfo { return m.c.signers }

type stubChain struct{}

func (stubChain) IsTxSpendTimeUnlocked(uint64) bool { return true }

type stubPool struct{}

func (stubPool) Reap(int) types.Txs                  { return nil }
func (stubPool) Update(uint64, types.Txs) error      { return nil }
func (stubPool) GetTxFromCache(common.Hash) types.Tx { return nil }
func (stubPool) Lock()                               {}
func (stubPool) Unlock()                             {}
func (stubPool) KeyImageExists(lkt.Key) bool         { return false }
func (stubPool) KeyImagePush(lkt.Key) bool           { return true }
func (stubPool) KeyImageRemoveKeys([]*lkt.Key)       {}
func (stubPool) KeyImageReset()                      {}

func (c *stubCensor) TxMgr() types.TxMgr  { return stubTxMgr{c} }
func (c *stubCensor) State() types.State  { return stubState{} }
func (c *stubCensor) Block() *types.Block { return nil }
func (c *stubCensor) GetLastChangedVals() (uint64, []*types.Validator) {
	return 1, c.vals
}
func (c *stubCensor) LockState()                   { c.mu.Lock() }
func (c *stubCensor) UnlockState()                 { c.mu.Unlock() }
func (c *stubCensor) IsWasmContract([]byte) bool   { return true }
func (c *stubCensor) BlockChain() types.BlockChain { return stubChain{} }
func (c *stubCensor) UTXOStore() types.UTXOStore   { return c }
func (c *stubCensor) Mempool() types.Mempool       { return stubPool{} }
func (c *stubCensor) GetUTXOGas() uint64           { return 500000 }

// types.UTXOStore
func (c *stubCensor) GetUtxoOutput(token common.Address, seq uint64) (*types.UTXOOutputData, error) {
	o := c.outs[token]
	if seq >= uint64(len(o)) {
		return nil, fmt.Errorf("no output %d", seq)
	}
	return o[seq], nil
}
func (c *stubCensor) GetUtxoOutputs(seqs []uint64, token common.Address) ([]*types.UTXOOutputData, error) {
	var r []*types.UTXOOutputData
	for _, s := range seqs {
		o, err := c.GetUtxoOutput(token, s)
		if err != nil {
			return nil, err
		}
		r = append(r, o)
	}
	return r, nil
}
func (c *stubCensor) HaveTxKeyimgAsSpent(*lkt.Key) bool { return false }

var _ types.TxCensor = (*stubCensor)(nil)
