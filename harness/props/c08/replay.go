package c08

// Replay of TxAuth behaviours on real transaction objects.

import (
	"bytes"
	"crypto/ecdsa"
	"encoding/json"
	"fmt"
	"math/big"
	"math/rand"
	"strings"

	"github.com/lianxiangcloud/linkchain/libs/common"
	"github.com/lianxiangcloud/linkchain/libs/crypto"
	"github.com/lianxiangcloud/linkchain/types"

	"verifh/mbt"
)

// ---- the model's JSON ------------------------------------------------------

type mSig struct {
	Key  string `json:"key"`
	Over []int  `json:"over"`
	Hp   string `json:"hp"`
	Enc  string `json:"enc"`
	Vpar string `json:"vpar"`
	Rec  string `json:"rec"`
	R    string `json:"r"`
	S    string `json:"s"`
}

func (s mSig) mustReject() bool { return s.R != "ok" || s.S != "ok" || s.Rec == "out" }

type mState struct {
	Alt   []int `json:"alt"`
	Sig   mSig  `json:"sig"`
	Vp    string
	Cache struct{ P, Who string }
	Pool  struct {
		Alt []int
		Sig mSig
		Who string
		Chk bool // BasicChecked
	}
	N   int
	Exp map[string]string `json:"exp"`
}

type mAct struct {
	Op     string      `json:"op"`
	F      int         `json:"f"`
	C      string      `json:"c"`
	K      string      `json:"k"`
	P      string      `json:"p"`
	Res    interface{} `json:"res"`
	Hit    bool        `json:"hit"`
	M      string      `json:"m"`      // blockverify: what a cache hit means for the kind ("rederive" | "trust" | "any" on a miss)
	Accept bool        `json:"accept"` // blockverify: the block is accepted
	Ok     bool        `json:"ok"`     // admitverdict: the basic check passed
	V      string      `json:"v"`
	R      string      `json:"r"`
	S      string      `json:"s"`
	Hs     bool        `json:"hs"`
}

func (a mAct) resString() string { s, _ := a.Res.(string); return s }

var (
	secpN, _    = new(big.Int).SetString("fffffffffffffffffffffffffffffffebaaedce6af48a03bbfd25e8cd0364141", 16)
	secpHalfN   = new(big.Int).Rsh(secpN, 1)
	two256      = new(big.Int).Lsh(big.NewInt(1), 256)
	max256      = new(big.Int).Sub(two256, big.NewInt(1))
	ed25519L, _ = new(big.Int).SetString("1000000000000000000000000000000014def9dea2f79cd65812631a5cf5d3ed", 16)
)

// ---- one behaviour on one kind ----------------------------------------------

type finding struct {
	Key    string
	Desc   string
	Record map[string]interface{}
}

type trueSig struct {
	R, S  *big.Int
	Recid int64
	Addr  []byte // MultiSignAccountTx: validator address
	Raw   []byte // MultiSignAccountTx: the 64 signature bytes
}

type runner struct {
	k        txKind
	env      *kindEnv
	rng      *rand.Rand
	fmap     []int // abstract field (1-based) -> concrete field index
	p        map[string]*big.Int
	inst     map[string]interface{}
	stats    *jobStats
	forceAlt map[int]int // replay of a recorded violation: the alternative each concrete field takes
	altOf    map[int]int // the alternative chosen for each concrete field in the current behaviour

	val         []int
	signedVal   []int
	ts          trueSig
	sg          vrs
	obj         interface{}
	wire        []byte
	pool        map[common.Hash]*poolEntry
	vp          string
	variant     int
	lastInPlace string
	hashStale   bool // the object's Hash() is known to be stale (reported)
	resigned    bool // the object was signed in place since it was decoded
	paramMoved  bool // the verifying parameter changed since the object was decoded
	trace       []string
}

// poolEntry is the harness's stand-in for mempoolCachedTx in the object-level replay (the real
// mempool cache and the real block verification are driven by window.go)
type poolEntry struct {
	obj interface{}
	chk bool
}

// hitMode: what a mempool-cache hit means for the kind in block verification (TxAuth!BlockVerify)
func hitMode(k txKind) string {
	if _, isM := k.(*kindM); isM {
		return "trust"
	}
	return "rederive"
}

// sameWire: are the two objects the same transaction on the wire? (Two abstract signatures may be the
// same bytes - e.g. s+L stands for both "high" and ">= N" of an ed25519 signature - so the question
// "does Hash() separate different transactions" is asked of the bytes, not of the model states.)
func (r *runner) sameWire(a, b interface{}) bool {
	wa, ea := r.k.Encode(a)
	wb, eb := r.k.Encode(b)
	return ea == nil && eb == nil && bytes.Equal(wa, wb)
}

type jobStats struct {
	Behaviours, Steps, Nontrivial int
	TwinChecks, ObjChecks         int
	CheckBasicAccepted            int
	CheckBasicRejected            int
	ShapeDiffs                    int
	Skipped                       int
	Findings                      []finding
	Sample                        interface{}
}

func traceLen(f finding) int {
	if b, ok := f.Record["behaviour"].([]string); ok {
		return len(b)
	}
	return 1 << 30
}

// add keeps one finding per key: the one with the shortest behaviour
func (s *jobStats) add(f finding) {
	for i, o := range s.Findings {
		if o.Key == f.Key {
			if traceLen(f) < traceLen(o) {
				s.Findings[i] = f
			}
			return
		}
	}
	s.Findings = append(s.Findings, f)
}

func (r *runner) P(name string) *big.Int { return r.p[name] }

func (r *runner) record(extra map[string]interface{}) map[string]interface{} {
	rec := map[string]interface{}{"kind": r.k.Name(), "behaviour": append([]string{}, r.trace...), "instantiation": r.inst,
		"field_values": r.valString(), "signature_on_wire": r.sg.String()}
	for k, v := range extra {
		rec[k] = v
	}
	return rec
}

func (r *runner) valString() map[string]int {
	m := map[string]int{}
	for i, v := range r.val {
		if v != 0 {
			m[r.k.Fields()[i]] = v
		}
	}
	return m
}

// concretize turns the abstract signature of the model state into the three numbers on the wire.
func (r *runner) concretize(s mSig) vrs {
	if _, isM := r.k.(*kindM); isM {
		return r.concretizeM(s)
	}
	R, S := new(big.Int).Set(r.ts.R), new(big.Int).Set(r.ts.S)
	recid := r.ts.Recid
	switch s.R {
	case "zero":
		R = new(big.Int)
	case "geN":
		switch r.rng.Intn(3) {
		case 0:
			R = new(big.Int).Set(secpN)
		case 1:
			if x := new(big.Int).Add(R, secpN); x.Cmp(two256) < 0 {
				R = x // the same residue class
			} else {
				R = new(big.Int).Add(secpN, big.NewInt(1))
			}
		default:
			R = new(big.Int).Set(max256)
		}
	}
	switch s.S {
	case "zero":
		S = new(big.Int)
	case "geN":
		switch r.rng.Intn(3) {
		case 0:
			S = new(big.Int).Set(secpN)
		case 1:
			if x := new(big.Int).Add(S, secpN); x.Cmp(two256) < 0 {
				S = x
			} else {
				S = new(big.Int).Add(secpN, big.NewInt(1))
			}
		default:
			S = new(big.Int).Set(max256)
		}
	case "high":
		S = new(big.Int).Sub(secpN, S) // (r, N-s, v^1) verifies for the same key
		recid ^= 1
	}
	if s.Rec == "flip" {
		recid ^= 1
	}
	var V *big.Int
	if s.Enc == "legacy" {
		V = big.NewInt(27 + recid)
	} else {
		V = new(big.Int).Lsh(r.P(s.Vpar), 1)
		V.Add(V, big.NewInt(35+recid))
	}
	if s.Rec == "out" {
		V = r.outOfRangeV(V)
	}
	return vrs{V: V, R: R, S: S}
}

func (r *runner) outOfRangeV(base *big.Int) *big.Int {
	cands := []*big.Int{
		new(big.Int).Add(base, big.NewInt(4)), new(big.Int).Sub(base, big.NewInt(4)), new(big.Int).Add(base, big.NewInt(6)),
		big.NewInt(0), big.NewInt(1), big.NewInt(2), big.NewInt(26), big.NewInt(29), big.NewInt(34), big.NewInt(35), big.NewInt(36),
		new(big.Int).Add(new(big.Int).Lsh(big.NewInt(1), 64), base), new(big.Int).Add(new(big.Int).Lsh(big.NewInt(1), 32), base),
		new(big.Int).Set(max256),
	}
	off := r.rng.Intn(len(cands))
	for i := range cands {
		v := cands[(i+off)%len(cands)]
		if v.Sign() < 0 {
			continue
		}
		if v.Cmp(big.NewInt(27)) == 0 || v.Cmp(big.NewInt(28)) == 0 {
			continue
		}
		bad := false
		if v.Cmp(big.NewInt(35)) >= 0 {
			d := new(big.Int).Sub(v, big.NewInt(35))
			d.Rsh(d, 1)
			for _, p := range r.p {
				if d.Cmp(p) == 0 {
					bad = true
				}
			}
		}
		if !bad {
			return v
		}
	}
	return big.NewInt(0)
}

func (r *runner) concretizeM(s mSig) vrs {
	raw := append([]byte{}, r.ts.Raw...)
	if len(raw) < 64 {
		return vrs{Addr: r.ts.Addr, Raw: raw}.clone()
	}
	sig := raw[len(raw)-64:] // R || S behind the type prefix
	switch s.R {
	case "zero":
		for i := 0; i < 32; i++ {
			sig[i] = 0
		}
	case "geN":
		for i := 0; i < 32; i++ {
			sig[i] = 0xff
		}
	}
	le := func(b []byte) *big.Int { // little-endian scalar
		x := make([]byte, len(b))
		for i := range b {
			x[len(b)-1-i] = b[i]
		}
		return new(big.Int).SetBytes(x)
	}
	putLE := func(dst []byte, v *big.Int) {
		b := v.Bytes()
		for i := range dst {
			dst[i] = 0
		}
		for i := 0; i < len(b) && i < len(dst); i++ {
			dst[i] = b[len(b)-1-i]
		}
	}
	switch s.S {
	case "zero":
		for i := 32; i < 64; i++ {
			sig[i] = 0
		}
	case "geN", "high": // s + L: the same residue, a second encoding of the same signature
		putLE(sig[32:], new(big.Int).Add(le(sig[32:]), ed25519L))
	}
	if s.Rec == "flip" {
		sig[r.rng.Intn(64)] ^= 1 << uint(r.rng.Intn(8))
	}
	return vrs{Addr: r.ts.Addr, Raw: raw}.clone()
}

func matchClass(exp, got string, sg mSig) (ok bool, shape bool) {
	switch exp {
	case "k1", "k2":
		return got == exp, false
	case "err":
		if sg.mustReject() {
			return got == "err", false
		}
		return got == "err" || got == "other", got != "err"
	default: // "other": a different sender or a rejection
		return got == "other" || got == "err", got != "other"
	}
}

func (r *runner) decodeWire() error {
	w, err := r.k.Wire(r.val, r.sg)
	if err != nil {
		return fmt.Errorf("encode: %v", err)
	}
	o, err := r.k.Decode(w)
	if err != nil {
		return fmt.Errorf("decode: %v", err)
	}
	r.obj, r.wire = o, w
	r.resigned, r.paramMoved, r.hashStale = false, false, false
	return nil
}

func (r *runner) fresh(o interface{}) (interface{}, error) {
	w, err := r.k.Encode(o)
	if err != nil {
		return nil, err
	}
	return r.k.Decode(w)
}

func (r *runner) senderClass(o interface{}, p string) string {
	a, err := r.k.Sender(o, r.P(p), r.variant)
	r.variant++
	return r.env.classOf(a, err)
}

// acceptM: MultiSignAccountTx has no sender recovery; the observable is acceptance
func (r *runner) acceptClass(o interface{}) string {
	t := o.(*types.MultiSignAccountTx)
	if err := t.VerifySign(types.NewValidatorSet(r.env.cen.vals)); err != nil {
		return "err"
	}
	return "k1"
}

func (r *runner) start() error {
	r.val = make([]int, len(r.k.Fields()))
	r.altOf = map[int]int{}
	r.pool = map[common.Hash]*poolEntry{}
	r.vp = "p0"
	r.trace = nil
	r.lastInPlace = ""
	r.resigned, r.paramMoved, r.hashStale = false, false, false
	// the owner's transaction as it travels the network: built by the kind's constructor, signed with the kind's Sign
	r.sg = vrs{}.clone()
	if err := r.decodeWire(); err != nil {
		return err
	}
	return r.signInPlace("k1", "p0")
}

func (r *runner) signInPlace(k, p string) error {
	if km, ok := r.k.(*kindM); ok {
		o, err := km.signPV(r.obj, r.env.pvs[k])
		if err != nil {
			return err
		}
		r.obj = o
		t := o.(*types.MultiSignAccountTx)
		s := t.Signatures[len(t.Signatures)-1]
		r.ts = trueSig{Addr: append([]byte{}, s.Addr...), Raw: append([]byte{}, s.Signature...)}
		r.sg = r.k.SigOf(o)
		r.signedVal = append([]int{}, r.val...)
		r.lastInPlace = "MultiSignAccountTx.Sign"
		return nil
	}
	o, how, err := r.k.Sign(r.obj, r.P(p), r.env.keys[k], r.variant)
	r.variant++
	if err != nil {
		return err
	}
	r.obj = o
	r.sg = r.k.SigOf(o)
	rec := new(big.Int).Sub(r.sg.V, big.NewInt(35))
	rec.Sub(rec, new(big.Int).Lsh(r.P(p), 1))
	if !rec.IsInt64() || rec.Int64() < 0 || rec.Int64() > 1 {
		return fmt.Errorf("%s produced V=%s for parameter %s", how, r.sg.V, r.P(p))
	}
	r.ts = trueSig{R: r.sg.R, S: r.sg.S, Recid: rec.Int64()}
	r.signedVal = append([]int{}, r.val...)
	r.lastInPlace = how
	return nil
}

func (r *runner) changedSinceSigning() []string {
	var fs []string
	for i := range r.val {
		if r.val[i] != r.signedVal[i] {
			fs = append(fs, r.k.Fields()[i])
		}
	}
	return fs
}

// classify a mismatch seen on a freshly decoded object (content level)
func (r *runner) contentFinding(p, exp, got string, st *mState) finding {
	kind := r.k.Name()
	rec := r.record(map[string]interface{}{"verifier_param": r.P(p).String(), "model_expects": exp, "real_code": got, "model_signature": st.Sig})
	isKey := got == "k1" || got == "k2"
	switch {
	case isKey && st.Sig.Enc == "legacy" && !st.Sig.mustReject() && len(r.changedSinceSigning()) == 0:
		under := map[string]string{}
		if tw, err := r.fresh(r.obj); err == nil && r.k.ParamQuery() {
			for _, q := range []string{"p0", "p1"} {
				under[r.P(q).String()] = r.senderClass(tw, q)
			}
		} else {
			under[r.P(p).String()] = got
		}
		rec["real_code_sender_under_each_chain_parameter"] = under
		return finding{"legacy-v-unbound-chain-param", fmt.Sprintf("%s: a signature with V in {27,28} made over the parameter-less (Homestead) hash is accepted as sender %s under every chain parameter asked (%v); the signer hands such signatures to STDHomesteadSigner, whose hash omits the parameter", kind, got, under), rec}
	case isKey && st.Sig.mustReject():
		cls := "r=" + st.Sig.R + ",s=" + st.Sig.S + ",v=" + st.Sig.Rec
		return finding{"malformed-sig-accepted/" + kind, fmt.Sprintf("%s: signature values of class %s recover sender %s instead of being rejected", kind, cls, got), rec}
	case isKey && len(r.changedSinceSigning()) > 0:
		fs := strings.Join(r.changedSinceSigning(), "+")
		return finding{"field-unsigned/" + kind + "/" + fs, fmt.Sprintf("%s: after changing %s the old signature still yields sender %s", kind, fs, got), rec}
	case exp != "k1" && exp != "k2" && st.Sig.mustReject():
		cls := "r=" + st.Sig.R + ",s=" + st.Sig.S + ",v=" + st.Sig.Rec
		return finding{"malformed-sig-not-rejected/" + kind, fmt.Sprintf("%s: signature values of class %s are not rejected (the code recovers an address: %q)", kind, cls, got), rec}
	case isKey:
		return finding{"chain-param-unbound/" + kind, fmt.Sprintf("%s: sender %s is recovered under chain parameter %s although the signature was not made for it", kind, got, r.P(p)), rec}
	default:
		return finding{"signer-not-recovered/" + kind, fmt.Sprintf("%s: the holder of %s signed exactly this content for parameter %s, the code answers %q", kind, exp, r.P(p), got), rec}
	}
}

// observeFresh compares a freshly decoded twin of the object with the model state.
// It returns false when the behaviour cannot be continued.
func (r *runner) observeFresh(st *mState) bool {
	twin, err := r.fresh(r.obj)
	if err != nil {
		r.stats.add(finding{"reencode-failed/" + r.k.Name(), "the object does not survive encode/decode: " + err.Error(), r.record(nil)})
		return false
	}
	if h1, h2 := r.k.Hash(r.obj), r.k.Hash(twin); h1 != h2 {
		key := "stale-hash/" + r.k.Name()
		if r.resigned {
			key = "stale-hash-after-resign/" + r.k.Name()
		}
		r.stats.add(finding{key, fmt.Sprintf("%s: Hash() of the object (%x) differs from the hash of its own encoding decoded afresh (%x); last in-place operation: %s", r.k.Name(), h1[:6], h2[:6], r.lastInPlace),
			r.record(nil)})
		if !r.resigned {
			return false
		}
		r.hashStale = true // keep the object (its sender memo is still under test); see blockverify
	}
	_, isM := r.k.(*kindM)
	params := []string{"p0", "p1"}
	if r.rng.Intn(2) == 1 {
		params = []string{"p1", "p0"}
	}
	for _, p := range params {
		if p == "p1" && !r.k.ParamQuery() {
			continue
		}
		var got string
		if isM {
			got = r.acceptClass(twin)
		} else {
			got = r.senderClass(twin, p)
		}
		exp := st.Exp[p]
		if isM && exp != "k1" { // only the validator may authorise; every other class means "refused"
			exp = "err"
			if got != "err" {
				r.stats.add(finding{"multisign-accepted/" + r.k.Name(), "MultiSignAccountTx.VerifySign accepts although the model expects a refusal", r.record(map[string]interface{}{"model_signature": st.Sig})})
				return false
			}
			continue
		}
		r.stats.TwinChecks++
		ok, shape := matchClass(exp, got, st.Sig)
		if shape {
			r.stats.ShapeDiffs++
		}
		if !ok {
			f := r.contentFinding(p, exp, got, st)
			r.stats.add(f)
			if f.Key != "legacy-v-unbound-chain-param" {
				return false
			}
		}
	}
	// acceptance by CheckBasic (this chain's signer) of the same decoded object, as the mempool does
	cb := twin
	var cerr error
	func() {
		defer func() {
			if x := recover(); x != nil {
				cerr = fmt.Errorf("panic: %v", x)
			}
		}()
		cerr = r.k.CheckBasic(cb, r.env.cen)
	}()
	who := st.Exp["p0"]
	if cerr == nil {
		r.stats.CheckBasicAccepted++
		legacyKnown := st.Sig.Enc == "legacy" && !st.Sig.mustReject() && len(r.changedSinceSigning()) == 0
		if !r.k.MayAccept(r.val, who, st.Sig, r.env) && !legacyKnown {
			r.stats.add(finding{"checkbasic-accepts/" + r.k.Name(), fmt.Sprintf("%s: CheckBasic accepts a transaction that must be refused (sender class %q, signature class r=%s s=%s v=%s)", r.k.Name(), who, st.Sig.R, st.Sig.S, st.Sig.Rec),
				r.record(map[string]interface{}{"model_signature": st.Sig})})
			return false
		}
	} else {
		r.stats.CheckBasicRejected++
		clean := true
		for _, v := range r.val {
			if v != 0 {
				clean = false
			}
		}
		if clean && who == "k1" {
			r.stats.add(finding{"base-rejected/" + r.k.Name(), fmt.Sprintf("%s: CheckBasic refuses the owner's original, correctly signed transaction: %v", r.k.Name(), cerr), r.record(nil)})
			return false
		}
	}
	return true
}

// cacheFinding: the object itself answers differently from a fresh decode of its own bytes
func (r *runner) cacheFinding(exp, got, why string) finding {
	kind := r.k.Name()
	rec := r.record(map[string]interface{}{"verifier_param": r.P(r.vp).String(), "model_and_fresh_decode_answer": exp, "object_answers": got, "last_in_place_operation": r.lastInPlace})
	switch why {
	case "resign":
		return finding{"stale-sender-after-resign/" + kind, fmt.Sprintf("%s: after re-signing the same object (%s) it still reports the previously memoised sender %s; the new signature recovers to %s (model and a fresh decode of the same bytes)", kind, r.lastInPlace, got, exp), rec}
	case "pool":
		return finding{"pool-hit-wrong-sender/" + kind, fmt.Sprintf("%s: the mempool-cache path stored sender %s, recovery from the content gives %s", kind, got, exp), rec}
	case "param":
		return finding{"stale-sender-across-params/" + kind, fmt.Sprintf("%s: the sender memoised under one chain parameter (%s) is returned under another; recovery gives %s", kind, got, exp), rec}
	}
	return finding{"stale-sender-cache/" + kind, fmt.Sprintf("%s: the object reports sender %s, a fresh decode of the same bytes gives %s", kind, got, exp), rec}
}

func (r *runner) queryObj(exp string, st *mState, why string) bool {
	if _, isM := r.k.(*kindM); isM {
		return true
	}
	if r.vp == "p1" && !r.k.ParamQuery() {
		return true
	}
	got := r.senderClass(r.obj, r.vp)
	r.stats.ObjChecks++
	ok, shape := matchClass(exp, got, st.Sig)
	if shape {
		r.stats.ShapeDiffs++
	}
	if ok {
		return true
	}
	if st.Sig.Enc == "legacy" && (got == "k1" || got == "k2") && !st.Sig.mustReject() && len(r.changedSinceSigning()) == 0 {
		return true // already reported by the fresh-object comparison under its own key
	}
	r.stats.add(r.cacheFinding(exp, got, why))
	// drop the stale memo so that the rest of the behaviour is still compared
	if o, err := r.fresh(r.obj); err == nil {
		r.obj = o
		r.resigned, r.paramMoved, r.hashStale = false, false, false
	}
	return true
}

// applicable says whether the kind can execute the action at all
func (r *runner) applicable(a *mAct, to *mState) bool {
	switch r.k.(type) {
	case *kindM:
		switch a.Op {
		case "mutate", "query", "redecode", "admitput", "admitverdict":
			return true
		case "blockverify":
			return !a.Hit || a.M == "trust"
		case "sign":
			return a.P == "p0"
		case "mutsig":
			return a.C == "r0" || a.C == "s0" || a.C == "rN" || a.C == "sN" || a.C == "highS" || a.C == "flipv"
		}
		return false
	case *kindC:
		switch a.Op {
		case "admitput", "admitverdict", "blockverify":
			return false
		}
	}
	if a.Op == "blockverify" && a.Hit && a.M != "rederive" {
		return false
	}
	return a.Op != "libvalidate"
}

func (r *runner) step(a *mAct, to *mState) (cont bool, err error) {
	switch a.Op {
	case "mutate":
		cf := r.fmap[a.F-1]
		before, err := r.k.Encode(r.obj)
		if err != nil {
			return false, err
		}
		if r.val[cf] != 0 {
			r.val[cf] = 0
		} else if j, ok := r.forceAlt[cf]; ok {
			r.val[cf] = j
		} else {
			// the model knows one "other value" per field: within a behaviour a field keeps its alternative
			if _, ok := r.altOf[cf]; !ok {
				r.altOf[cf] = 1 + r.rng.Intn(r.k.NAlts(cf))
			}
			r.val[cf] = r.altOf[cf]
		}
		if err := r.decodeWire(); err != nil {
			return false, err
		}
		if sameBytes(before, r.wire) {
			return false, fmt.Errorf("alternative %d of field %s does not change the encoding", r.val[cf], r.k.Fields()[cf])
		}
	case "mutsig":
		r.sg = r.concretize(to.Sig)
		if err := r.decodeWire(); err != nil {
			return false, err
		}
	case "sign":
		if err := r.signInPlace(a.K, a.P); err != nil {
			return false, err
		}
		r.resigned = true
	case "signlegacy":
		fs, err := r.k.RefFields(r.val)
		if err != nil {
			return false, err
		}
		h := rlpHash(fs)
		sig, err := crypto.Sign(h[:], r.env.keys[a.K])
		if err != nil {
			return false, err
		}
		r.ts = trueSig{R: new(big.Int).SetBytes(sig[:32]), S: new(big.Int).SetBytes(sig[32:64]), Recid: int64(sig[64])}
		r.signedVal = append([]int{}, r.val...)
		r.sg = r.concretize(to.Sig)
		if err := r.decodeWire(); err != nil {
			return false, err
		}
	case "param":
		r.vp = a.P
		r.paramMoved = true
	case "query":
		if !r.queryObj(a.resString(), to, r.lastWhy()) {
			return false, nil
		}
	case "admitput": // mempool.AddTx up to cache.Put: whatever arrives gets in, flagged unchecked
		pooled, err := r.fresh(r.obj)
		if err != nil {
			return false, err
		}
		r.pool[r.k.Hash(pooled)] = &poolEntry{obj: pooled}
	case "admitverdict": // the basic check of the pooled object: flag set, or entry removed
		for h, ent := range r.pool {
			if ent.chk {
				continue
			}
			var got string
			if _, isM := r.k.(*kindM); isM {
				got = r.acceptClass(ent.obj)
			} else {
				got = r.senderClass(ent.obj, "p0")
			}
			ok := got == "k1" || got == "k2"
			if ok != a.Ok {
				return false, nil // content-level mismatch, reported by observeFresh when this content was the current one
			}
			if ok {
				ent.chk = true
			} else {
				delete(r.pool, h)
			}
		}
	case "blockverify":
		if r.hashStale { // already reported; a block arrives as bytes anyway
			if o, err := r.fresh(r.obj); err == nil {
				r.obj = o
				r.resigned, r.paramMoved, r.hashStale = false, false, false
			}
		}
		h := r.k.Hash(r.obj)
		ent, found := r.pool[h]
		if found && !r.sameWire(ent.obj, r.obj) {
			r.stats.add(finding{"tx-hash-not-covering/" + r.k.Name(), fmt.Sprintf("%s: Hash() equals the hash of the different transaction held by the mempool cache, so block verification would take the cache's word for it", r.k.Name()),
				r.record(map[string]interface{}{"model_signature": to.Sig, "pooled_signature": to.Pool.Sig, "pooled_alt": to.Pool.Alt})})
			return false, nil
		}
		hit := found && ent.chk // GetTxFromCache = CheckAndGet
		if hit != a.Hit {
			return false, nil // the verdict differed: content-level mismatch reported earlier
		}
		_, isM := r.k.(*kindM)
		switch {
		case isM: // a hit skips VerifySign; a miss runs it (compared by observeFresh below)
		case hit:
			from, _ := r.k.Sender(ent.obj, r.P("p0"), 1) // cacheTx.From()
			r.k.StoreFrom(r.obj, from)
			if !r.queryObj(a.resString(), to, "pool") {
				return false, nil
			}
		default:
			if !r.queryObj(a.resString(), to, r.lastWhy()) {
				return false, nil
			}
		}
	case "redecode":
		o, err := r.fresh(r.obj)
		if err != nil {
			return false, err
		}
		r.obj = o
		r.resigned, r.paramMoved, r.hashStale = false, false, false
	}
	return r.observeFresh(to), nil
}

func (r *runner) lastWhy() string {
	switch {
	case r.resigned:
		return "resign"
	case r.paramMoved:
		return "param"
	}
	return ""
}

// runBehaviour replays one edge sequence; returns the number of executed steps.
func (r *runner) runBehaviour(g *mbt.Graph, seq []int) (steps int, changed bool, err error) {
	if err := r.start(); err != nil {
		return 0, false, fmt.Errorf("start: %v", err)
	}
	var st mState
	json.Unmarshal(g.States[0], &st)
	if !r.observeFresh(&st) {
		return 0, false, nil
	}
	last := &st
	for _, ei := range seq {
		e := g.Edges[ei]
		var a mAct
		to := new(mState)
		if err := json.Unmarshal(e.Act, &a); err != nil {
			return steps, changed, err
		}
		if err := json.Unmarshal(e.ToSt, to); err != nil {
			return steps, changed, err
		}
		if a.Op == "libvalidate" {
			continue
		}
		if !r.applicable(&a, to) {
			r.stats.Skipped++
			break
		}
		r.trace = append(r.trace, mbt.Compact(e.Act))
		steps++
		if a.Op != "query" && a.Op != "redecode" && a.Op != "param" {
			changed = true
		}
		cont, err := r.step(&a, to)
		if err != nil {
			return steps, changed, fmt.Errorf("%s: %v", mbt.Compact(e.Act), err)
		}
		last = to
		if !cont {
			return steps, changed, nil
		}
	}
	// whatever the memo holds at the end must be the recovery from the current content
	r.trace = append(r.trace, `{"op":"final-query"}`)
	r.queryObj(last.Exp[r.vp], last, r.lastWhy())
	return steps, changed, nil
}

func newKeys(rng *rand.Rand) (*ecdsa.PrivateKey, common.Address) {
	for {
		b := make([]byte, 32)
		rng.Read(b)
		k, err := crypto.ToECDSA(b)
		if err == nil {
			return k, crypto.PubkeyToAddress(k.PublicKey)
		}
	}
}

func sameBytes(a, b []byte) bool { return bytes.Equal(a, b) }
